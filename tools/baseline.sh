#!/bin/bash
# Runs the repository's pinned test suite on /repo (hooks off: no build tag is ever
# passed) and compares the passing set with BASELINE.json stable_pass.
export GOFLAGS=-mod=mod GOPROXY=off GOSUMDB=off GOTOOLCHAIN=local
unset GOWORK
OUT=${1:-/tmp/verif-baseline.$$.json}
(cd /repo && go test -mod=mod -json -vet=off -count=1 -timeout 25m ./... > "$OUT" 2>/dev/null)
python3 - "$OUT" <<'PY'
import json,sys
base=json.load(open('/root/.vp/BASELINE.json'))
want=set(base['stable_pass'])
res={}
for line in open(sys.argv[1],errors='replace'):
    try: e=json.loads(line)
    except Exception: continue
    if e.get('Test') and e.get('Action') in('pass','fail','skip'):
        res[e['Package']+'::'+e['Test']]=e['Action']
missing=sorted(t for t in want if res.get(t)!='pass')
print('stable_pass=%d passed_of_those=%d'%(len(want),len(want)-len(missing)))
for t in missing[:50]: print('NOT-PASSING',t,res.get(t))
sys.exit(1 if missing else 0)
PY
rc=$?
[ -z "$1" ] && rm -f "$OUT"
exit $rc
