#!/bin/bash
# usage: seed_detect.sh [seeded-dir ...]  — applies each confirmed seeded change to /repo, runs the
# property's quick check, reverts, and prints whether the check raised an alarm.
cd /verif
[ -n "$(git -C /repo status --porcelain)" ] && { echo "/repo not clean"; exit 2; }
DIRS="$@"; [ -z "$DIRS" ] && DIRS=$(ls -d /verif/seeded/*/)
for d in $DIRS; do
  d=$(realpath ${d%/}); n=$(basename $d); id=${n%%-*}
  if ! git -C /repo apply $d/patch.diff 2>/dev/null; then git -C /repo apply --3way $d/patch.diff >/dev/null 2>&1 || { echo "$n: patch does not apply"; git -C /repo checkout -- . ; continue; }; fi
  out=$(./bin/gsa -property $id -tier quick -evidence /tmp/seed_detect_ev.json 2>&1); rc=$?
  git -C /repo reset -q --hard HEAD
  if [ $rc -eq 1 ]; then echo "$n: DETECTED (violation) $(echo "$out" | grep -c '^\S*: \[') report(s): $(echo "$out" | grep -m1 '^\S*: \[' | cut -c1-220)";
  elif [ $rc -eq 2 ]; then echo "$n: DETECTED (undecided) $(echo "$out" | grep -m1 UNDECIDED | cut -c1-200)";
  else echo "$n: MISSED"; fi
done
rm -f /tmp/seed_detect_ev.json
