#!/bin/bash
# Builds the checker from files on disk only (offline).
set -e
cd "$(dirname "$0")/.."
export GOFLAGS=-mod=mod GOPROXY=off GOSUMDB=off GOTOOLCHAIN=local
unset GOWORK
mkdir -p bin evidence replay
(cd checker && go build -o ../bin/gsa .)
# warm the export-data cache of /repo so that the first check is not charged for it
(cd /repo && go build ./... >/dev/null 2>&1 || true)
echo "gsa built: $(./bin/gsa -manifest | grep -c property_id) checks registered"
