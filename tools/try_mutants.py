#!/usr/bin/env python3
"""usage: tools/try_mutants.py <Cnn> <candidates.json> [--install [--append]]

Evaluates independently produced mutants (list of {name,file,old,new,desc,equivalent})
against the property's rules through the checker's in-memory overlay mechanism
(nothing is written to /repo). Prints one line per mutant:
   killed | MISSED | silent(control) | ALARM-ON-CONTROL | invalid (does not type-check) | skipped (fragment absent/ambiguous)
With --install the ones the rules report (and the controls they stay silent on) are written to
/verif/mutants_extra/<Cnn>.json, which the thorough tier then runs on every self-test; the ones the
rules do not report are written to <Cnn>.missed.json (documented in DESIGN.md, not run)."""
import json, os, subprocess, sys, tempfile, shutil

root = os.path.dirname(os.path.dirname(os.path.abspath(__file__)))
pid, path = sys.argv[1], sys.argv[2]
install = '--install' in sys.argv
cands = json.load(open(path))
env = dict(os.environ, GOFLAGS='-mod=mod', GOPROXY='off', GOSUMDB='off', GOTOOLCHAIN='local')
env.pop('GOWORK', None)

# The candidates are evaluated against a scratch verif root (copy of known_findings.json and
# properties.jsonl plus mutants_extra/<Cnn>.json = the candidates), so the live
# /verif/mutants_extra is never touched while a registered check may be running.
extra_dir = os.path.join(root, 'mutants_extra')
os.makedirs(extra_dir, exist_ok=True)
dst = os.path.join(extra_dir, pid + '.json')
scratch = tempfile.mkdtemp(prefix='gsa-try-')
os.makedirs(os.path.join(scratch, 'mutants_extra'))
for f in ('known_findings.json', 'properties.jsonl'):
    shutil.copy(os.path.join(root, f), os.path.join(scratch, f))
gsa = os.environ.get('GSA_BIN', os.path.join(root, 'bin', 'gsa'))

def builtin_count():
    r = subprocess.run([gsa, '-property', pid, '-nbuiltin'], capture_output=True, text=True, env=env, cwd=root)
    return int(r.stdout.strip().splitlines()[-1])

ok = []
for c in cands:
    src = os.path.join('/repo', c['file'])
    if not os.path.exists(src) or open(src, errors='replace').read().count(c['old']) != 1:
        print('%-40s skipped (fragment not present exactly once)' % c['name'])
        continue
    ok.append(c)
json.dump(ok, open(os.path.join(scratch, 'mutants_extra', pid + '.json'), 'w'), indent=1)
base = builtin_count()
keep = []
missed = []
try:
    for i, c in enumerate(ok):
        r = subprocess.run([gsa, '-property', pid, '-tier', 'quick', '-verif', scratch, '-evidence', os.path.join(scratch, 'ev.json'), '-mutant', str(base + i)],
                           capture_output=True, text=True, env=env, cwd=root)
        code = r.returncode
        eq = bool(c.get('equivalent'))
        first = ''
        for l in r.stdout.splitlines():
            if '[' + pid + '.' in l:
                first = l[:230]
                break
        if code == 12:
            msg = [l for l in r.stdout.splitlines() if 'does not load' in l or '.go:' in l]
            print('%-40s invalid  %s' % (c['name'], (msg[-1] if msg else '')[:200]))
            continue
        if code == 14:
            print('%-40s skipped' % c['name'])
            continue
        if eq:
            print('%-40s %s %s' % (c['name'], 'silent(control)' if code == 11 else 'ALARM-ON-CONTROL', first))
            good = code == 11
        else:
            print('%-40s %s %s' % (c['name'], 'killed' if code in (10, 13) else 'MISSED', first if code in (10, 13) else '— ' + c.get('desc', '')[:200]))
            good = code in (10, 13)
        (keep if good else missed).append(c)
finally:
    shutil.rmtree(scratch, ignore_errors=True)
    if install:
        # --install replaces the list; --append (with --install) merges by name into the existing one
        if '--append' in sys.argv and os.path.exists(dst):
            cur = json.load(open(dst))
            names = {m['name'] for m in cur}
            keep = cur + [m for m in keep if m['name'] not in names]
        json.dump(keep, open(dst, 'w'), indent=1, ensure_ascii=False)
        mp = os.path.join(extra_dir, pid + '.missed.json')
        if '--append' in sys.argv:
            mp2 = os.path.join(extra_dir, pid + '.missed2.json')
            if missed:
                json.dump(missed, open(mp2, 'w'), indent=1, ensure_ascii=False)
            elif os.path.exists(mp2):
                os.remove(mp2)
        if '--append' not in sys.argv:
            if missed:
                json.dump(missed, open(mp, 'w'), indent=1, ensure_ascii=False)
            elif os.path.exists(mp):
                os.remove(mp)
