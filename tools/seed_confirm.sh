#!/bin/bash
# usage: seed_confirm.sh <prop-id> <variant-dir>   (e.g. C03 /tmp/seed/C03/out/a)
# Confirms a seeded change in a scratch worktree of /repo HEAD: patch applies, builds,
# demo passes without / fails with the change, and the pinned suite still passes.
# On success copies it to /verif/seeded/<id>-<variant>/ . Removes the worktree afterwards.
export GOFLAGS=-mod=mod GOPROXY=off GOSUMDB=off GOTOOLCHAIN=local
unset GOWORK
ID=$1; SRC=$2; V=$(basename $SRC)
WT=/tmp/sc/$ID-$V
LOG=$SRC/confirm.log
: > $LOG
fail() { echo "CONFIRM-FAIL $ID-$V: $1" | tee -a $LOG; git -C /repo worktree remove --force $WT 2>/dev/null; exit 1; }
mkdir -p /tmp/sc
git -C /repo worktree remove --force $WT 2>/dev/null
git -C /repo worktree add -q --detach $WT HEAD || fail "worktree"
DEMO=$(ls $SRC/zz_seed*_test.go 2>/dev/null | head -1)
[ -z "$DEMO" ] && fail "no demo file"
DP=$(cat $SRC/demo_path.txt | tr -d ' \n' | sed 's|^\./||; s|/$||')
CMD=$(cat $SRC/demo_cmd.txt | grep -o 'go test.*' | head -1)
[ -z "$CMD" ] && fail "no demo cmd"
cp $DEMO $WT/$DP/ || fail "copy demo to $DP"
cd $WT
echo "== demo without change: $CMD" >> $LOG
if ! eval "$CMD" >> $LOG 2>&1; then fail "demo does not pass on the unchanged tree"; fi
git apply --3way $SRC/patch.diff >> $LOG 2>&1 || git apply $SRC/patch.diff >> $LOG 2>&1 || fail "patch does not apply to HEAD"
git diff HEAD --stat -- . ':!*_test.go' >> $LOG
go build ./... >> $LOG 2>&1 || fail "does not build"
echo "== demo with change" >> $LOG
if eval "$CMD" >> $LOG 2>&1; then fail "demo still passes with the change"; fi
echo "== full suite with change" >> $LOG
go test -mod=mod -json -vet=off -count=1 -timeout 25m ./... > /tmp/sc/$ID-$V.json 2>/dev/null
python3 - /tmp/sc/$ID-$V.json >> $LOG <<'PY'
import json,sys
base=json.load(open('/root/.vp/BASELINE.json'))
want=set(base['stable_pass'])
res={}
for line in open(sys.argv[1],errors='replace'):
    try: e=json.loads(line)
    except Exception: continue
    if e.get('Test') and e.get('Action') in('pass','fail','skip'):
        res[e['Package']+'::'+e['Test']]=e['Action']
missing=sorted(t for t in want if res.get(t)!='pass')
print('stable_pass=%d passed=%d'%(len(want),len(want)-len(missing)))
for t in missing[:30]: print('NOT-PASSING',t,res.get(t))
sys.exit(1 if missing else 0)
PY
SUITE=$?
rm -f /tmp/sc/$ID-$V.json
if [ $SUITE -ne 0 ]; then
  # re-run only the tests that did not pass (load-induced flakes), by name, per package
  SUITE=0
  for PK in $(grep NOT-PASSING $LOG | awk '{print $2}' | sed 's/::.*//' | sort -u); do
    TS=$(grep "NOT-PASSING $PK::" $LOG | awk '{print $2}' | sed 's/.*:://; s|/.*||' | sort -u | paste -sd'|')
    REL=$(echo $PK | sed "s|github.com/icon-project/goloop|.|")
    echo "== rerun $REL -run ^($TS)$" >> $LOG
    ok=1
    for try in 1 2 3; do
      if go test -vet=off -count=1 -run "^($TS)\$" $REL >> $LOG 2>&1; then ok=0; break; fi
    done
    [ $ok -ne 0 ] && SUITE=1
  done
  [ $SUITE -ne 0 ] && fail "existing tests fail with the change"
fi
cd /
git -C /repo worktree remove --force $WT
DST=/verif/seeded/$ID-$V
mkdir -p $DST
cp $SRC/patch.diff $DST/patch.diff
cp $DEMO $DST/
cp $SRC/demo_path.txt $SRC/demo_cmd.txt $DST/ 2>/dev/null
python3 - $SRC/meta.json $DST/meta.json $ID "$CMD" "$DP" <<'PY'
import json,sys
try: m=json.load(open(sys.argv[1]))
except Exception: m={}
out={"property":sys.argv[3],"summary":m.get("summary",""),"needs_to_manifest":m.get("needs_to_manifest",""),
 "files_touched":m.get("files_touched",[]),"author":"independent sub-agent given only the property text",
 "confirmed":{"base":"scratch worktree of /repo HEAD","demo_dir":sys.argv[5],"demo_cmd":sys.argv[4],
   "demo_without_change":"pass","demo_with_change":"fail","build":"ok","pinned_suite_with_change":"all stable_pass tests pass (demo excluded)"},
 "agent_ran":m.get("ran",[])}
json.dump(out,open(sys.argv[2],'w'),indent=1)
PY
echo "CONFIRMED $ID-$V" | tee -a $LOG
