#!/usr/bin/env python3
"""Regenerates the generated parts of /verif/DESIGN.md:
  <!-- BEGIN:PER-PROPERTY --> … <!-- END:PER-PROPERTY -->   from MANIFEST.json (= the checker's registry)
  <!-- BEGIN:SEEDS --> … <!-- END:SEEDS -->                 from seeded/*/meta.json and seeded/DETECTION.txt
Everything else in DESIGN.md is written by hand."""
import json, os, re, glob, sys

root = os.path.dirname(os.path.dirname(os.path.abspath(__file__)))
man = json.load(open(os.path.join(root, 'MANIFEST.json')))
props = {}
for l in open(os.path.join(root, 'properties.jsonl')):
    d = json.loads(l)
    props[d['id']] = d

findings = {
    'C03': 'F1, F9 (fixed)', 'C06': 'F2, F10 (fixed)', 'C10': 'F3 (fixed)', 'C11': 'F4 (known finding) + F4b (fixed)',
    'C27': 'F5 (fixed)', 'C31': 'F6 (fixed)', 'C05': 'F7 (fixed)', 'C32': 'F8 (fixed)', 'C02': 'F11 (fixed)', 'C28': 'F12 (fixed)',
}

def mutants_of(pid):
    # count Mutant{ entries in the property's checker file(s)
    n = 0
    for f in glob.glob(os.path.join(root, 'checker', '*.go')):
        s = open(f).read()
        if ('ID:             "%s"' % pid) in s:
            n += len(re.findall(r'\{Name: "', s))
    return n

out = []
for c in man['checks']:
    pid = c['property_id']
    p = props[pid]
    out.append('### %s %s' % (pid, p['title']))
    out.append('')
    if pid in findings:
        out.append('*Findings:* %s (section 5).' % findings[pid])
        out.append('')
    out.append('*Deciding method.* %s.' % c['technique'].rstrip('.'))
    out.append('')
    out.append('*Decided (level `other`).* %s' % c['level_claimed']['text'])
    out.append('')
    out.append('*%s*' % c['level_note'].replace('*', ''))
    out.append('')
    n = mutants_of(pid)
    if n:
        out.append('*Self-test.* %d in-memory mutants of the current source in the thorough tier (section 4); all must be reported, control mutants must stay silent.' % n)
        out.append('')
per = '\n'.join(out)

# seeds
rows = []
det = {}
dp = os.path.join(root, 'seeded', 'DETECTION.txt')
if os.path.exists(dp):
    for l in open(dp, errors='replace'):
        m = re.match(r'^(C\d\d-[a-z]): (DETECTED[^:]*|MISSED)(.*)$', l.strip())
        if m:
            rule = re.search(r'\[(C\d\d\.[a-z0-9/-]+)\]', m.group(3))
            det[m.group(1)] = (m.group(2).split(' ')[0], rule.group(1) if rule else '')
for d in sorted(glob.glob(os.path.join(root, 'seeded', 'C*-*'))):
    name = os.path.basename(d)
    try:
        meta = json.load(open(os.path.join(d, 'meta.json')))
    except Exception:
        continue
    summ = meta.get('summary', '').replace('\n', ' ').replace('|', '/')
    if len(summ) > 230:
        summ = summ[:227] + '…'
    files = ', '.join(meta.get('files_touched', []) or [])
    st, rule = det.get(name, ('not run', ''))
    rows.append('| %s | %s | %s | %s %s |' % (name, files, summ, st, ('`' + rule + '`') if rule else ''))
seeds = '| change | file | what it breaks | quick check |\n|---|---|---|---|\n' + '\n'.join(rows)

path = os.path.join(root, 'DESIGN.md')
s = open(path).read()
s = re.sub(r'(<!-- BEGIN:PER-PROPERTY -->).*?(<!-- END:PER-PROPERTY -->)', lambda m: m.group(1) + '\n\n' + per + '\n' + m.group(2), s, flags=re.S)
s = re.sub(r'(<!-- BEGIN:SEEDS -->).*?(<!-- END:SEEDS -->)', lambda m: m.group(1) + '\n\n' + seeds + '\n\n' + m.group(2), s, flags=re.S)
open(path, 'w').write(s)
print('DESIGN.md regenerated: %d properties, %d seeded changes' % (len(man['checks']), len(rows)))
