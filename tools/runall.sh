#!/bin/bash
# usage: tools/runall.sh [quick|thorough]  — runs every registered check, prints one line each
cd "$(dirname "$0")/.."
export GOFLAGS=-mod=mod GOPROXY=off GOSUMDB=off GOTOOLCHAIN=local; unset GOWORK
tier=${1:-quick}
rc=0
for id in $(python3 -c "import json;print(' '.join(c['property_id'] for c in json.load(open('MANIFEST.json'))['checks']))"); do
  out=$(./bin/gsa -property $id -tier $tier 2>&1); e=$?
  echo "$out" | grep -E "^property=|^selftest|VIOLATION|UNDECIDED|KNOWN-FINDING" | cut -c1-200
  [ $e -ne 0 ] && rc=1 && echo "EXIT $e for $id"
done
exit $rc
