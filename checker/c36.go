package main

import (
	"fmt"
	"go/constant"
	"go/token"
	"regexp"
	"regexp/syntax"
	"strings"

	"golang.org/x/tools/go/ssa"
)

// C36 — addresses have one canonical text and byte form.
func init() {
	register(&Prop{
		ID:             "C36",
		Pkgs:           []string{"common", "server/jsonrpc"},
		Run:            runC36,
		MinObligations: 20,
		Technique:      "static analysis: guard dominance of the only store in the strict parser (length, prefix, case, hex), interval reasoning over the bytes a case-check loop lets through, structural analysis of the constant address regular expressions (language ⊆ canonical form), table agreement between String, SetStringStrict, SetBytes and SetTypeAndID",
		LevelText:      "Decides on all paths: SetStringStrict stores an address only behind len == 42, a prefix that is exactly \"cx\" or \"hx\" (contract flag true iff \"cx\"), a body with no upper-case hex letter (either `strings.ToLower(body) == body` or a loop whose pass-through byte ranges exclude 'A'..'F'), and a successful hex decode of that same body, and stores exactly the decoded bytes; String prints prefix by the type byte and the lower-case hex of the 20 id bytes, so print→strict-parse is the identity and the strict parser accepts only strings String can produce; the JSON-RPC address validators use constant, fully anchored expressions whose language is exactly hx/cx + 40 characters of [0-9a-f]; SetBytes accepts 21 bytes with type byte 0/1 or 20 id bytes and nothing else, Bytes returns the array itself, and SetTypeAndID writes type byte 1 iff contract.",
		LevelNote:      "Not decided: behaviour of encoding/hex and strings.ToLower themselves (standard library, assumed), and the lenient SetString, which is lenient by design.",
		Explanation:    "C36 rules: strict-guards (K1), print-canonical (K4), validator-regex (K4 over the constant pattern), bytes-form (K1).",
		Mutants: []Mutant{
			{Name: "case-loop-off-by-one", File: "common/address.go", Old: "\tif strings.ToLower(body) != body {\n\t\treturn ErrIllegalArgument\n\t}", New: "\tfor i := 0; i < len(body); i++ {\n\t\tif c := body[i]; 'A' <= c && c < 'F' {\n\t\t\treturn ErrIllegalArgument\n\t\t}\n\t}\n\t_ = strings.ToLower", Desc: "upper-case F accepted"},
			{Name: "case-loop-correct", File: "common/address.go", Old: "\tif strings.ToLower(body) != body {\n\t\treturn ErrIllegalArgument\n\t}", New: "\tfor i := 0; i < len(body); i++ {\n\t\tif c := body[i]; 'A' <= c && c <= 'Z' {\n\t\t\treturn ErrIllegalArgument\n\t\t}\n\t}\n\t_ = strings.ToLower", Desc: "control: an equivalent loop form of the case check must stay silent", Equivalent: true},
			{Name: "no-case-check", File: "common/address.go", Old: "\tif strings.ToLower(body) != body {\n\t\treturn ErrIllegalArgument\n\t}", New: "\t_ = strings.ToLower", Desc: "mixed case accepted"},
			{Name: "length-at-least", File: "common/address.go", Old: "\tif len(s) != AddressIDBytes*2+2 {\n\t\treturn ErrIllegalArgument\n\t}\n\tprefix := s[0:2]", New: "\tif len(s) < 4 || len(s) > AddressIDBytes*2+2 || len(s)%2 != 0 {\n\t\treturn ErrIllegalArgument\n\t}\n\tprefix := s[0:2]", Desc: "short strings accepted and zero-padded"},
			{Name: "prefix-0x", File: "common/address.go", Old: "\tcase \"hx\":\n\tdefault:\n\t\treturn ErrIllegalArgument\n\t}\n\tif strings.ToLower", New: "\tcase \"hx\", \"0x\":\n\tdefault:\n\t\treturn ErrIllegalArgument\n\t}\n\tif strings.ToLower", Desc: "0x prefix accepted by the strict parser"},
			{Name: "regex-xdigit", File: "server/jsonrpc/validator.go", Old: "eoaAddressRegex   = regexp.MustCompile(\"^hx[0-9a-f]{40}$\")", New: "eoaAddressRegex   = regexp.MustCompile(\"^hx[[:xdigit:]]{40}$\")", Desc: "validator accepts upper case"},
			{Name: "regex-unanchored", File: "server/jsonrpc/validator.go", Old: "scoreAddressRegex = regexp.MustCompile(\"^cx[0-9a-f]{40}$\")", New: "scoreAddressRegex = regexp.MustCompile(\"^cx[0-9a-f]{40}\")", Desc: "validator accepts trailing garbage"},
			{Name: "print-upper", File: "common/address.go", Old: "\t\treturn \"cx\" + hex.EncodeToString(a[1:])", New: "\t\treturn \"cx\" + strings.ToUpper(hex.EncodeToString(a[1:]))", Desc: "contracts print in upper case"},
			{Name: "setbytes-any-type", File: "common/address.go", Old: "\t\tswitch b[0] {\n\t\tcase 0, 1:\n\t\t\tcopy(a[:], b)\n\t\t\treturn nil\n\t\tdefault:\n\t\t\treturn ErrIllegalArgument\n\t\t}", New: "\t\tcopy(a[:], b)\n\t\treturn nil", Desc: "type bytes other than 0/1 accepted: two byte forms print the same"},
			{Name: "type-byte-swapped", File: "common/address.go", Old: "\tif ic {\n\t\ta[0] = 1\n\t} else {\n\t\ta[0] = 0\n\t}", New: "\tif ic {\n\t\ta[0] = 0\n\t} else {\n\t\ta[0] = 1\n\t}", Desc: "parse and print disagree on the prefix"},
		},
	})
}

// c36CanonRegex: pattern is ^<prefix>[0-9a-f]{40}$ as a language.
func c36CanonRegex(pat, prefix string) (bool, string) {
	re, err := syntax.Parse(pat, syntax.Perl)
	if err != nil {
		return false, "does not parse: " + err.Error()
	}
	if re.Op != syntax.OpConcat {
		return false, "not a concatenation"
	}
	subs := re.Sub
	if len(subs) < 4 || subs[0].Op != syntax.OpBeginText || subs[len(subs)-1].Op != syntax.OpEndText {
		return false, "not anchored at both ends"
	}
	lit := ""
	i := 1
	for ; i < len(subs)-1 && subs[i].Op == syntax.OpLiteral; i++ {
		if subs[i].Flags&syntax.FoldCase != 0 {
			return false, "case-insensitive literal"
		}
		lit += string(subs[i].Rune)
	}
	if lit != prefix {
		return false, "prefix " + lit
	}
	if i != len(subs)-2 {
		return false, "unexpected structure"
	}
	rep := subs[i]
	if rep.Op != syntax.OpRepeat || rep.Min != 40 || rep.Max != 40 {
		return false, "body is not exactly 40 characters"
	}
	cc := rep.Sub[0]
	if cc.Op != syntax.OpCharClass {
		return false, "body is not a character class"
	}
	want := []rune{'0', '9', 'a', 'f'}
	if len(cc.Rune) != len(want) {
		return false, "character class " + cc.String() + " is not [0-9a-f]"
	}
	for j := range want {
		if cc.Rune[j] != want[j] {
			return false, "character class " + cc.String() + " is not [0-9a-f]"
		}
	}
	return true, ""
}

// c36CanonRegexAny: ^P[0-9a-f]{40}$ where the language of P is a non-empty
// subset of {"hx","cx"} (so `^(hx|cx)[0-9a-f]{40}$` and `^[ch]x[0-9a-f]{40}$`
// pass, `^hx|cx[0-9a-f]{40}$` does not).
func c36CanonRegexAny(pat string) (bool, string) {
	if ok, _ := c36CanonRegex(pat, "hx"); ok {
		return true, ""
	}
	if ok, _ := c36CanonRegex(pat, "cx"); ok {
		return true, ""
	}
	re, err := syntax.Parse(pat, syntax.Perl)
	if err != nil {
		return false, "does not parse: " + err.Error()
	}
	if re.Op != syntax.OpConcat || len(re.Sub) < 4 || re.Sub[0].Op != syntax.OpBeginText || re.Sub[len(re.Sub)-1].Op != syntax.OpEndText {
		return false, "not a concatenation anchored at both ends"
	}
	body := re.Sub[len(re.Sub)-2]
	if body.Op != syntax.OpRepeat || body.Min != 40 || body.Max != 40 || body.Sub[0].Op != syntax.OpCharClass || body.Sub[0].String() != "[0-9a-f]" {
		return false, "body is not [0-9a-f]{40}"
	}
	var maxLen func(r *syntax.Regexp) int
	maxLen = func(r *syntax.Regexp) int {
		switch r.Op {
		case syntax.OpLiteral:
			if r.Flags&syntax.FoldCase != 0 {
				return 1 << 20
			}
			return len(r.Rune)
		case syntax.OpCharClass, syntax.OpAnyChar, syntax.OpAnyCharNotNL:
			return 1
		case syntax.OpCapture:
			return maxLen(r.Sub[0])
		case syntax.OpConcat:
			n := 0
			for _, s := range r.Sub {
				n += maxLen(s)
			}
			return n
		case syntax.OpAlternate:
			n := 0
			for _, s := range r.Sub {
				if m := maxLen(s); m > n {
					n = m
				}
			}
			return n
		case syntax.OpEmptyMatch:
			return 0
		case syntax.OpQuest:
			return maxLen(r.Sub[0])
		}
		return 1 << 20
	}
	prefix := ""
	total := 0
	for _, s := range re.Sub[1 : len(re.Sub)-2] {
		prefix += s.String()
		total += maxLen(s)
	}
	if total > 2 {
		return false, "the prefix part " + prefix + " can match more than two characters"
	}
	pre, err := regexp.Compile("^(?:" + prefix + ")$")
	if err != nil {
		return false, "prefix part does not compile"
	}
	alpha := []string{"h", "c", "x", "0", "H", "C", "X", "a", "f", "1"}
	matched := 0
	var walk func(cur string, d int) bool
	walk = func(cur string, d int) bool {
		if pre.MatchString(cur) {
			if cur != "hx" && cur != "cx" {
				return false
			}
			matched++
		}
		if d == 2 {
			return true
		}
		for _, a := range alpha {
			if !walk(cur+a, d+1) {
				return false
			}
		}
		return true
	}
	if !walk("", 0) || matched == 0 {
		return false, "the prefix part " + prefix + " accepts something other than hx / cx"
	}
	return true, ""
}

func runC36(c *Ctx) {
	const pk = "common"
	idb, _ := c.constVal(pk, "AddressIDBytes")

	// ------------------------------------------------------------ strict parser
	if fn := c.mustFn(pk, "Address", "SetStringStrict"); fn != nil {
		sets := c.calls(fn, byCallee("Address).SetTypeAndID"))
		var others []ssa.Instruction
		for _, b := range fn.Blocks {
			for _, in := range b.Instrs {
				if st, ok := in.(*ssa.Store); ok {
					if directlyRootedAt(st.Addr, fn.Params[0]) {
						others = append(others, st)
					}
				}
			}
		}
		for _, cs := range c.calls(fn, byMethod("SetString", "SetBytes", "Set")) {
			others = append(others, cs.Instr)
		}
		c.check(len(others) == 0, "C36.strict-guards", "the strict parser writes the address at one place", fn.Pos(), "SetTypeAndID only", "the address is also written outside the guarded SetTypeAndID call")
		if len(sets) != 1 {
			c.violate("C36.strict-guards", "SetStringStrict structure", fn.Pos(), "expected one SetTypeAndID call")
		} else {
			cs := sets[0]
			c.requireAt("C36.strict-guards", "stored only for strings of exactly 42 characters", cs.Instr, wEQ("len(s) == 42", -(idb*2+2), t(1, `^len\(\$0\)$`)))
			// prefix
			_, a := callArgs(cs.Common())
			okPfx := true
			nF := 0
			for _, f := range flowsOf(a[0], nil) {
				nF++
				_, isCx := holds(f.Guards, wSame("prefix cx", `^"cx"$`, `^\$0\[0:2\]$`))
				_, isHx := holds(f.Guards, wSame("prefix hx", `^"hx"$`, `^\$0\[0:2\]$`))
				switch {
				case isConstBool(f.Src, true):
					okPfx = okPfx && isCx
				case isConstBool(f.Src, false):
					okPfx = okPfx && isHx && !isCx
				default:
					okPfx = false
				}
			}
			if !(okPfx && nF == 2) {
				// the flag computed directly: isContract := prefix == "cx", and the call reached only
				// when the flag is true or the prefix is "hx"
				if bo, ok := a[0].(*ssa.BinOp); ok && bo.Op == token.EQL {
					pr := predOfVal(bo, true)
					if pr.Kind == "same" && pr.Pol && ((pr.A == `"cx"` && pr.B == "$0[0:2]") || (pr.B == `"cx"` && pr.A == "$0[0:2]")) {
						okAll := true
						for _, alt := range altGuards(cs.Instr.Block()) {
							_, isCx := holds(alt, wSame("prefix cx", `^"cx"$`, `^\$0\[0:2\]$`))
							_, isHx := holds(alt, wSame("prefix hx", `^"hx"$`, `^\$0\[0:2\]$`))
							if !isCx && !isHx {
								okAll = false
							}
						}
						if okAll {
							okPfx, nF = true, 2
						}
					}
				}
			}
			c.check(okPfx && nF == 2, "C36.strict-guards", "contract flag true exactly for prefix \"cx\", false exactly for \"hx\"", cs.Pos(), "cx ↔ true, hx ↔ false", "the contract flag is not determined by the prefixes cx / hx")
			c.requireAtAny("C36.strict-guards", "stored only for prefix cx or hx", cs.Instr, "prefix ∈ {cx, hx}",
				wSame("prefix cx", `^"cx"$`, `^\$0\[0:2\]$`), wSame("prefix hx", `^"hx"$`, `^\$0\[0:2\]$`))
			// hex decode of the body
			c.requireAt("C36.strict-guards", "stored only if the body is valid hex", cs.Instr, wSame("DecodeString(body) ok", `^hex\.DecodeString\(\$0\[2:\]\)#1$`, `^nil$`))
			c.check(render(a[1]) == "hex.DecodeString($0[2:])#0", "C36.strict-guards", "the bytes stored are the decoded body", cs.Pos(), "DecodeString(s[2:])", "stores "+render(a[1]))
			// case
			if _, ok := holdsAll(altGuards(cs.Instr.Block()), wSame("ToLower(body) == body", `^strings\.ToLower\(\$0\[2:\]\)$`, `^\$0\[2:\]$`)); ok {
				c.ok("C36.strict-guards", "stored only if the body has no upper-case letter", cs.Pos(), "strings.ToLower(body) == body")
			} else {
				// loop idiom: every way round a loop over the body must exclude 'A'..'F' for the byte examined
				okLoop := false
				why := "no case check dominates the store"
				for _, b := range fn.Blocks {
					if loopHeaderOf(b) != b || !b.Dominates(cs.Instr.Block()) {
						continue
					}
					body := loopBody(b)
					// the loop must run over the whole body: exit edge only when i >= len(body)
					atom := ""
					okAll := true
					nBack := 0
					for _, p := range b.Preds {
						if !b.Dominates(p) {
							continue
						}
						for _, alt := range altGuardsIn(p, b, body) {
							nBack++
							// find the byte atom: $0[2:][i]
							found := false
							for _, g := range alt {
								pd := predOf(g)
								for at := range pd.L.T {
									if strings.HasPrefix(at, "$0[2:][") {
										atom = at
									}
								}
							}
							if atom != "" {
								lo, hi, hasLo, hasHi := boundsOnAll(alt, atom)
								if (hasHi && hi < 'A') || (hasLo && lo > 'F') {
									found = true
								}
							}
							if !found {
								okAll = false
								why = "a byte in 'A'..'F' can pass the case loop: " + guardsString(alt)
							}
						}
					}
					if nBack > 0 && okAll {
						// and the loop is left towards the store only after the last byte
						for _, g := range guardsAtBlock(cs.Instr.Block()) {
							pd := predOf(g)
							if pd.Kind == "ge" {
								for at, co := range pd.L.T {
									if co == -1 && strings.HasPrefix(at, "len($0[2:])") {
										okLoop = true
									}
								}
							}
						}
						if !okLoop {
							why = "the case loop can be left before the last byte"
						}
					}
				}
				c.check(okLoop, "C36.strict-guards", "stored only if the body has no upper-case letter", cs.Pos(), "loop excludes 'A'..'F' for every byte", why)
			}
		}
		for _, e := range exitAlts(fn) {
			if provablyNil(e.Results[0], e.Guards) && len(sets) == 1 {
				tr, reach := pathAvoiding(fn, nil, isInstr(e.Ret), isInstr(sets[0].Instr))
				c.check(!reach, "C36.strict-guards", "success only after storing", e.pos(), "no bypass", "SetStringStrict can succeed without storing ("+traceString(tr)+")")
			}
		}
	}

	// ------------------------------------------------------------ printing
	if fn := c.mustFn(pk, "Address", "String"); fn != nil {
		n := 0
		viaVar := false
		for _, e := range exitAlts(fn) {
			n++
			r := render(e.Results[0])
			// the prefix may be chosen through a helper variable: split the merged value into its flows
			if bo, ok := e.Results[0].(*ssa.BinOp); ok && bo.Op == token.ADD {
				if _, isPhi := bo.X.(*ssa.Phi); isPhi {
					okAll := true
					nf := 0
					for _, fl := range flowsOf(bo.X, nil) {
						nf++
						k, isK := fl.Src.(*ssa.Const)
						pre := ""
						if isK && k.Value != nil && k.Value.Kind() == constant.String {
							pre = constant.StringVal(k.Value)
						}
						gs := append(append([]Guard{}, e.Guards...), fl.Guards...)
						_, c1 := holds(gs, wEQ("type byte 1", -1, t(1, `^\$r\[0\]$`)))
						_, c0 := holds(gs, wNE("type byte not 1", -1, t(1, `^\$r\[0\]$`)))
						if !((pre == "cx" && c1) || (pre == "hx" && c0)) {
							okAll = false
						}
					}
					viaVar = true
					c.check(okAll && nf == 2 && render(bo.Y) == "hex.EncodeToString($r[1:])", "C36.print-canonical", "String = prefix by type byte + lower-case hex of the id", e.pos(), r, "String returns "+r+" with a prefix not determined by the type byte")
					continue
				}
			}
			_, isC := holds(e.Guards, wEQ("type byte 1", -1, t(1, `^\$r\[0\]$`)))
			if !isC {
				// the same test through the accessor, provided the accessor is `a[0] == 1`
				if _, viaAcc := holds(e.Guards, wTrue("IsContract()", `^\$r\.IsContract\(\)$`)); viaAcc {
					if ic := c.fn(pk, "Address", "IsContract"); ic != nil {
						okAcc := true
						for _, ie := range exitAlts(ic) {
							bo, ok := ie.Results[0].(*ssa.BinOp)
							k := int64(-1)
							if ok {
								k, _ = constInt(bo.Y)
							}
							if !(ok && bo.Op == token.EQL && render(bo.X) == "$r[0]" && k == 1) {
								okAcc = false
							}
						}
						isC = okAcc
					}
				}
			}
			want := `("hx" + hex.EncodeToString($r[1:]))`
			if isC {
				want = `("cx" + hex.EncodeToString($r[1:]))`
			}
			c.check(r == want, "C36.print-canonical", "String = prefix by type byte + lower-case hex of the id", e.pos(), r, "String returns "+r+" (expected "+want+")")
		}
		c.check(n == 2 || viaVar, "C36.print-canonical", "String has one exit per address type", fn.Pos(), "2", fmt.Sprint(n))
	}
	if fn := c.mustFn(pk, "Address", "SetTypeAndID"); fn != nil {
		n := 0
		for _, b := range fn.Blocks {
			for _, in := range b.Instrs {
				st, ok := in.(*ssa.Store)
				if !ok {
					continue
				}
				ia, ok := st.Addr.(*ssa.IndexAddr)
				if !ok || !isZeroConst(ia.Index) || render(ia.X) != "$r" {
					continue
				}
				n++
				k, _ := constInt(st.Val)
				gs := guardsAtBlock(b)
				_, isC := holds(gs, wTrue("contract", `^\$0$`))
				_, notC := holds(gs, wFalse("contract", `^\$0$`))
				c.check((k == 1 && isC) || (k == 0 && notC), "C36.print-canonical", "type byte 1 iff contract", st.Pos(), fmt.Sprintf("a[0] = %d", k), fmt.Sprintf("a[0] = %d on the wrong branch: parse and print disagree on the prefix", k))
			}
		}
		c.check(n == 2, "C36.print-canonical", "SetTypeAndID writes the type byte on both branches", fn.Pos(), "2", fmt.Sprint(n))
		// id right-aligned into a[1:]
		for _, cp := range c.calls(fn, byCallee("builtin:copy")) {
			_, a := callArgs(cp.Common())
			if render(a[1]) != "$1" {
				continue
			}
			sl, _ := a[0].(*ssa.Slice)
			okD := sl != nil && render(sl.X) == "$r" && sl.High == nil
			if okD {
				l := linOf(sl.Low)
				full := len(l.T) == 0 && l.K == 1
				padded := len(l.T) == 1 && l.T["len($1)"] == -1 && l.K == 1+idb
				okD = full || padded
			}
			c.check(okD, "C36.print-canonical", "id bytes are placed right-aligned after the type byte", cp.Pos(), "copy(a[1:], id) / copy(a[1+20-len:], id)", "id copied to "+render(a[0]))
		}
	}

	// ------------------------------------------------------------ validator regexes
	if sp := c.spkg("server/jsonrpc"); sp != nil {
		pats := map[string]string{}
		if init := sp.Func("init"); init != nil {
			for _, b := range init.Blocks {
				for _, in := range b.Instrs {
					st, ok := in.(*ssa.Store)
					if !ok {
						continue
					}
					g, ok := st.Addr.(*ssa.Global)
					if !ok {
						continue
					}
					if cl, ok := st.Val.(*ssa.Call); ok && strings.HasSuffix(calleeName(cl.Common()), "regexp.MustCompile") {
						if k, ok := cl.Call.Args[0].(*ssa.Const); ok && k.Value != nil && k.Value.Kind() == constant.String {
							pats[g.Name()] = constant.StringVal(k.Value)
						}
					}
				}
			}
		}
		for _, spec := range []struct{ global, prefix, fn string }{{"eoaAddressRegex", "hx", "isEoaAddress"}, {"scoreAddressRegex", "cx", "isScoreAddress"}} {
			pat, ok := pats[spec.global]
			if !c.check(ok, "C36.validator-regex", spec.global+" is a constant pattern", token.NoPos, pat, spec.global+" is not compiled from a constant") {
				continue
			}
			okR, why := c36CanonRegex(pat, spec.prefix)
			c.check(okR, "C36.validator-regex", spec.global+" accepts exactly "+spec.prefix+" + 40 × [0-9a-f]", token.NoPos, pat, "pattern "+pat+" is not the canonical form: "+why)
			if fn := c.mustFn("server/jsonrpc", "", spec.fn); fn != nil {
				for _, e := range exitAlts(fn) {
					r := render(e.Results[0])
					okM := strings.Contains(r, "global:"+spec.global+".MatchString($0.Field().String())")
					if !okM {
						// through a shared private helper: helper(pattern, fl) = pattern.MatchString(fl.Field().String())
						if call, ok := e.Results[0].(*ssa.Call); ok {
							if h := call.Common().StaticCallee(); h != nil && len(call.Call.Args) == 2 && strings.Contains(render(call.Call.Args[0]), "global:"+spec.global) && render(call.Call.Args[1]) == "$0" {
								okM = true
								for _, he := range exitAlts(h) {
									if render(he.Results[0]) != "$0.MatchString($1.Field().String())" {
										okM = false
									}
								}
							}
						}
					}
					c.check(okM, "C36.validator-regex", spec.fn+" decides by the pattern on the whole field", e.pos(), r, spec.fn+" returns "+r)
				}
			}
		}
		// every tag of the t_addr family is bound to a strict validator
		if nv := c.mustFn("server/jsonrpc", "", "NewValidator"); nv != nil {
			strictFns := map[string]bool{"isEoaAddress": true, "isScoreAddress": true}
			strictTags := map[string]bool{}
			nTags := 0
			regs := c.calls(nv, byMethod("RegisterValidation"))
			for _, cs := range regs {
				_, a := callArgs(cs.Common())
				tagC, ok := a[0].(*ssa.Const)
				if !ok || tagC.Value == nil || tagC.Value.Kind() != constant.String {
					continue
				}
				tag := constant.StringVal(tagC.Value)
				if !strings.HasPrefix(tag, "t_addr") {
					continue
				}
				nTags++
				fnv := a[1]
				for {
					if ct, ok := fnv.(*ssa.ChangeType); ok {
						fnv = ct.X
						continue
					}
					break
				}
				f, _ := fnv.(*ssa.Function)
				okF := f != nil && strictFns[f.Name()]
				if f != nil && !okF {
					// another function: it must decide by a constant pattern that is canonical for one prefix
					for _, e := range exitAlts(f) {
						r := render(e.Results[0])
						for g, pat := range pats {
							if strings.Contains(r, "global:"+g+".MatchString($0.Field().String())") {
								okF, _ = c36CanonRegexAny(pat)
							}
						}
					}
				}
				if okF {
					strictTags[tag] = true
				}
				name := "?"
				if f != nil {
					name = f.Name()
				}
				c.check(okF, "C36.validator-regex", "tag "+tag+" is validated by a strict address pattern", cs.Pos(), name, "tag "+tag+" is bound to "+name+", which does not decide by an anchored hx/cx + 40 × [0-9a-f] pattern: non-canonical strings pass validation and are then parsed leniently into another address")
			}
			for _, cs := range c.calls(nv, byMethod("RegisterAlias")) {
				_, a := callArgs(cs.Common())
				tagC, ok1 := a[0].(*ssa.Const)
				valC, ok2 := a[1].(*ssa.Const)
				if !ok1 || !ok2 || tagC.Value == nil || valC.Value == nil {
					continue
				}
				tag := constant.StringVal(tagC.Value)
				if !strings.HasPrefix(tag, "t_addr") {
					continue
				}
				nTags++
				okA := true
				for _, part := range strings.Split(constant.StringVal(valC.Value), "|") {
					if !strictTags[part] {
						okA = false
					}
				}
				c.check(okA, "C36.validator-regex", "alias "+tag+" is a union of strict address tags", cs.Pos(), constant.StringVal(valC.Value), "alias "+tag+" = "+constant.StringVal(valC.Value)+" includes a tag that is not a strict address validator")
			}
			if nTags < 3 {
				c.undecided("C36.validator-regex", "t_addr tag family", nv.Pos(), fmt.Sprintf("expected 3 (t_addr_eoa, t_addr_score, t_addr), found %d", nTags))
			}
		}
		// every other address-like constant pattern of the package is canonical too
		for g, pat := range pats {
			if g == "eoaAddressRegex" || g == "scoreAddressRegex" {
				continue
			}
			if !(strings.Contains(pat, "hx") || strings.Contains(pat, "cx")) {
				continue
			}
			ok1, why := c36CanonRegexAny(pat)
			c.check(ok1, "C36.validator-regex", "address-like pattern "+g+" is canonical", token.NoPos, pat, "pattern "+pat+" mentions an address prefix but is not an anchored prefix + 40 × [0-9a-f]: "+why)
		}
		// stores to the regex globals only in init
		for _, fn := range c.pkgFuncs("server/jsonrpc") {
			if fn.Name() == "init" {
				continue
			}
			for _, b := range fn.Blocks {
				for _, in := range b.Instrs {
					if st, ok := in.(*ssa.Store); ok {
						if g, ok := st.Addr.(*ssa.Global); ok && (g.Name() == "eoaAddressRegex" || g.Name() == "scoreAddressRegex") {
							c.violate("C36.validator-regex", "address patterns are fixed", st.Pos(), fnName(fn)+" reassigns "+g.Name())
						}
					}
				}
			}
		}
	}

	// ------------------------------------------------------------ byte form
	if fn := c.mustFn(pk, "Address", "SetBytes"); fn != nil {
		nFull, nID := 0, 0
		for _, cp := range c.calls(fn, byCallee("builtin:copy")) {
			_, a := callArgs(cp.Common())
			sl, _ := a[0].(*ssa.Slice)
			if sl == nil || render(sl.X) != "$r" || render(a[1]) != "$0" {
				c.violate("C36.bytes-form", "SetBytes copies the argument into the address", cp.Pos(), "copy("+render(a[0])+", "+render(a[1])+")")
				continue
			}
			gs := guardsAt(cp.Instr)
			if sl.Low == nil {
				nFull++
				_, okLen := holds(gs, wEQ("len == 21", -(idb+1), t(1, `^len\(\$0\)$`)))
				lo, hi, hasLo, hasHi := boundsOnAll(gs, "$0[0]")
				okT := hasHi && hi <= 1 && (!hasLo || lo >= 0)
				if !okT {
					// switch b[0] { case 0, 1: } gives alternatives
					okT = true
					for _, alt := range altGuards(cp.Instr.Block()) {
						l, h, hl, hh := boundsOnAll(alt, "$0[0]")
						if !(hl && hh && l == h && (l == 0 || l == 1)) {
							okT = false
						}
					}
				}
				c.check(okLen && okT, "C36.bytes-form", "full form accepted only as 21 bytes with type byte 0 or 1", cp.Pos(), "len == 21 ∧ b[0] ∈ {0,1}", "the 21-byte form is stored without checking length and type byte: "+guardsString(gs))
			} else {
				nID++
				k, _ := constInt(sl.Low)
				_, okLen := holds(gs, wEQ("len == 20", -idb, t(1, `^len\(\$0\)$`)))
				// type byte set to 0 on this path
				okZ := false
				for _, b := range fn.Blocks {
					for _, in := range b.Instrs {
						if st, ok := in.(*ssa.Store); ok && st.Block() == cp.Instr.Block() {
							if ia, ok := st.Addr.(*ssa.IndexAddr); ok && isZeroConst(ia.Index) && render(ia.X) == "$r" && isZeroConst(st.Val) {
								okZ = true
							}
						}
					}
				}
				c.check(okLen && k == 1 && okZ, "C36.bytes-form", "id form accepted only as 20 bytes, stored as an account", cp.Pos(), "len == 20 → a[0]=0; copy(a[1:], b)", "the 20-byte form is stored without its checks")
			}
		}
		c.check(nFull == 1 && nID == 1, "C36.bytes-form", "SetBytes has the two byte forms", fn.Pos(), "21 / 20", fmt.Sprintf("%d full, %d id copies", nFull, nID))
		for _, e := range exitAlts(fn) {
			if !provablyNil(e.Results[0], e.Guards) {
				continue
			}
			ok := false
			for _, cp := range c.calls(fn, byCallee("builtin:copy")) {
				if dominatesInstr(cp.Instr, e.Ret) {
					ok = true
				}
			}
			c.check(ok, "C36.bytes-form", "SetBytes succeeds only after storing", e.pos(), "copy dominates", "SetBytes returns nil without storing")
		}
	}
	if fn := c.mustFn(pk, "Address", "Bytes"); fn != nil {
		for _, e := range exitAlts(fn) {
			r := render(e.Results[0])
			ab, _ := c.constVal(pk, "AddressBytes")
			c.check(r == "$r[:]" || r == fmt.Sprintf("$r[0:%d]", ab) || r == fmt.Sprintf("$r[:%d]", ab) || r == "$r[0:]", "C36.bytes-form", "Bytes is the 21-byte array", e.pos(), "a[:]", "Bytes returns "+r)
		}
	}
	if fn := c.mustFn(pk, "Address", "RLPDecodeSelf"); fn != nil {
		sb := c.calls(fn, byCallee("Address).SetBytes"))
		ok := len(sb) == 1
		if ok {
			for _, e := range successAlts(fn) {
				if unwrap(e.Results[0]) != sb[0].Instr.Value() {
					ok = false
				}
			}
		}
		c.check(ok, "C36.bytes-form", "decoding goes through SetBytes and reports its error", fn.Pos(), "return a.SetBytes(bs)", "RLPDecodeSelf can succeed without SetBytes accepting the bytes")
	}
	if fn := c.mustFn(pk, "Address", "RLPEncodeSelf"); fn != nil {
		ok := false
		for _, cs := range c.calls(fn, byMethod("Encode")) {
			_, a := callArgs(cs.Common())
			ok = strings.Contains(render(a[0]), "$r[:]")
		}
		c.check(ok, "C36.bytes-form", "encoding writes the 21-byte array", fn.Pos(), "Encode(a[:])", "RLPEncodeSelf writes something else")
	}
}

// altGuardsIn: alternatives of guards accumulated along paths from the loop
// header h to block p that stay inside body, plus the edge p→h. Bounded.
func altGuardsIn(p, h *ssa.BasicBlock, body map[*ssa.BasicBlock]bool) [][]Guard {
	var out [][]Guard
	var walk func(b *ssa.BasicBlock, acc []Guard, seen map[*ssa.BasicBlock]bool)
	walk = func(b *ssa.BasicBlock, acc []Guard, seen map[*ssa.BasicBlock]bool) {
		if len(out) > 64 {
			return
		}
		if b == h {
			out = append(out, acc)
			return
		}
		for _, q := range b.Preds {
			if !body[q] || seen[q] {
				continue
			}
			s2 := map[*ssa.BasicBlock]bool{}
			for k := range seen {
				s2[k] = true
			}
			s2[q] = true
			walk(q, append(append([]Guard{}, acc...), edgeGuard(q, b)...), s2)
		}
	}
	walk(p, edgeGuard(p, h), map[*ssa.BasicBlock]bool{p: true})
	return out
}
