package main

import (
	"fmt"
	"go/token"
	"go/types"
	"regexp"
	"sort"
	"strings"

	"golang.org/x/tools/go/ssa"
)

// Lin is a linear form Σ cᵢ·atomᵢ + K over rendered SSA atoms.
type Lin struct {
	T map[string]int64
	K int64
}

func newLin() Lin { return Lin{T: map[string]int64{}} }

func (l Lin) add(o Lin, s int64) Lin {
	r := newLin()
	for a, c := range l.T {
		r.T[a] += c
	}
	for a, c := range o.T {
		r.T[a] += s * c
	}
	r.K = l.K + s*o.K
	for a, c := range r.T {
		if c == 0 {
			delete(r.T, a)
		}
	}
	return r
}

func (l Lin) scale(s int64) Lin {
	r := newLin()
	for a, c := range l.T {
		if c*s != 0 {
			r.T[a] = c * s
		}
	}
	r.K = l.K * s
	return r
}

func (l Lin) atoms() []string {
	var as []string
	for a := range l.T {
		as = append(as, a)
	}
	sort.Strings(as)
	return as
}

func (l Lin) String() string {
	var parts []string
	for _, a := range l.atoms() {
		parts = append(parts, fmt.Sprintf("%+d*%s", l.T[a], a))
	}
	if l.K != 0 || len(parts) == 0 {
		parts = append(parts, fmt.Sprintf("%+d", l.K))
	}
	return strings.Join(parts, " ")
}

func isIntType(t types.Type) bool {
	b, ok := t.Underlying().(*types.Basic)
	return ok && b.Info()&types.IsInteger != 0
}

func isBigIntPtr(t types.Type) bool {
	return types.TypeString(t, nil) == "*math/big.Int"
}

// linOf linearises an integer-valued SSA value.
func linOf(v ssa.Value) Lin { return linOfD(v, 10) }

func linOfD(v ssa.Value, d int) Lin {
	r := newLin()
	if d <= 0 {
		r.T[render(v)] = 1
		return r
	}
	switch x := v.(type) {
	case *ssa.Const:
		if n, ok := constInt(x); ok {
			r.K = n
			return r
		}
	case *ssa.Convert:
		if isIntType(x.X.Type()) && isIntType(x.Type()) {
			return linOfD(x.X, d-1)
		}
	case *ssa.ChangeType:
		return linOfD(x.X, d-1)
	case *ssa.BinOp:
		switch x.Op {
		case token.ADD:
			return linOfD(x.X, d-1).add(linOfD(x.Y, d-1), 1)
		case token.SUB:
			return linOfD(x.X, d-1).add(linOfD(x.Y, d-1), -1)
		case token.MUL:
			a, b := linOfD(x.X, d-1), linOfD(x.Y, d-1)
			if len(a.T) == 0 {
				return b.scale(a.K)
			}
			if len(b.T) == 0 {
				return a.scale(b.K)
			}
		case token.QUO:
			b := linOfD(x.Y, d-1)
			if len(b.T) == 0 && b.K != 0 {
				a := linOfD(x.X, d-1)
				r.T[fmt.Sprintf("div(%s,%d)", a.String(), b.K)] = 1
				return r
			}
		case token.SHL:
			b := linOfD(x.Y, d-1)
			if len(b.T) == 0 && b.K >= 0 && b.K < 62 {
				return linOfD(x.X, d-1).scale(1 << uint(b.K))
			}
		}
	case *ssa.Call:
		// len(x) etc. stay atoms
	}
	r.T[render(v)] = 1
	return r
}

// Pred is a normalised branch predicate.
//
//	ge:   L >= 0       eq: L == 0       ne: L != 0     (integers / big.Int order)
//	same: A equals B (Pol) — byte/pointer/interface/string equality
//	bool: atom is true (Pol)
type Pred struct {
	Kind string
	L    Lin
	A, B string
	Pol  bool
	Src  string
}

func (p Pred) String() string {
	switch p.Kind {
	case "ge":
		return p.L.String() + " >= 0"
	case "eq":
		return p.L.String() + " == 0"
	case "ne":
		return p.L.String() + " != 0"
	case "same":
		if p.Pol {
			return "same{" + p.A + " , " + p.B + "}"
		}
		return "differ{" + p.A + " , " + p.B + "}"
	}
	if p.Pol {
		return p.A
	}
	return "!" + p.A
}

func sorted2(a, b string) (string, string) {
	if a > b {
		return b, a
	}
	return a, b
}

// bigCmpCall recognises a.Cmp(b) on *big.Int (or types embedding it with a Cmp(*big.Int) method) and a.Sign().
func bigCmpCall(v ssa.Value) (l Lin, ok bool) {
	call, isCall := v.(*ssa.Call)
	if !isCall {
		return
	}
	cc := call.Common()
	recv, args := callArgs(cc)
	if recv == nil {
		return
	}
	switch methodName(cc) {
	case "Cmp":
		if len(args) == 1 && (isBigIntPtr(args[0].Type()) || isBigIntPtr(recv.Type())) {
			l = newLin()
			l.T[bigAtom(recv)] += 1
			l.T[bigAtom(args[0])] -= 1
			for a, c := range l.T {
				if c == 0 {
					delete(l.T, a)
				}
			}
			return l, true
		}
	case "Sign":
		if len(args) == 0 {
			l = newLin()
			l.T[bigAtom(recv)] = 1
			return l, true
		}
	}
	return
}

// bigAtom renders a big.Int operand; &x.Int (embedded big.Int of HexInt) is rendered as x.
func bigAtom(v ssa.Value) string {
	s := render(v)
	s = strings.TrimSuffix(s, ".Int")
	s = strings.TrimPrefix(s, "&")
	return s
}

// predOf normalises a guard.
func predOf(g Guard) Pred {
	p := predOfVal(g.Cond, g.Pol)
	// a length is never negative: −len(x) ≥ 0 (written len(x) <= 0, len(x) < 1, !(len(x) > 0)) is len(x) == 0
	if p.Kind == "ge" && p.L.K == 0 && len(p.L.T) == 1 {
		for a, k := range p.L.T {
			if k == -1 && strings.HasPrefix(a, "len(") {
				p = Pred{Kind: "eq", L: Lin{T: map[string]int64{a: 1}}}
			}
		}
	}
	p.Src = g.String()
	return p
}

func predOfVal(v ssa.Value, pol bool) Pred {
	v, pol = stripNot(v, pol)
	switch x := v.(type) {
	case *ssa.BinOp:
		op := x.Op
		switch op {
		case token.LSS, token.LEQ, token.GTR, token.GEQ, token.EQL, token.NEQ:
			// big.Int sign comparisons
			if l, ok := bigCmpCall(x.X); ok {
				if k, isK := constInt(x.Y); isK {
					return signPred(l, op, k, pol)
				}
			}
			if l, ok := bigCmpCall(x.Y); ok {
				if k, isK := constInt(x.X); isK {
					return signPred(l, flipOp(op), k, pol)
				}
			}
			// bytes.Compare(a, b) == 0 / != 0 is bytes.Equal(a, b) / its negation
			if op == token.EQL || op == token.NEQ {
				for _, pr := range [][2]ssa.Value{{x.X, x.Y}, {x.Y, x.X}} {
					if cl, ok := pr[0].(*ssa.Call); ok && calleeName(cl.Common()) == "bytes.Compare" && isZeroConst(pr[1]) {
						_, ca := callArgs(cl.Common())
						a, b := sorted2(render(ca[0]), render(ca[1]))
						eq := op == token.EQL
						if !pol {
							eq = !eq
						}
						return Pred{Kind: "same", A: a, B: b, Pol: eq}
					}
				}
			}
			if isIntType(x.X.Type()) && isIntType(x.Y.Type()) {
				a, b := linOf(x.X), linOf(x.Y)
				if !pol {
					op = negOp(op)
				}
				switch op {
				case token.LSS: // a < b  <=> b-a-1 >= 0
					l := b.add(a, -1)
					l.K--
					return Pred{Kind: "ge", L: l}
				case token.LEQ:
					return Pred{Kind: "ge", L: b.add(a, -1)}
				case token.GTR:
					l := a.add(b, -1)
					l.K--
					return Pred{Kind: "ge", L: l}
				case token.GEQ:
					return Pred{Kind: "ge", L: a.add(b, -1)}
				case token.EQL:
					return Pred{Kind: "eq", L: normSign(a.add(b, -1))}
				case token.NEQ:
					l := normSign(a.add(b, -1))
					// a length is never negative: len(x) != 0  <=>  len(x) - 1 >= 0
					if l.K == 0 && len(l.T) == 1 {
						for at, k := range l.T {
							if k == 1 && strings.HasPrefix(at, "len(") {
								l.K = -1
								return Pred{Kind: "ge", L: l}
							}
						}
					}
					return Pred{Kind: "ne", L: l}
				}
			}
			if op == token.EQL || op == token.NEQ {
				a, b := sorted2(render(x.X), render(x.Y))
				if op == token.NEQ {
					pol = !pol
				}
				return Pred{Kind: "same", A: a, B: b, Pol: pol}
			}
		}
	case *ssa.Call:
		cc := x.Common()
		recv, args := callArgs(cc)
		name := methodName(cc)
		// a private single-expression boolean helper is read through: f(a, b) with
		// `func f(x, y T) bool { return <expr over x, y> }` is the predicate <expr>[x:=a, y:=b]
		if inlineHelpers {
			if p, ok := inlineBoolHelper(x, pol); ok {
				return p
			}
		}
		if name == "Equal" {
			if recv == nil && len(args) == 2 { // bytes.Equal(a,b)
				a, b := sorted2(render(args[0]), render(args[1]))
				return Pred{Kind: "same", A: a, B: b, Pol: pol}
			}
			if recv != nil && len(args) == 1 { // a.Equal(b)
				a, b := sorted2(render(recv), render(args[0]))
				return Pred{Kind: "same", A: a, B: b, Pol: pol}
			}
		}
	}
	return Pred{Kind: "bool", A: render(v), Pol: pol}
}

func normSign(l Lin) Lin {
	as := l.atoms()
	if len(as) > 0 && l.T[as[0]] < 0 {
		return l.scale(-1)
	}
	if len(as) == 0 && l.K < 0 {
		return l.scale(-1)
	}
	return l
}

func negOp(op token.Token) token.Token {
	switch op {
	case token.LSS:
		return token.GEQ
	case token.LEQ:
		return token.GTR
	case token.GTR:
		return token.LEQ
	case token.GEQ:
		return token.LSS
	case token.EQL:
		return token.NEQ
	case token.NEQ:
		return token.EQL
	}
	return op
}

func flipOp(op token.Token) token.Token {
	switch op {
	case token.LSS:
		return token.GTR
	case token.LEQ:
		return token.GEQ
	case token.GTR:
		return token.LSS
	case token.GEQ:
		return token.LEQ
	}
	return op
}

// signPred: sign(l) <op> k, with sign ∈ {-1,0,1}.
func signPred(l Lin, op token.Token, k int64, pol bool) Pred {
	allowed := map[int64]bool{}
	for _, s := range []int64{-1, 0, 1} {
		var r bool
		switch op {
		case token.LSS:
			r = s < k
		case token.LEQ:
			r = s <= k
		case token.GTR:
			r = s > k
		case token.GEQ:
			r = s >= k
		case token.EQL:
			r = s == k
		case token.NEQ:
			r = s != k
		}
		if r == pol {
			allowed[s] = true
		}
	}
	neg := l.scale(-1)
	switch {
	case allowed[1] && !allowed[0] && !allowed[-1]:
		l.K--
		return Pred{Kind: "ge", L: l}
	case allowed[-1] && !allowed[0] && !allowed[1]:
		neg.K--
		return Pred{Kind: "ge", L: neg}
	case allowed[0] && !allowed[1] && !allowed[-1]:
		return Pred{Kind: "eq", L: normSign(l)}
	case allowed[1] && allowed[-1] && !allowed[0]:
		return Pred{Kind: "ne", L: normSign(l)}
	case allowed[1] && allowed[0] && !allowed[-1]:
		return Pred{Kind: "ge", L: l}
	case allowed[-1] && allowed[0] && !allowed[1]:
		return Pred{Kind: "ge", L: neg}
	}
	return Pred{Kind: "bool", A: "trivial-sign-test", Pol: true}
}

// ------------------------------------------------------------------- wants

type wterm struct {
	c  int64
	re *regexp.Regexp
}

// Want is a required predicate; atoms are matched by regular expression on
// their rendering.
type Want struct {
	Kind  string // ge / eq / ne / same / bool
	Terms []wterm
	K     int64
	A, B  *regexp.Regexp
	Pol   bool
	Desc  string
}

func t(c int64, re string) wterm { return wterm{c, regexp.MustCompile(re)} }

func wGE(desc string, k int64, ts ...wterm) Want {
	return Want{Kind: "ge", Terms: ts, K: k, Desc: desc}
}
func wEQ(desc string, k int64, ts ...wterm) Want {
	return Want{Kind: "eq", Terms: ts, K: k, Desc: desc}
}
func wNE(desc string, k int64, ts ...wterm) Want {
	return Want{Kind: "ne", Terms: ts, K: k, Desc: desc}
}
func wSame(desc, a, b string) Want {
	return Want{Kind: "same", A: regexp.MustCompile(a), B: regexp.MustCompile(b), Pol: true, Desc: desc}
}
func wDiffer(desc, a, b string) Want {
	return Want{Kind: "same", A: regexp.MustCompile(a), B: regexp.MustCompile(b), Pol: false, Desc: desc}
}
func wTrue(desc, a string) Want {
	return Want{Kind: "bool", A: regexp.MustCompile(a), Pol: true, Desc: desc}
}
func wFalse(desc, a string) Want {
	return Want{Kind: "bool", A: regexp.MustCompile(a), Pol: false, Desc: desc}
}

// matchTerms finds the sign s (±1, or only +1 when !allowFlip) such that the
// found linear part equals s × the wanted one, matching atoms by regexp
// (bijection).
func matchTerms(found Lin, ts []wterm, allowFlip bool) (int64, bool) {
	as := found.atoms()
	if len(as) != len(ts) {
		return 0, false
	}
	signs := []int64{1}
	if allowFlip {
		signs = []int64{1, -1}
	}
	for _, s := range signs {
		used := make([]bool, len(as))
		var rec func(i int) bool
		rec = func(i int) bool {
			if i == len(ts) {
				return true
			}
			for j, a := range as {
				if used[j] || found.T[a] != s*ts[i].c || !ts[i].re.MatchString(a) {
					continue
				}
				used[j] = true
				if rec(i + 1) {
					return true
				}
				used[j] = false
			}
			return false
		}
		if rec(0) {
			return s, true
		}
	}
	return 0, false
}

// implies: does found predicate p establish want w?
func implies(p Pred, w Want) bool {
	switch w.Kind {
	case "bool":
		return p.Kind == "bool" && p.Pol == w.Pol && w.A.MatchString(p.A)
	case "same":
		if p.Kind != "same" || p.Pol != w.Pol {
			return false
		}
		return (w.A.MatchString(p.A) && w.B.MatchString(p.B)) || (w.A.MatchString(p.B) && w.B.MatchString(p.A))
	case "ge":
		switch p.Kind {
		case "ge":
			if _, ok := matchTerms(p.L, w.Terms, false); ok {
				return p.L.K <= w.K // L+Kp>=0 and Kp<=Kw  =>  L+Kw>=0
			}
		case "eq": // s*L' + ... : L'+Kp == 0
			if s, ok := matchTerms(p.L, w.Terms, true); ok {
				// wanted linear part = s*found part = s*(-Kp); need s*(-Kp) + Kw >= 0
				return -s*p.L.K+w.K >= 0
			}
		}
	case "eq":
		if p.Kind == "eq" {
			if s, ok := matchTerms(p.L, w.Terms, true); ok {
				return p.L.K == s*w.K
			}
		}
	case "ne":
		switch p.Kind {
		case "ne":
			if s, ok := matchTerms(p.L, w.Terms, true); ok {
				return p.L.K == s*w.K
			}
		case "ge": // T + Kp >= 0 ; want s*T... != -Kw
			if s, ok := matchTerms(p.L, w.Terms, true); ok {
				// found part F >= -Kp. wanted part W = s*F. want W + Kw != 0.
				if s == 1 {
					return -p.L.K+w.K > 0
				}
				return p.L.K+w.K < 0
			}
		}
	}
	return false
}

// holds reports whether any guard establishes the want; returns the witness.
func holds(gs []Guard, w Want) (string, bool) {
	// an equality written as two bounds: T ≥ k and T ≤ k (e.g. `n < K || n > K` rejected)
	if w.Kind == "eq" {
		var lo, hi *int64
		for _, g := range gs {
			p := predOf(g)
			if p.Kind != "ge" {
				continue
			}
			if s, ok := matchTerms(p.L, w.Terms, true); ok {
				if s == 1 { // T + Kp ≥ 0  →  T ≥ −Kp
					v := -p.L.K
					if lo == nil || v > *lo {
						lo = &v
					}
				} else { // −T + Kp ≥ 0  →  T ≤ Kp
					v := p.L.K
					if hi == nil || v < *hi {
						hi = &v
					}
				}
			}
		}
		if lo != nil && hi != nil && *lo == *hi && *lo == -w.K {
			return fmt.Sprintf("both bounds meet at %d", *lo), true
		}
	}
	for _, g := range gs {
		p := predOf(g)
		if implies(p, w) {
			return p.String(), true
		}
		// second reading: a single-expression boolean helper read through
		if c, _ := stripNot(g.Cond, g.Pol); c != nil {
			if _, isCall := c.(*ssa.Call); isCall {
				inlineHelpers = true
				p2 := predOf(g)
				inlineHelpers = false
				if implies(p2, w) {
					return p2.String() + " (via " + render(c) + ")", true
				}
			}
		}
	}
	// value helpers read through: a call of a small local single-result helper is rendered as the
	// value it returns (the expression before it was moved into the helper)
	if !inlineValueHelpers {
		inlineValueHelpers = true
		for _, g := range gs {
			p := predOf(g)
			if implies(p, w) {
				inlineValueHelpers = false
				return p.String() + " (value helper read through)", true
			}
		}
		inlineValueHelpers = false
	}
	// third reading: the guard tests the result of a local helper against nil; a want that does not
	// speak about parameters holds here if it holds on every exit of the helper that can produce
	// such a result (the test moved into the helper with the code it guarded)
	if helperDepth == 0 {
		for _, g := range gs {
			if wit, ok := helperReadThrough(g, w); ok {
				return wit, true
			}
		}
	}
	return "", false
}

var helperDepth int

func helperReadThrough(g Guard, w Want) (string, bool) {
	cond, pol := stripNot(g.Cond, g.Pol)
	bo, ok := cond.(*ssa.BinOp)
	if !ok || g.At == nil {
		return "", false
	}
	// which operand is the helper's result, and which results does the guard select?
	//   nil-ness:   r == nil  → the exits that can return nil (for an error result: the success exits)
	//               r != nil  → the exits returning something other than the nil constant
	//   index form: r >= 0 (r > -1, r != -1, !(r < 0)) → the exits not returning a negative constant
	var v ssa.Value
	mode := ""
	switch {
	case (bo.Op == token.EQL || bo.Op == token.NEQ) && isNilConst(bo.Y):
		v = bo.X
	case (bo.Op == token.EQL || bo.Op == token.NEQ) && isNilConst(bo.X):
		v = bo.Y
	}
	if v != nil {
		if (bo.Op == token.EQL) == pol {
			mode = "nil"
		} else {
			mode = "nonnil"
		}
	} else {
		p := predOf(g)
		_, xIsConst := bo.X.(*ssa.Const)
		_, yIsConst := bo.Y.(*ssa.Const)
		if xIsConst == yIsConst {
			return "", false
		}
		v = bo.X
		if xIsConst {
			v = bo.Y
		}
		nonNeg := false
		switch p.Kind {
		case "ge":
			nonNeg = len(p.L.T) == 1 && p.L.K == 0 && p.L.T[render(v)] == 1
		case "ne":
			nonNeg = len(p.L.T) == 1 && p.L.K == 1 && p.L.T[render(v)] == 1 // r + 1 != 0
		}
		if !nonNeg {
			return "", false
		}
		mode = "index"
	}
	idx := 0
	v = unwrap(v)
	if ex, isEx := v.(*ssa.Extract); isEx {
		idx, v = ex.Index, ex.Tuple
	}
	call, isCall := v.(*ssa.Call)
	if !isCall {
		return "", false
	}
	callee := call.Common().StaticCallee()
	if callee == nil || len(callee.Blocks) == 0 || callee.Pkg == nil || callee.Pkg != g.At.Parent().Pkg || callee == g.At.Parent() {
		return "", false
	}
	var exits []exitAlt
	switch mode {
	case "nil":
		if idx != errResultIndex(callee) {
			return "", false
		}
		exits = successAlts(callee)
	case "nonnil":
		for _, e := range exitAlts(callee) {
			if idx < len(e.Results) && !isNilConst(e.Results[idx]) {
				exits = append(exits, e)
			}
		}
	case "index":
		for _, e := range exitAlts(callee) {
			if idx >= len(e.Results) {
				return "", false
			}
			if k, isK := constInt(e.Results[idx]); isK && k < 0 {
				continue
			}
			exits = append(exits, e)
		}
	}
	if len(exits) == 0 {
		return "", false
	}
	// the helper's guards are read in the caller's vocabulary: its parameters become the arguments
	sub := map[string]string{}
	for i, prm := range callee.Params {
		if i < len(call.Common().Args) {
			sub[render(prm)] = render(call.Common().Args[i])
		}
	}
	rw := func(t string) string {
		return paramRefRe.ReplaceAllStringFunc(t, func(m string) string {
			if v, ok := sub[m]; ok {
				return v
			}
			return m
		})
	}
	helperDepth++
	defer func() { helperDepth-- }()
	for _, e := range exits {
		found := false
		for _, eg := range e.Guards {
			for _, inl := range []bool{false, true} {
				inlineHelpers = inl
				p := predOf(eg)
				inlineHelpers = false
				switch p.Kind {
				case "ge", "eq", "ne":
					nt := map[string]int64{}
					for a, c := range p.L.T {
						nt[rw(a)] += c
					}
					p.L.T = nt
				case "same":
					p.A, p.B = sorted2(rw(p.A), rw(p.B))
				case "bool":
					p.A = rw(p.A)
				}
				if implies(p, w) {
					found = true
				}
			}
		}
		if !found {
			return "", false
		}
	}
	return fmt.Sprintf("every %s exit of %s (%d)", mode, callee.Name(), len(exits)), true
}

func guardsString(gs []Guard) string {
	var s []string
	for _, g := range gs {
		s = append(s, predOf(g).String())
	}
	if len(s) == 0 {
		return "(no dominating guards)"
	}
	return strings.Join(s, " ; ")
}

// requireGuard records an obligation that want holds under guards gs.
func (c *Ctx) requireGuard(rule, construct string, pos token.Pos, gs []Guard, w Want) bool {
	if wit, ok := holds(gs, w); ok {
		c.ok(rule, construct+" ⊢ "+w.Desc, pos, "established by "+wit)
		return true
	}
	c.violate(rule, construct+" ⊢ "+w.Desc, pos, "not established on this path; guards here: "+guardsString(gs))
	return false
}

// requireAny: at least one of the wants holds.
func (c *Ctx) requireAny(rule, construct string, pos token.Pos, gs []Guard, desc string, ws ...Want) bool {
	for _, w := range ws {
		if wit, ok := holds(gs, w); ok {
			c.ok(rule, construct+" ⊢ "+desc, pos, "established by "+wit)
			return true
		}
	}
	c.violate(rule, construct+" ⊢ "+desc, pos, "not established on this path; guards here: "+guardsString(gs))
	return false
}

var inlineDepth int

// inlineHelpers: when set, predOfVal reads single-expression boolean helpers
// through (holds tries both readings of every guard).
var inlineHelpers bool

// inlineBoolHelper reads a call of a statically known function whose body is a
// single basic block returning one boolean expression of its parameters (no
// other calls than pure built-ins/len) as that expression with the arguments
// substituted. Anything else is left alone.
func inlineBoolHelper(call *ssa.Call, pol bool) (Pred, bool) {
	if inlineDepth > 2 {
		return Pred{}, false
	}
	fn := call.Common().StaticCallee()
	if fn == nil || len(fn.Blocks) != 1 || fn.Signature.Results().Len() != 1 {
		return Pred{}, false
	}
	if bt, ok := fn.Signature.Results().At(0).Type().Underlying().(*types.Basic); !ok || bt.Kind() != types.Bool {
		return Pred{}, false
	}
	var ret *ssa.Return
	for _, in := range fn.Blocks[0].Instrs {
		switch y := in.(type) {
		case *ssa.Return:
			ret = y
		case *ssa.Call:
			if _, isBuiltin := y.Common().Value.(*ssa.Builtin); !isBuiltin {
				return Pred{}, false // the helper calls something: not a pure expression
			}
		case *ssa.Store, *ssa.MapUpdate, *ssa.Send, *ssa.Go, *ssa.Defer, *ssa.Panic:
			return Pred{}, false
		}
	}
	if ret == nil || len(ret.Results) != 1 {
		return Pred{}, false
	}
	if _, isConst := ret.Results[0].(*ssa.Const); isConst {
		return Pred{}, false
	}
	inlineDepth++
	p := predOfVal(ret.Results[0], pol)
	inlineDepth--
	// substitute the callee's parameter names by the rendered arguments
	sub := map[string]string{}
	args := call.Common().Args
	for i, prm := range fn.Params {
		if i < len(args) {
			sub[render(prm)] = render(args[i])
		}
	}
	re := regexp.MustCompile(`\$(r|[0-9]+)`)
	rw := func(t string) string {
		return re.ReplaceAllStringFunc(t, func(m string) string {
			if v, ok := sub[m]; ok {
				return v
			}
			return m
		})
	}
	switch p.Kind {
	case "ge", "eq", "ne":
		nt := map[string]int64{}
		for a, c := range p.L.T {
			nt[rw(a)] += c
		}
		p.L.T = nt
	case "same":
		p.A, p.B = sorted2(rw(p.A), rw(p.B))
	case "bool":
		p.A = rw(p.A)
	}
	return p, true
}

// impliedLin: some guard establishes target ≥ 0 (same atoms and coefficients, constant no larger).
func impliedLin(gs []Guard, target Lin) (string, bool) {
	for _, g := range gs {
		p := predOf(g)
		if p.Kind == "eq" {
			// T + K == 0 gives both T + K ≥ 0 and −T − K ≥ 0
			for _, s := range []int64{1, -1} {
				q := p.L.scale(s)
				if sameTerms(q, target) && q.K <= target.K {
					return p.String(), true
				}
			}
			continue
		}
		if p.Kind != "ge" {
			continue
		}
		if sameTerms(p.L, target) && p.L.K <= target.K {
			return p.String(), true
		}
	}
	return "", false
}

func sameTerms(a, b Lin) bool {
	if len(a.T) != len(b.T) {
		return false
	}
	for k, v := range a.T {
		if b.T[k] != v {
			return false
		}
	}
	return true
}
