package main

import (
	"fmt"
	"go/token"
	"go/types"
	"sort"
	"strings"

	"golang.org/x/tools/go/ssa"
)

// C08 — block encoding round-trips and binds body to header.
func init() {
	register(&Prop{
		ID:             "C08",
		Pkgs:           []string{"block", "consensus"},
		ThoroughPkgs:   []string{"./..."},
		Run:            runC08,
		MinObligations: 30,
		Technique:      "static analysis: encode/decode field-table agreement from the syntax tree (all RLPEncodeSelf/RLPDecodeSelf pairs), guard dominance binding every body-derived value to a header hash on the accepting exit, error discipline (every fallible call's error guards acceptance, every may-be-nil result is tested before use), header↔block field mapping agreement between the encoder and both decoders",
		LevelText:      "Decides: for every type with an RLPEncodeSelf/RLPDecodeSelf pair in the list-of-fields idiom (the two block formats and the commit vote list in quick tier, all such types of the repository in thorough tier) the encoder's field list equals the decoder's pointer list, short forms are prefixes, each has its `cnt == k` arm and resets the omitted tail; NewBlockDataFromReader accepts only behind nil errors of every fallible call and non-nil tests of nil-able results, and every value derived from the body that is stored in the returned block is bound on the accepting exit by an equality between a digest of that value and a header-derived value; the block id hashes exactly _headerFormat(), and each header field is mapped to the same block field by the encoder and by both decoders; the three block constructors set the same immutable field set.",
		LevelNote:      "Does not decide value-level round-trip of the codec (C23) nor crash-freedom of callee decoders (transaction, vote list, BTP digest) beyond their error returns being honoured here.",
		Explanation:    "C08 rules: codec-pairs (K4 from the AST, sweep), error-discipline (K1 over every error-returning call of the decoder), nil-discipline (K7), body-binding (K1+K5), header-bijection (K4 derived from _headerFormat), id-hash (K5), constructor-siblings (K4).",
		Mutants: []Mutant{
			{Name: "decode-order-swapped", File: "block/blockv2.go", Old: "\t\t&bh.VotesHash,\n\t\t&bh.NextValidatorsHash,\n\t\t&bh.PatchTransactionsHash,", New: "\t\t&bh.NextValidatorsHash,\n\t\t&bh.VotesHash,\n\t\t&bh.PatchTransactionsHash,", Desc: "decoder reads two hashes in swapped order"},
			{Name: "short-arm-wrong-count", File: "block/blockv2.go", Old: "if cnt == 11 && err == io.EOF {", New: "if cnt == 10 && err == io.EOF {", Desc: "legacy header form (11 fields) no longer accepted"},
			{Name: "body-short-form-not-reset", File: "block/blockv2.go", Old: "\tif cnt == 3 && err == io.EOF {\n\t\tbb.BTPDigest = nil\n\t\treturn nil\n\t}", New: "\tif cnt == 3 && err == io.EOF {\n\t\treturn nil\n\t}", Desc: "stale BTP digest survives decoding a short body"},
			{Name: "btp-digest-unbound-without-commitment", File: "block/handlerv2.go", Old: "if !bytes.Equal(bdHashInResult, bd.Hash()) {", New: "if len(bdHashInResult) > 0 && !bytes.Equal(bdHashInResult, bd.Hash()) {", Desc: "digest in the body unchecked when the header commits to none"},
			{Name: "digest-error-dropped", File: "block/handlerv2.go", Old: "\tbd, err := btp.NewDigestFromBytes(bodyFormat.BTPDigest)\n\tif err != nil {\n\t\treturn nil, err\n\t}\n", New: "\tbd, err := btp.NewDigestFromBytes(bodyFormat.BTPDigest)\n", Desc: "malformed digest → nil interface dereferenced"},
			{Name: "votes-hash-unchecked", File: "block/handlerv2.go", Old: "\tif !bytes.Equal(votes.Hash(), headerFormat.VotesHash) {\n\t\treturn nil, errors.New(\"bad vote list hash\")\n\t}\n", New: "", Desc: "vote list can be swapped under the header"},
			{Name: "patches-checked-against-normal", File: "block/handlerv2.go", Old: "if !bytes.Equal(patches.Hash(), headerFormat.PatchTransactionsHash) {", New: "if !bytes.Equal(patches.Hash(), patches.Hash()) {", Desc: "patch list compared with itself"},
			{Name: "votes-nil-unchecked", File: "block/handlerv2.go", Old: "\tif votes == nil {\n\t\treturn nil, errors.Errorf(\"invalid votes. bytes=%x\", bodyFormat.Votes)\n\t}\n", New: "", Desc: "undecodable votes → nil interface dereferenced"},
			{Name: "header-field-crossed", File: "block/handlerv2.go", Old: "\t\tprevID:             headerFormat.PrevID,\n\t\tlogsBloom:          txresult.NewLogsBloomFromCompressed(headerFormat.LogsBloom),\n\t\tresult:             headerFormat.Result,\n\t\tpatchTransactions:  patches,\n\t\tnormalTransactions: normalTxs,\n\t\tnextValidatorsHash: headerFormat.NextValidatorsHash,", New: "\t\tprevID:             headerFormat.PrevID,\n\t\tlogsBloom:          txresult.NewLogsBloomFromCompressed(headerFormat.LogsBloom),\n\t\tresult:             headerFormat.Result,\n\t\tpatchTransactions:  patches,\n\t\tnormalTransactions: normalTxs,\n\t\tnextValidatorsHash: headerFormat.VotesHash,", Desc: "decoded block carries another header field as its next-validators hash: id changes after re-encoding"},
			{Name: "id-hashes-body", File: "block/blockv2.go", Old: "\t\tbs := v2Codec.MustMarshalToBytes(b._headerFormat())\n\t\treturn crypto.SHA3Sum256(bs)", New: "\t\tbs := v2Codec.MustMarshalToBytes(b._headerFormat())\n\t\treturn crypto.SHA3Sum256(bs[1:])", Desc: "id is not the hash of the encoded header"},
		},
	})
}

func runC08(c *Ctx) {
	// ---- codec-pairs
	anchored := map[string]bool{"block.V2HeaderFormat": true, "block.V2BodyFormat": true, "consensus.CommitVoteList": true}
	seenAnch := map[string]bool{}
	nSimple, nOther := 0, 0
	var pkgs []string
	for _, p := range c.L.Roots {
		pkgs = append(pkgs, strings.TrimPrefix(p.PkgPath, modPath+"/"))
	}
	sort.Strings(pkgs)
	for _, pr := range pkgs {
		for _, cp := range c.codecPairs(pr) {
			key := c.pkg(pr).Name + "." + cp.Type
			if c.checkCodecPair("C08.codec-pairs", cp, anchored[key]) {
				nSimple++
			} else {
				nOther++
			}
			if anchored[key] {
				seenAnch[key] = true
			}
		}
	}
	for k := range anchored {
		if !seenAnch[k] {
			c.undecided("C08.codec-pairs", k, token.NoPos, "anchored codec pair not found")
		}
	}
	c.okTrivial("C08.codec-pairs", "pairs swept", token.NoPos, fmt.Sprintf("%d pairs in the list-of-fields idiom checked, %d custom pairs skipped, %d packages", nSimple, nOther, len(pkgs)))

	// ---- decoder
	dec := c.mustFn("block", "blockV2Handler", "NewBlockDataFromReader")
	if dec == nil {
		return
	}
	// the two format values
	var hdr, body ssa.Value
	for _, b := range dec.Blocks {
		for _, in := range b.Instrs {
			if al, ok := in.(*ssa.Alloc); ok {
				switch namedOf(al.Type()) {
				case "V2HeaderFormat":
					hdr = al
				case "V2BodyFormat":
					body = al
				}
			}
		}
	}
	if hdr == nil || body == nil {
		c.undecided("C08.body-binding", "decoder formats", dec.Pos(), "header/body format values not found")
		return
	}
	fromHdr := func(v ssa.Value) bool { return derivesFrom(v, func(x ssa.Value) bool { return x == hdr }, 10) }
	fromBody := func(v ssa.Value) bool { return derivesFrom(v, func(x ssa.Value) bool { return x == body }, 10) }

	succ := successAlts(dec)
	if len(succ) == 0 {
		c.undecided("C08.error-discipline", "decoder", dec.Pos(), "no accepting exit")
		return
	}
	// error-discipline: every error produced in the function guards acceptance
	nErr := 0
	for _, b := range dec.Blocks {
		for _, in := range b.Instrs {
			call, ok := in.(*ssa.Call)
			if !ok {
				continue
			}
			res := call.Common().Signature().Results()
			idx := -1
			for i := 0; i < res.Len(); i++ {
				if types.TypeString(res.At(i).Type(), nil) == "error" {
					idx = i
				}
			}
			if idx < 0 {
				continue
			}
			n := methodName(call.Common())
			if n == "Errorf" || n == "New" || n == "Wrap" || n == "Wrapf" {
				continue
			}
			nErr++
			var errV ssa.Value = call
			if res.Len() > 1 {
				errV = nil
				for _, r := range *call.Referrers() {
					if ex, ok := r.(*ssa.Extract); ok && ex.Index == idx {
						errV = ex
					}
				}
			}
			name := "error of " + n + " honoured"
			if errV == nil {
				c.violate("C08.error-discipline", name, call.Pos(), "the error result is discarded, the other results are used unchecked")
				continue
			}
			for _, e := range succ {
				okG := false
				for _, g := range e.Guards {
					if bo, ok := g.Cond.(*ssa.BinOp); ok {
						p := predOf(g)
						if p.Kind == "same" && p.Pol && ((bo.X == errV && isNilConst(bo.Y)) || (bo.Y == errV && isNilConst(bo.X))) {
							okG = true
						}
					}
				}
				c.check(okG, "C08.error-discipline", name, call.Pos(), "acceptance is behind err == nil", "the decoder can accept although "+n+" failed; its other results may be nil")
			}
		}
	}
	if nErr < 5 {
		c.undecided("C08.error-discipline", "fallible calls", dec.Pos(), fmt.Sprintf("expected ≥5, found %d", nErr))
	}
	// nil-discipline: interface results of calls without an error result that are invoked must be nil-tested
	for _, b := range dec.Blocks {
		for _, in := range b.Instrs {
			call, ok := in.(*ssa.Call)
			if !ok || !call.Common().IsInvoke() {
				continue
			}
			recv := call.Common().Value
			src, isCall := recv.(*ssa.Call)
			if !isCall {
				continue
			}
			// only values produced by a decoder-style call (dynamic function value or *FromBytes / decoder) without error result
			if src.Common().Signature().Results().Len() != 1 || !fromBody(src) {
				continue
			}
			c.requireAt("C08.nil-discipline", methodName(call.Common())+" on the decoded "+shortType(recv.Type()), call, wDiffer("value != nil", "^"+regexpQuote(render(recv))+"$", `^nil$`))
		}
	}

	// lookups by hash (…FromHash) return nil when the object is not in the local store: no method call on such a result without a nil test
	for _, d := range []*ssa.Function{dec, c.fn("block", "blockV2Handler", "NewBlockFromHeaderReader")} {
		if d == nil {
			continue
		}
		for _, b := range d.Blocks {
			for _, in := range b.Instrs {
				call, ok := in.(*ssa.Call)
				if !ok || !call.Common().IsInvoke() {
					continue
				}
				src, isCall := call.Common().Value.(*ssa.Call)
				if !isCall || !strings.HasSuffix(methodName(src.Common()), "FromHash") || src.Common().Signature().Results().Len() != 1 {
					continue
				}
				c.requireAt("C08.nil-discipline", d.Name()+": "+methodName(call.Common())+" on the result of "+methodName(src.Common()), call, wDiffer("value != nil", "^"+regexpQuote(render(src))+"$", `^nil$`))
			}
		}
	}

	// ---- the returned block literal
	var lit *ssa.Alloc
	for _, e := range succ {
		if al, ok := unwrap(e.Results[0]).(*ssa.Alloc); ok && namedOf(al.Type()) == "blockV2" {
			lit = al
		}
	}
	if lit == nil {
		c.undecided("C08.body-binding", "returned block", dec.Pos(), "accepting exit does not return a blockV2 literal")
		return
	}
	fields := map[string]ssa.Value{}
	for _, st := range fieldStoresAny([]*ssa.Function{dec}, "blockV2") {
		if st.Addr.X == ssa.Value(lit) {
			fields[fieldName(st.Addr.X.Type(), st.Addr.Field)] = st.Store.Val
		}
	}
	// body-binding
	nBound := 0
	var fnames []string
	for f := range fields {
		fnames = append(fnames, f)
	}
	sort.Strings(fnames)
	for _, f := range fnames {
		v := fields[f]
		if !fromBody(v) {
			continue
		}
		nBound++
		// find, on every accepting exit, an equality guard between something derived from v's source and something derived from the header
		core := v
		if call, ok := v.(*ssa.Call); ok && strings.Contains(calleeName(call.Common()), "MakeCache") {
			core = call.Call.Args[0]
		}
		core = unwrap(core)
		for _, e := range succ {
			bound := false
			wit := ""
			for _, g := range e.Guards {
				p := predOf(g)
				if p.Kind != "same" || !p.Pol {
					continue
				}
				var x, y ssa.Value
				switch cnd := g.Cond.(type) {
				case *ssa.Call:
					_, a := callArgs(cnd.Common())
					if len(a) == 2 {
						x, y = a[0], a[1]
					}
				case *ssa.BinOp:
					x, y = cnd.X, cnd.Y
					for _, side := range []ssa.Value{cnd.X, cnd.Y} {
						if cl, ok := side.(*ssa.Call); ok && calleeName(cl.Common()) == "bytes.Compare" {
							_, ca := callArgs(cl.Common())
							x, y = ca[0], ca[1]
						}
					}
				}
				if x == nil {
					continue
				}
				// the bound side must be the digest of the whole value: core.Hash()
				dv := func(z ssa.Value) bool {
					call, ok := z.(*ssa.Call)
					if !ok || methodName(call.Common()) != "Hash" {
						return false
					}
					recv, _ := callArgs(call.Common())
					return recv != nil && unwrap(recv) == core
				}
				if (dv(x) && fromHdr(y) && !fromBody(y)) || (dv(y) && fromHdr(x) && !fromBody(x)) {
					bound = true
					wit = p.String()
				}
			}
			c.check(bound, "C08.body-binding", "body-derived field "+f+" is bound to the header", e.pos(), "established by "+wit, "the decoded block stores "+render(v)+" taken from the body, and no equality with a header-derived digest guards acceptance: the body can be swapped under the header")
		}
	}
	if nBound < 4 {
		c.undecided("C08.body-binding", "body-derived fields", dec.Pos(), fmt.Sprintf("expected 4 (patches, normal txs, votes, btp digest), found %d", nBound))
	}

	// ---- header-bijection, derived from _headerFormat
	hf := c.mustFn("block", "blockV2", "_headerFormat")
	hr := c.mustFn("block", "blockV2Handler", "NewBlockFromHeaderReader")
	if hf != nil && hr != nil {
		enc := map[string]string{} // header field -> block field it is computed from
		for _, st := range fieldStoresAny([]*ssa.Function{hf}, "V2HeaderFormat") {
			x := fieldName(st.Addr.X.Type(), st.Addr.Field)
			r := render(st.Store.Val)
			bf := ""
			for _, fl := range flowsOf(st.Store.Val, nil) {
				s := render(fl.Src)
				if strings.HasPrefix(s, "$r.") {
					s = strings.TrimPrefix(s, "$r.")
					if i := strings.IndexAny(s, ".("); i >= 0 {
						s = s[:i]
					}
					bf = s
				}
			}
			if bf == "" || bf == "Version" {
				if x != "Version" {
					c.undecided("C08.header-bijection", "header field "+x, st.Store.Pos(), "cannot read the block field it is computed from: "+r)
				}
				continue
			}
			enc[x] = bf
		}
		if len(enc) < 11 {
			c.undecided("C08.header-bijection", "_headerFormat", hf.Pos(), fmt.Sprintf("expected 11 mapped header fields, found %d", len(enc)))
		}
		for _, d := range []*ssa.Function{dec, hr} {
			var h ssa.Value
			var blk *ssa.Alloc
			for _, b := range d.Blocks {
				for _, in := range b.Instrs {
					if al, ok := in.(*ssa.Alloc); ok {
						if namedOf(al.Type()) == "V2HeaderFormat" {
							h = al
						}
						if namedOf(al.Type()) == "blockV2" {
							blk = al
						}
					}
				}
			}
			if h == nil || blk == nil {
				c.undecided("C08.header-bijection", fnName(d), d.Pos(), "header value or block literal not found")
				continue
			}
			got := map[string]ssa.Value{}
			for _, st := range fieldStoresAny([]*ssa.Function{d}, "blockV2") {
				if st.Addr.X == ssa.Value(blk) {
					got[fieldName(st.Addr.X.Type(), st.Addr.Field)] = st.Store.Val
				}
			}
			var xs []string
			for x := range enc {
				xs = append(xs, x)
			}
			sort.Strings(xs)
			for _, x := range xs {
				bf := enc[x]
				v := got[bf]
				name := fmt.Sprintf("%s: block.%s ↔ header.%s", d.Name(), bf, x)
				if v == nil {
					c.violate("C08.header-bijection", name, d.Pos(), "the decoder does not set block field "+bf)
					continue
				}
				// v derives from header.X, or (body-derived) is bound above
				fromX := derivesFrom(v, func(q ssa.Value) bool {
					fa, ok := q.(*ssa.FieldAddr)
					return ok && fa.X == h && fieldName(fa.X.Type(), fa.Field) == x
				}, 10)
				if !fromX && d == dec && fromBody(v) {
					c.ok("C08.header-bijection", name, d.Pos(), "body-derived, hash-bound to header."+x+" (see body-binding)")
					continue
				}
				c.check(fromX, "C08.header-bijection", name, d.Pos(), "derives from header."+x, "block."+bf+" is set from "+render(v)+", but the encoder writes header."+x+" from block."+bf+": re-encoding changes the id")
			}
		}
	}

	// ---- body-bijection: the body writer fills each format field from the block field of the same name
	if bf := c.mustFn("block", "blockV2", "_bodyFormat"); bf != nil {
		n := 0
		for _, st := range fieldStoresAny([]*ssa.Function{bf}, "V2BodyFormat") {
			x := fieldName(st.Addr.X.Type(), st.Addr.Field)
			want := strings.ToLower(x[:1]) + x[1:]
			if x == "BTPDigest" {
				want = "BTPDigest()"
			}
			n++
			okF := false
			src := ""
			for _, fl := range flowsOf(st.Store.Val, nil) {
				src = render(fl.Src)
				if strings.Contains(src, "$r."+want) {
					okF = true
				}
			}
			c.check(okF, "C08.body-bijection", "body."+x+" is written from block."+want, st.Store.Pos(), src, "body."+x+" is written from "+src+": the body no longer matches the hashes in the header and the block does not decode")
		}
		c.check(n == 4, "C08.body-bijection", "body format fields", bf.Pos(), "4", fmt.Sprint(n))
	}
	// ---- version dispatch: an unknown version is an error, never another handler
	if fn := c.mustFn("block", "blockDataFactory", "NewBlockDataFromReader"); fn != nil {
		for _, cs := range c.calls(fn, byMethod("NewBlockDataFromReader")) {
			c.requireAt("C08.version-dispatch", "decoding only with the handler registered for the peeked version", cs.Instr, wTrue("handler found", `\.forVersion\(.*\)#1$`))
			r, _ := callArgs(cs.Common())
			c.check(strings.HasSuffix(render(r), ".forVersion(block.PeekVersion($0)#0)#0"), "C08.version-dispatch", "the handler is the one looked up for that version", cs.Pos(), render(r), "handler is "+render(r))
		}
	}
	// ---- the network-section filter in the header agrees with the digest in the body
	if dec := c.fn("block", "blockV2Handler", "NewBlockDataFromReader"); dec != nil {
		for _, e := range successAlts(dec) {
			_, okF := holds(e.Guards, wSame("header filter = filter of the body digest", `\.NSFilter$`, `\.NetworkSectionFilter\(\)\.Bytes\(\)$`))
			c.check(okF, "C08.body-binding", "decoded block ⊢ header.NSFilter = filter derived from the body's BTP digest", e.pos(), "bytes.Equal(header.NSFilter, bd.NetworkSectionFilter().Bytes())", "a block whose header filter disagrees with its digest is accepted")
		}
	}

	// ---- id-hash
	if id := c.mustFn("block", "blockV2", "ID"); id != nil {
		okID := false
		for _, f := range withAnon(id) {
			for _, rs := range returnSites(f) {
				if render(rs.Results[0]) == "crypto.SHA3Sum256(global:v2Codec.MustMarshalToBytes(free:b._headerFormat()))" || strings.HasPrefix(render(rs.Results[0]), "crypto.SHA3Sum256(") && strings.HasSuffix(render(rs.Results[0]), "._headerFormat()))") {
					okID = true
				}
			}
		}
		c.check(okID, "C08.id-hash", "blockV2.ID = SHA3(encode(_headerFormat()))", id.Pos(), "hash of the encoded header", "the id is not the hash of exactly the encoded header format")
	}
	if mh := c.mustFn("block", "blockV2", "MarshalHeader"); mh != nil {
		for _, rs := range returnSites(mh) {
			c.check(strings.HasSuffix(render(rs.Results[0]), ".Marshal($0,$r._headerFormat())"), "C08.id-hash", "MarshalHeader writes _headerFormat()", rs.pos(), "same format as the id", "writes "+render(rs.Results[0]))
		}
	}

	// ---- constructor-siblings
	sets := map[string]map[string]bool{}
	for _, f := range c.pkgFuncs("block") {
		if f.Name() != "NewBlock" && f.Name() != "NewBlockFromHeaderReader" && f.Name() != "NewBlockDataFromReader" {
			continue
		}
		if f.Signature.Recv() == nil || namedOf(f.Signature.Recv().Type()) != "blockV2Handler" {
			continue
		}
		s := map[string]bool{}
		for _, st := range fieldStoresAny([]*ssa.Function{f}, "blockV2") {
			fn := fieldName(st.Addr.X.Type(), st.Addr.Field)
			if !strings.HasPrefix(fn, "_btp") {
				s[fn] = true
			}
		}
		sets[f.Name()] = s
	}
	if len(sets) != 3 {
		c.undecided("C08.constructor-siblings", "blockV2 constructors", token.NoPos, fmt.Sprintf("expected 3, found %d", len(sets)))
	} else {
		ref := sets["NewBlock"]
		for n, s := range sets {
			var diff []string
			for k := range ref {
				if !s[k] {
					diff = append(diff, "-"+k)
				}
			}
			for k := range s {
				if !ref[k] {
					diff = append(diff, "+"+k)
				}
			}
			sort.Strings(diff)
			c.check(len(diff) == 0, "C08.constructor-siblings", n+" sets the same fields as NewBlock", token.NoPos, fmt.Sprintf("%d fields", len(s)), "field set differs: "+strings.Join(diff, " "))
		}
	}
}

func headerFieldType(h ssa.Value, field string) types.Type {
	pt, ok := h.Type().Underlying().(*types.Pointer)
	if !ok {
		return nil
	}
	st, ok := pt.Elem().Underlying().(*types.Struct)
	if !ok {
		return nil
	}
	for i := 0; i < st.NumFields(); i++ {
		if st.Field(i).Name() == field {
			return st.Field(i).Type()
		}
	}
	return nil
}
