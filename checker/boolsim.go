package main

import (
	"go/constant"
	"go/token"

	"golang.org/x/tools/go/ssa"
)

// A small path-sensitive analysis over a finite boolean domain: the conditions
// a function branches on are classified into named atoms (by the caller); for
// one truth assignment of the atoms the CFG is walked from the entry, taking
// the branch the assignment dictates and both branches where a condition is
// not an atom, and the walk reports whether a target instruction is
// reachable. Rules state a property as "for every assignment under which the
// target is reachable, <formula over the atoms>", which is independent of how
// the code spells and orders its tests (De Morgan, helper flags, nested ifs,
// early returns, accessor calls).

// atomOf classifies a boolean SSA value: (atom name, polarity, true) when the
// value is atom or its negation.
type atomOf func(v ssa.Value) (string, bool, bool)

type boolSim struct {
	fn    *ssa.Function
	atoms atomOf
}

// eval returns the value of a boolean SSA value under env (known=false when it
// depends on something that is not an atom).
func (s *boolSim) eval(v ssa.Value, env map[string]bool, depth int) (val, known bool) {
	if depth > 12 {
		return false, false
	}
	if a, pol, ok := s.atoms(v); ok {
		x, has := env[a]
		if !has {
			return false, false
		}
		return x == pol, true
	}
	switch x := v.(type) {
	case *ssa.Const:
		if x.Value != nil && x.Value.Kind() == constant.Bool {
			return constant.BoolVal(x.Value), true
		}
	case *ssa.UnOp:
		if x.Op == token.NOT {
			b, k := s.eval(x.X, env, depth+1)
			return !b, k
		}
	case *ssa.BinOp:
		a, ka := s.eval(x.X, env, depth+1)
		b, kb := s.eval(x.Y, env, depth+1)
		switch x.Op {
		case token.EQL:
			if ka && kb {
				return a == b, true
			}
		case token.NEQ, token.XOR:
			if ka && kb {
				return a != b, true
			}
		case token.AND:
			if (ka && !a) || (kb && !b) {
				return false, true
			}
			if ka && kb {
				return true, true
			}
		case token.OR:
			if (ka && a) || (kb && b) {
				return true, true
			}
			if ka && kb {
				return false, true
			}
		}
	case *ssa.Phi:
		// a short-circuit materialisation: find the edge control arrives over by walking from the
		// immediate dominator of the phi's block
		start := x.Block().Idom()
		if start == nil {
			return false, false
		}
		preds := s.arrivals(start, x.Block(), env, depth+1)
		if len(preds) == 0 {
			return false, false
		}
		var res *bool
		for p := range preds {
			for i, pb := range x.Block().Preds {
				if pb != p {
					continue
				}
				b, k := s.eval(x.Edges[i], env, depth+1)
				if !k {
					return false, false
				}
				if res != nil && *res != b {
					return false, false
				}
				bb := b
				res = &bb
			}
		}
		if res != nil {
			return *res, true
		}
	}
	return false, false
}

// arrivals: the predecessors of `to` over which control can arrive when it
// starts at `from` under env (both ways where a condition is unknown).
func (s *boolSim) arrivals(from, to *ssa.BasicBlock, env map[string]bool, depth int) map[*ssa.BasicBlock]bool {
	out := map[*ssa.BasicBlock]bool{}
	seen := map[*ssa.BasicBlock]bool{}
	var walk func(b *ssa.BasicBlock)
	walk = func(b *ssa.BasicBlock) {
		if seen[b] {
			return
		}
		seen[b] = true
		for _, sc := range s.succs(b, env, depth) {
			if sc == to {
				out[b] = true
				continue
			}
			if to.Idom() != nil && !from.Dominates(sc) {
				continue
			}
			walk(sc)
		}
	}
	walk(from)
	return out
}

func (s *boolSim) succs(b *ssa.BasicBlock, env map[string]bool, depth int) []*ssa.BasicBlock {
	if len(b.Instrs) == 0 {
		return b.Succs
	}
	if iff, ok := b.Instrs[len(b.Instrs)-1].(*ssa.If); ok && len(b.Succs) == 2 {
		if v, known := s.eval(iff.Cond, env, depth); known {
			if v {
				return b.Succs[:1]
			}
			return b.Succs[1:]
		}
	}
	return b.Succs
}

// reachable: can control reach target under env?
func (s *boolSim) reachable(target ssa.Instruction, env map[string]bool) bool {
	seen := map[*ssa.BasicBlock]bool{}
	var walk func(b *ssa.BasicBlock) bool
	walk = func(b *ssa.BasicBlock) bool {
		if seen[b] {
			return false
		}
		seen[b] = true
		if b == target.Block() {
			return true
		}
		for _, sc := range s.succs(b, env, 0) {
			if walk(sc) {
				return true
			}
		}
		return false
	}
	return walk(s.fn.Blocks[0])
}

// forAll enumerates every assignment of the named atoms.
func forAllAssignments(names []string, f func(env map[string]bool)) {
	n := len(names)
	for m := 0; m < 1<<uint(n); m++ {
		env := map[string]bool{}
		for i, a := range names {
			env[a] = m&(1<<uint(i)) != 0
		}
		f(env)
	}
}
