package main

import (
	"fmt"
	"go/token"
	"go/types"
	"regexp"
	"strings"

	"golang.org/x/tools/go/ssa"
)

// Shared LZW writer/reader agreement rules (C25 and the compressed bloom of C26).

// lzwSym is a tiny symbolic value over the literal width lw:
// either lwc*lw + k (pow=false) or 2^(lw+e) + k (pow=true).
type lzwSym struct {
	pow    bool
	lwc, e int64
	k      int64
	ok     bool
}

func (s lzwSym) String() string {
	if !s.ok {
		return "?"
	}
	if s.pow {
		return fmt.Sprintf("2^(lw%+d)%+d", s.e, s.k)
	}
	return fmt.Sprintf("%d*lw%+d", s.lwc, s.k)
}

func (s lzwSym) eq(o lzwSym) bool { return s.ok && o.ok && s == o }

type lzwEval struct {
	init  *ssa.Function // the init function of the same type (defines clear/eof)
	depth int
}

func fieldOfAddr(v ssa.Value) (string, ssa.Value, bool) {
	fa, ok := v.(*ssa.FieldAddr)
	if !ok {
		return "", nil, false
	}
	return fieldName(fa.X.Type(), fa.Field), fa.X, true
}

// reachingStore: the closest store to the same field that dominates `at` in its function.
func reachingStore(fn *ssa.Function, field string, at ssa.Instruction) *ssa.Store {
	var best *ssa.Store
	for _, b := range fn.Blocks {
		for _, in := range b.Instrs {
			st, ok := in.(*ssa.Store)
			if !ok {
				continue
			}
			f, _, ok := fieldOfAddr(st.Addr)
			if !ok || f != field {
				continue
			}
			if st == at || !dominatesInstr(st, at) {
				continue
			}
			if best == nil || dominatesInstr(best, st) {
				best = st
			}
		}
	}
	return best
}

func lastStore(fn *ssa.Function, field string) *ssa.Store {
	var out *ssa.Store
	for _, b := range fn.Blocks {
		for _, in := range b.Instrs {
			if st, ok := in.(*ssa.Store); ok {
				if f, _, ok := fieldOfAddr(st.Addr); ok && f == field {
					out = st
				}
			}
		}
	}
	return out
}

func (ev *lzwEval) eval(v ssa.Value) lzwSym {
	ev.depth++
	defer func() { ev.depth-- }()
	if ev.depth > 24 {
		return lzwSym{}
	}
	switch x := v.(type) {
	case *ssa.Const:
		if k, ok := constInt(x); ok {
			return lzwSym{k: k, ok: true}
		}
	case *ssa.Convert:
		return ev.eval(x.X)
	case *ssa.ChangeType:
		return ev.eval(x.X)
	case *ssa.Parameter:
		if x.Name() == "litWidth" {
			return lzwSym{lwc: 1, ok: true}
		}
	case *ssa.UnOp:
		if x.Op != token.MUL {
			return lzwSym{}
		}
		f, _, ok := fieldOfAddr(x.X)
		if !ok {
			return lzwSym{}
		}
		if f == "litWidth" {
			return lzwSym{lwc: 1, ok: true}
		}
		if st := reachingStore(x.Parent(), f, x); st != nil {
			return ev.eval(st.Val)
		}
		if (f == "clear" || f == "eof") && ev.init != nil && x.Parent() != ev.init {
			if st := lastStore(ev.init, f); st != nil {
				return ev.eval(st.Val)
			}
		}
	case *ssa.BinOp:
		a, b := ev.eval(x.X), ev.eval(x.Y)
		if !a.ok || !b.ok {
			return lzwSym{}
		}
		switch x.Op {
		case token.ADD:
			if !a.pow && !b.pow {
				return lzwSym{lwc: a.lwc + b.lwc, k: a.k + b.k, ok: true}
			}
			if a.pow && !b.pow && b.lwc == 0 {
				a.k += b.k
				return a
			}
			if b.pow && !a.pow && a.lwc == 0 {
				b.k += a.k
				return b
			}
		case token.SHL:
			if !a.pow && a.lwc == 0 && a.k == 1 && !b.pow && b.lwc == 1 {
				return lzwSym{pow: true, e: b.k, ok: true}
			}
			if a.pow && a.k == 0 && !b.pow && b.lwc == 0 {
				a.e += b.k
				return a
			}
			if !a.pow && a.lwc == 0 && !b.pow && b.lwc == 0 {
				return lzwSym{k: a.k << uint(b.k), ok: true}
			}
		case token.SUB:
			if !a.pow && !b.pow {
				return lzwSym{lwc: a.lwc - b.lwc, k: a.k - b.k, ok: true}
			}
			if a.pow && !b.pow && b.lwc == 0 {
				a.k -= b.k
				return a
			}
		}
	}
	return lzwSym{}
}

// fieldWriteCalls: dynamic calls through the function-valued field `field` (w.write(w, c)).
func fieldWriteCalls(fn *ssa.Function, field string) []*ssa.Call {
	var out []*ssa.Call
	for _, b := range fn.Blocks {
		for _, in := range b.Instrs {
			cl, ok := in.(*ssa.Call)
			if !ok || cl.Call.IsInvoke() {
				continue
			}
			ld, ok := cl.Call.Value.(*ssa.UnOp)
			if !ok || ld.Op != token.MUL {
				continue
			}
			if f, _, ok := fieldOfAddr(ld.X); ok && f == field {
				out = append(out, cl)
			}
		}
	}
	return out
}

func runLZW(c *Ctx, rule string) {
	const lz = "common/lzw"
	wInit := c.mustFn(lz, "Writer", "init")
	rInit := c.mustFn(lz, "Reader", "init")
	incHi := c.mustFn(lz, "Writer", "incHi")
	decode := c.mustFn(lz, "Reader", "decode")
	wWrite := c.mustFn(lz, "Writer", "Write")
	wClose := c.mustFn(lz, "Writer", "Close")
	if wInit == nil || rInit == nil || incHi == nil || decode == nil || wWrite == nil || wClose == nil {
		return
	}
	canon := map[string]lzwSym{
		"width":    {lwc: 1, k: 1, ok: true},
		"hi":       {pow: true, e: 0, k: 1, ok: true},
		"overflow": {pow: true, e: 1, k: 0, ok: true},
	}
	// ---- reset-state agreement
	for _, site := range []struct {
		name string
		fn   *ssa.Function
		init *ssa.Function
	}{{"Writer.init", wInit, wInit}, {"Writer.incHi (table full)", incHi, wInit}, {"Reader.init", rInit, rInit}, {"Reader.decode (clear code)", decode, rInit}} {
		ev := &lzwEval{init: site.init}
		got := map[string][]lzwSym{}
		var poss = map[string]token.Pos{}
		for _, b := range site.fn.Blocks {
			for _, in := range b.Instrs {
				st, ok := in.(*ssa.Store)
				if !ok {
					continue
				}
				f, _, ok := fieldOfAddr(st.Addr)
				if !ok {
					continue
				}
				if _, want := canon[f]; !want {
					continue
				}
				if s := ev.eval(st.Val); s.ok {
					got[f] = append(got[f], s)
					poss[f] = st.Pos()
				}
			}
		}
		for _, f := range []string{"width", "hi", "overflow"} {
			vals := got[f]
			ok := len(vals) == 1 && vals[0].eq(canon[f])
			desc := "none"
			if len(vals) > 0 {
				desc = vals[0].String()
			}
			p := poss[f]
			if p == token.NoPos {
				p = site.fn.Pos()
			}
			c.check(ok, rule, fmt.Sprintf("%s sets %s to the common start state %s", site.name, f, canon[f]), p, desc, fmt.Sprintf("%s sets %s = %s (%d absolute assignments); encoder and decoder must restart from %s", site.name, f, desc, len(vals), canon[f]))
		}
	}
	// clear/eof only defined in init
	for _, fn := range c.pkgFuncs(lz) {
		if fn == rInit {
			continue
		}
		for _, b := range fn.Blocks {
			for _, in := range b.Instrs {
				if st, ok := in.(*ssa.Store); ok {
					if f, x, ok := fieldOfAddr(st.Addr); ok && (f == "clear" || f == "eof" || f == "litWidth") && fn != wInit && strings.Contains(x.Type().String(), "lzw.") {
						c.violate(rule, "clear/eof/litWidth are fixed after init", st.Pos(), fnName(fn)+" assigns "+f)
					}
				}
			}
		}
	}
	{
		ev := &lzwEval{init: rInit}
		cl, eo := lastStore(rInit, "clear"), lastStore(rInit, "eof")
		okC := cl != nil && eo != nil && ev.eval(cl.Val).eq(lzwSym{pow: true, ok: true}) && ev.eval(eo.Val).eq(lzwSym{pow: true, k: 1, ok: true})
		c.check(okC, rule, "decoder: clear = 2^lw, eof = clear+1", rInit.Pos(), "as in the encoder", "decoder's clear/eof codes differ from 2^lw / 2^lw+1")
	}
	// maxCode vs maxWidth
	mc, ok1 := c.constVal(lz, "maxCode")
	mw, ok2 := c.constVal(lz, "maxWidth")
	c.check(ok1 && ok2 && mc == (1<<uint(mw))-1, rule, "encoder's last code = 2^maxWidth − 1 of the decoder", token.NoPos, fmt.Sprintf("%d / %d", mc, mw), "maxCode and maxWidth disagree")

	// ---- advance-then-compare in both machines
	for _, m := range []struct {
		name string
		fn   *ssa.Function
	}{{"Writer.incHi", incHi}, {"Reader.decode", decode}} {
		var inc *ssa.Store
		nInc := 0
		for _, b := range m.fn.Blocks {
			for _, in := range b.Instrs {
				st, ok := in.(*ssa.Store)
				if !ok {
					continue
				}
				if f, _, ok := fieldOfAddr(st.Addr); !ok || f != "hi" {
					continue
				}
				if bo, ok := st.Val.(*ssa.BinOp); ok && bo.Op == token.ADD {
					if k, ok := constInt(bo.Y); ok && k == 1 {
						if ld, ok := bo.X.(*ssa.UnOp); ok {
							if f, _, ok := fieldOfAddr(ld.X); ok && f == "hi" {
								inc = st
								nInc++
							}
						}
					}
				}
			}
		}
		if !c.check(nInc == 1, rule, m.name+": the code counter advances at one place", m.fn.Pos(), "hi++", fmt.Sprintf("%d increments of hi", nInc)) {
			continue
		}
		nCmp := 0
		for _, b := range m.fn.Blocks {
			if len(b.Instrs) == 0 {
				continue
			}
			iff, ok := b.Instrs[len(b.Instrs)-1].(*ssa.If)
			if !ok {
				continue
			}
			bo, ok := iff.Cond.(*ssa.BinOp)
			if !ok {
				continue
			}
			var hiLoad *ssa.UnOp
			other := ""
			for _, pr := range [][2]ssa.Value{{bo.X, bo.Y}, {bo.Y, bo.X}} {
				ld, ok := pr[0].(*ssa.UnOp)
				if !ok {
					continue
				}
				if f, _, ok := fieldOfAddr(ld.X); ok && f == "hi" {
					if ol, ok := pr[1].(*ssa.UnOp); ok {
						if f2, _, ok := fieldOfAddr(ol.X); ok && f2 == "overflow" {
							hiLoad, other = ld, "overflow"
						}
					}
					if k, ok := constInt(pr[1]); ok && k == mc {
						hiLoad, other = ld, "maxCode"
					}
				}
			}
			if hiLoad == nil {
				continue
			}
			nCmp++
			c.check(dominatesInstr(inc, hiLoad), rule, fmt.Sprintf("%s: hi is compared with %s after it advanced", m.name, other), iff.Pos(), "hi++ then compare", fmt.Sprintf("%s compares hi with %s before advancing it: the code width switches one code later than in the other machine", m.name, other))
		}
		c.check(nCmp >= 1, rule, m.name+": width switch driven by hi vs overflow", m.fn.Pos(), fmt.Sprint(nCmp), "no comparison of hi with overflow found")
		// widening: width+1 and overflow doubled, both behind hi reaching overflow
		for _, f := range []string{"width", "overflow"} {
			nW := 0
			for _, b := range m.fn.Blocks {
				for _, in := range b.Instrs {
					st, ok := in.(*ssa.Store)
					if !ok {
						continue
					}
					if ff, _, ok := fieldOfAddr(st.Addr); !ok || ff != f {
						continue
					}
					ev := &lzwEval{}
					if ev.eval(st.Val).ok {
						continue // absolute (reset) assignment
					}
					nW++
					// exactly at hi == overflow: the guards give hi ≥ overflow but not hi ≥ overflow+1
					alts := altGuards(b)
					_, atLeast := holdsAll(alts, wGE("hi ≥ overflow", 0, t(1, `\.hi$`), t(-1, `\.overflow$`)))
					_, beyond := holdsAll(alts, wGE("hi > overflow", -1, t(1, `\.hi$`), t(-1, `\.overflow$`)))
					okG := atLeast && !beyond
					okV := false
					switch f {
					case "width":
						if bo, ok := st.Val.(*ssa.BinOp); ok && bo.Op == token.ADD {
							k, _ := constInt(bo.Y)
							okV = k == 1 && strings.HasSuffix(render(bo.X), ".width")
						}
					case "overflow":
						if bo, ok := st.Val.(*ssa.BinOp); ok && bo.Op == token.SHL {
							x := render(bo.X)
							k, isK := constInt(bo.Y)
							okV = (strings.HasSuffix(x, ".overflow") && isK && k == 1) || ((x == "1" || strings.HasSuffix(x, "1")) && strings.HasSuffix(render(bo.Y), ".width"))
						}
					}
					c.check(okG && okV, rule, fmt.Sprintf("%s: %s widens by one bit exactly when hi reaches overflow", m.name, f), st.Pos(), render(st.Val), fmt.Sprintf("%s updates %s to %s outside the hi/overflow test or by another step", m.name, f, render(st.Val)))
				}
			}
			c.check(nW == 1, rule, fmt.Sprintf("%s: one widening update of %s", m.name, f), m.fn.Pos(), "1", fmt.Sprintf("%d relative updates of %s", nW, f))
		}
	}

	// ---- encoder: every data code advances the counter; clear only on a full table; eof last
	ev := &lzwEval{init: wInit}
	clearSym, eofSym := lzwSym{pow: true, ok: true}, lzwSym{pow: true, k: 1, ok: true}
	isIncHi := isCallTo(byCallee("Writer).incHi"))
	nData := 0
	for _, fn := range []*ssa.Function{wWrite, wClose, incHi} {
		for _, cl := range fieldWriteCalls(fn, "write") {
			arg := cl.Call.Args[len(cl.Call.Args)-1]
			s := ev.eval(arg)
			switch {
			case s.eq(clearSym):
				okC := fn == incHi
				if okC {
					_, okC = holdsAll(altGuards(cl.Block()), wEQ("table full", -mc, t(1, `\.hi$`)))
				}
				c.check(okC, rule, "a clear code is emitted only when the code table is full (no leading clear: legacy format)", cl.Pos(), "inside incHi behind hi == maxCode", fnName(fn)+" emits a clear code outside the table-full case: the output is no longer the legacy encoding")
			case s.eq(eofSym):
				okE := fn == wClose
				if okE {
					for _, o := range fieldWriteCalls(fn, "write") {
						if o != cl {
							if _, reach := pathAvoiding(fn, cl, isInstr(o), nil); reach {
								okE = false
							}
						}
					}
				}
				c.check(okE, rule, "the eof code is the last code of the stream", cl.Pos(), "Close, after the pending code", "eof is written in "+fnName(fn)+" or followed by another code")
			default:
				nData++
				evv := errValueOf(cl)
				// on the success edge the counter must advance before the next code or a successful return
				pathEdgeFilter = nil
				target := func(in ssa.Instruction) bool {
					if o, ok := in.(*ssa.Call); ok {
						for _, w := range fieldWriteCalls(fn, "write") {
							if w == o {
								return true
							}
						}
					}
					return isReturn(in)
				}
				// exclude the failure edge of this write
				pathEdgeFilter = func(p, s *ssa.BasicBlock) bool {
					for _, g := range edgeGuard(p, s) {
						bo, ok := g.Cond.(*ssa.BinOp)
						if !ok {
							continue
						}
						nonNil := (bo.Op == token.NEQ && g.Pol) || (bo.Op == token.EQL && !g.Pol)
						if !nonNil {
							continue
						}
						x, y := bo.X, bo.Y
						if isNilConst(x) {
							x, y = y, x
						}
						if !isNilConst(y) {
							continue
						}
						if x == evv {
							return true
						}
						// the error is first stored in w.err and re-read
						if ld, ok := x.(*ssa.UnOp); ok {
							if f, _, ok := fieldOfAddr(ld.X); ok && f == "err" {
								return true
							}
						}
					}
					return false
				}
				tr, reach := pathAvoiding(fn, cl, target, isIncHi)
				pathEdgeFilter = nil
				c.check(!reach, rule, fnName(fn)+": every data code advances the code counter", cl.Pos(), "write(code) → incHi()", "a data code is written without advancing hi: the eof/next code is emitted at the wrong width (or without the clear code the legacy stream has) ("+traceString(tr)+")")
			}
		}
	}
	c.check(nData == 2, rule, "data code emission sites", token.NoPos, "Write loop and Close", fmt.Sprintf("%d data code sites", nData))

	// ---- decoder: every data code advances the counter
	{
		var inc *ssa.Store
		for _, b := range decode.Blocks {
			for _, in := range b.Instrs {
				if st, ok := in.(*ssa.Store); ok {
					if f, _, ok := fieldOfAddr(st.Addr); ok && f == "hi" {
						if bo, ok := st.Val.(*ssa.BinOp); ok && bo.Op == token.ADD {
							inc = st
						}
					}
				}
			}
		}
		if inc != nil {
			h := loopHeaderOf(inc.Block())
			okL := h != nil
			if okL {
				// the only way to go round without advancing is the clear code
				pathEdgeFilter = func(p, s *ssa.BasicBlock) bool {
					for _, g := range edgeGuard(p, s) {
						r := g.String()
						if g.Pol && strings.Contains(r, "same{") && strings.Contains(r, ".clear") {
							return true
						}
						pd := predOf(g)
						if pd.Kind == "eq" && len(pd.L.T) == 2 {
							hasClear := false
							for a := range pd.L.T {
								if strings.HasSuffix(a, ".clear") {
									hasClear = true
								}
							}
							if hasClear {
								return true
							}
						}
					}
					return false
				}
				tr, by := loopBypass(decode, h, inc)
				pathEdgeFilter = nil
				c.check(!by, rule, "decoder: every data code advances the code counter", inc.Pos(), "skip only for the clear code", "the decoder can take another code without advancing hi ("+traceString(tr)+")")
			} else {
				c.violate(rule, "decoder loop", inc.Pos(), "hi++ not in the decode loop")
			}
		}
	}

	// ---- decoder: a consumed data code is recorded before decode() returns or takes the next code
	{
		var inc *ssa.Store
		for _, b := range decode.Blocks {
			for _, in := range b.Instrs {
				if st, ok := in.(*ssa.Store); ok {
					if f, _, ok := fieldOfAddr(st.Addr); ok && f == "hi" {
						if bo, ok := st.Val.(*ssa.BinOp); ok && bo.Op == token.ADD {
							inc = st
						}
					}
				}
			}
		}
		reads := fieldWriteCalls(decode, "read")
		if inc != nil && len(reads) == 1 {
			rd := reads[0]
			h := loopHeaderOf(rd.Block())
			var codeV ssa.Value
			for _, ref := range *rd.Referrers() {
				if ex, ok := ref.(*ssa.Extract); ok && ex.Index == 0 {
					codeV = ex
				}
			}
			isErrStore := func(in ssa.Instruction) bool {
				if st, ok := in.(*ssa.Store); ok {
					if f, _, ok := fieldOfAddr(st.Addr); ok && f == "err" {
						return true
					}
				}
				return false
			}
			old := pathEdgeFilter
			pathEdgeFilter = func(p, sb *ssa.BasicBlock) bool {
				for _, g := range edgeGuard(p, sb) {
					pd := predOf(g)
					// the clear code restarts the table and is not a data code
					if pd.Kind == "eq" && len(pd.L.T) == 2 && codeV != nil {
						hasCode, hasClear := false, false
						for a := range pd.L.T {
							if a == render(codeV) {
								hasCode = true
							}
							if strings.HasSuffix(a, ".clear") {
								hasClear = true
							}
						}
						if hasCode && hasClear {
							return true
						}
					}
					if pd.Kind == "same" && codeV != nil && (strings.HasSuffix(pd.A, ".clear") || strings.HasSuffix(pd.B, ".clear")) && (pd.A == render(codeV) || pd.B == render(codeV)) {
						return true
					}
				}
				return false
			}
			tr, reach := pathAvoiding(decode, rd, func(in ssa.Instruction) bool {
				return isReturn(in) || (h != nil && in == h.Instrs[0])
			}, func(in ssa.Instruction) bool { return in == ssa.Instruction(inc) || isErrStore(in) })
			pathEdgeFilter = old
			c.check(!reach, rule, "decoder: a consumed data code is recorded (last/hi advanced) before decode returns or reads the next code", inc.Pos(), "every non-clear, non-error path passes hi++", "decode can hand back output or read on after consuming a data code without recording it: the next call overwrites that table slot and the decoder runs one code behind the encoder ("+traceString(tr)+")")
		} else {
			c.violate(rule, "decoder structure", decode.Pos(), "expected one code read and one hi++")
		}
	}

	// ---- encoder: one probe discipline over the whole hash table
	{
		var tlen int64
		nIdx := 0
		masks := map[int64]token.Pos{}
		var collect func(v ssa.Value, d int)
		seenV := map[ssa.Value]bool{}
		collect = func(v ssa.Value, d int) {
			if d > 8 || seenV[v] {
				return
			}
			seenV[v] = true
			switch x := v.(type) {
			case *ssa.Phi:
				for _, e := range x.Edges {
					collect(e, d+1)
				}
			case *ssa.BinOp:
				if x.Op == token.AND {
					if k, ok := constInt(x.Y); ok {
						masks[k] = x.Pos()
						return
					}
				}
				masks[-1] = x.Pos()
			case *ssa.Convert:
				collect(x.X, d+1)
			default:
				masks[-1] = v.Pos()
			}
		}
		for _, b := range wWrite.Blocks {
			for _, in := range b.Instrs {
				ia, ok := in.(*ssa.IndexAddr)
				if !ok {
					continue
				}
				if f, _, ok := fieldOfAddr(ia.X); !ok || f != "table" {
					continue
				}
				if arr, ok := ia.X.Type().Underlying().(*types.Pointer).Elem().Underlying().(*types.Array); ok {
					tlen = arr.Len()
				}
				nIdx++
				collect(ia.Index, 0)
			}
		}
		okMask := nIdx >= 3 && len(masks) == 1
		desc := ""
		for k := range masks {
			desc += fmt.Sprintf("%#x ", k)
			if k != tlen-1 {
				okMask = false
			}
		}
		c.check(okMask, rule, "encoder: every hash-table index (first probe, lookup steps, insertion steps) is reduced with the one mask len(table)−1", wWrite.Pos(), fmt.Sprintf("mask %s over %d index sites", desc, nIdx), fmt.Sprintf("table indices are reduced with masks {%s} (table length %d): lookup and insertion probe different slot sequences, so existing entries are not found and the output is no longer the legacy greedy encoding", desc, tlen))
	}

	// ---- the pair used by goloop
	comp, decomp := c.mustFn("common", "", "Compress"), c.mustFn("common", "", "Decompress")
	if comp != nil && decomp != nil {
		nw := c.calls(comp, byCallee("common/lzw.NewWriter"))
		nr := c.calls(decomp, byCallee("common/lzw.NewReader"))
		okP := len(nw) == 1 && len(nr) == 1
		if okP {
			_, a := callArgs(nw[0].Common())
			_, b := callArgs(nr[0].Common())
			o1, ok1 := constInt(a[1])
			l1, ok2 := constInt(a[2])
			o2, ok3 := constInt(b[1])
			l2, ok4 := constInt(b[2])
			msb, _ := c.constVal(lz, "MSB")
			okP = ok1 && ok2 && ok3 && ok4 && o1 == o2 && l1 == l2 && o1 == msb && l1 == 8
		}
		c.check(okP, rule, "Compress/Decompress use the vendored LZW with the same (MSB, 8)", comp.Pos(), "lzw.NewWriter(_, MSB, 8) / lzw.NewReader(_, MSB, 8)", "Compress and Decompress disagree on the codec parameters or do not use common/lzw")
		for _, fn := range []*ssa.Function{comp, decomp} {
			for _, cs := range c.calls(fn, func(cc *ssa.CallCommon) bool { return strings.Contains(calleeName(cc), "compress/lzw") }) {
				c.violate(rule, "the standard library LZW (leading clear code) is not used", cs.Pos(), fnName(fn)+" calls compress/lzw")
			}
		}
		// Compress closes the writer before taking the bytes
		cl := c.calls(comp, byMethod("Close"))
		by := c.calls(comp, byCallee("bytes.Buffer).Bytes"))
		okO := len(cl) == 1 && len(by) == 1 && dominatesInstr(cl[0].Instr, by[0].Instr)
		if okO {
			_, plain := cl[0].Instr.(*ssa.Call) // a deferred Close runs after Bytes() was evaluated
			okO = plain
		}
		c.check(okO, rule, "Compress flushes (Close) before taking the output", comp.Pos(), "Close → Bytes", "the output is taken before the writer is closed: the final code and eof are missing")
		wr := c.calls(comp, byMethod("Write"))
		okW := len(wr) == 1
		if okW {
			_, a := callArgs(wr[0].Common())
			okW = render(a[0]) == "$0"
		}
		c.check(okW, rule, "Compress writes the whole input", comp.Pos(), "Write(bs)", "Compress does not write its whole argument")
		// the empty input has the empty encoding on both sides (legacy format: no eof-only stream)
		emptyExit := func(fn *ssa.Function) bool {
			for _, e := range exitAlts(fn) {
				if _, ok := holds(e.Guards, wGE("len(input) ≤ 0", 0, t(-1, `^len\(\$0\)$`))); !ok {
					continue
				}
				if sl, ok := e.Results[0].(*ssa.Slice); ok {
					if al, ok := sl.X.(*ssa.Alloc); ok {
						if at, ok := al.Type().Underlying().(*types.Pointer).Elem().Underlying().(*types.Array); ok && at.Len() == 0 {
							return true
						}
					}
				}
			}
			return false
		}
		ce, de := emptyExit(comp), emptyExit(decomp)
		c.check(ce == de && ce, rule, "Compress and Decompress map the empty input to the empty output", comp.Pos(), "both short-cut len == 0", fmt.Sprintf("empty-input shortcut: Compress %v, Decompress %v — the empty value no longer has the legacy (empty) encoding on both sides", ce, de))
	}

	// ---- decoder: expansion and hand-over
	{
		// (a) the table is full exactly at the maximum width (the encoder resets at maxCode = 2^maxWidth−1)
		mw, _ := c.constVal(lz, "maxWidth")
		nUndo := 0
		for _, b := range decode.Blocks {
			for _, in := range b.Instrs {
				st, ok := in.(*ssa.Store)
				if !ok {
					continue
				}
				if f, _, ok := fieldOfAddr(st.Addr); !ok || f != "hi" {
					continue
				}
				bo, ok := st.Val.(*ssa.BinOp)
				if !ok || bo.Op != token.SUB {
					continue
				}
				nUndo++
				alts := altGuards(b)
				_, ge := holdsAll(alts, wGE("width ≥ maxWidth", -mw, t(1, `\.width$`)))
				_, gt := holdsAll(alts, wGE("width > maxWidth", -mw-1, t(1, `\.width$`)))
				_, ge1 := holdsAll(alts, wGE("width ≥ maxWidth−1", -mw+1, t(1, `\.width$`)))
				c.check(ge && !gt && ge1, rule, "decoder: the code table is full exactly at width == maxWidth", st.Pos(), "hi-- behind width == maxWidth", "the decoder stops assigning codes at another width than the encoder's table-full point (maxCode = 2^maxWidth − 1): the two disagree on every code after that")
			}
		}
		c.check(nUndo == 1, rule, "decoder: one table-full undo of hi", decode.Pos(), "1", fmt.Sprintf("%d", nUndo))
		// (b) backwards expansion: every byte gets a slot of its own
		var outStores []*ssa.Store
		for _, b := range decode.Blocks {
			for _, in := range b.Instrs {
				if st, ok := in.(*ssa.Store); ok {
					if ia, ok := st.Addr.(*ssa.IndexAddr); ok && strings.HasSuffix(render(ia.X), ".output") {
						outStores = append(outStores, st)
					}
				}
			}
		}
		nPair := 0
		for _, s1 := range outStores {
			i1 := s1.Addr.(*ssa.IndexAddr).Index
			for _, s2 := range outStores {
				if s1 == s2 {
					continue
				}
				i2 := s2.Addr.(*ssa.IndexAddr).Index
				same := false
				if i1 == i2 {
					// same SSA index: only a violation if s2 can follow s1 without the index being recomputed
					var defFirst ssa.Instruction
					if di, ok := i1.(ssa.Instruction); ok && di.Block() != nil {
						defFirst = di.Block().Instrs[0]
					}
					if _, reach := pathAvoiding(decode, s1, func(in ssa.Instruction) bool { return in == ssa.Instruction(s2) }, func(in ssa.Instruction) bool {
						if in == defFirst {
							return true // the index is recomputed when its defining block is entered again
						}
						rd, ok := in.(*ssa.Call)
						return ok && strings.Contains(render(rd), ".read(")
					}); reach {
						same = true
					}
				}
				if phi, ok := i2.(*ssa.Phi); ok {
					for k, e := range phi.Edges {
						if e == i1 && (phi.Block().Preds[k] == s1.Block() || blockReaches(s1.Block(), phi.Block().Preds[k], decode.Blocks[1])) {
							same = true
						}
					}
				}
				nPair++
				if same {
					c.violate(rule, "decoder: each expanded byte is written to its own slot", s2.Pos(), "the store at "+c.pos(s2.Pos())+" can reuse the slot written at "+c.pos(s1.Pos())+" (index not decremented in between): the expansion comes out one byte short")
				}
			}
		}
		c.check(nPair >= 6, rule, "decoder: output stores examined for slot reuse", decode.Pos(), fmt.Sprintf("%d ordered pairs", nPair), fmt.Sprintf("only %d pairs of output stores", nPair))
		// (c) KwKwK: the extra byte is the head of the previous expansion — reached through the prefix chain
		nHead := 0
		for _, st := range outStores {
			_, isSpecial := holdsAll(altGuards(st.Block()), wEQ("code == hi", 0, t(1, `\.hi$`), t(-1, `read\(.*\)#0$`)))
			if !isSpecial {
				continue
			}
			nHead++
			v := st.Val
			if cv, ok := v.(*ssa.Convert); ok {
				v = cv.X
			}
			okHead := true
			var srcs []string
			for _, fl := range flowsOf(v, nil) {
				r := render(fl.Src)
				srcs = append(srcs, r)
				if !(strings.HasSuffix(r, ".last") || strings.Contains(r, ".prefix[")) {
					okHead = false
				}
			}
			c.check(okHead && len(srcs) >= 2, rule, "decoder: code == hi appends the head of the previous expansion (prefix chain from last)", st.Pos(), strings.Join(srcs, " | "), "the byte appended for code == hi comes from "+strings.Join(srcs, " | ")+", not from walking the prefix chain of the previous code: sequences other than runs of one byte decode wrongly")
		}
		c.check(nHead == 1, rule, "decoder: one head store in the code == hi case", decode.Pos(), "1", fmt.Sprintf("%d", nHead))
		// (d) Read keeps what did not fit the caller's buffer
		if rd := c.mustFn(lz, "Reader", "Read"); rd != nil {
			n := 0
			for _, b := range rd.Blocks {
				for _, in := range b.Instrs {
					st, ok := in.(*ssa.Store)
					if !ok {
						continue
					}
					if f, _, ok := fieldOfAddr(st.Addr); !ok || f != "toRead" {
						continue
					}
					n++
					sl, ok := st.Val.(*ssa.Slice)
					okKeep := ok && sl.High == nil && sl.Low != nil && strings.HasSuffix(render(sl.X), ".toRead")
					if okKeep {
						cp, isCall := sl.Low.(*ssa.Call)
						okKeep = isCall && calleeName(cp.Common()) == "builtin:copy"
					}
					c.check(okKeep, rule, "Reader.Read keeps the decoded bytes that did not fit", st.Pos(), "toRead = toRead[n:]", "after copying n bytes toRead becomes "+render(st.Val)+": the rest of the decoded chunk is lost and long values come back truncated")
				}
			}
			c.check(n == 1, rule, "Reader.Read: one update of toRead", rd.Pos(), "1", fmt.Sprintf("%d", n))
		}
	}
	// ---- encoder: a table reset wipes the whole hash table
	{
		n := 0
		for _, b := range incHi.Blocks {
			for _, in := range b.Instrs {
				st, ok := in.(*ssa.Store)
				if !ok {
					continue
				}
				ia, ok := st.Addr.(*ssa.IndexAddr)
				if !ok || !strings.HasSuffix(render(ia.X), ".table") {
					continue
				}
				n++
				size := int64(-1)
				if at, ok := ia.X.Type().Underlying().(*types.Pointer); ok {
					if arr, ok := at.Elem().Underlying().(*types.Array); ok {
						size = arr.Len()
					}
				}
				h := loopHeaderOf(b)
				okAll := false
				if h != nil && size > 0 {
					if iff, ok := h.Instrs[len(h.Instrs)-1].(*ssa.If); ok {
						if cmp, ok := iff.Cond.(*ssa.BinOp); ok && cmp.Op == token.LSS {
							if k, ok := constInt(cmp.Y); ok && k == size {
								if bo, ok := cmp.X.(*ssa.BinOp); ok && bo.Op == token.ADD {
									if phi, ok := bo.X.(*ssa.Phi); ok {
										if _, ok := counterIncrements(phi, func(v ssa.Value) bool { k, ok := constInt(v); return ok && k == -1 }); ok && ia.Index == ssa.Value(bo) {
											okAll = true
										}
									}
								}
							}
						}
					}
				}
				c.check(okAll && isZeroConst(st.Val), rule, "encoder: a table reset clears every slot of the hash table", st.Pos(), fmt.Sprintf("for i := range table (%d slots)", size), "the reset loop does not cover all "+fmt.Sprint(size)+" slots: stale entries survive the clear code and the encoder emits codes the decoder has not defined")
			}
		}
		c.check(n == 1, rule, "encoder: one hash-table wipe in incHi", incHi.Pos(), "1", fmt.Sprintf("%d stores to table", n))
	}
	// ---- rules added for the second list of independent mutants
	{
		// encoder: a new table entry goes into a free slot (linear probing), and only when incHi
		// did not just reset the table
		nIns := 0
		for _, b := range wWrite.Blocks {
			for _, in := range b.Instrs {
				st, ok := in.(*ssa.Store)
				if !ok {
					continue
				}
				ia, ok := st.Addr.(*ssa.IndexAddr)
				if !ok || !strings.HasSuffix(render(ia.X), ".table") {
					continue
				}
				nIns++
				slot := regexp.QuoteMeta(strings.TrimPrefix(render(st.Addr), "&"))
				c.requireAt(rule, "encoder: a new entry is stored into a free slot of the hash table", st, wEQ("slot == invalidEntry", 0, t(1, "^"+slot+"$")))
				c.requireAt(rule, "encoder: no entry is inserted right after a table reset", st, wSame("incHi() == nil", `\.incHi\(\)$`, `^nil$`))
			}
		}
		c.check(nIns == 1, rule, "encoder: one insertion site in Write", wWrite.Pos(), "1", fmt.Sprintf("%d stores to the hash table in Write", nIns))
		// Close: the out-of-codes signal of incHi is not an error; the last partial byte is
		// aligned for the MSB order
		for _, e := range exitAlts(wClose) {
			r := render(e.Results[0])
			if strings.HasSuffix(r, ".incHi()") {
				c.requireGuard(rule, "Close fails on incHi only for a real error", e.pos(), e.Guards, wDiffer("err != errOutOfCodes", `\.incHi\(\)$`, `errOutOfCodes$`))
			}
		}
		msb, _ := c.constVal(lz, "MSB")
		nSh := 0
		for _, b := range wClose.Blocks {
			for _, in := range b.Instrs {
				st, ok := in.(*ssa.Store)
				if !ok {
					continue
				}
				if f, _, ok := fieldOfAddr(st.Addr); !ok || f != "bits" {
					continue
				}
				if bo, ok := st.Val.(*ssa.BinOp); ok && bo.Op == token.SHR {
					nSh++
					c.requireAt(rule, "Close aligns the final partial byte for the MSB order only", st, wEQ("order == MSB", -msb, t(1, `\.order$`)))
					k, _ := constInt(bo.Y)
					c.check(k == 24, rule, "Close takes the top byte of the 32-bit accumulator", st.Pos(), "bits >>= 24", fmt.Sprintf("shift by %d", k))
				}
			}
		}
		c.check(nSh == 1, rule, "Close: one alignment shift", wClose.Pos(), "1", fmt.Sprintf("%d", nSh))
		// decoder: in the non-literal branch the new entry's suffix is the literal the chain walk
		// ended on, not the code read
		rdCode := ssa.Value(nil)
		for _, rdc := range fieldWriteCalls(decode, "read") {
			rdCode = rdc
		}
		nSuf := 0
		for _, b := range decode.Blocks {
			for _, in := range b.Instrs {
				st, ok := in.(*ssa.Store)
				if !ok {
					continue
				}
				ia, ok := st.Addr.(*ssa.IndexAddr)
				if !ok || !strings.HasSuffix(render(ia.X), ".suffix") {
					continue
				}
				nSuf++
				cv, _ := st.Val.(*ssa.Convert)
				if cv == nil {
					continue
				}
				_, literal := holdsAll(altGuards(b), wGE("code < clear", -1, t(1, `\.clear$`), t(-1, `read\(.*\)#0$`)))
				fromCode := false
				if ex, ok := cv.X.(*ssa.Extract); ok && rdCode != nil && ex.Tuple == rdCode {
					fromCode = true
				}
				if literal {
					c.check(fromCode, rule, "decoder: a literal code defines its entry's suffix", st.Pos(), "suffix[hi] = code", "suffix is "+render(st.Val))
				} else {
					c.check(!fromCode, rule, "decoder: a sequence code defines its entry's suffix by the literal its chain ends on", st.Pos(), "suffix[hi] = c", "the suffix of the new entry is the low byte of the code read, not the first literal of its expansion: every later use of that entry decodes wrongly")
				}
			}
		}
		c.check(nSuf == 2, rule, "decoder: suffix definitions", decode.Pos(), "2", fmt.Sprintf("%d", nSuf))
		// Reader.Read: pending output is delivered before the sticky error is reported
		if rd := c.mustFn(lz, "Reader", "Read"); rd != nil {
			for _, e := range exitAlts(rd) {
				if strings.HasSuffix(render(e.Results[1]), ".err") {
					c.requireGuard(rule, "Reader.Read reports its sticky error", e.pos(), e.Guards, wEQ("nothing is pending", 0, t(1, `^len\(\$r\.toRead\)$`)))
				}
			}
		}
		// Decompress reads the whole stream
		if decomp := c.mustFn("common", "", "Decompress"); decomp != nil {
			for _, cs := range c.calls(decomp, byCallee("io.ReadAll")) {
				_, a := callArgs(cs.Common())
				src := a[0]
				if mi, ok := src.(*ssa.MakeInterface); ok {
					src = mi.X
				}
				if ci, ok := src.(*ssa.ChangeInterface); ok {
					src = ci.X
				}
				call, ok := src.(*ssa.Call)
				c.check(ok && strings.HasSuffix(calleeName(call.Common()), "common/lzw.NewReader"), rule, "Decompress reads the decoder to its end", cs.Pos(), "io.ReadAll(lzw reader)", "Decompress reads through "+render(a[0])+": longer values come back truncated")
			}
		}
	}
	_ = types.Typ
}
