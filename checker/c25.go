package main

// C25 — header compression is lossless and format-stable.
func init() {
	register(&Prop{
		ID:             "C25",
		Pkgs:           []string{"common", "common/lzw"},
		Run:            func(c *Ctx) { runLZW(c, "C25.lzw-agreement") },
		MinObligations: 30,
		Technique:      "static analysis: sibling agreement of the LZW encoder and decoder state machines — symbolic evaluation (over the literal width) of every absolute assignment to width/hi/overflow at the four (re)start sites, order of counter advance vs width test in both machines, must-pass-through of the counter advance after every data code, who-may-emit the clear/eof codes, constant agreement of the Compress/Decompress pair",
		LevelText:      "Decides the structural conditions that keep the encoder and decoder in lock step and the output in the legacy format: (1) Writer.init, the table-full reset in Writer.incHi, Reader.init and the decoder's clear-code handling all restart from the same state width = lw+1, hi = 2^lw+1, overflow = 2^(lw+1) (evaluated symbolically, so `clear+1`, `1<<lw+1`, `r.eof` are recognised as equal and `clear+2` is not); the decoder's clear/eof are 2^lw and 2^lw+1 and the encoder's maxCode is 2^maxWidth−1; (2) both machines advance hi first and compare it with overflow afterwards, and widen by exactly one bit there; (3) in the encoder every data code written is followed by incHi() on every path before the next code or a successful return (so eof is emitted at the width, and after the clear code, the legacy stream has), and in the decoder every code except the clear code advances hi — also on the path that hands the filled output buffer back to the caller; the encoder reduces every hash-table index (first probe, lookup steps, insertion steps) with the single mask len(table)−1, so lookup and insertion walk the same slot sequence; (4) a clear code is emitted only inside incHi behind hi == maxCode — never at the start of the stream — and eof only as the last code of Close; (5) Compress and Decompress use common/lzw (not compress/lzw) with the same constants (MSB, 8), write the whole input and close the writer before taking the bytes.",
		LevelNote:      "Not decided: that decode∘encode is the identity for every input and byte-for-byte equality with a reference legacy encoder — both are relations over all inputs; the rules decide the agreement of the two state machines those rest on. The hash function of the encoder's table and the prefix/suffix tables of the decoder are not analysed.",
		Explanation:    "C25 rules: lzw-agreement (K4 symbolic table agreement, K8 order, K2 pairing, K3 who-may-emit).",
		Mutants: []Mutant{
			{Name: "decoder-flush-before-record", File: "common/lzw/reader.go", Old: "\t\tr.last, r.hi = code, r.hi+1\n", New: "\t\tif r.o >= flushBuffer {\n\t\t\tbreak\n\t\t}\n\t\tr.last, r.hi = code, r.hi+1\n", Desc: "output handed back before the consumed code is recorded: everything after 4 KB decodes wrongly"},
			{Name: "lookup-probe-mask", File: "common/lzw/writer.go", Old: "\t\t\th = (h + 1) & tableMask\n\t\t\tt = w.table[h]", New: "\t\t\th = (h + 1) & maxCode\n\t\t\tt = w.table[h]", Desc: "lookup probes another slot sequence than insertion: valid LZW but not the legacy bytes"},
			{Name: "reset-hi-off-by-one", File: "common/lzw/writer.go", Old: "\t\tw.hi = clear + 1\n", New: "\t\tw.hi = clear + 2\n", Desc: "encoder restarts one code ahead of the decoder after a table reset"},
			{Name: "close-without-advance", File: "common/lzw/writer.go", Old: "\t\tif err := w.incHi(); err != nil && err != errOutOfCodes {\n\t\t\treturn err\n\t\t}\n", New: "", Desc: "eof written at the old width / without the clear code on boundary lengths"},
			{Name: "compare-before-advance", File: "common/lzw/writer.go", Old: "\tw.hi++\n\tif w.hi == w.overflow {\n\t\tw.width++\n\t\tw.overflow <<= 1\n\t}\n", New: "\tif w.hi == w.overflow {\n\t\tw.width++\n\t\tw.overflow <<= 1\n\t}\n\tw.hi++\n", Desc: "encoder widens one code later than the decoder"},
			{Name: "leading-clear", File: "common/lzw/writer.go", Old: "\tif code == invalidCode {\n\t\t// The first code sent is always a literal code.\n", New: "\tif code == invalidCode {\n\t\tif err := w.write(w, uint32(1)<<w.litWidth); err != nil {\n\t\t\treturn 0, err\n\t\t}\n", Desc: "stream starts with a clear code like compress/lzw: not the legacy format"},
			{Name: "reset-overflow", File: "common/lzw/writer.go", Old: "\t\tw.overflow = clear << 1\n", New: "\t\tw.overflow = clear << 2\n", Desc: "after a reset the encoder stays at 9 bits too long"},
			{Name: "decoder-clear-width", File: "common/lzw/reader.go", Old: "\t\t\tr.width = 1 + uint(r.litWidth)\n\t\t\tr.hi = r.eof\n", New: "\t\t\tr.width = 1 + uint(r.litWidth)\n\t\t\tr.hi = r.eof + 1\n", Desc: "decoder restarts one code ahead"},
			{Name: "stdlib-lzw", File: "common/compress.go", Old: "\tfd := lzw.NewReader(wb, lzw.MSB, 8)", New: "\tfd := lzw.NewReader(wb, lzw.LSB, 8)", Desc: "decompress with the other bit order"},
			{Name: "bytes-before-close", File: "common/compress.go", Old: "\t_ = fd.Close()\n\treturn wb.Bytes()", New: "\tout := wb.Bytes()\n\t_ = fd.Close()\n\treturn out", Desc: "last code and eof missing from the output"},
			{Name: "init-hi", File: "common/lzw/writer.go", Old: "\tw.hi = 1<<lw + 1\n", New: "\tw.hi = 1 << (lw + 1)\n", Desc: "encoder starts with the wrong next code"},
		},
	})
}
