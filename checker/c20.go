package main

import (
	"fmt"
	"go/token"
	"go/types"
	"regexp"
	"strings"

	"golang.org/x/tools/go/ssa"
)

// C20 — state sync rebuilds exactly the trusted state and stores nothing else.
func init() {
	register(&Prop{
		ID:             "C20",
		Pkgs:           []string{"common/merkle", "common/trie/ompt", "service/sync2", "service/state"},
		Run:            runC20,
		MinObligations: 30,
		Technique:      "static analysis: provenance of the stored key (computed hash, never supplied), guard dominance of every store by a request-map hit, index agreement requester[i] ↔ bucket[i], must-pass-through of request registration/completion on all paths, order of value replacement before recursive resolution in the trie nodes",
		LevelText:      "Decides on all paths, for merkleBuilder and the ompt node resolvers: (1) the only bucket write in OnData stores the delivered bytes under hasher.Hash(bytes) — computed from the payload, not supplied — and only behind a hit in the outstanding-request map for that hash, so unrequested or forged data is never stored; (2) each requester i is notified only after the bytes were stored successfully into *its own* bucket i; (3) a request is removed from the list and the map (and counted resolved) only after every store and every requester notification succeeded, and a successful OnData always removes it — so `no outstanding requests` cannot be reached with a failed or skipped store; (4) RequestData registers every non-nil key on every path (new list element + map entry, or both parallel slices appended); (5) mpt.resolve requests exactly the node's own hash exactly when it cannot be realized locally; nodeRequester/branch/leaf/extension resolve every child and resolve the value object only after it has been replaced by its typed form.",
		LevelNote:      "Not decided: that the set of requests issued covers the whole state (depends on every trie.Object.Resolve implementation outside the anchors) and equality of the rebuilt contents; those quantify over runtime data.",
		Explanation:    "C20 rules: store-by-hash (K5+K1), own-bucket (K5 index agreement), complete-after-all (K2 with error-edge filtering), register (K2), node-resolution (K1/K2/K8).",
		Mutants: []Mutant{
			{Name: "store-first-bucket-only", File: "common/merkle/builder.go", Old: "\t\t\tbkID := req.bucketIDs[i]\n", New: "\t\t\tbkID := req.bucketIDs[0]\n\t\t\t_ = i\n", Desc: "every requester's data lands in the first requester's bucket"},
			{Name: "store-supplied-key", File: "common/merkle/builder.go", Old: "if err := bk.Set(key, value); err != nil {", New: "if err := bk.Set(req.key, value); err != nil {", Desc: "stored under the requested key rather than the computed hash (equal today; the proof obligation is on the computed one)", Equivalent: false},
			{Name: "store-before-lookup", File: "common/merkle/builder.go", Old: "\treqID := string(key)\n\tif e, ok := reqMap[reqID]; ok {\n\t\treq := e.Value.(*request)", New: "\treqID := string(key)\n\tif bk, err := b.store.GetBucket(bid); err == nil {\n\t\tbk.Set(key, value)\n\t}\n\tif e, ok := reqMap[reqID]; ok {\n\t\treq := e.Value.(*request)", Desc: "unrequested data is stored"},
			{Name: "complete-despite-failed-store", File: "common/merkle/builder.go", Old: "\t\t\tif err := bk.Set(key, value); err != nil {\n\t\t\t\treturn err\n\t\t\t}\n", New: "\t\t\tbk.Set(key, value)\n", Desc: "request completes although the store failed"},
			{Name: "complete-despite-failed-requester", File: "common/merkle/builder.go", Old: "\t\t\tif err := requester.OnData(value, b); err != nil {\n\t\t\t\treturn err\n\t\t\t}\n", New: "\t\t\tif err := requester.OnData(value, b); err != nil {\n\t\t\t\tbreak\n\t\t\t}\n", Desc: "request completes although a requester failed to resolve"},
			{Name: "request-not-listed", File: "common/merkle/builder.go", Old: "\t\t} else {\n\t\t\te = b.requests.PushBack(req)\n\t\t}\n\t\treqMap[reqID] = e", New: "\t\t} else {\n\t\t\te = b.requests.PushBack(req)\n\t\t}\n\t\tif len(key) > 0 {\n\t\t\treqMap[reqID] = e\n\t\t}", Desc: "request counted but its data would be rejected as unrequested"},
			{Name: "keep-in-map", File: "common/merkle/builder.go", Old: "\t\tb.requests.Remove(e)\n\t\tdelete(reqMap, reqID)\n", New: "\t\tb.requests.Remove(e)\n", Desc: "resolved hash stays requested: duplicates are stored again"},
			{Name: "request-parent-hash", File: "common/trie/ompt/mpt.go", Old: "\t\td.RequestData(db.MerkleTrie, hash, &nodeRequester{\n\t\t\tmpt:  m,\n\t\t\thash: hash,", New: "\t\td.RequestData(db.MerkleTrie, hash, &nodeRequester{\n\t\t\tmpt:  m,\n\t\t\thash: m.root.hash(),", Desc: "node deserialised under another hash"},
			{Name: "resolve-before-typed", File: "common/trie/ompt/branch.go", Old: "\t\tif changed {\n\t\t\tn.value = value\n\t\t}\n\t\tif err := n.value.Resolve(bd); err != nil {\n\t\t\treturn err\n\t\t}\n\t}\n\treturn nil\n}\n\nfunc (n *branch) compact", New: "\t\tif err := n.value.Resolve(bd); err != nil {\n\t\t\treturn err\n\t\t}\n\t\tif changed {\n\t\t\tn.value = value\n\t\t}\n\t}\n\treturn nil\n}\n\nfunc (n *branch) compact", Desc: "raw value resolved (a no-op): data referenced from a branch value is never requested"},
			{Name: "leaf-skip-resolve", File: "common/trie/ompt/leaf.go", Old: "\tif changed {\n\t\tn.value = nv\n\t}\n\tif err := n.value.Resolve(bd); err != nil {", New: "\tif changed {\n\t\tn.value = nv\n\t\treturn nil\n\t}\n\tif err := n.value.Resolve(bd); err != nil {", Desc: "typed leaf values are never resolved"},
			{Name: "skip-last-child", File: "common/trie/ompt/branch.go", Old: "\tfor i := range n.children {\n\t\tm.resolve(bd, &n.children[i])\n\t}\n\tif n.value != nil {\n\t\tvalue, changed, err := m.getObject(n.value)", New: "\tfor i := range n.children[:15] {\n\t\tm.resolve(bd, &n.children[i])\n\t}\n\tif n.value != nil {\n\t\tvalue, changed, err := m.getObject(n.value)", Desc: "one subtree is never requested"},
			{Name: "request-on-success", File: "common/trie/ompt/mpt.go", Old: "\t_, err := node.realize(m)\n\tif err != nil {\n\t\thash := node.hash()\n\t\td.RequestData", New: "\t_, err := node.realize(m)\n\tif err == nil {\n\t\thash := node.hash()\n\t\td.RequestData", Desc: "missing nodes are not requested"},
		},
	})
}

// nilErrEdgeFilter: skip CFG edges that establish `v == nil` for one of the given values.
func nilErrEdgeFilter(vals ...ssa.Value) func(p, s *ssa.BasicBlock) bool {
	return func(p, s *ssa.BasicBlock) bool {
		for _, g := range edgeGuard(p, s) {
			b, ok := g.Cond.(*ssa.BinOp)
			if !ok {
				continue
			}
			isNil := (b.Op == token.EQL && g.Pol) || (b.Op == token.NEQ && !g.Pol)
			if !isNil {
				continue
			}
			for _, v := range vals {
				if (b.X == v && isNilConst(b.Y)) || (b.Y == v && isNilConst(b.X)) {
					return true
				}
			}
		}
		return false
	}
}

func isInstr(x ssa.Instruction) func(ssa.Instruction) bool {
	return func(in ssa.Instruction) bool { return in == x }
}

// errValueOf: the error result of a call instruction (the value itself or its last extract).
func errValueOf(call ssa.CallInstruction) ssa.Value {
	v := call.Value()
	if v == nil {
		return nil
	}
	if tup, ok := v.Type().(interface{ Len() int }); ok && v.Referrers() != nil {
		for _, r := range *v.Referrers() {
			if ex, ok := r.(*ssa.Extract); ok && ex.Index == tup.Len()-1 {
				return ex
			}
		}
		return nil
	}
	return v
}

func loadOf(v ssa.Value) ssa.Value {
	if u, ok := v.(*ssa.UnOp); ok && u.Op == token.MUL {
		return u.X
	}
	return nil
}

func runC20(c *Ctx) {
	runC20Extra(c)
	const mk = "common/merkle"
	hit := wTrue("outstanding request for the computed hash", `^\$r\.hasherMap\[\$0\.Hasher\(\)\.Name\(\)\]\[\$0\.Hasher\(\)\.Hash\(\$1\)\]#1$`)

	if od := c.mustFn(mk, "merkleBuilder", "OnData"); od != nil {
		// ---- store-by-hash
		sets := c.calls(od, byMethod("Set", "Put", "Write"))
		var bucketSets []callSite
		for _, s := range sets {
			r, _ := callArgs(s.Common())
			if r != nil && strings.Contains(r.Type().String(), "db.Bucket") {
				bucketSets = append(bucketSets, s)
			}
		}
		// also any deep write through helper calls would escape: all calls taking a db.Bucket
		if len(bucketSets) == 0 {
			c.violate("C20.store-by-hash", "OnData stores the delivered data", od.Pos(), "no bucket write found")
		}
		for _, s := range bucketSets {
			_, a := callArgs(s.Common())
			c.check(len(a) == 2 && render(a[0]) == "$0.Hasher().Hash($1)" && render(a[1]) == "$1", "C20.store-by-hash", "stored as hash(payload) → payload", s.Pos(), "Set(hasher.Hash(value), value)", "bucket write stores "+render(a[0])+" → "+render(a[len(a)-1])+": the key must be the hash computed from the delivered bytes")
			c.requireAt("C20.store-by-hash", "store only for a requested hash", s.Instr, hit)
		}
		// ---- own-bucket + notification order
		var reqCalls []callSite
		for _, s := range c.calls(od, byMethod("OnData")) {
			reqCalls = append(reqCalls, s)
		}
		if len(reqCalls) == 0 {
			c.violate("C20.own-bucket", "requesters are notified", od.Pos(), "no requester notification")
		}
		for _, rc := range reqCalls {
			r, a := callArgs(rc.Common())
			c.check(len(a) == 2 && render(a[0]) == "$1" && render(a[1]) == "$r", "C20.own-bucket", "requester receives the verified payload and this builder", rc.Pos(), "OnData(value, b)", "requester called with "+render(a[0]))
			ia1, _ := loadOf(unwrap(r)).(*ssa.IndexAddr)
			found := false
			why := "no successful store into the requester's bucket dominates its notification"
			for _, s := range bucketSets {
				if !dominatesInstr(s.Instr, rc.Instr) {
					continue
				}
				br, _ := callArgs(s.Common())
				ex, _ := unwrap(br).(*ssa.Extract)
				if ex == nil {
					continue
				}
				gb, _ := ex.Tuple.(*ssa.Call)
				if gb == nil || methodName(gb.Common()) != "GetBucket" {
					continue
				}
				_, ga := callArgs(gb.Common())
				ia2, _ := loadOf(unwrap(ga[0])).(*ssa.IndexAddr)
				if ia1 == nil || ia2 == nil {
					why = "requester or bucket id is not taken from the request's parallel slices"
					continue
				}
				if ia1.Index != ia2.Index {
					why = "the store goes to bucketIDs[" + render(ia2.Index) + "], the requester is requesters[" + render(ia1.Index) + "]: a requester in another bucket never gets the data"
					continue
				}
				x1, x2 := render(ia1.X), render(ia2.X)
				if !strings.HasSuffix(x1, ".requesters") || !strings.HasSuffix(x2, ".bucketIDs") || strings.TrimSuffix(x1, ".requesters") != strings.TrimSuffix(x2, ".bucketIDs") {
					why = "slices differ: " + x1 + " / " + x2
					continue
				}
				if _, ok := holdsAll(altGuards(rc.Instr.Block()), wSame("store succeeded", `\.Set\(\$0\.Hasher\(\)\.Hash\(\$1\),\$1\)$`, `^nil$`)); !ok {
					why = "the notification is not behind Set(...) == nil"
					continue
				}
				found = true
			}
			c.check(found, "C20.own-bucket", "requester i is notified only after a successful store into bucket i", rc.Pos(), "bucketIDs[i] ↔ requesters[i], Set == nil", why)
		}
		// ---- complete-after-all
		var completes []ssa.Instruction
		var remove, del ssa.Instruction
		for _, s := range c.calls(od, byCallee("list.List).Remove")) {
			remove = s.Instr
			completes = append(completes, s.Instr)
		}
		for _, s := range c.calls(od, byCallee("builtin:delete")) {
			del = s.Instr
			completes = append(completes, s.Instr)
		}
		for _, fs := range fieldStores([]*ssa.Function{od}, "merkleBuilder", "resolved") {
			completes = append(completes, fs.Store)
		}
		c.check(remove != nil && del != nil && len(completes) >= 3, "C20.complete-after-all", "completion = list removal + map removal + resolved count", od.Pos(), "all three present", "OnData does not remove the request from both the list and the map and count it")
		isComplete := func(in ssa.Instruction) bool {
			for _, x := range completes {
				if x == in {
					return true
				}
			}
			return false
		}
		var fallible []callSite
		fallible = append(fallible, bucketSets...)
		fallible = append(fallible, reqCalls...)
		fallible = append(fallible, c.calls(od, byMethod("GetBucket"))...)
		for _, k := range fallible {
			ev := errValueOf(k.Instr)
			if ev == nil {
				c.violate("C20.complete-after-all", "error of "+methodName(k.Common())+" honoured", k.Pos(), "result discarded")
				continue
			}
			pathEdgeFilter = nilErrEdgeFilter(ev)
			tr, reach := pathAvoiding(od, k.Instr, isComplete, nil)
			pathEdgeFilter = nil
			c.check(!reach, "C20.complete-after-all", "request not completed when "+methodName(k.Common())+" failed", k.Pos(), "error edge never reaches completion", "the request is removed/counted resolved on a path where "+methodName(k.Common())+" did not succeed ("+traceString(tr)+")")
		}
		for _, in := range completes {
			c.requireAt("C20.complete-after-all", "completion only for the hit request", in, hit)
		}
		if remove != nil {
			_, a := callArgs(remove.(ssa.CallInstruction).Common())
			c.check(strings.HasSuffix(render(a[len(a)-1]), "[$0.Hasher().Hash($1)]#0"), "C20.complete-after-all", "the element removed is the one that was hit", remove.Pos(), render(a[len(a)-1]), "removes "+render(a[len(a)-1]))
		}
		if del != nil {
			_, a := callArgs(del.(ssa.CallInstruction).Common())
			c.check(len(a) == 2 && render(a[0]) == "$r.hasherMap[$0.Hasher().Name()]" && render(a[1]) == "$0.Hasher().Hash($1)", "C20.complete-after-all", "the map entry deleted is the one that was hit", del.Pos(), "delete(reqMap, reqID)", "deletes "+render(a[0])+"["+render(a[len(a)-1])+"]")
		}
		// every success exit went through the completion
		for _, e := range successAlts(od) {
			for name, must := range map[string]ssa.Instruction{"list removal": remove, "map removal": del} {
				if must == nil {
					continue
				}
				tr, reach := pathAvoiding(od, nil, isInstr(e.Ret), isInstr(must))
				c.check(!reach, "C20.complete-after-all", "success ⇒ "+name, e.pos(), "no bypass", "OnData can return success without the "+name+" ("+traceString(tr)+")")
			}
		}
		// miss ⇒ error
		for _, e := range exitAlts(od) {
			if _, ok := holds(e.Guards, wFalse("miss", `^\$r\.hasherMap\[\$0\.Hasher\(\)\.Name\(\)\]\[\$0\.Hasher\(\)\.Hash\(\$1\)\]#1$`)); ok {
				c.check(definitelyNonNilErr(e.Results[0], e.Guards), "C20.store-by-hash", "unrequested data is rejected with an error", e.pos(), render(e.Results[0]), "unrequested data is accepted silently")
			}
		}
	}

	if uc := c.mustFn(mk, "merkleBuilder", "UnresolvedCount"); uc != nil {
		for _, e := range exitAlts(uc) {
			c.check(render(e.Results[0]) == "$r.requests.Len()", "C20.complete-after-all", "UnresolvedCount = length of the request list", e.pos(), "requests.Len()", "UnresolvedCount returns "+render(e.Results[0]))
		}
	}

	// ---- register
	if rd := c.mustFn(mk, "merkleBuilder", "RequestData"); rd != nil {
		var regs []ssa.Instruction // instructions that make a key outstanding / attach a requester
		var mapUp *ssa.MapUpdate
		for _, b := range rd.Blocks {
			for _, in := range b.Instrs {
				if mu, ok := in.(*ssa.MapUpdate); ok && strings.Contains(mu.Map.Type().String(), "requestMap") && !strings.Contains(mu.Map.Type().String(), "map[string]") {
					mapUp = mu
				}
			}
		}
		lists := c.calls(rd, byCallee("list.List).PushBack", "list.List).InsertAfter", "list.List).PushFront", "list.List).InsertBefore"))
		appReq := fieldStores([]*ssa.Function{rd}, "request", "requesters")
		appBk := fieldStores([]*ssa.Function{rd}, "request", "bucketIDs")
		if mapUp == nil || len(lists) == 0 || len(appReq) == 0 || len(appBk) == 0 {
			c.violate("C20.register", "RequestData structure", rd.Pos(), "expected a map entry, a list insert and appends to both parallel slices")
		} else {
			c.check(render(mapUp.Key) == "$1" || render(mapUp.Key) == "string($1)" || strings.Contains(render(mapUp.Key), "$1"), "C20.register", "map entry keyed by the requested hash", mapUp.Pos(), render(mapUp.Key), "map entry keyed by "+render(mapUp.Key))
			isList := false
			if ex := unwrap(mapUp.Value); ex != nil {
				isList = derivesFrom(mapUp.Value, func(v ssa.Value) bool {
					cl, ok := v.(*ssa.Call)
					return ok && strings.Contains(calleeName(cl.Common()), "list.List).")
				}, 6)
			}
			c.check(isList, "C20.register", "map entry points at the inserted list element", mapUp.Pos(), "reqMap[reqID] = e", "map entry is not the inserted list element")
			regs = append(regs, mapUp)
			for _, s := range appReq {
				regs = append(regs, s.Store)
			}
			isReg := func(in ssa.Instruction) bool {
				for _, x := range regs {
					if x == in {
						return true
					}
				}
				return false
			}
			excused := []Want{wSame("key == nil", `^\$1$`, `^nil`), wSame("no hasher", `^\$0\.Hasher\(\)$`, `^nil`)}
			tr, reach := pathAvoidingEdges(rd, nil, isReturn, isReg, excused...)
			c.check(!reach, "C20.register", "every non-nil key with a hasher is registered", rd.Pos(), "no bypass", "RequestData can return without registering the request ("+traceString(tr)+")")
			// new request: list insert precedes and is unavoidable before the map entry
			isListIns := func(in ssa.Instruction) bool {
				for _, s := range lists {
					if s.Instr == in {
						return true
					}
				}
				return false
			}
			tr, reach = pathAvoiding(rd, nil, isInstr(mapUp), isListIns)
			c.check(!reach, "C20.register", "a new map entry always has its list element (counted as unresolved)", mapUp.Pos(), "list insert on every path", "a request can enter the map without entering the list ("+traceString(tr)+")")
			for _, s := range lists {
				tr, reach := pathAvoiding(rd, s.Instr, isReturn, isInstr(mapUp))
				c.check(!reach, "C20.register", "a listed request always gets its map entry (its data will be accepted)", s.Pos(), "map update on every path", "a request can be listed without a map entry: its data is rejected as unrequested and the count never reaches zero ("+traceString(tr)+")")
			}
			// hit: both parallel slices grow together
			for _, s := range appReq {
				ok := false
				for _, t := range appBk {
					if t.Store.Block() == s.Store.Block() || dominatesInstr(t.Store, s.Store) || dominatesInstr(s.Store, t.Store) {
						ok = true
					}
				}
				c.check(ok, "C20.register", "requesters and bucketIDs grow together", s.Store.Pos(), "paired appends", "a requester is appended without its bucket id")
			}
			// new request literal carries key, bid, requester
			nNew := 0
			for _, fs := range fieldStores([]*ssa.Function{rd}, "request", "key") {
				nNew++
				c.check(render(fs.Store.Val) == "$1", "C20.register", "new request records the requested hash", fs.Store.Pos(), "key", "records "+render(fs.Store.Val))
			}
			c.check(nNew > 0, "C20.register", "new request literal", rd.Pos(), "found", "no request literal")
		}
	}

	// ---- node-resolution
	const op = "common/trie/ompt"
	if rs := c.mustFn(op, "mpt", "resolve"); rs != nil {
		reqs := c.calls(rs, byMethod("RequestData"))
		c.check(len(reqs) == 1, "C20.node-resolution", "mpt.resolve issues one request", rs.Pos(), "one RequestData", "expected exactly one RequestData call")
		for _, q := range reqs {
			_, a := callArgs(q.Common())
			mt := ""
			for _, imp := range c.pkg(op).Types.Imports() {
				if strings.HasSuffix(imp.Path(), "/common/db") {
					if k, ok := imp.Scope().Lookup("MerkleTrie").(*types.Const); ok {
						mt = k.Val().ExactString()
					}
				}
			}
			c.check(len(a) == 3 && strings.HasSuffix(render(a[1]), ".hash()") && strings.HasPrefix(render(a[1]), "*$1"), "C20.node-resolution", "requests the unresolved node's own hash", q.Pos(), render(a[1]), "requests "+render(a[1]))
			k0, _ := a[0].(*ssa.Const)
			c.check(k0 != nil && mt != "" && k0.Value.ExactString() == mt, "C20.node-resolution", "requests from the trie bucket", q.Pos(), a[0].String(), "bucket "+a[0].String())
			c.requireAt("C20.node-resolution", "request only when the node is not available locally", q.Instr, wDiffer("realize failed", `^\(\*\$1\)\.realize\(\$r\)#1$|^\*\$1\.realize\(\$r\)#1$`, `^nil$`))
			// requester literal
			okM, okH := false, false
			for _, fs := range fieldStores([]*ssa.Function{rs}, "nodeRequester", "mpt") {
				okM = render(fs.Store.Val) == "$r"
			}
			for _, fs := range fieldStores([]*ssa.Function{rs}, "nodeRequester", "hash") {
				okH = fs.Store.Val == a[1] || render(fs.Store.Val) == render(a[1])
			}
			c.check(okM && okH, "C20.node-resolution", "requester deserialises under the requested hash into this trie", q.Pos(), "nodeRequester{m, hash}", "requester literal carries another trie or hash")
			// converse: realize failure always requests
			var rz ssa.CallInstruction
			for _, k := range c.calls(rs, byMethod("realize")) {
				rz = k.Instr
			}
			if rz != nil {
				pathEdgeFilter = nilErrEdgeFilter(errValueOf(rz))
				tr, reach := pathAvoiding(rs, rz, isReturn, isInstr(q.Instr))
				pathEdgeFilter = nil
				c.check(!reach, "C20.node-resolution", "an unavailable node is always requested", rz.Pos(), "no bypass", "realize can fail without a request being issued ("+traceString(tr)+")")
			} else {
				c.violate("C20.node-resolution", "availability test", rs.Pos(), "no realize call")
			}
		}
	}
	if nr := c.mustFn(op, "nodeRequester", "OnData"); nr != nil {
		ds := c.calls(nr, byCallee("ompt.deserialize"))
		rv := c.calls(nr, byMethod("resolve"))
		if len(ds) != 1 || len(rv) != 1 {
			c.violate("C20.node-resolution", "nodeRequester.OnData structure", nr.Pos(), "expected deserialize then resolve")
		} else {
			_, a := callArgs(ds[0].Common())
			c.check(render(a[0]) == "$r.hash" && render(a[1]) == "$0", "C20.node-resolution", "delivered bytes deserialised under the requested hash", ds[0].Pos(), "deserialize(r.hash, bs)", "deserialize("+render(a[0])+","+render(a[1])+")")
			_, b := callArgs(rv[0].Common())
			c.check(len(b) == 2 && render(b[0]) == "$r.mpt" && render(b[1]) == "$1", "C20.node-resolution", "children resolved against the same builder", rv[0].Pos(), "node.resolve(r.mpt, bd)", "resolve args differ")
			for _, e := range successAlts(nr) {
				c.check(unwrap(e.Results[0]) == rv[0].Instr.Value(), "C20.node-resolution", "nodeRequester succeeds only with the node's recursive resolution", e.pos(), "returns node.resolve(...)", "OnData can succeed without resolving the delivered node: returns "+render(e.Results[0]))
			}
		}
	}
	for _, tn := range []string{"branch", "leaf"} {
		fn := c.mustFn(op, tn, "resolve")
		if fn == nil {
			continue
		}
		res := c.calls(fn, byMethod("Resolve"))
		gos := c.calls(fn, byMethod("getObject"))
		stores := fieldStores([]*ssa.Function{fn}, tn, "value")
		if len(res) != 1 || len(gos) != 1 || len(stores) == 0 {
			c.violate("C20.node-resolution", tn+".resolve structure", fn.Pos(), "expected getObject, replacement of n.value, Resolve")
			continue
		}
		rcv, a := callArgs(res[0].Common())
		c.check(render(rcv) == "$r.value" && len(a) == 1 && render(a[0]) == "$1", "C20.node-resolution", tn+".resolve resolves its value with the builder", res[0].Pos(), "n.value.Resolve(bd)", "resolves "+render(rcv))
		for _, st := range stores {
			tr, reach := pathAvoiding(fn, res[0].Instr, isInstr(st.Store), nil)
			c.check(!reach, "C20.node-resolution", tn+".resolve: value replaced by its typed form before it is resolved", st.Store.Pos(), "store precedes Resolve", "n.value is replaced after Resolve was called on the raw value (whose Resolve does nothing) ("+traceString(tr)+")")
			c.check(unwrap(st.Store.Val) != nil && strings.HasSuffix(render(st.Store.Val), ".getObject($r.value)#0"), "C20.node-resolution", tn+".resolve: replacement is the typed object", st.Store.Pos(), render(st.Store.Val), "n.value replaced by "+render(st.Store.Val))
		}
		// changed ⇒ stored before Resolve
		isStore := func(in ssa.Instruction) bool {
			for _, st := range stores {
				if st.Store == in {
					return true
				}
			}
			return false
		}
		tr, reach := pathAvoidingEdges(fn, gos[0].Instr, isInstr(res[0].Instr), isStore, wFalse("unchanged", `\.getObject\(\$r\.value\)#1$`))
		c.check(!reach, "C20.node-resolution", tn+".resolve: a changed value is installed before Resolve", res[0].Pos(), "no bypass", "Resolve can run on the raw value although getObject produced a typed one ("+traceString(tr)+")")
		// success ⇒ resolved (unless there is no value)
		for _, e := range successAlts(fn) {
			tr, reach := pathAvoidingEdges(fn, nil, isInstr(e.Ret), isInstr(res[0].Instr), wSame("no value", `^\$r\.value$`, `^nil`))
			c.check(!reach, "C20.node-resolution", tn+".resolve: success ⇒ value resolved", e.pos(), "no bypass", tn+".resolve can succeed without resolving its value ("+traceString(tr)+")")
		}
		// errors propagate
		for _, k := range []callSite{res[0], gos[0]} {
			ev := errValueOf(k.Instr)
			for _, e := range successAlts(fn) {
				if ei := errResultIndex(fn); ei >= 0 && ev != nil && (e.Results[ei] == ev || unwrap(e.Results[ei]) == unwrap(ev)) {
					continue // `return X.Resolve(bd)`: the call's own error is what this exit returns
				}
				pathEdgeFilter = nilErrEdgeFilter(ev)
				tr, reach := pathAvoiding(fn, k.Instr, isInstr(e.Ret), nil)
				pathEdgeFilter = nil
				c.check(!reach, "C20.node-resolution", tn+".resolve: failure of "+methodName(k.Common())+" is reported", e.pos(), "error edge never reaches success", "failure swallowed ("+traceString(tr)+")")
			}
		}
	}
	if br := c.fn(op, "branch", "resolve"); br != nil {
		cs := c.calls(br, byCallee("mpt).resolve"))
		if len(cs) != 1 {
			c.violate("C20.node-resolution", "branch.resolve resolves children", br.Pos(), "expected one m.resolve call in a loop")
		} else {
			_, a := callArgs(cs[0].Common())
			ia, _ := a[len(a)-1].(*ssa.IndexAddr)
			h := loopHeaderOf(cs[0].Instr.Block())
			okIdx := false
			bound := int64(-1)
			if ia != nil && h != nil && strings.HasSuffix(render(ia.X), "$r.children") {
				// index is the loop index of a loop over 0 … 15 (range or counted form)
				if li, lb, ok := indexLoop(h); ok && ia.Index == li {
					okIdx = true
					if k, isK := constInt(lb); isK {
						bound = k
					} else if render(lb) == "len($r.children)" || render(lb) == "len(*&$r.children)" {
						bound = 16
					}
				}
			}
			c.check(okIdx && bound == 16, "C20.node-resolution", "branch.resolve visits children[0..15]", cs[0].Pos(), "range over all 16 children", "the child loop does not visit every child")
			if h != nil {
				tr, by := loopBypass(br, h, cs[0].Instr)
				c.check(!by, "C20.node-resolution", "branch.resolve: no child skipped", cs[0].Pos(), "no bypass", "an iteration can skip the child ("+traceString(tr)+")")
				tr2, reach := pathAvoiding(br, nil, isReturn, func(in ssa.Instruction) bool { return in == h.Instrs[0] })
				c.check(!reach, "C20.node-resolution", "branch.resolve: child loop on every path", br.Pos(), "no bypass", "return without visiting children ("+traceString(tr2)+")")
			}
			c.check(render(a[0]) == "$1" || (len(a) == 2 && render(a[0]) == "$1"), "C20.node-resolution", "children resolved against the same builder", cs[0].Pos(), "bd", "builder differs")
		}
	}
	if ex := c.mustFn(op, "extension", "resolve"); ex != nil {
		cs := c.calls(ex, byCallee("mpt).resolve"))
		if len(cs) != 1 {
			c.violate("C20.node-resolution", "extension.resolve resolves next", ex.Pos(), "expected one m.resolve call")
		} else {
			_, a := callArgs(cs[0].Common())
			c.check(render(a[len(a)-1]) == "&$r.next" || strings.HasSuffix(render(a[len(a)-1]), "$r.next"), "C20.node-resolution", "extension.resolve follows next", cs[0].Pos(), render(a[len(a)-1]), "resolves "+render(a[len(a)-1]))
			tr, reach := pathAvoiding(ex, nil, isReturn, isInstr(cs[0].Instr))
			c.check(!reach, "C20.node-resolution", "extension.resolve: next on every path", cs[0].Pos(), "no bypass", "return without resolving next ("+traceString(tr)+")")
		}
	}
	if mr := c.mustFn(op, "mpt", "Resolve"); mr != nil {
		cs := c.calls(mr, byCallee("mpt).resolve"))
		ok := len(cs) == 1
		if ok {
			tr, reach := pathAvoidingEdges(mr, nil, isReturn, isInstr(cs[0].Instr), wSame("empty trie", `^\$r\.root$`, `^nil`))
			ok = !reach
			_ = tr
		}
		c.check(ok, "C20.node-resolution", "mpt.Resolve starts at the root unless the trie is empty", mr.Pos(), "m.resolve(bd, &m.root)", "Resolve can return without resolving the root")
	}
}

// runC20Extra: the callers of the builder. A sync reports success only when
// nothing is outstanding; every trusted root handed to the state builder
// reaches a constructor that resolves through the builder (each to its own);
// an account's Resolve asks for every part it references.
func runC20Extra(c *Ctx) {
	if f := c.mustFn("service/sync2", "syncProcessor", "DoSync"); f != nil {
		n := 0
		for _, e := range exitAlts(f) {
			for _, fl := range flowsOf(e.Results[0], nil) {
				if !isNilConst(fl.Src) {
					continue
				}
				n++
				gs := append(append([]Guard{}, e.Guards...), fl.Guards...)
				c.requireGuard("C20.sync-verdict", "DoSync reports success", e.pos(), gs, wEQ("nothing is unresolved", 0, t(1, `\.UnresolvedCount\(\)$`)))
			}
		}
		if n == 0 {
			c.undecided("C20.sync-verdict", "DoSync", f.Pos(), "no nil flow into the result")
		}
	}
	if f := c.mustFn("service/sync2", "syncer", "getStateBuilder"); f != nil {
		var bld ssa.Value
		for _, cs := range c.calls(f, byMethod("newMerkleBuilder")) {
			bld = cs.Instr.Value()
		}
		used := map[*ssa.Parameter][]string{}
		for _, cs := range c.calls(f, func(cc *ssa.CallCommon) bool { return true }) {
			_, a := callArgs(cs.Common())
			with := false
			for _, x := range a {
				if x == bld {
					with = true
				}
			}
			if !with {
				continue
			}
			for _, x := range a {
				if p, ok := x.(*ssa.Parameter); ok {
					used[p] = append(used[p], calleeName(cs.Common()))
				}
			}
		}
		np := 0
		for _, p := range f.Params[1:] {
			if sl, ok := p.Type().Underlying().(*types.Slice); !ok || sl.Elem().String() != "byte" {
				continue
			}
			np++
			c.check(len(used[p]) == 1, "C20.trusted-roots", "trusted root "+p.Name()+" is handed to exactly one builder-resolving constructor", f.Pos(), strings.Join(used[p], ","), fmt.Sprintf("%s reaches %d constructors %v: a trusted root is never requested (or another is requested in its place) and the sync finishes with that part of the state missing", p.Name(), len(used[p]), used[p]))
		}
		if bld == nil || np < 5 {
			c.undecided("C20.trusted-roots", "getStateBuilder", f.Pos(), fmt.Sprintf("builder found=%v, %d hash parameters", bld != nil, np))
		}
	}
	if f := c.mustFn("service/state", "accountSnapshotImpl", "Resolve"); f != nil {
		parts := c.calls(f, byMethod("Resolve"))
		if len(parts) < 5 {
			c.undecided("C20.account-parts", "accountSnapshotImpl.Resolve", f.Pos(), fmt.Sprintf("expected 5 sub-resolves (api info, storage, current/next contract, object graph), found %d", len(parts)))
		}
		for _, pc := range parts {
			recv := render(pc.Common().Value)
			if !pc.Common().IsInvoke() {
				r, _ := callArgs(pc.Common())
				recv = render(r)
			}
			recv = strings.TrimSuffix(recv, ".(trie.Immutable)")
			bad := false
			tr := ""
			for _, e := range exitAlts(f) {
				if !isNilConst(e.Results[0]) {
					continue
				}
				if t0, by := pathAvoidingEdges(f, f.Blocks[0].Instrs[0], func(in ssa.Instruction) bool { return in == ssa.Instruction(e.Ret) }, func(in ssa.Instruction) bool { return in == ssa.Instruction(pc.Instr) },
					wSame("the part is absent", "^"+regexp.QuoteMeta(recv)+"$", `^nil$`)); by {
					bad = true
					tr = traceString(t0)
				}
			}
			c.check(!bad, "C20.account-parts", "account Resolve succeeds only after asking for "+recv, pc.Pos(), "skipped only when absent", "Resolve can return success without resolving "+recv+" ("+tr+"): the data behind it is never requested and the synced state is incomplete although nothing is outstanding")
		}
	}
}
