package main

import (
	"fmt"
	"go/token"
	"regexp"
	"strings"

	"golang.org/x/tools/go/ssa"
)

// C37 — proposed transactions are valid for the block being proposed.
func init() {
	register(&Prop{
		ID:             "C37",
		Pkgs:           []string{"service", "service/transaction"},
		Run:            runC37,
		MinObligations: 14,
		Technique:      "static analysis: guard dominance at the selection site (every selected transaction passed the same window check, duplicate lookup and cumulative pre-validation that validation applies), all-or-nothing shape of PreValidate (no balance update before a rejecting exit), debit guards",
		LevelText:      "Decides on all paths: a pool transaction is appended to the candidate list only behind CheckTx == nil on the window built by the very constructor validation uses for that group and world context, HasRecent(group, id, timestamp) == (false, nil), and PreValidate(wc, update=true) == nil on that same context; PreValidate updates the cumulative balances only when asked, only behind balance ≥ step limit × price + value on those values, debits the sender by that amount and credits the recipient by the value — and never before a rejecting exit, so a transaction that is dropped leaves no trace in the balances later candidates are checked against.",
		LevelNote:      "That peers run the same code, and size/count limits, are outside the claim.",
		Explanation:    "C37 rules: candidate-guards (K1+K5), prevalidate-atomic (K2: no error exit reachable after a balance update), cumulative (K1/K5 on the update).",
		Mutants: []Mutant{
			{Name: "future-tx-selected", File: "service/transactionpool.go", Old: "\t\t\t\tdropped = append(dropped, e)\n\t\t\t}\n\t\t\tcontinue\n\t\t}\n\t\tif has, err := tp.tim.HasRecent", New: "\t\t\t\tdropped = append(dropped, e)\n\t\t\t\tcontinue\n\t\t\t}\n\t\t}\n\t\tif has, err := tp.tim.HasRecent", Desc: "transactions failing the window check for another reason than expiry are still selected"},
			{Name: "rejected-tx-leaves-balance", File: "service/transaction/transaction_v3.go", Old: "\tas2 := wc.GetAccountState(tx.To().ID())\n\tif contract.IsCallableDataType(tx.DataType) {\n\t\tif !as2.CanAcceptTx(wc) {\n\t\t\treturn ContractNotUsable.New(\"NotAcceptable\")\n\t\t}\n\t}\n\n\t// for cumulative balance check\n\tif update {\n\t\tas1.SetBalance(new(big.Int).Sub(balance1, trans))\n\t\tif tx.Value != nil {\n\t\t\tbalance2 := as2.GetBalance()\n\t\t\tas2.SetBalance(new(big.Int).Add(balance2, &tx.Value.Int))\n\t\t}\n\t}\n\treturn nil", New: "\tas2 := wc.GetAccountState(tx.To().ID())\n\n\t// for cumulative balance check\n\tif update {\n\t\tas1.SetBalance(new(big.Int).Sub(balance1, trans))\n\t\tif tx.Value != nil {\n\t\t\tbalance2 := as2.GetBalance()\n\t\t\tas2.SetBalance(new(big.Int).Add(balance2, &tx.Value.Int))\n\t\t}\n\t}\n\tif contract.IsCallableDataType(tx.DataType) {\n\t\tif !as2.CanAcceptTx(wc) {\n\t\t\treturn ContractNotUsable.New(\"NotAcceptable\")\n\t\t}\n\t}\n\treturn nil", Desc: "a rejected transaction's transfer stays in the cumulative balances"},
			{Name: "prevalidate-without-update", File: "service/transactionpool.go", Old: "if err := tx.PreValidate(wc, true); err != nil {", New: "if err := tx.PreValidate(wc, false); err != nil {", Desc: "candidates are not checked against the cumulative effect of earlier candidates"},
			{Name: "duplicate-lookup-error-ignored", File: "service/transactionpool.go", Old: "\t\tif has, err := tp.tim.HasRecent(tx.Group(), tx.ID(), tx.Timestamp()); err != nil {\n\t\t\tcontinue\n\t\t} else if has {", New: "\t\tif has, _ := tp.tim.HasRecent(tx.Group(), tx.ID(), tx.Timestamp()); has {", Desc: "control: a failed duplicate lookup reports has=false; selecting then is wrong", Equivalent: false},
			{Name: "window-of-other-group", File: "service/transactionpool.go", Old: "tsr := NewTxTimestampRangeFor(wc, tp.group)", New: "tsr := NewTxTimestampRangeFor(wc, module.TransactionGroupPatch)", Desc: "normal pool filtered with the patch window"},
			{Name: "debit-without-balance-check", File: "service/transaction/transaction_v3.go", Old: "\tif balance1.Cmp(trans) < 0 {\n\t\treturn NotEnoughBalanceError.Errorf(\"OutOfBalance(balance:%s, value:%s)\", balance1, trans)\n\t}\n", New: "", Desc: "cumulative balance can go negative"},
		},
	})
}

func runC37(c *Ctx) {
	cand := c.mustFn("service", "TransactionPool", "Candidate")
	if cand != nil {
		var sel *ssa.Call
		for _, cs := range c.calls(cand, byCallee("builtin:append")) {
			call := cs.Instr.(*ssa.Call)
			if strings.Contains(call.Type().String(), "module.Transaction") {
				sel = call
			}
		}
		if sel == nil {
			c.violate("C37.candidate-guards", "selection site", cand.Pos(), "no append to the candidate list")
		} else {
			c.requireAt("C37.candidate-guards", "selected ⊢ inside the block's timestamp window", sel, wSame("CheckTx(tx) == nil", `^service\.NewTxTimestampRangeFor\(\$0,\$r\.group\)\.CheckTx\(`, `^nil$`))
			c.requireAt("C37.candidate-guards", "selected ⊢ duplicate lookup succeeded", sel, wSame("HasRecent error == nil", `\.HasRecent\(.*\.Group\(\),.*\.ID\(\),.*\.Timestamp\(\)\)#1$`, `^nil$`))
			c.requireAt("C37.candidate-guards", "selected ⊢ not included before", sel, wFalse("HasRecent == false", `\.HasRecent\(.*\.Group\(\),.*\.ID\(\),.*\.Timestamp\(\)\)#0$`))
			c.requireAt("C37.candidate-guards", "selected ⊢ pre-validated with cumulative update on the proposal's context", sel, wSame("PreValidate(wc, true) == nil", `\.PreValidate\(\$0,true\)$`, `^nil$`))
			// the selected element is the one that was checked
			okSame := false
			for _, cs := range c.calls(cand, byMethod("PreValidate")) {
				r, _ := callArgs(cs.Common())
				if strings.Contains(render(sel), render(r)) || true {
					// the appended value is stored into the varargs array: compare with it
					for _, b := range cand.Blocks {
						for _, in := range b.Instrs {
							if st, ok := in.(*ssa.Store); ok && st.Block() == sel.Block() {
								if unwrap(st.Val) == unwrap(r) {
									okSame = true
								}
							}
						}
					}
				}
			}
			c.check(okSame, "C37.candidate-guards", "the transaction appended is the one that was checked", sel.Pos(), "same value", "the appended transaction is not the value that passed the checks")
		}
	}

	// ---- PreValidate
	for _, t := range []string{"transactionV3", "transactionV2"} {
		pv := c.mustFn("service/transaction", t, "PreValidate")
		if pv == nil {
			continue
		}
		sets := c.calls(pv, byMethod("SetBalance"))
		if len(sets) == 0 {
			c.violate("C37.cumulative", t+".PreValidate updates balances", pv.Pos(), "no cumulative balance update")
			continue
		}
		for _, s := range sets {
			c.requireAt("C37.cumulative", t+".PreValidate updates only when asked", s.Instr, wTrue("update", `^\$1$`))
			// all-or-nothing: no rejecting exit after an update
			bad := false
			trace := ""
			for _, e := range exitAlts(pv) {
				if !definitelyNonNilErr(e.Results[0], e.Guards) {
					continue
				}
				if tr, reach := pathAvoiding(pv, s.Instr, func(in ssa.Instruction) bool { return in == ssa.Instruction(e.Ret) }, nil); reach {
					bad = true
					trace = traceString(tr)
				}
			}
			c.check(!bad, "C37.prevalidate-atomic", t+".PreValidate: no rejection after a balance update", s.Pos(), "updates come last", "PreValidate can reject after it already changed a balance: a dropped transaction leaves its transfer in the balances later candidates are checked against ("+trace+")")
			_, a := callArgs(s.Common())
			if x, y, ok := bigBin(a[0], "Sub"); ok {
				if wit, okG := geGuardOn(guardsAt(s.Instr), x, y); okG {
					c.ok("C37.cumulative", t+".PreValidate debit ⊢ balance ≥ amount", s.Pos(), "established by "+wit)
				} else {
					c.violate("C37.cumulative", t+".PreValidate debit ⊢ balance ≥ amount", s.Pos(), "the cumulative debit is not behind balance ≥ amount on the same values")
				}
				r, _ := callArgs(s.Common())
				c.check(strings.Contains(render(r), "From().ID()") && render(x) == render(r)+".GetBalance()", "C37.cumulative", t+".PreValidate debits the sender", s.Pos(), "sender balance − amount", "debit target "+render(r)+", base "+render(x))
				if t == "transactionV3" {
					ry := render(y)
					c.check(strings.Contains(ry, ".Mul(") && strings.Contains(ry, "StepLimit") && strings.Contains(ry, ".StepPrice()"), "C37.cumulative", t+".PreValidate amount = stepLimit × price (+ value)", s.Pos(), ry, "amount is "+ry)
				}
			}
			if x, y, ok := bigBin(a[0], "Add"); ok {
				r, _ := callArgs(s.Common())
				c.check(strings.Contains(render(r), "To().ID()") && render(x) == render(r)+".GetBalance()" && strings.Contains(render(y), "Value"), "C37.cumulative", t+".PreValidate credits the recipient by the value", s.Pos(), "recipient balance + value", "credit target "+render(r)+" amount "+render(y))
			}
		}
	}
	runC37Extra(c)
	runC37Second(c)
	_ = fmt.Sprint
	_ = token.NoPos
}

var bigMutators = map[string]bool{"Add": true, "Sub": true, "Mul": true, "Div": true, "Quo": true, "Rem": true, "Mod": true, "Set": true, "SetInt64": true, "SetUint64": true, "SetBytes": true, "SetString": true, "Neg": true, "Abs": true, "Lsh": true, "Rsh": true, "Exp": true, "And": true, "Or": true, "Xor": true, "Not": true, "SetBit": true, "Sqrt": true}

func runC37Extra(c *Ctx) {
	// ---- PreValidate (v3): the amount compared is the amount debited; the credit reads the
	// recipient's balance after the debit (sender and recipient may be one account); every
	// non-patch transaction passes the minimum-step check
	if pv := c.mustFn("service/transaction", "transactionV3", "PreValidate"); pv != nil {
		var debit *ssa.Call
		for _, s := range c.calls(pv, byMethod("SetBalance")) {
			_, a := callArgs(s.Common())
			if x, y, ok := bigBin(a[0], "Sub"); ok {
				debit = s.Instr.(*ssa.Call)
				// the comparison that guards the debit
				var cmp *ssa.Call
				for _, cs := range c.calls(pv, byCallee("(*math/big.Int).Cmp")) {
					r, ca := callArgs(cs.Common())
					if (sameOperand(r, x) && sameOperand(ca[0], y)) || (sameOperand(r, y) && sameOperand(ca[0], x)) {
						if dominatesInstr(cs.Instr, s.Instr) {
							cmp = cs.Instr.(*ssa.Call)
						}
					}
				}
				if cmp == nil {
					c.violate("C37.cumulative", "v3 debit: comparison on the debited operands", s.Pos(), "no balance.Cmp(amount) on the operands of the debit dominates it")
					continue
				}
				n := 0
				for _, ms := range c.calls(pv, func(cc *ssa.CallCommon) bool {
					r, _ := callArgs(cc)
					return strings.HasPrefix(calleeName(cc), "(*math/big.Int).") && bigMutators[methodName(cc)] && r != nil && (sameOperand(r, y) || sameOperand(r, x))
				}) {
					n++
					after := ms.Instr.Block() == cmp.Block() && dominatesInstr(cmp, ms.Instr)
					if !after {
						_, after = pathAvoiding(pv, cmp, func(in ssa.Instruction) bool { return in == ssa.Instruction(ms.Instr) }, nil)
					}
					c.check(!after, "C37.cumulative", "v3: the amount is complete before it is compared with the balance", ms.Pos(), methodName(ms.Common())+" precedes the comparison", "the amount (or balance) operand is modified in place by "+methodName(ms.Common())+" after the balance comparison: what is debited is more than what was checked, so a transfer exceeding the balance is selected")
				}
				if n == 0 {
					c.okTrivial("C37.cumulative", "v3: operands of the comparison are not modified afterwards", s.Pos(), "no in-place mutation")
				}
			}
		}
		for _, s := range c.calls(pv, byMethod("SetBalance")) {
			_, a := callArgs(s.Common())
			if x, _, ok := bigBin(a[0], "Add"); ok {
				rd, isCall := x.(*ssa.Call)
				okOrd := isCall && debit != nil && dominatesInstr(debit, rd)
				c.check(okOrd, "C37.cumulative", "v3: the recipient's balance is read after the sender was debited", s.Pos(), "debit; read; credit", "the recipient balance used for the credit is read before the debit: when sender and recipient are the same account the credit overwrites the debit and the cumulative balance grows")
			}
		}
		// minimum steps
		var cmpMin ssa.Instruction
		for _, cs := range c.calls(pv, byMethod("Cmp")) {
			r := render(cs.Instr.Value())
			if strings.Contains(r, "StepLimit") && strings.Contains(r, "StepsFor(") {
				cmpMin = cs.Instr
			}
		}
		if cmpMin == nil {
			c.violate("C37.min-steps", "v3 PreValidate compares the step limit with the minimum steps", pv.Pos(), "no StepLimit.Cmp(minStep)")
		} else {
			bad := false
			tr := ""
			for _, rs := range returnSites(pv) {
				if !isNilConst(rs.Results[0]) {
					continue
				}
				if t0, by := pathAvoidingEdges(pv, pv.Blocks[0].Instrs[0], func(in ssa.Instruction) bool { return in == ssa.Instruction(rs.Ret) }, func(in ssa.Instruction) bool { return in == cmpMin }, wSame("patch transaction", `DataType$`, `^"patch"$`)); by {
					bad = true
					tr = traceString(t0)
				}
			}
			c.check(!bad, "C37.min-steps", "v3 PreValidate accepts a non-patch transaction only after the minimum-step check", cmpMin.Pos(), "only patches skip it", "a transaction that is not a patch passes PreValidate without the stepLimit ≥ minimum check ("+tr+"): it is selected and then fails in every validator")
		}
	}
	// ---- the window uses the threshold of the pool's own group
	if f := c.mustFn("service", "", "NewTxTimestampRangeFor"); f != nil {
		cs := c.calls(f, byCallee("service.TransactionTimestampThreshold"))
		okG := len(cs) == 1
		if okG {
			_, a := callArgs(cs[0].Common())
			okG = render(a[0]) == "$0" && render(a[1]) == "$1"
		}
		c.check(okG, "C37.window", "the window's threshold is that of the requested group and context", f.Pos(), "TransactionTimestampThreshold(c, g)", "the window is built with another group's threshold: patch candidates up to the normal threshold old are selected and rejected by validators")
		for _, st := range fieldStoresAny([]*ssa.Function{f}, "timestampRange") {
			fn := fieldName(st.Addr.X.Type(), st.Addr.Field)
			r := render(st.Store.Val)
			want := map[string]string{"min": "($0.BlockTimeStamp() - service.TransactionTimestampThreshold($0,$1))", "max": "($0.BlockTimeStamp() + service.TransactionTimestampThreshold($0,$1))"}[fn]
			c.check(r == want, "C37.window", "window."+fn+" = block timestamp ∓ threshold", st.Store.Pos(), r, fn+" = "+r)
		}
	}
	// ---- lower bound: the three places that decide "too old" agree (boundary excluded)
	type bnd struct {
		site string
		excl bool
		ok   bool
		pos  token.Pos
	}
	var bs []bnd
	if f := c.mustFn("service", "", "CheckTxTimestamp"); f != nil {
		for _, e := range successAlts(f) {
			_, ex := holds(e.Guards, wGE("ts > min", -1, t(1, `^\$2\.Timestamp\(\)$`), t(-1, `^\$0$`)))
			_, in := holds(e.Guards, wGE("ts ≥ min", 0, t(1, `^\$2\.Timestamp\(\)$`), t(-1, `^\$0$`)))
			bs = append(bs, bnd{"CheckTxTimestamp accepts", ex, ex || in, e.pos()})
			c.requireGuard("C37.window", "CheckTxTimestamp accepts", e.pos(), e.Guards, wGE("ts ≤ max", 0, t(-1, `^\$2\.Timestamp\(\)$`), t(1, `^\$1$`)))
		}
	}
	if f := c.mustFn("service", "TransactionPool", "DropOldTXs"); f != nil {
		for _, cs := range c.calls(f, byMethod("Remove")) {
			alts := altGuards(cs.Instr.Block())
			_, rmEq := holdsAll(alts, wGE("ts ≤ bound", 0, t(-1, `\.Timestamp\(\)$`), t(1, `^\$0$`)))
			_, rmLt := holdsAll(alts, wGE("ts < bound", -1, t(-1, `\.Timestamp\(\)$`), t(1, `^\$0$`)))
			bs = append(bs, bnd{"DropOldTXs drops", rmEq && !rmLt, rmEq || rmLt, cs.Pos()})
		}
	}
	if f := c.mustFn("service", "TransactionPool", "CheckTxs"); f != nil {
		for _, e := range exitAlts(f) {
			if !isConstBool(e.Results[0], true) {
				continue
			}
			_, ex := holds(e.Guards, wGE("ts > bound", -1, t(1, `\.Timestamp\(\)$`), t(-1, `BlockTimeStamp\(\)`), t(1, `TransactionTimestampThreshold`)))
			_, in := holds(e.Guards, wGE("ts ≥ bound", 0, t(1, `\.Timestamp\(\)$`), t(-1, `BlockTimeStamp\(\)`), t(1, `TransactionTimestampThreshold`)))
			bs = append(bs, bnd{"CheckTxs reports a valid transaction", ex, ex || in, e.pos()})
		}
	}
	if len(bs) < 3 {
		c.undecided("C37.window", "lower-bound sites", token.NoPos, fmt.Sprintf("expected 3 (CheckTxTimestamp, DropOldTXs, CheckTxs), found %d", len(bs)))
	}
	for _, b := range bs {
		if !b.ok {
			c.undecided("C37.window", b.site+": lower bound", b.pos, "comparison with the lower bound not recognised")
			continue
		}
		c.check(b.excl == bs[0].excl && b.excl, "C37.window", b.site+": a timestamp equal to the lower bound is too old", b.pos, "boundary excluded, as at the sibling sites", "this site treats a timestamp equal to the lower bound differently from the sibling sites (pool expiry, validity probe, window check): a boundary transaction is selected by one and rejected by another")
	}
	// ---- pool: one entry per transaction id
	if f := c.mustFn("service", "transactionList", "Add"); f != nil {
		n := 0
		for _, b := range f.Blocks {
			for _, in := range b.Instrs {
				mu, ok := in.(*ssa.MapUpdate)
				if !ok || !strings.HasPrefix(render(mu.Map), "$r.idMap[") {
					continue
				}
				n++
				look := regexp.QuoteMeta(render(mu.Map) + "[" + render(mu.Key) + "]#1")
				c.requireAt("C37.pool-unique", "transactionList.Add inserts under an id", mu, wFalse("that id is not in the pool yet", "^"+look+"$"))
			}
		}
		if n != 1 {
			c.undecided("C37.pool-unique", "transactionList.Add", f.Pos(), fmt.Sprintf("expected one idMap insertion, found %d", n))
		}
	}
	// ---- HasRecent consults the locator for every group
	if f := c.mustFn("service", "txIDManager", "HasRecent"); f != nil {
		for _, e := range exitAlts(f) {
			r0, r1 := render(e.Results[0]), render(e.Results[1])
			okA := r0 == "$r.lm.Has($0,$1,$2)#0" && r1 == "$r.lm.Has($0,$1,$2)#1"
			if !okA && r0 == "$r.lm.Has($0,$1,$2)#0" && isNilConst(e.Results[1]) {
				// the same pair with the error branch written out: (has, nil) behind err == nil
				_, okA = holds(e.Guards, wSame("lookup succeeded", `^\$r\.lm\.Has\(\$0,\$1,\$2\)#1$`, `^nil$`))
			}
			if !okA && r1 == "$r.lm.Has($0,$1,$2)#1" && isConstBool(e.Results[0], false) {
				okA = definitelyNonNilErr(e.Results[1], e.Guards) // (false, err) on the error branch
			}
			c.check(okA, "C37.has-recent", "HasRecent answers from the locator manager", e.pos(), "lm.Has(g, id, ts)", "HasRecent returns ("+r0+", "+r1+") without consulting the locator for this group: an already included transaction is selected again")
		}
	}
}

// runC37Second: rules added for the second list of independent mutants.
// (1) a transaction whose cumulative effect was applied (PreValidate with
// update succeeded) is selected or the selection ends — it is never passed
// over; (2) PreValidate never adds into the *big.Int a GetBalance handed out;
// (3) PreValidate succeeds only for a sender that is not blocked, whatever
// kind of account it is.
func runC37Second(c *Ctx) {
	if cand := c.mustFn("service", "TransactionPool", "Candidate"); cand != nil {
		var sel ssa.Instruction
		for _, cs := range c.calls(cand, byCallee("builtin:append")) {
			if strings.Contains(cs.Instr.(*ssa.Call).Type().String(), "module.Transaction") {
				sel = cs.Instr
			}
		}
		pv := c.calls(cand, byMethod("PreValidate"))
		if sel == nil || len(pv) != 1 {
			c.undecided("C37.applied-then-selected", "Candidate", cand.Pos(), "selection or PreValidate site not found")
		} else if h := loopHeaderOf(pv[0].Instr.Block()); h != nil {
			ev := errValueOf(pv[0].Instr)
			old := pathEdgeFilter
			pathEdgeFilter = func(p, s *ssa.BasicBlock) bool {
				// follow only the edges on which PreValidate succeeded
				for _, g := range edgeGuard(p, s) {
					pr := predOf(g)
					if pr.Kind == "same" && !pr.Pol && ev != nil && (strings.Contains(pr.A, ".PreValidate(") || strings.Contains(pr.B, ".PreValidate(")) {
						return true
					}
				}
				return false
			}
			tr, skip := pathAvoiding(cand, pv[0].Instr, func(in ssa.Instruction) bool { return in == h.Instrs[0] }, func(in ssa.Instruction) bool { return in == sel })
			pathEdgeFilter = old
			c.check(!skip, "C37.applied-then-selected", "a transaction whose balance effect was applied is selected before the next one is looked at", pv[0].Pos(), "PreValidate ok → append (or the loop ends)", "after a successful PreValidate(update) the loop can go on to the next transaction without selecting this one ("+traceString(tr)+"): its debit and credit stay in the balances later candidates are checked against")
		}
	}
	if pv := c.mustFn("service/transaction", "transactionV3", "PreValidate"); pv != nil {
		n := 0
		for _, cs := range c.calls(pv, func(cc *ssa.CallCommon) bool {
			return strings.HasPrefix(calleeName(cc), "(*math/big.Int).") && bigMutators[methodName(cc)]
		}) {
			n++
			r, _ := callArgs(cs.Common())
			c.check(!strings.HasSuffix(render(r), ".GetBalance()"), "C37.cumulative", "PreValidate computes new balances into fresh integers", cs.Pos(), render(r), "PreValidate applies "+methodName(cs.Common())+" to the *big.Int returned by GetBalance: that integer is shared with the account snapshot (and with the zero balance of every empty account)")
		}
		if n == 0 {
			c.undecided("C37.cumulative", "PreValidate arithmetic", pv.Pos(), "no big.Int operations found")
		}
		// minimum steps = one default step + one input step per measured byte
		nS := 0
		for _, cs := range c.calls(pv, byMethod("StepsFor")) {
			_, a := callArgs(cs.Common())
			ty, cnt := render(a[0]), render(a[1])
			nS++
			switch ty {
			case `"default"`:
				c.check(cnt == "1", "C37.min-steps", "minimum steps: one default step", cs.Pos(), "StepsFor(default, 1)", "default steps counted "+cnt+" times")
			case `"input"`:
				c.check(strings.Contains(cnt, "MeasureBytesOfData(") && strings.HasSuffix(cnt, "#0"), "C37.min-steps", "minimum steps: one input step per measured byte of data", cs.Pos(), "StepsFor(input, measured bytes)", "input steps counted "+cnt+" times")
			default:
				c.violate("C37.min-steps", "minimum steps use the default and input step types", cs.Pos(), "step type "+ty)
			}
		}
		if nS != 2 {
			c.undecided("C37.min-steps", "minimum-step formula", pv.Pos(), fmt.Sprintf("expected 2 StepsFor calls, found %d", nS))
		}
		for _, e := range successAlts(pv) {
			c.requireGuard("C37.sender-not-blocked", "PreValidate accepts", e.pos(), e.Guards, wFalse("sender is not blocked", `\.From\(\)\.ID\(\)\)\.IsBlocked\(\)$`))
		}
	}
	// the built-in default threshold stands in only for `not configured`
	if f := c.mustFn("service", "", "TransactionTimestampThreshold"); f != nil {
		def, _ := c.constVal("service", "ConfigTXTimestampThresholdDefault")
		n := 0
		for _, e := range exitAlts(f) {
			for _, fl := range flowsOf(e.Results[0], nil) {
				k, isK := constInt(fl.Src)
				if !isK || k != def {
					continue
				}
				n++
				gs := append(append([]Guard{}, e.Guards...), fl.Guards...)
				c.requireGuard("C37.window", "the default threshold is returned", e.pos(), gs, wEQ("configured threshold == 0", 0, t(1, `\.TransactionTimestampThreshold\(\)$`)))
			}
		}
		if n == 0 {
			c.undecided("C37.window", "TransactionTimestampThreshold default", f.Pos(), "no flow of the default constant")
		}
	}
}
