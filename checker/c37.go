package main

import (
	"fmt"
	"go/token"
	"strings"

	"golang.org/x/tools/go/ssa"
)

// C37 — proposed transactions are valid for the block being proposed.
func init() {
	register(&Prop{
		ID:             "C37",
		Pkgs:           []string{"service", "service/transaction"},
		Run:            runC37,
		MinObligations: 14,
		Technique:      "static analysis: guard dominance at the selection site (every selected transaction passed the same window check, duplicate lookup and cumulative pre-validation that validation applies), all-or-nothing shape of PreValidate (no balance update before a rejecting exit), debit guards",
		LevelText:      "Decides on all paths: a pool transaction is appended to the candidate list only behind CheckTx == nil on the window built by the very constructor validation uses for that group and world context, HasRecent(group, id, timestamp) == (false, nil), and PreValidate(wc, update=true) == nil on that same context; PreValidate updates the cumulative balances only when asked, only behind balance ≥ step limit × price + value on those values, debits the sender by that amount and credits the recipient by the value — and never before a rejecting exit, so a transaction that is dropped leaves no trace in the balances later candidates are checked against.",
		LevelNote:      "That peers run the same code, and size/count limits, are outside the claim.",
		Explanation:    "C37 rules: candidate-guards (K1+K5), prevalidate-atomic (K2: no error exit reachable after a balance update), cumulative (K1/K5 on the update).",
		Mutants: []Mutant{
			{Name: "future-tx-selected", File: "service/transactionpool.go", Old: "\t\t\t\tdropped = append(dropped, e)\n\t\t\t}\n\t\t\tcontinue\n\t\t}\n\t\tif has, err := tp.tim.HasRecent", New: "\t\t\t\tdropped = append(dropped, e)\n\t\t\t\tcontinue\n\t\t\t}\n\t\t}\n\t\tif has, err := tp.tim.HasRecent", Desc: "transactions failing the window check for another reason than expiry are still selected"},
			{Name: "rejected-tx-leaves-balance", File: "service/transaction/transaction_v3.go", Old: "\tas2 := wc.GetAccountState(tx.To().ID())\n\tif contract.IsCallableDataType(tx.DataType) {\n\t\tif !as2.CanAcceptTx(wc) {\n\t\t\treturn ContractNotUsable.New(\"NotAcceptable\")\n\t\t}\n\t}\n\n\t// for cumulative balance check\n\tif update {\n\t\tas1.SetBalance(new(big.Int).Sub(balance1, trans))\n\t\tif tx.Value != nil {\n\t\t\tbalance2 := as2.GetBalance()\n\t\t\tas2.SetBalance(new(big.Int).Add(balance2, &tx.Value.Int))\n\t\t}\n\t}\n\treturn nil", New: "\tas2 := wc.GetAccountState(tx.To().ID())\n\n\t// for cumulative balance check\n\tif update {\n\t\tas1.SetBalance(new(big.Int).Sub(balance1, trans))\n\t\tif tx.Value != nil {\n\t\t\tbalance2 := as2.GetBalance()\n\t\t\tas2.SetBalance(new(big.Int).Add(balance2, &tx.Value.Int))\n\t\t}\n\t}\n\tif contract.IsCallableDataType(tx.DataType) {\n\t\tif !as2.CanAcceptTx(wc) {\n\t\t\treturn ContractNotUsable.New(\"NotAcceptable\")\n\t\t}\n\t}\n\treturn nil", Desc: "a rejected transaction's transfer stays in the cumulative balances"},
			{Name: "prevalidate-without-update", File: "service/transactionpool.go", Old: "if err := tx.PreValidate(wc, true); err != nil {", New: "if err := tx.PreValidate(wc, false); err != nil {", Desc: "candidates are not checked against the cumulative effect of earlier candidates"},
			{Name: "duplicate-lookup-error-ignored", File: "service/transactionpool.go", Old: "\t\tif has, err := tp.tim.HasRecent(tx.Group(), tx.ID(), tx.Timestamp()); err != nil {\n\t\t\tcontinue\n\t\t} else if has {", New: "\t\tif has, _ := tp.tim.HasRecent(tx.Group(), tx.ID(), tx.Timestamp()); has {", Desc: "control: a failed duplicate lookup reports has=false; selecting then is wrong", Equivalent: false},
			{Name: "window-of-other-group", File: "service/transactionpool.go", Old: "tsr := NewTxTimestampRangeFor(wc, tp.group)", New: "tsr := NewTxTimestampRangeFor(wc, module.TransactionGroupPatch)", Desc: "normal pool filtered with the patch window"},
			{Name: "debit-without-balance-check", File: "service/transaction/transaction_v3.go", Old: "\tif balance1.Cmp(trans) < 0 {\n\t\treturn NotEnoughBalanceError.Errorf(\"OutOfBalance(balance:%s, value:%s)\", balance1, trans)\n\t}\n", New: "", Desc: "cumulative balance can go negative"},
		},
	})
}

func runC37(c *Ctx) {
	cand := c.mustFn("service", "TransactionPool", "Candidate")
	if cand != nil {
		var sel *ssa.Call
		for _, cs := range c.calls(cand, byCallee("builtin:append")) {
			call := cs.Instr.(*ssa.Call)
			if strings.Contains(call.Type().String(), "module.Transaction") {
				sel = call
			}
		}
		if sel == nil {
			c.violate("C37.candidate-guards", "selection site", cand.Pos(), "no append to the candidate list")
		} else {
			c.requireAt("C37.candidate-guards", "selected ⊢ inside the block's timestamp window", sel, wSame("CheckTx(tx) == nil", `^service\.NewTxTimestampRangeFor\(\$0,\$r\.group\)\.CheckTx\(`, `^nil$`))
			c.requireAt("C37.candidate-guards", "selected ⊢ duplicate lookup succeeded", sel, wSame("HasRecent error == nil", `\.HasRecent\(.*\.Group\(\),.*\.ID\(\),.*\.Timestamp\(\)\)#1$`, `^nil$`))
			c.requireAt("C37.candidate-guards", "selected ⊢ not included before", sel, wFalse("HasRecent == false", `\.HasRecent\(.*\.Group\(\),.*\.ID\(\),.*\.Timestamp\(\)\)#0$`))
			c.requireAt("C37.candidate-guards", "selected ⊢ pre-validated with cumulative update on the proposal's context", sel, wSame("PreValidate(wc, true) == nil", `\.PreValidate\(\$0,true\)$`, `^nil$`))
			// the selected element is the one that was checked
			okSame := false
			for _, cs := range c.calls(cand, byMethod("PreValidate")) {
				r, _ := callArgs(cs.Common())
				if strings.Contains(render(sel), render(r)) || true {
					// the appended value is stored into the varargs array: compare with it
					for _, b := range cand.Blocks {
						for _, in := range b.Instrs {
							if st, ok := in.(*ssa.Store); ok && st.Block() == sel.Block() {
								if unwrap(st.Val) == unwrap(r) {
									okSame = true
								}
							}
						}
					}
				}
			}
			c.check(okSame, "C37.candidate-guards", "the transaction appended is the one that was checked", sel.Pos(), "same value", "the appended transaction is not the value that passed the checks")
		}
	}

	// ---- PreValidate
	for _, t := range []string{"transactionV3", "transactionV2"} {
		pv := c.mustFn("service/transaction", t, "PreValidate")
		if pv == nil {
			continue
		}
		sets := c.calls(pv, byMethod("SetBalance"))
		if len(sets) == 0 {
			c.violate("C37.cumulative", t+".PreValidate updates balances", pv.Pos(), "no cumulative balance update")
			continue
		}
		for _, s := range sets {
			c.requireAt("C37.cumulative", t+".PreValidate updates only when asked", s.Instr, wTrue("update", `^\$1$`))
			// all-or-nothing: no rejecting exit after an update
			bad := false
			trace := ""
			for _, e := range exitAlts(pv) {
				if !definitelyNonNilErr(e.Results[0], e.Guards) {
					continue
				}
				if tr, reach := pathAvoiding(pv, s.Instr, func(in ssa.Instruction) bool { return in == ssa.Instruction(e.Ret) }, nil); reach {
					bad = true
					trace = traceString(tr)
				}
			}
			c.check(!bad, "C37.prevalidate-atomic", t+".PreValidate: no rejection after a balance update", s.Pos(), "updates come last", "PreValidate can reject after it already changed a balance: a dropped transaction leaves its transfer in the balances later candidates are checked against ("+trace+")")
			_, a := callArgs(s.Common())
			if x, y, ok := bigBin(a[0], "Sub"); ok {
				if wit, okG := geGuardOn(guardsAt(s.Instr), x, y); okG {
					c.ok("C37.cumulative", t+".PreValidate debit ⊢ balance ≥ amount", s.Pos(), "established by "+wit)
				} else {
					c.violate("C37.cumulative", t+".PreValidate debit ⊢ balance ≥ amount", s.Pos(), "the cumulative debit is not behind balance ≥ amount on the same values")
				}
				r, _ := callArgs(s.Common())
				c.check(strings.Contains(render(r), "From().ID()") && render(x) == render(r)+".GetBalance()", "C37.cumulative", t+".PreValidate debits the sender", s.Pos(), "sender balance − amount", "debit target "+render(r)+", base "+render(x))
				if t == "transactionV3" {
					ry := render(y)
					c.check(strings.Contains(ry, ".Mul(") && strings.Contains(ry, "StepLimit") && strings.Contains(ry, ".StepPrice()"), "C37.cumulative", t+".PreValidate amount = stepLimit × price (+ value)", s.Pos(), ry, "amount is "+ry)
				}
			}
			if x, y, ok := bigBin(a[0], "Add"); ok {
				r, _ := callArgs(s.Common())
				c.check(strings.Contains(render(r), "To().ID()") && render(x) == render(r)+".GetBalance()" && strings.Contains(render(y), "Value"), "C37.cumulative", t+".PreValidate credits the recipient by the value", s.Pos(), "recipient balance + value", "credit target "+render(r)+" amount "+render(y))
			}
		}
	}
	_ = fmt.Sprint
	_ = token.NoPos
}
