package main

import (
	"fmt"
	"go/token"
	"strings"

	"golang.org/x/tools/go/ssa"
)

// C03 — write-ahead log recovers exactly the durable prefix.
//
// Decided (all in package consensus, wal.go + the three replay loops):
//
//	frame-agreement  writer and reader use the same record layout and checksum
//	valid-offset     validOffset advances only after the CRC matched, by header+payload
//	torn-not-eof     an error from a read *inside* a record is never surfaced as io.EOF
//	sync-order       sync = Flush then File.Sync, both checked, before the unsynced mark is cleared
//	shift-order      sync -> Close -> OpenFile(tail+1) -> tailIdx++
//	append-only      every OpenFile of a segment uses O_CREATE|O_WRONLY|O_APPEND
//	repair-targets   Truncate hits the segment holding the valid end; every Remove is indexed by the loop variable
//	consumers-repair every ReadBytes loop repairs on corrupted/torn and never breaks out silently
func init() {
	register(&Prop{
		ID:             "C03",
		Pkgs:           []string{"consensus"},
		Run:            runC03,
		MinObligations: 30,
		Technique:      "static analysis: SSA guard dominance, byte-layout table agreement, value provenance, CFG path search",
		LevelText:      "Decides, on every path of the WAL writer/reader/repair code and of the three replay loops, the structural conditions without which the durable-prefix property fails: identical frame layout and checksum on both sides, validOffset advanced only behind a matching CRC by exactly header+payload, torn reads never reported as clean EOF, Flush-then-fsync order with checked errors, segment shift order, append-only opens, repair truncating/removing the right segments, and every consumer repairing on corruption. Right level because these are shape facts that hold for all crash points iff they hold on all paths.",
		LevelNote:      "Trusts go/ssa's model of the code and the OS semantics of fsync/O_APPEND/truncate; does not decide byte-level crash behaviour of the file system, CRC collision freedom, or the housekeeping size policy.",
		Explanation:    "C03 static rules over consensus/wal.go and the WAL replay loops in consensus/consensus.go: frame-agreement (K4), valid-offset (K1+K5+K3), torn-not-eof (K5 with edge guards), sync-order/shift-order (K2), append-only (K4), repair-targets (K10+K5), consumers-repair (K1 + path search). Decides the structural necessary conditions of the durable-prefix property on all paths; does not execute the WAL or model the file system.",
		Mutants: []Mutant{
			{Name: "F1-remove-outer-index", File: "consensus/wal.go", Old: "os.Remove(fileFor(w.id, i))", New: "os.Remove(fileFor(w.id, idx))", Desc: "regression of F1: removal loop uses the outer index"},
			{Name: "F9-torn-as-eof", File: "consensus/wal.go", Old: "\tif err == io.EOF {\n\t\t// header was read, so a missing payload is a torn record\n\t\terr = io.ErrUnexpectedEOF\n\t}\n", New: "", Desc: "regression of F9: payload read EOF surfaces as clean EOF"},
			{Name: "offset-before-crc", File: "consensus/wal.go", Old: "\tactualCRC := crc32.Checksum(payload, crc32c)", New: "\tw.validOffset += int64(headerLen + payloadLen)\n\tactualCRC := crc32.Checksum(payload, crc32c)", Desc: "validOffset advanced before the CRC comparison"},
			{Name: "offset-without-header", File: "consensus/wal.go", Old: "w.validOffset += int64(headerLen + payloadLen)", New: "w.validOffset += int64(payloadLen)", Desc: "validOffset advanced by payload length only"},
			{Name: "sync-without-fsync", File: "consensus/wal.go", Old: "\tif err := w.tail.Sync(); err != nil {\n\t\treturn err\n\t}\n", New: "", Desc: "sync only flushes the buffer"},
			{Name: "sync-ignores-flush-error", File: "consensus/wal.go", Old: "\tif err := w.buf.Flush(); err != nil {\n\t\treturn errors.WithStack(err)\n\t}\n", New: "\tw.buf.Flush()\n", Desc: "Flush error ignored"},
			{Name: "shift-without-sync", File: "consensus/wal.go", Old: "func (w *walWriter) shift() error {\n\terr := w.sync()\n", New: "func (w *walWriter) shift() error {\n\terr := w.buf.Flush()\n", Desc: "segment shift flushes but does not fsync the old tail"},
			{Name: "open-without-append", File: "consensus/wal.go", Old: "fileFor(w.id, w.tailIdx+1), os.O_CREATE|os.O_WRONLY|os.O_APPEND", New: "fileFor(w.id, w.tailIdx+1), os.O_CREATE|os.O_WRONLY", Desc: "new segment opened without O_APPEND"},
			{Name: "crc-over-header", File: "consensus/wal.go", Old: "actualCRC := crc32.Checksum(payload, crc32c)", New: "actualCRC := crc32.Checksum(payload, crc32.IEEETable)", Desc: "reader checks with a different CRC table"},
			{Name: "reader-len-offset", File: "consensus/wal.go", Old: "payloadLen := binary.BigEndian.Uint32(header[4:headerLen])", New: "payloadLen := binary.BigEndian.Uint32(header[0:4])", Desc: "reader takes the length from the CRC slot"},
			{Name: "truncate-wrong-length", File: "consensus/wal.go", Old: "os.Truncate(fileFor(w.id, idx), left)", New: "os.Truncate(fileFor(w.id, idx), w.validOffset)", Desc: "truncate to the global offset instead of the offset within the segment"},
			{Name: "sizes-indexed-from-zero", File: "consensus/wal.go", Old: "fileSizes[i] = fileSizeFor[i+minIndex]", New: "fileSizes[i] = fileSizeFor[i]", Desc: "segment size table not offset by the head index (breaks repair after housekeeping trimmed the head)"},
			{Name: "offset-incremental", File: "consensus/wal.go", Old: "\tcrc := binary.BigEndian.Uint32(header[0:4])", New: "\tw.validOffset += headerLen\n\tcrc := binary.BigEndian.Uint32(header[0:4])", Desc: "validOffset advanced by the header before the record verified"},
			{Name: "consumer-breaks-on-torn", File: "consensus/consensus.go", Old: "\t\tbs, err := wr.ReadBytes()\n\t\tif IsEOF(err) {\n\t\t\tbreak\n\t\t} else if IsCorruptedWAL(err) || IsUnexpectedEOF(err) {\n\t\t\tcs.log.Warnf(\"applyRoundWAL", New: "\t\tbs, err := wr.ReadBytes()\n\t\tif IsEOF(err) || IsUnexpectedEOF(err) {\n\t\t\tbreak\n\t\t} else if IsCorruptedWAL(err) || IsUnexpectedEOF(err) {\n\t\t\tcs.log.Warnf(\"applyRoundWAL", Desc: "round WAL replay treats a torn record as clean EOF"},
			{Name: "consumer-no-repair", File: "consensus/consensus.go", Old: "\t\t\tcs.log.Warnf(\"applyLockWAL: %+v\\n\", err)\n\t\t\terr := wr.CloseAndRepair()\n\t\t\tif err != nil {\n\t\t\t\treturn err\n\t\t\t}\n", New: "\t\t\tcs.log.Warnf(\"applyLockWAL: %+v\\n\", err)\n", Desc: "lock WAL replay logs corruption but does not repair"},
		},
	})
}

func runC03(c *Ctx) {
	const pkg = "consensus"
	write := c.mustFn(pkg, "walWriter", "WriteBytes")
	read := c.mustFn(pkg, "walReader", "ReadBytes")
	if write == nil || read == nil {
		return
	}

	// ---- frame-agreement
	type slot struct {
		lo, hi int64
		val    ssa.Value
		pos    token.Pos
	}
	var wslots []slot
	var wframe ssa.Value
	for _, cs := range c.calls(write, byCallee("(encoding/binary.bigEndian).PutUint32")) {
		_, args := callArgs(cs.Common())
		base, lo, hi, ok := sliceBounds(args[0])
		if !ok {
			c.undecided("C03.frame-agreement", "writer PutUint32 slot", cs.Pos(), "slot is not a constant-bounded slice")
			continue
		}
		wframe = base
		wslots = append(wslots, slot{lo, hi, args[1], cs.Pos()})
	}
	var rslots []slot
	var rheader ssa.Value
	for _, cs := range c.calls(read, byCallee("(encoding/binary.bigEndian).Uint32")) {
		_, args := callArgs(cs.Common())
		base, lo, hi, ok := sliceBounds(args[0])
		if !ok {
			c.undecided("C03.frame-agreement", "reader Uint32 slot", cs.Pos(), "slot is not a constant-bounded slice")
			continue
		}
		rheader = base
		rslots = append(rslots, slot{lo, hi, cs.Instr.Value(), cs.Pos()})
	}
	if len(wslots) != 2 || len(rslots) != 2 {
		c.undecided("C03.frame-agreement", "header slots", write.Pos(), fmt.Sprintf("expected 2 big-endian uint32 header slots on each side, found writer=%d reader=%d", len(wslots), len(rslots)))
		return
	}
	// classify writer slots by value: crc = crc32.Checksum(payload, crc32c); len = len(payload)
	var wcrc, wlen *slot
	for i := range wslots {
		s := &wslots[i]
		r := render(s.val)
		switch {
		case strings.HasPrefix(r, "crc32.Checksum($0,") && strings.Contains(r, "global:crc32c"):
			wcrc = s
		case r == "len($0)":
			wlen = s
		}
	}
	if wcrc == nil || wlen == nil {
		c.violate("C03.frame-agreement", "writer header values", write.Pos(), fmt.Sprintf("header must carry crc32.Checksum(payload, crc32c) and len(payload); found %s and %s", render(wslots[0].val), render(wslots[1].val)))
		return
	}
	c.ok("C03.frame-agreement", "writer crc slot", wcrc.pos, fmt.Sprintf("crc32c(payload) at [%d:%d]", wcrc.lo, wcrc.hi))
	c.ok("C03.frame-agreement", "writer length slot", wlen.pos, fmt.Sprintf("len(payload) at [%d:%d]", wlen.lo, wlen.hi))
	// writer: payload copied at frame[headerLen:], frame length = headerLen+len(payload)
	hdrEnd := wcrc.hi
	if wlen.hi > hdrEnd {
		hdrEnd = wlen.hi
	}
	copied := false
	for _, cs := range c.calls(write, byCallee("builtin:copy")) {
		_, args := callArgs(cs.Common())
		base, lo, hi, ok := sliceBounds(args[0])
		if ok && base == wframe && hi == -1 && args[1] == ssa.Value(write.Params[1]) {
			copied = true
			c.check(lo == hdrEnd, "C03.frame-agreement", "writer payload offset", cs.Pos(), fmt.Sprintf("payload copied at [%d:]", lo), fmt.Sprintf("payload copied at offset %d but the header ends at %d", lo, hdrEnd))
		}
	}
	// the same frame assembled with append: make(len header, cap header+n); …; frame = append(frame, payload...)
	var appended *ssa.Call
	if !copied {
		for _, cs := range c.calls(write, byCallee("builtin:append")) {
			_, aa := callArgs(cs.Common())
			if len(aa) == 2 && aa[0] == wframe && aa[1] == ssa.Value(write.Params[1]) {
				if ms, isMs := wframe.(*ssa.MakeSlice); isMs {
					if k, isK := constInt(ms.Len); isK {
						copied = true
						appended = cs.Instr.(*ssa.Call)
						c.check(k == hdrEnd, "C03.frame-agreement", "writer payload offset", cs.Pos(), fmt.Sprintf("payload appended at [%d:]", k), fmt.Sprintf("payload appended at offset %d but the header ends at %d", k, hdrEnd))
					}
				}
			}
		}
	}
	if !copied {
		c.violate("C03.frame-agreement", "writer payload offset", write.Pos(), "payload parameter is not copied behind the header of the frame")
	}
	if appended != nil {
		c.ok("C03.frame-agreement", "writer frame length", appended.Pos(), "frame = header + len(payload) (append)")
	} else if ms, ok := wframe.(*ssa.MakeSlice); ok {
		l := linOf(ms.Len)
		c.check(l.K == hdrEnd && len(l.T) == 1 && l.T["len($0)"] == 1, "C03.frame-agreement", "writer frame length", ms.Pos(), "frame = header + len(payload)", "frame length is "+l.String())
	} else {
		c.undecided("C03.frame-agreement", "writer frame length", write.Pos(), "frame buffer is not a make([]byte, n)")
	}
	// the frame is what is written to the buffered writer
	wr := c.calls(write, byCallee("(*bufio.Writer).Write"))
	if len(wr) == 1 {
		_, args := callArgs(wr[0].Common())
		c.check(args[0] == wframe || (appended != nil && args[0] == ssa.Value(appended)), "C03.frame-agreement", "writer emits the frame", wr[0].Pos(), "buf.Write(frame)", "buf.Write argument is not the assembled frame: "+render(args[0]))
	} else {
		c.undecided("C03.frame-agreement", "writer emits the frame", write.Pos(), fmt.Sprintf("expected exactly one bufio.Writer.Write, found %d", len(wr)))
	}
	// reader: same offsets, compare checksum of payload (same table) with the crc slot, allocate payload from length slot
	var rcrc, rlen *slot
	for i := range rslots {
		s := &rslots[i]
		if s.lo == wcrc.lo && s.hi == wcrc.hi {
			rcrc = s
		}
		if s.lo == wlen.lo && s.hi == wlen.hi {
			rlen = s
		}
	}
	if rcrc == nil || rlen == nil || rcrc == rlen {
		c.violate("C03.frame-agreement", "reader header slots", read.Pos(), fmt.Sprintf("reader decodes [%d:%d],[%d:%d]; writer encodes crc at [%d:%d], length at [%d:%d]", rslots[0].lo, rslots[0].hi, rslots[1].lo, rslots[1].hi, wcrc.lo, wcrc.hi, wlen.lo, wlen.hi))
		return
	}
	c.ok("C03.frame-agreement", "reader header slots", rcrc.pos, "same offsets as the writer")
	// header buffer length and first read
	reads := c.calls(read, byCallee("io.ReadAtLeast", "io.ReadFull"))
	if len(reads) < 2 {
		c.undecided("C03.frame-agreement", "reader reads", read.Pos(), "expected a header read and a payload read")
		return
	}
	var hdrRead, payRead callSite
	var payload ssa.Value
	for _, cs := range reads {
		_, args := callArgs(cs.Common())
		if args[1] == rheader || unsliceBase(args[1]) == unsliceBase(rheader) {
			hdrRead = cs
		} else {
			payRead = cs
			payload = args[1]
		}
	}
	if hdrRead.Instr == nil || payRead.Instr == nil {
		c.undecided("C03.frame-agreement", "reader reads", read.Pos(), "cannot tell the header read from the payload read")
		return
	}
	if ms, ok := payload.(*ssa.MakeSlice); ok {
		c.check(unwrap(ms.Len) == rlen.val, "C03.frame-agreement", "reader payload length", ms.Pos(), "payload buffer sized by the length slot", "payload buffer length is "+render(ms.Len)+", not the header's length slot")
	} else {
		c.undecided("C03.frame-agreement", "reader payload length", payRead.Pos(), "payload buffer is not make([]byte, n)")
	}
	{
		_, args := callArgs(payRead.Common())
		if len(args) == 3 {
			c.check(unwrap(args[2]) == rlen.val, "C03.frame-agreement", "reader payload read size", payRead.Pos(), "reads exactly the length slot", "minimum read size is "+render(args[2]))
		}
	}
	// crc comparison
	var crcCmp *ssa.BinOp
	for _, b := range read.Blocks {
		for _, in := range b.Instrs {
			if bo, ok := in.(*ssa.BinOp); ok && (bo.Op == token.NEQ || bo.Op == token.EQL) {
				x, y := bo.X, bo.Y
				if y == rcrc.val {
					x, y = y, x
				}
				if x == rcrc.val {
					if call, ok := y.(*ssa.Call); ok && calleeName(call.Common()) == "hash/crc32.Checksum" {
						_, a := callArgs(call.Common())
						if a[0] == payload && strings.Contains(render(a[1]), "global:crc32c") {
							crcCmp = bo
						}
					}
				}
			}
		}
	}
	if crcCmp == nil {
		c.violate("C03.frame-agreement", "reader crc comparison", read.Pos(), "no comparison of crc32.Checksum(payload, crc32c) with the header's crc slot")
		return
	}
	c.ok("C03.frame-agreement", "reader crc comparison", crcCmp.Pos(), "crc32c(payload) compared with the crc slot")

	// ---- valid-offset: only ReadBytes stores it; only behind crc equality; by header+payload
	pf := c.pkgFuncs(pkg)
	stores := fieldStores(pf, "walReader", "validOffset")
	if len(stores) == 0 {
		c.undecided("C03.valid-offset", "walReader.validOffset", read.Pos(), "no store found")
	}
	for _, st := range stores {
		if st.Fn != read {
			c.violate("C03.valid-offset", "writer of walReader.validOffset: "+fnName(st.Fn), st.Store.Pos(), "validOffset may only be advanced by ReadBytes")
			continue
		}
		w := wEQ("crc matches", 0, t(1, `^crc32\.Checksum\(`), t(-1, `Uint32\(`))
		c.requireAt("C03.valid-offset", "advance in ReadBytes", st.Store, w)
		// the success return is the only exit behind the store
		l := linOf(st.Store.Val)
		want := map[string]int64{"$r.validOffset": 1, render(rlen.val): 1}
		okLin := l.K == hdrEnd && len(l.T) == 2
		for a, k := range want {
			if l.T[a] != k {
				okLin = false
			}
		}
		c.check(okLin, "C03.valid-offset", "advance amount", st.Store.Pos(), fmt.Sprintf("validOffset += %d + payloadLen", hdrEnd), "validOffset is set to "+l.String()+fmt.Sprintf("; expected validOffset + payloadLen + %d", hdrEnd))
	}
	// success returns of ReadBytes return the payload and are behind the crc equality and the store
	for _, rs := range successSites(read) {
		if !isNilConst(rs.Results[1]) {
			c.violate("C03.valid-offset", "ReadBytes exit", rs.pos(), "an exit whose error is not provably non-nil and not nil: "+render(rs.Results[1]))
			continue
		}
		c.check(rs.Results[0] == payload, "C03.valid-offset", "ReadBytes returns the checked payload", rs.pos(), "returns the buffer whose checksum was compared", "returns "+render(rs.Results[0]))
		c.requireGuard("C03.valid-offset", "ReadBytes success", rs.pos(), rs.guards(), wEQ("crc matches", 0, t(1, `^crc32\.Checksum\(`), t(-1, `Uint32\(`)))
		_, avoided := pathAvoiding(read, nil, func(in ssa.Instruction) bool { return in == ssa.Instruction(rs.Ret) }, func(in ssa.Instruction) bool {
			st, ok := in.(*ssa.Store)
			return ok && len(stores) > 0 && st == stores[0].Store
		})
		c.check(!avoided, "C03.valid-offset", "success implies advance", rs.pos(), "every successful read advanced validOffset", "a successful return is reachable without advancing validOffset")
	}

	// ---- torn-not-eof: errors of reads behind the header read never surface as io.EOF
	for _, rs := range returnSites(read) {
		for _, fl := range flowsOf(rs.Results[1], errWrapPassThrough) {
			ex, ok := fl.Src.(*ssa.Extract)
			if !ok || ex.Tuple != payRead.Instr.Value() {
				continue
			}
			gs := append(append([]Guard{}, fl.Guards...), rs.guards()...)
			w := wDiffer("payload-read error ≠ io.EOF", `^io\.ReadAtLeast\(.*#1$|^io\.ReadFull\(.*#1$`, `^\*?global:EOF$`)
			c.requireGuard("C03.torn-not-eof", "ReadBytes returns the payload read error", rs.pos(), gs, w)
		}
	}

	// ---- sync-order
	if sync := c.mustFn(pkg, "walWriter", "sync"); sync != nil {
		fl := c.calls(sync, byCallee("(*bufio.Writer).Flush"))
		fs := c.calls(sync, byCallee("(*os.File).Sync"))
		if len(fl) != 1 || len(fs) != 1 {
			c.violate("C03.sync-order", "walWriter.sync", sync.Pos(), fmt.Sprintf("sync must Flush the buffer and fsync the file exactly once each (Flush×%d, File.Sync×%d)", len(fl), len(fs)))
		} else {
			c.check(dominatesInstr(fl[0].Instr, fs[0].Instr), "C03.sync-order", "Flush before File.Sync", fs[0].Pos(), "Flush dominates fsync", "fsync is reachable without a preceding Flush")
			c.requireAt("C03.sync-order", "fsync only after successful Flush", fs[0].Instr, wSame("Flush() == nil", `\.Flush\(\)$`, `^nil$`))
			for _, rs := range successSites(sync) {
				c.requireGuard("C03.sync-order", "sync success", rs.pos(), rs.guards(), wSame("Flush() == nil", `\.Flush\(\)$`, `^nil$`))
				c.requireGuard("C03.sync-order", "sync success", rs.pos(), rs.guards(), wSame("File.Sync() == nil", `\.Sync\(\)$`, `^nil$`))
			}
			for _, st := range fieldStores([]*ssa.Function{sync}, "walWriter", "eldestUnsyncData") {
				c.requireAt("C03.sync-order", "unsynced mark cleared", st.Store, wSame("File.Sync() == nil", `\.Sync\(\)$`, `^nil$`))
			}
		}
		// public Sync and Close go through sync
		for _, name := range []string{"Sync", "Close", "shift"} {
			if f := c.mustFn(pkg, "walWriter", name); f != nil {
				cs := c.calls(f, byCallee("(*consensus.walWriter).sync"))
				if c.check(len(cs) >= 1, "C03.sync-order", "walWriter."+name+" calls sync", f.Pos(), "calls sync", "does not call sync") {
					// its error is propagated: success sites are guarded by sync()==nil or return it directly
					for _, rs := range successSites(f) {
						if call, ok := rs.Results[len(rs.Results)-1].(*ssa.Call); ok && call == cs[0].Instr.Value() {
							c.ok("C03.sync-order", "walWriter."+name+" propagates sync error", rs.pos(), "returns sync()")
							continue
						}
						c.requireGuard("C03.sync-order", "walWriter."+name+" success", rs.pos(), rs.guards(), wSame("sync() == nil", `\.sync\(\)$`, `^nil$`))
					}
				}
			}
		}
	}

	// ---- shift-order
	if shift := c.mustFn(pkg, "walWriter", "shift"); shift != nil {
		sy := c.calls(shift, byCallee("(*consensus.walWriter).sync"))
		cl := c.calls(shift, byCallee("(*os.File).Close"))
		op := c.calls(shift, byCallee("os.OpenFile"))
		if len(sy) == 1 && len(cl) == 1 && len(op) == 1 {
			c.check(dominatesInstr(sy[0].Instr, cl[0].Instr) && dominatesInstr(cl[0].Instr, op[0].Instr), "C03.shift-order", "sync → Close → OpenFile", op[0].Pos(), "ordered by dominance", "old tail is not synced and closed before the new segment is opened")
			c.requireAt("C03.shift-order", "Close only after successful sync", cl[0].Instr, wSame("sync() == nil", `\.sync\(\)$`, `^nil$`))
			_, args := callArgs(op[0].Common())
			r := render(args[0])
			c.check(r == "consensus.fileFor($r.id,($r.tailIdx + 1))", "C03.shift-order", "new segment name", op[0].Pos(), "fileFor(id, tailIdx+1)", "new segment is "+r)
			for _, st := range fieldStores([]*ssa.Function{shift}, "walWriter", "tailIdx") {
				c.requireAt("C03.shift-order", "tailIdx advanced", st.Store, wSame("OpenFile error == nil", `^os\.OpenFile\(.*#1$`, `^nil$`))
				l := linOf(st.Store.Val)
				c.check(l.K == 1 && len(l.T) == 1 && l.T["$r.tailIdx"] == 1, "C03.shift-order", "tailIdx advanced by one", st.Store.Pos(), "tailIdx+1", "tailIdx set to "+l.String())
			}
		} else {
			c.violate("C03.shift-order", "walWriter.shift", shift.Pos(), fmt.Sprintf("expected one sync, one File.Close, one OpenFile (found %d,%d,%d)", len(sy), len(cl), len(op)))
		}
	}
	// tailIdx writers
	for _, st := range fieldStores(pf, "walWriter", "tailIdx") {
		n := st.Fn.Name()
		c.check(n == "shift" || n == "OpenWALForWrite", "C03.shift-order", "writer of walWriter.tailIdx: "+fnName(st.Fn), st.Store.Pos(), "expected writer", "tailIdx may only be set when opening and in shift")
	}

	// ---- append-only
	nOpen := 0
	for _, f := range pf {
		if c.file(f.Pos()) != "consensus/wal.go" {
			continue
		}
		for _, cs := range c.calls(f, byCallee("os.OpenFile")) {
			nOpen++
			_, args := callArgs(cs.Common())
			flags, ok := constInt(args[1])
			const want = 0x1 | 0x40 | 0x400 // O_WRONLY|O_CREATE|O_APPEND on linux
			if !ok {
				c.undecided("C03.append-only", "OpenFile in "+fnName(f), cs.Pos(), "flags are not constant")
				continue
			}
			c.check(flags == want, "C03.append-only", "OpenFile in "+fnName(f), cs.Pos(), "O_CREATE|O_WRONLY|O_APPEND", fmt.Sprintf("flags %#x (want O_CREATE|O_WRONLY|O_APPEND = %#x)", flags, want))
		}
	}
	if nOpen < 2 {
		c.undecided("C03.append-only", "segment opens", write.Pos(), fmt.Sprintf("expected ≥2 OpenFile sites in wal.go, found %d", nOpen))
	}

	// ---- repair-targets
	if rep := c.mustFn(pkg, "walReader", "CloseAndRepair"); rep != nil {
		tr := c.calls(rep, byCallee("os.Truncate"))
		rm := c.calls(rep, byCallee("os.Remove"))
		if len(tr) != 1 || len(rm) != 1 {
			c.violate("C03.repair-targets", "CloseAndRepair", rep.Pos(), fmt.Sprintf("expected one Truncate and one Remove site (found %d, %d)", len(tr), len(rm)))
		} else {
			_, targs := callArgs(tr[0].Common())
			_, rargs := callArgs(rm[0].Common())
			tf, ok1 := targs[0].(*ssa.Call)
			rf, ok2 := rargs[0].(*ssa.Call)
			if !ok1 || !ok2 || methodName(tf.Common()) != "fileFor" || methodName(rf.Common()) != "fileFor" {
				c.undecided("C03.repair-targets", "CloseAndRepair", rep.Pos(), "Truncate/Remove arguments are not fileFor(id, idx)")
			} else {
				tidx := tf.Call.Args[1]
				ridx := rf.Call.Args[1]
				c.check(render(tf.Call.Args[0]) == "$r.id" && render(rf.Call.Args[0]) == "$r.id", "C03.repair-targets", "segment id", tr[0].Pos(), "both use the reader's id", "file id differs from the reader's id")
				// Truncate index: phi over headIdx, +1 per segment walked; length: phi over validOffset minus sizes walked
				tphi, isPhi := tidx.(*ssa.Phi)
				okTidx := isPhi && phiIsCounterFrom(tphi, func(v ssa.Value) bool { return render(v) == "$r.wi.headIdx" })
				if !okTidx {
					// the same index derived from the loop position: headIdx + k for the k-th size of the walk
					if bo, ok := tidx.(*ssa.BinOp); ok && bo.Op == token.ADD {
						if li, lb, isLoop := indexLoop(dominatingHeader(tr[0].Instr.Block())); isLoop && strings.HasSuffix(render(lb), "len($r.wi.fileSizes)") {
							x, y := bo.X, bo.Y
							if render(y) == "$r.wi.headIdx" {
								x, y = y, x
							}
							if cv, isCv := y.(*ssa.Convert); isCv {
								y = cv.X
							}
							okTidx = render(x) == "$r.wi.headIdx" && y == li
						}
					}
				}
				c.check(okTidx, "C03.repair-targets", "Truncate segment index", tr[0].Pos(), "headIdx + number of whole segments skipped", "Truncate index is "+render(tidx))
				lphi, isPhi2 := targs[1].(*ssa.Phi)
				okLeft := false
				if isPhi2 {
					for _, e := range lphi.Edges {
						if render(e) == "$r.validOffset" {
							okLeft = true
						}
					}
					for _, e := range lphi.Edges {
						if bo, ok := e.(*ssa.BinOp); ok && bo.Op == token.SUB && bo.X == ssa.Value(lphi) {
							// subtracting the size of the segment being skipped
							okLeft = okLeft && strings.Contains(render(bo.Y), "$r.wi.fileSizes[")
						}
					}
				}
				c.check(okLeft, "C03.repair-targets", "Truncate length", tr[0].Pos(), "validOffset minus the sizes of the segments skipped", "Truncate length is "+render(targs[1]))
				c.requireAt("C03.repair-targets", "Truncate only inside the segment", tr[0].Instr, wGE("left ≤ size", 0, t(1, `fileSizes\[`), t(-1, `^phi\(`)))
				// Remove index: induction variable starting at truncate index + 1
				rphi, isPhi3 := ridx.(*ssa.Phi)
				c.check(isPhi3 && phiIsCounterFrom(rphi, func(v ssa.Value) bool {
					bo, ok := v.(*ssa.BinOp)
					if !ok || bo.Op != token.ADD {
						return false
					}
					k, isK := constInt(bo.Y)
					return isK && k == 1 && bo.X == tidx
				}), "C03.repair-targets", "Remove index is the loop variable from idx+1", rm[0].Pos(), "i = idx+1; i++", "Remove is called with "+render(ridx)+" which is not the removal loop's own induction variable starting at idx+1")
				// loop bound: i <= tailIdx
				c.requireAt("C03.repair-targets", "Remove bounded by tailIdx", rm[0].Instr, wGE("i ≤ tailIdx", 0, t(1, `^\$r\.wi\.tailIdx$`), t(-1, `^phi\(`)))
			}
		}
		for _, rs := range successSites(rep) {
			c.requireGuard("C03.repair-targets", "repair success", rs.pos(), rs.guards(), wSame("Close() == nil", `\.Close\(\)$`, `^nil$`))
		}
	}

	checkWALSegments(c, "C03.")

	// ---- walinfo: the size table CloseAndRepair walks is indexed from the head segment
	if ri := c.mustFn(pkg, "", "readWALInfo"); ri != nil {
		fields := map[string]ssa.Value{}
		for _, st := range fieldStoresAny([]*ssa.Function{ri}, "walInfo") {
			fields[fieldName(st.Addr.X.Type(), st.Addr.Field)] = st.Store.Val
		}
		head, tail, sizes := fields["headIdx"], fields["tailIdx"], fields["fileSizes"]
		ms, isMS := sizes.(*ssa.MakeSlice)
		if head == nil || tail == nil || !isMS {
			c.undecided("C03.walinfo", "readWALInfo result", ri.Pos(), "walInfo literal with headIdx/tailIdx/fileSizes (make) not found")
		} else {
			// length = tail - head + 1 (or 0)
			okLen := false
			for _, fl := range flowsOf(ms.Len, nil) {
				l := linOf(fl.Src)
				if l.K == 1 && len(l.T) == 2 && l.T[render(tail)] == 1 && l.T[render(head)] == -1 {
					okLen = true
				}
			}
			c.check(okLen, "C03.walinfo", "fileSizes length", ms.Pos(), "tailIdx - headIdx + 1", "fileSizes length is "+render(ms.Len))
			nFill := 0
			for _, b := range ri.Blocks {
				for _, in := range b.Instrs {
					st, ok := in.(*ssa.Store)
					if !ok {
						continue
					}
					ia, ok := st.Addr.(*ssa.IndexAddr)
					if !ok || ia.X != ssa.Value(ms) {
						continue
					}
					nFill++
					iphi, isPhi := ia.Index.(*ssa.Phi)
					isCounter := false
					if isPhi {
						_, isCounter = counterIncrements(iphi, isZeroConst)
					}
					c.check(isCounter, "C03.walinfo", "fileSizes filled by a counted loop", st.Pos(), "i = 0; i++", "fileSizes index is "+render(ia.Index))
					lk, isLookup := st.Val.(*ssa.Lookup)
					if !isLookup {
						c.violate("C03.walinfo", "fileSizes[i] source", st.Pos(), "not read from the per-index size map: "+render(st.Val))
						continue
					}
					kl := linOf(lk.Index)
					okKey := isPhi && kl.K == 0 && len(kl.T) == 2 && kl.T[render(head)] == 1 && kl.T[render(iphi)] == 1
					c.check(okKey, "C03.walinfo", "fileSizes[i] = size of segment headIdx+i", st.Pos(), "key is i + headIdx", "fileSizes[i] is read with key "+kl.String()+", not i + headIdx ("+render(head)+")")
					// the map is filled with (parsed index -> entry size)
					okMap := false
					for _, r := range *lk.X.Referrers() {
						if mu, ok := r.(*ssa.MapUpdate); ok {
							if strings.Contains(render(mu.Key), "strconv.ParseUint(") && strings.HasSuffix(render(mu.Value), ".Size()") {
								okMap = true
							}
						}
					}
					c.check(okMap, "C03.walinfo", "size map keyed by parsed segment index", st.Pos(), "map[idx] = entry.Size()", "the size map is not filled with map[parsed index] = entry.Size()")
				}
			}
			if nFill != 1 {
				c.undecided("C03.walinfo", "fileSizes fill", ri.Pos(), fmt.Sprintf("expected one store into fileSizes, found %d", nFill))
			}
		}
	}

	// ---- consumers-repair
	nLoops := 0
	for _, f := range pf {
		if c.file(f.Pos()) == "consensus/testwal.go" {
			continue
		}
		for _, cs := range c.calls(f, byCallee("iface:consensus.WALReader.ReadBytes")) {
			nLoops++
			name := "ReadBytes loop in " + fnName(f)
			call := cs.Instr.Value()
			var bsV, errV ssa.Value
			for _, r := range *call.Referrers() {
				if ex, ok := r.(*ssa.Extract); ok {
					if ex.Index == 0 {
						bsV = ex
					} else {
						errV = ex
					}
				}
			}
			if errV == nil {
				c.violate("C03.consumers-repair", name, cs.Pos(), "the error of ReadBytes is discarded")
				continue
			}
			// (a) repair exists on the same reader
			reps := c.calls(f, byCallee("iface:consensus.WALReader.CloseAndRepair"))
			if len(reps) == 0 {
				c.violate("C03.consumers-repair", name+": repairs", cs.Pos(), "no CloseAndRepair call in the function")
				continue
			}
			for _, rp := range reps {
				c.requireAtAny("C03.consumers-repair", name+": repair only on corruption", rp.Instr, "IsCorruptedWAL(err) ∨ IsUnexpectedEOF(err)",
					wTrue("IsCorruptedWAL(err)", `^consensus\.IsCorruptedWAL\(.*ReadBytes\(\)#1\)$`), wTrue("IsUnexpectedEOF(err)", `^consensus\.IsUnexpectedEOF\(.*ReadBytes\(\)#1\)$`))
			}
			// (b) the record bytes are used only when err == nil
			if bsV != nil {
				for _, r := range *bsV.Referrers() {
					if _, isDbg := r.(*ssa.DebugRef); isDbg {
						continue
					}
					c.requireAt("C03.consumers-repair", name+": record used", r, wSame("err == nil", `ReadBytes\(\)#1$`, `^nil$`))
				}
			}
			// (c) no way to leave the iteration with a corruption verdict true and no repair
			if tr, bad := corruptionEscapes(f, cs.Instr, errV); bad {
				c.violate("C03.consumers-repair", name+": corruption always repaired", cs.Pos(), "a path on which IsCorruptedWAL/IsUnexpectedEOF(err) is true leaves the iteration without CloseAndRepair: "+tr)
			} else {
				c.ok("C03.consumers-repair", name+": corruption always repaired", cs.Pos(), "every path with a true corruption verdict passes CloseAndRepair")
			}
			// (d) both verdicts are actually consulted
			for _, pred := range []string{"IsCorruptedWAL", "IsUnexpectedEOF"} {
				found := false
				for _, pc := range c.calls(f, byCallee("consensus."+pred)) {
					_, a := callArgs(pc.Common())
					if a[0] == errV {
						found = true
					}
				}
				c.check(found, "C03.consumers-repair", name+": consults "+pred, cs.Pos(), "checked", pred+"(err) is never evaluated on the ReadBytes error")
			}
		}
	}
	if nLoops < 3 {
		c.undecided("C03.consumers-repair", "replay loops", token.NoPos, fmt.Sprintf("expected the 3 replay loops, found %d ReadBytes sites", nLoops))
	}
}

// unsliceBase strips slice operations to find the underlying buffer.
func unsliceBase(v ssa.Value) ssa.Value {
	for {
		s, ok := v.(*ssa.Slice)
		if !ok {
			return v
		}
		v = s.X
	}
}

// phiIsCounterFrom: phi has exactly one "start" edge satisfying start and all
// other edges are phi+1.
func phiIsCounterFrom(phi *ssa.Phi, start func(ssa.Value) bool) bool {
	nStart, nInc := 0, 0
	for _, e := range phi.Edges {
		if bo, ok := e.(*ssa.BinOp); ok && bo.Op == token.ADD && bo.X == ssa.Value(phi) {
			if k, isK := constInt(bo.Y); isK && k == 1 {
				nInc++
				continue
			}
		}
		if start(e) {
			nStart++
			continue
		}
		return false
	}
	return nStart == 1 && nInc >= 1
}

// corruptionEscapes searches for a path from the ReadBytes call on which a
// corruption predicate over errV evaluated true, and which reaches a function
// exit or the next ReadBytes without passing CloseAndRepair.
func corruptionEscapes(fn *ssa.Function, read ssa.Instruction, errV ssa.Value) (string, bool) {
	isCorruptionTest := func(v ssa.Value) bool {
		call, ok := v.(*ssa.Call)
		if !ok {
			return false
		}
		n := methodName(call.Common())
		if n != "IsCorruptedWAL" && n != "IsUnexpectedEOF" {
			return false
		}
		_, a := callArgs(call.Common())
		return len(a) == 1 && a[0] == errV
	}
	type state struct {
		b     *ssa.BasicBlock
		start int
		saw   bool
	}
	type key struct {
		b   *ssa.BasicBlock
		saw bool
	}
	seen := map[key]bool{}
	b0 := read.Block()
	i0 := 0
	for j, in := range b0.Instrs {
		if in == read {
			i0 = j + 1
		}
	}
	q := []state{{b0, i0, false}}
	for len(q) > 0 {
		s := q[0]
		q = q[1:]
		blocked := false
		for i := s.start; i < len(s.b.Instrs); i++ {
			in := s.b.Instrs[i]
			if ci, ok := in.(ssa.CallInstruction); ok {
				n := methodName(ci.Common())
				if n == "CloseAndRepair" {
					blocked = true
					break
				}
				if in == read && s.saw {
					return fmt.Sprintf("back to ReadBytes at block %d", s.b.Index), true
				}
			}
			if _, ok := in.(*ssa.Return); ok && s.saw {
				return fmt.Sprintf("return at block %d", s.b.Index), true
			}
			if _, ok := in.(*ssa.Panic); ok {
				blocked = true
				break
			}
		}
		if blocked {
			continue
		}
		var iff *ssa.If
		if len(s.b.Instrs) > 0 {
			iff, _ = s.b.Instrs[len(s.b.Instrs)-1].(*ssa.If)
		}
		for k, nx := range s.b.Succs {
			saw := s.saw
			if iff != nil {
				v, pol := stripNot(iff.Cond, k == 0)
				if isCorruptionTest(v) && pol {
					saw = true
				}
			}
			kk := key{nx, saw}
			if !seen[kk] {
				seen[kk] = true
				q = append(q, state{nx, 0, saw})
			}
		}
	}
	return "", false
}
