package main

import (
	"fmt"
	"go/token"
	"go/types"
	"strings"

	"golang.org/x/tools/go/ssa"
)

// C21 — contract storage containers do not collide.
func init() {
	register(&Prop{
		ID:             "C21",
		Pkgs:           []string{"common/containerdb"},
		Run:            runC21,
		MinObligations: 40,
		Technique:      "static analysis: table agreement between the key-part framer and its parser (tag boundaries and offsets extracted from guards and stores), provenance (every key part passes the framer; every derived builder is a fresh slice, never an append onto the parent's storage), guard dominance and update order in ArrayDB/DictDB",
		LevelText:      "Decides the structural facts the injectivity of container keys rests on: (1) rlpEncodeBytes and rlpParseBytes agree on the three framing classes — a part is emitted bare only if it is one byte < 0x80, otherwise under tag 0x80+len (len ≤ 55) or 0xB7+lenlen, and the parser's class boundaries (0x80, 0xB8, 0xC0) and offsets (0x80, 0xB7) are exactly the framer's, so the framing is a prefix code that SplitKeys inverts; (2) AppendKeys frames every part through rlpEncodeBytes(ToBytes(k)) at its own position and returns a freshly allocated slice; every hash/prefixed/RLP builder's Append and constructor goes through AppendKeys and no builder method appends onto its receiver's storage (two children of one parent never share bytes); (3) ArrayDB.Put stores element size() then sets size+1 only on success, Pop deletes element size−1 and then lowers or deletes the size, Set is bounds-guarded; DictDB.Get/Set/Delete require exactly depth key parts (GetDB fewer, with the remaining depth recorded).",
		LevelNote:      "Not decided: collision resistance of SHA3-256 over the framed bytes, injectivity of ToBytes across Go types (int 1 and byte 1 frame equally by design), and the map/array behaviour of the underlying store. The raw key builder is unframed by design and excluded.",
		Explanation:    "C21 rules: framing-tables (K4), every-part-framed (K5), fresh-key (K5 no aliasing), array-size (K1/K8), dict-depth (K1).",
		Mutants: []Mutant{
			{Name: "self-encode-0x80", File: "common/containerdb/common.go", Old: "if blen == 1 && b[0] < 0x80 {", New: "if blen == 1 && b[0] <= 0x80 {", Desc: "0x80 emitted bare = the empty part"},
			{Name: "short-boundary", File: "common/containerdb/common.go", Old: "\tif blen <= 55 {\n\t\tbuf := make([]byte, blen+1)", New: "\tif blen <= 56 {\n\t\tbuf := make([]byte, blen+1)", Desc: "56-byte part framed as tag 0xB8: parsed as long form"},
			{Name: "parser-short-offset", File: "common/containerdb/common.go", Old: "\tcase tag < 0xB8:\n\t\tsize := int(tag - 0x80)", New: "\tcase tag < 0xB8:\n\t\tsize := int(tag - 0x7f)", Desc: "parser disagrees with framer on the length"},
			{Name: "parser-first-class", File: "common/containerdb/common.go", Old: "\tcase tag < 0x80:\n\t\treturn []byte{tag}, data, nil", New: "\tcase tag <= 0x80:\n\t\treturn []byte{tag}, data, nil", Desc: "empty part parsed as {0x80}"},
			{Name: "append-on-receiver", File: "common/containerdb/keybuilder.go", Old: "func (b hashKeyBuilder) Append(keys ...interface{}) KeyBuilder {\n\treturn hashKeyBuilder(AppendKeys(b, keys...))", New: "func (b hashKeyBuilder) Append(keys ...interface{}) KeyBuilder {\n\tfor _, k := range keys {\n\t\tb = append(b, rlpEncodeBytes(ToBytes(k))...)\n\t}\n\treturn b", Desc: "sibling builders share a backing array"},
			{Name: "unframed-part", File: "common/containerdb/keybuilder.go", Old: "func (b rlpKeyBuilder) Append(keys ...interface{}) KeyBuilder {\n\treturn rlpKeyBuilder(AppendKeys(b, keys...))", New: "func (b rlpKeyBuilder) Append(keys ...interface{}) KeyBuilder {\n\treturn rlpKeyBuilder(AppendRawKeys(b, keys...))", Desc: "parts concatenated without framing: (\"ab\",\"c\") = (\"a\",\"bc\")"},
			{Name: "no-capacity-copy", File: "common/containerdb/common.go", Old: "\t\tlist[i] = rlpEncodeBytes(ToBytes(k))\n\t\tsize += len(list[i])\n\t}\n\tkbytes := make([]byte, len(key), size)\n\tcopy(kbytes, key)", New: "\t\tlist[i] = rlpEncodeBytes(ToBytes(k))\n\t\tsize += len(list[i])\n\t}\n\tkbytes := key[:len(key):len(key)+0*size]", Desc: "control: full-slice expression forces a copy on append — still flagged? (base is the parameter)", Equivalent: false},
			{Name: "array-put-size-first", File: "common/containerdb/arraydb.go", Old: "\tif err := a.store.At(key).Set(v); err != nil {\n\t\treturn err\n\t}\n\treturn a.size.Set(idx + 1)", New: "\tif err := a.size.Set(idx + 1); err != nil {\n\t\treturn err\n\t}\n\treturn a.store.At(key).Set(v)", Desc: "size grows although the element store may fail"},
			{Name: "array-put-wrong-slot", File: "common/containerdb/arraydb.go", Old: "\tidx := a.Size()\n\tkey := a.key.Append(idx).Build()\n\tif err := a.store.At(key).Set(v); err != nil {", New: "\tidx := a.Size()\n\tkey := a.key.Append(idx + 1).Build()\n\tif err := a.store.At(key).Set(v); err != nil {", Desc: "element stored one slot beyond the end"},
			{Name: "array-pop-keeps-size", File: "common/containerdb/arraydb.go", Old: "\tif idx > 1 {\n\t\tif err := a.size.Set(idx - 1); err != nil {", New: "\tif idx > 2 {\n\t\tif err := a.size.Set(idx - 1); err != nil {", Desc: "size deleted while one element remains"},
			{Name: "array-set-unbounded", File: "common/containerdb/arraydb.go", Old: "\tif i < 0 || i >= a.Size() {\n\t\treturn scoreresult.ErrInvalidContainerAccess\n\t}\n\tkey := a.key.Append(i).Build()\n\treturn a.store.At(key).Set(v)", New: "\tif i < 0 || i > a.Size() {\n\t\treturn scoreresult.ErrInvalidContainerAccess\n\t}\n\tkey := a.key.Append(i).Build()\n\treturn a.store.At(key).Set(v)", Desc: "element written beyond the size"},
			{Name: "dict-short-path", File: "common/containerdb/dictdb.go", Old: "\tif len(kv) != d.depth {\n\t\treturn scoreresult.ErrInvalidContainerAccess\n\t}\n\t_, err := d.store.At(", New: "\tif len(kv) > d.depth {\n\t\treturn scoreresult.ErrInvalidContainerAccess\n\t}\n\t_, err := d.store.At(", Desc: "a sub-dictionary path is used as an entry key"},
			{Name: "dict-set-key-includes-value", File: "common/containerdb/dictdb.go", Old: "key := d.key.Append(params[:len(params)-1]...).Build()", New: "key := d.key.Append(params[:len(params)]...).Build()", Desc: "value becomes part of the key"},
		},
	})
}

// varargElems: the values stored into the backing array of a variadic argument slice.
func varargElems(v ssa.Value) ([]ssa.Value, bool) {
	sl, ok := v.(*ssa.Slice)
	if !ok {
		return nil, false
	}
	al, ok := sl.X.(*ssa.Alloc)
	if !ok || al.Referrers() == nil {
		return nil, false
	}
	arr, ok := al.Type().Underlying().(*types.Pointer).Elem().Underlying().(*types.Array)
	if !ok {
		return nil, false
	}
	out := make([]ssa.Value, arr.Len())
	for _, r := range *al.Referrers() {
		ia, ok := r.(*ssa.IndexAddr)
		if !ok {
			continue
		}
		k, ok := constInt(ia.Index)
		if !ok || k < 0 || k >= arr.Len() {
			return nil, false
		}
		for _, st := range storesTo(ia) {
			x := st.Val
			if mi, ok := x.(*ssa.MakeInterface); ok {
				x = mi.X
			}
			out[k] = x
		}
	}
	for _, x := range out {
		if x == nil {
			return nil, false
		}
	}
	return out, true
}

// boundsOn: tightest constant bounds on the atom established by the guards (lo ≤ atom ≤ hi).
func boundsOn(gs []Guard, atom string) (lo, hi int64, hasLo, hasHi bool) {
	for _, g := range gs {
		p := predOf(g)
		if p.Kind != "ge" || len(p.L.T) != 1 {
			continue
		}
		switch p.L.T[atom] {
		case 1: // atom + K >= 0  → atom ≥ -K
			if !hasLo || -p.L.K > lo {
				lo, hasLo = -p.L.K, true
			}
		case -1: // -atom + K >= 0 → atom ≤ K
			if !hasHi || p.L.K < hi {
				hi, hasHi = p.L.K, true
			}
		}
	}
	return
}

// appendBases: the values an append chain / phi web ultimately extends.
func appendBases(v ssa.Value, seen map[ssa.Value]bool, out *[]ssa.Value) {
	if seen[v] {
		return
	}
	seen[v] = true
	switch x := v.(type) {
	case *ssa.Phi:
		for _, e := range x.Edges {
			appendBases(e, seen, out)
		}
	case *ssa.Call:
		if b, ok := x.Call.Value.(*ssa.Builtin); ok && b.Name() == "append" {
			appendBases(x.Call.Args[0], seen, out)
			return
		}
		*out = append(*out, v)
	case *ssa.ChangeType:
		appendBases(x.X, seen, out)
	case *ssa.Convert:
		appendBases(x.X, seen, out)
	case *ssa.MakeInterface:
		appendBases(x.X, seen, out)
	case *ssa.Slice:
		appendBases(x.X, seen, out)
	default:
		*out = append(*out, v)
	}
}

func runC21(c *Ctx) {
	runC21Extra(c)
	const pk = "common/containerdb"
	// ------------------------------------------------------ framing tables
	var selfHi, shortMax, shortOff, longOff int64 = -1, -1, -1, -1
	if enc := c.mustFn(pk, "", "rlpEncodeBytes"); enc != nil {
		for _, e := range exitAlts(enc) {
			r := e.Results[0]
			if _, isParam := r.(*ssa.Parameter); isParam {
				_, hi, _, hasHi := boundsOn(e.Guards, "$0[0]")
				_, one := holds(e.Guards, wEQ("len == 1", -1, t(1, `^len\(\$0\)$`)))
				if hasHi && one {
					selfHi = hi
				} else {
					c.violate("C21.framing-tables", "bare emission only for one byte below the tag range", e.pos(), "the part is returned unframed without `len == 1 && b[0] < bound`: "+guardsString(e.Guards))
				}
				continue
			}
			// framed: tag stored at [0]
			var bases []ssa.Value
			appendBases(r, map[ssa.Value]bool{}, &bases)
			if len(bases) != 1 {
				c.violate("C21.framing-tables", "framed result", e.pos(), "unrecognised result "+render(r))
				continue
			}
			mk, ok := bases[0].(*ssa.MakeSlice)
			if !ok {
				c.violate("C21.framing-tables", "framed result is a fresh buffer", e.pos(), "result "+render(r))
				continue
			}
			var tag ssa.Value
			for _, ref := range *mk.Referrers() {
				if ia, ok := ref.(*ssa.IndexAddr); ok && isZeroConst(ia.Index) {
					for _, st := range storesTo(ia) {
						tag = st.Val
					}
				}
			}
			if tag == nil {
				c.violate("C21.framing-tables", "framed result has a tag byte", e.pos(), "no store to buf[0]")
				continue
			}
			if cv, ok := tag.(*ssa.Convert); ok {
				tag = cv.X
			}
			l := linOf(tag)
			_, hi, _, hasHi := boundsOn(e.Guards, "len($0)")
			switch {
			case len(l.T) == 1 && l.T["len($0)"] == 1 && hasHi:
				shortMax, shortOff = hi, l.K
				// payload right after the tag, buffer len+1
				okPay := false
				for _, cp := range c.calls(enc, byCallee("builtin:copy")) {
					if cp.Instr.Block() != mk.Block() {
						continue
					}
					_, a := callArgs(cp.Common())
					if sl, ok := a[0].(*ssa.Slice); ok && sl.X == ssa.Value(mk) && sl.Low != nil {
						if k, ok := constInt(sl.Low); ok && k == 1 && render(a[1]) == "$0" {
							okPay = true
						}
					}
				}
				ml := linOf(mk.Len)
				c.check(okPay && len(ml.T) == 1 && ml.T["len($0)"] == 1 && ml.K == 1, "C21.framing-tables", "short form = tag ‖ payload", mk.Pos(), "make(len+1); copy(buf[1:], b)", "short form layout differs")
			case len(l.T) == 1 && l.T["containerdb.rlpCountBytesForSize(len($0))"] == 1:
				longOff = l.K
				lo, _, hasLo, _ := boundsOn(e.Guards, "len($0)")
				c.check(hasLo && lo == shortMax+1, "C21.framing-tables", "long form exactly above the short range", mk.Pos(), fmt.Sprintf("len ≥ %d", lo), "long form range does not start right after the short range")
				okPay := false
				for _, cp := range c.calls(enc, byCallee("builtin:copy")) {
					_, a := callArgs(cp.Common())
					if sl, ok := a[0].(*ssa.Slice); ok && sl.X == ssa.Value(mk) && sl.Low != nil {
						sl2 := linOf(sl.Low)
						if len(sl2.T) == 1 && sl2.T["containerdb.rlpCountBytesForSize(len($0))"] == 1 && sl2.K == 1 && render(a[1]) == "$0" {
							okPay = true
						}
					}
				}
				ml := linOf(mk.Len)
				c.check(okPay && len(ml.T) == 2 && ml.T["len($0)"] == 1 && ml.T["containerdb.rlpCountBytesForSize(len($0))"] == 1 && ml.K == 1, "C21.framing-tables", "long form = tag ‖ size ‖ payload", mk.Pos(), "make(1+n+len); copy(buf[n+1:], b)", "long form layout differs")
			default:
				c.violate("C21.framing-tables", "tag formula", e.pos(), "tag = "+l.String())
			}
		}
		c.check(selfHi >= 0 && shortOff >= 0 && shortMax >= 0 && longOff >= 0, "C21.framing-tables", "framer has the three classes", enc.Pos(), fmt.Sprintf("bare ≤ %#x, short tag %#x+len (len ≤ %d), long tag %#x+n", selfHi, shortOff, shortMax, longOff), "could not extract the three framing classes")
		c.check(selfHi+1 == shortOff, "C21.framing-tables", "bare bytes stay below every tag", enc.Pos(), fmt.Sprintf("bare < %#x = first tag", shortOff), fmt.Sprintf("a bare byte up to %#x collides with tag %#x (the empty part)", selfHi, shortOff))
		c.check(longOff == shortOff+shortMax, "C21.framing-tables", "long tags start right after the short tags", enc.Pos(), fmt.Sprintf("%#x = %#x+%d", longOff, shortOff, shortMax), "short and long tag ranges overlap or leave a gap")
	}
	if dec := c.mustFn(pk, "", "rlpParseBytes"); dec != nil {
		type cls struct {
			off    int64
			lo, hi int64
			pos    token.Pos
		}
		var subs []cls
		var bareHi int64 = -1
		for _, b := range dec.Blocks {
			for _, in := range b.Instrs {
				if bo, ok := in.(*ssa.BinOp); ok && bo.Op == token.SUB && render(bo.X) == "$0[0]" {
					if k, ok := constInt(bo.Y); ok {
						lo, hi, hasLo, hasHi := boundsOn(guardsAtBlock(b), "$0[0]")
						if hasLo && hasHi {
							subs = append(subs, cls{k, lo, hi, bo.Pos()})
						} else {
							c.violate("C21.framing-tables", "parser class is bounded on both sides", bo.Pos(), "tag - "+fmt.Sprint(k)+" computed without both bounds")
						}
					}
				}
			}
		}
		for _, e := range exitAlts(dec) {
			if !provablyNil(e.Results[2], e.Guards) && !isNilConst(e.Results[2]) {
				continue
			}
			if sl, ok := e.Results[0].(*ssa.Slice); ok {
				if al, ok := sl.X.(*ssa.Alloc); ok && strings.Contains(al.Type().String(), "[1]byte") {
					_, hi, _, hasHi := boundsOn(e.Guards, "$0[0]")
					if hasHi {
						bareHi = hi
					}
				}
			}
		}
		okTab := len(subs) == 2 && bareHi >= 0
		if okTab {
			s, l := subs[0], subs[1]
			if s.off > l.off {
				s, l = l, s
			}
			c.check(bareHi == selfHi, "C21.framing-tables", "parser's bare class = framer's bare class", dec.Pos(), fmt.Sprintf("tag ≤ %#x", bareHi), fmt.Sprintf("parser takes tags ≤ %#x as bare bytes, framer emits bare bytes ≤ %#x", bareHi, selfHi))
			c.check(s.off == shortOff && s.lo == shortOff && s.hi == shortOff+shortMax, "C21.framing-tables", "parser's short class = framer's short class", s.pos, fmt.Sprintf("[%#x,%#x] − %#x", s.lo, s.hi, s.off), fmt.Sprintf("parser short class [%#x,%#x] offset %#x; framer tags %#x+len, len ≤ %d", s.lo, s.hi, s.off, shortOff, shortMax))
			c.check(l.off == longOff && l.lo == longOff+1 && l.hi == longOff+8, "C21.framing-tables", "parser's long class = framer's long class", l.pos, fmt.Sprintf("[%#x,%#x] − %#x", l.lo, l.hi, l.off), fmt.Sprintf("parser long class [%#x,%#x] offset %#x; framer tags %#x+n", l.lo, l.hi, l.off, longOff))
		} else {
			c.violate("C21.framing-tables", "parser has the three classes", dec.Pos(), fmt.Sprintf("found %d offset classes, bare bound %d", len(subs), bareHi))
		}
		// payload slices are bounded by the decoded size
		for _, e := range exitAlts(dec) {
			if !isNilConst(e.Results[2]) {
				continue
			}
			if sl, ok := e.Results[0].(*ssa.Slice); ok && sl.High != nil {
				if rem, ok := e.Results[1].(*ssa.Slice); ok {
					c.check(rem.X == sl.X && rem.Low == sl.High, "C21.framing-tables", "part and remainder split at the decoded size", e.pos(), "data[:n], data[n:]", "part and remainder do not split the same buffer at the same offset")
				}
			}
		}
	}
	if sk := c.mustFn(pk, "", "SplitKeys"); sk != nil {
		ps := c.calls(sk, byCallee("containerdb.rlpParseBytes"))
		c.check(len(ps) == 1, "C21.framing-tables", "SplitKeys parses with the framer's inverse", sk.Pos(), "rlpParseBytes in a loop", "SplitKeys does not use rlpParseBytes")
		for _, e := range successAlts(sk) {
			_, done := holds(e.Guards, wEQ("whole key consumed", 0, t(1, `^len\(`)))
			_, done2 := holds(e.Guards, wGE("whole key consumed", 0, t(-1, `^len\(`)))
			c.check(done || done2, "C21.framing-tables", "SplitKeys succeeds only when the whole key is consumed", e.pos(), "len(rest) == 0", "SplitKeys can succeed with bytes left over: "+guardsString(e.Guards))
		}
	}

	// ------------------------------------------------------ every part framed / fresh key
	for _, spec := range []struct{ fn, framer string }{{"AppendKeys", "containerdb.rlpEncodeBytes"}, {"AppendRawKeys", ""}} {
		ak := c.mustFn(pk, "", spec.fn)
		if ak == nil {
			continue
		}
		for _, e := range exitAlts(ak) {
			var bases []ssa.Value
			appendBases(e.Results[0], map[ssa.Value]bool{}, &bases)
			fresh := len(bases) > 0
			for _, b := range bases {
				if _, ok := b.(*ssa.MakeSlice); !ok {
					fresh = false
				}
			}
			c.check(fresh, "C21.fresh-key", spec.fn+" returns a freshly allocated key", e.pos(), "make + copy + append", spec.fn+" extends "+render(bases[0])+": keys derived from one parent can share storage")
			if fresh {
				mk := bases[0].(*ssa.MakeSlice)
				c.check(render(mk.Len) == "len($0)", "C21.fresh-key", spec.fn+" keeps the parent prefix", mk.Pos(), "make(len(key)) + copy", "prefix length "+render(mk.Len))
				okCopy := false
				for _, cp := range c.calls(ak, byCallee("builtin:copy")) {
					_, a := callArgs(cp.Common())
					if a[0] == ssa.Value(mk) && render(a[1]) == "$0" && dominatesInstr(cp.Instr, e.Ret) {
						okCopy = true
					}
				}
				c.check(okCopy, "C21.fresh-key", spec.fn+" copies the parent prefix", mk.Pos(), "copy(kbytes, key)", "the parent prefix is not copied")
			}
		}
		if spec.framer == "" {
			continue
		}
		// list[i] = rlpEncodeBytes(ToBytes(keys[i])) ; appended in order of list
		nPart := 0
		var listMk ssa.Value
		for _, b := range ak.Blocks {
			for _, in := range b.Instrs {
				st, ok := in.(*ssa.Store)
				if !ok {
					continue
				}
				ia, ok := st.Addr.(*ssa.IndexAddr)
				if !ok {
					continue
				}
				if _, ok := ia.X.(*ssa.MakeSlice); !ok {
					continue
				}
				nPart++
				listMk = ia.X
				good := false
				if cl, ok := st.Val.(*ssa.Call); ok && strings.HasSuffix(calleeName(cl.Common()), spec.framer) {
					if tb, ok := cl.Call.Args[0].(*ssa.Call); ok && strings.HasSuffix(calleeName(tb.Common()), "containerdb.ToBytes") {
						if ld, ok := loadOf(tb.Call.Args[0]).(*ssa.IndexAddr); ok && render(ld.X) == "$1" && ld.Index == ia.Index {
							good = true
						}
					}
				}
				c.check(good, "C21.every-part-framed", "part i = rlpEncodeBytes(ToBytes(keys[i]))", st.Pos(), "framed at its own position", "a key part is stored without passing the framer at its own index: "+render(st.Val))
			}
		}
		c.check(nPart == 1, "C21.every-part-framed", "one part store in AppendKeys", ak.Pos(), "list[i] = …", fmt.Sprintf("%d part stores", nPart))
		// the appended elements are exactly list[j] over the range of list
		nApp := 0
		for _, cs := range c.calls(ak, byCallee("builtin:append")) {
			nApp++
			_, a := callArgs(cs.Common())
			ld, _ := loadOf(a[1]).(*ssa.IndexAddr)
			okA := ld != nil && ld.X == listMk
			if okA {
				h := loopHeaderOf(cs.Instr.Block())
				okA = h != nil
				if okA {
					_, by := loopBypass(ak, h, cs.Instr)
					okA = !by
				}
			}
			c.check(okA, "C21.every-part-framed", "every framed part is appended, in order", cs.Pos(), "append(kbytes, list[j]...) for all j", "append of "+render(a[1]))
		}
		c.check(nApp == 1, "C21.every-part-framed", "one append site in AppendKeys", ak.Pos(), "1", fmt.Sprintf("%d append sites", nApp))
	}
	// builders
	type bspec struct{ typ, via string }
	for _, b := range []bspec{{"hashKeyBuilder", "AppendKeys"}, {"rlpKeyBuilder", "AppendKeys"}, {"prefixedHashKeyBuilder", "AppendKeys"}, {"rawKeyBuilder", "AppendRawKeys"}} {
		fn := c.mustFn(pk, b.typ, "Append")
		if fn == nil {
			continue
		}
		// no append onto the receiver's storage
		for _, cs := range c.calls(fn, byCallee("builtin:append")) {
			var bases []ssa.Value
			_, a := callArgs(cs.Common())
			appendBases(a[0], map[ssa.Value]bool{}, &bases)
			for _, x := range bases {
				_, isMk := x.(*ssa.MakeSlice)
				c.check(isMk, "C21.fresh-key", b.typ+".Append does not extend shared storage", cs.Pos(), "fresh", b.typ+".Append appends onto "+render(x)+": two builders derived from one parent can overwrite each other's key bytes")
			}
		}
		calls := c.calls(fn, byCallee("containerdb."+b.via))
		okVia := len(calls) == 1
		if okVia {
			_, a := callArgs(calls[0].Common())
			want := "$r"
			if b.typ == "prefixedHashKeyBuilder" {
				want = "$r.hashPrefix"
			}
			okVia = render(a[0]) == want && render(a[1]) == "$0"
			for _, e := range exitAlts(fn) {
				if b.typ == "prefixedHashKeyBuilder" {
					okS := false
					for _, fs := range fieldStores([]*ssa.Function{fn}, b.typ, "hashPrefix") {
						okS = fs.Store.Val == calls[0].Instr.Value()
					}
					okR := false
					for _, fs := range fieldStores([]*ssa.Function{fn}, b.typ, "rawPrefix") {
						okR = render(fs.Store.Val) == "$r.rawPrefix"
					}
					okVia = okVia && okS && okR
				} else {
					var bases []ssa.Value
					appendBases(e.Results[0], map[ssa.Value]bool{}, &bases)
					okVia = okVia && len(bases) == 1 && bases[0] == calls[0].Instr.Value()
				}
			}
		}
		c.check(okVia, "C21.every-part-framed", b.typ+".Append = "+b.via+"(parent, keys...)", fn.Pos(), "through "+b.via, b.typ+".Append does not return "+b.via+"(receiver, keys...)")
	}
	if hb := c.mustFn(pk, "hashKeyBuilder", "Build"); hb != nil {
		for _, e := range exitAlts(hb) {
			c.check(strings.HasSuffix(render(e.Results[0]), "SHA3Sum256($r)") || strings.Contains(render(e.Results[0]), "SHA3Sum256("), "C21.every-part-framed", "hash key = SHA3-256(framed path)", e.pos(), render(e.Results[0]), "Build returns "+render(e.Results[0]))
		}
	}
	if pb := c.mustFn(pk, "prefixedHashKeyBuilder", "Build"); pb != nil {
		cs := c.calls(pb, byCallee("containerdb.AppendKeys"))
		ok := len(cs) == 1
		if ok {
			_, a := callArgs(cs[0].Common())
			el, okE := varargElems(a[1])
			ok = render(a[0]) == "$r.rawPrefix" && okE && len(el) == 1 && strings.Contains(render(el[0]), "SHA3Sum256($r.hashPrefix)")
		}
		c.check(ok, "C21.every-part-framed", "prefixed key = rawPrefix ‖ frame(SHA3-256(framed path))", pb.Pos(), "AppendKeys(rawPrefix, hash)", "prefixed Build differs")
	}
	if tk := c.mustFn(pk, "", "ToKey"); tk != nil {
		n := 0
		for _, cs := range c.calls(tk, byCallee("containerdb.AppendRawKeys")) {
			n++
			// only behind builderType == RawBuilder
			raw, _ := c.constVal(pk, "RawBuilder")
			c.requireAt("C21.every-part-framed", "unframed keys only for the raw builder", cs.Instr, wEQ("builderType == RawBuilder", -raw, t(1, `^\$0$`)))
		}
		c.check(n == 1, "C21.every-part-framed", "ToKey has one raw construction", tk.Pos(), "1", fmt.Sprint(n))
	}
	if nh := c.mustFn(pk, "", "NewHashKey"); nh != nil {
		c.check(len(c.calls(nh, byCallee("containerdb.AppendKeys"))) == 1 && len(c.calls(nh, byCallee("containerdb.AppendRawKeys"))) == 0, "C21.every-part-framed", "NewHashKey frames its parts", nh.Pos(), "AppendKeys", "NewHashKey does not use AppendKeys")
	}

	// ------------------------------------------------------ array
	keyIdx := func(fn *ssa.Function, build callSite) (ssa.Value, bool) {
		r, _ := callArgs(build.Common())
		ap, ok := r.(*ssa.Call)
		if !ok || methodName(ap.Common()) != "Append" {
			return nil, false
		}
		ar, a := callArgs(ap.Common())
		if render(ar) != "$r.key" {
			return nil, false
		}
		el, ok := varargElems(a[0])
		if !ok || len(el) != 1 {
			return nil, false
		}
		return el[0], true
	}
	sizeAtom := "$r.Size()"
	isSizePlus := func(v ssa.Value, k int64) bool {
		l := linOf(v)
		return len(l.T) == 1 && l.T[sizeAtom] == 1 && l.K == k
	}
	if put := c.mustFn(pk, "ArrayDB", "Put"); put != nil {
		builds := c.calls(put, byMethod("Build"))
		sets := c.calls(put, byMethod("Set"))
		if len(builds) != 1 || len(sets) != 2 {
			c.violate("C21.array-size", "ArrayDB.Put structure", put.Pos(), "expected one element key, an element Set and a size Set")
		} else {
			idx, ok := keyIdx(put, builds[0])
			c.check(ok && isSizePlus(idx, 0), "C21.array-size", "Put stores at index size", builds[0].Pos(), "key.Append(size)", "Put stores the element at another index")
			var elem, size callSite
			for _, s := range sets {
				r, _ := callArgs(s.Common())
				if render(r) == "$r.size" {
					size = s
				} else {
					elem = s
				}
			}
			if elem.Instr == nil || size.Instr == nil {
				c.violate("C21.array-size", "ArrayDB.Put sets element and size", put.Pos(), "missing one of them")
			} else {
				er, ea := callArgs(elem.Common())
				c.check(strings.HasPrefix(render(er), "$r.store.At(") && er.(*ssa.Call).Call.Args[0] == builds[0].Instr.Value() && render(ea[0]) == "$0", "C21.array-size", "Put stores the value under the element key", elem.Pos(), "store.At(key).Set(v)", "element store differs")
				_, sa := callArgs(size.Common())
				sv := sa[0]
				if mi, ok := sv.(*ssa.MakeInterface); ok {
					sv = mi.X
				}
				c.check(isSizePlus(sv, 1), "C21.array-size", "Put sets size+1", size.Pos(), "size.Set(size+1)", "Put sets the size to "+render(sv))
				ev := errValueOf(elem.Instr)
				pathEdgeFilter = nilErrEdgeFilter(ev)
				tr, reach := pathAvoiding(put, elem.Instr, isInstr(size.Instr), nil)
				pathEdgeFilter = nil
				c.check(dominatesInstr(elem.Instr, size.Instr) && !reach, "C21.array-size", "size grows only after the element was stored", size.Pos(), "Set == nil → size.Set", "the size is raised although the element store failed or has not happened ("+traceString(tr)+")")
				for _, e := range successAlts(put) {
					tr, reach := pathToExit(put, nil, e, isInstr(size.Instr))
					c.check(!reach, "C21.array-size", "Put succeeds only with the size raised", e.pos(), "no bypass", "Put can succeed without raising the size ("+traceString(tr)+")")
				}
			}
		}
	}
	if pop := c.mustFn(pk, "ArrayDB", "Pop"); pop != nil {
		builds := c.calls(pop, byMethod("Build"))
		dels := c.calls(pop, byMethod("Delete"))
		sets := c.calls(pop, byMethod("Set"))
		if len(builds) != 1 || len(dels) != 2 || len(sets) != 1 {
			c.violate("C21.array-size", "ArrayDB.Pop structure", pop.Pos(), "expected element delete, size set and size delete")
		} else {
			idx, ok := keyIdx(pop, builds[0])
			c.check(ok && isSizePlus(idx, -1), "C21.array-size", "Pop removes index size−1", builds[0].Pos(), "key.Append(size−1)", "Pop removes another index")
			c.requireAt("C21.array-size", "Pop on an empty array does nothing", builds[0].Instr, wNE("size ≠ 0", 0, t(1, `^\$r\.Size\(\)$`)))
			var elemDel, sizeDel callSite
			for _, d := range dels {
				r, _ := callArgs(d.Common())
				if render(r) == "$r.size" {
					sizeDel = d
				} else {
					elemDel = d
				}
			}
			if elemDel.Instr == nil || sizeDel.Instr == nil {
				c.violate("C21.array-size", "ArrayDB.Pop deletes element and (last) size", pop.Pos(), "missing one of them")
			} else {
				_, sa := callArgs(sets[0].Common())
				sv := sa[0]
				if mi, ok := sv.(*ssa.MakeInterface); ok {
					sv = mi.X
				}
				c.check(isSizePlus(sv, -1), "C21.array-size", "Pop sets size−1", sets[0].Pos(), "size.Set(size−1)", "Pop sets the size to "+render(sv))
				c.requireAt("C21.array-size", "size lowered while elements remain", sets[0].Instr, wGE("size ≥ 2", -2, t(1, `^\$r\.Size\(\)$`)))
				c.requireAt("C21.array-size", "size record deleted exactly when the last element goes", sizeDel.Instr, wGE("size ≤ 1", 1, t(-1, `^\$r\.Size\(\)$`)))
				tr, reach := pathAvoiding(pop, elemDel.Instr, isReturn, func(in ssa.Instruction) bool { return in == sets[0].Instr || in == sizeDel.Instr })
				c.check(!reach, "C21.array-size", "Pop always updates the size after removing the element", elemDel.Pos(), "no bypass", "Pop can return with the element removed and the size unchanged ("+traceString(tr)+")")
				c.check(dominatesInstr(elemDel.Instr, sets[0].Instr) && dominatesInstr(elemDel.Instr, sizeDel.Instr), "C21.array-size", "element removed before the size shrinks", elemDel.Pos(), "delete → size", "size shrinks before the element is removed")
			}
		}
	}
	if set := c.mustFn(pk, "ArrayDB", "Set"); set != nil {
		builds := c.calls(set, byMethod("Build"))
		if len(builds) == 1 {
			idx, ok := keyIdx(set, builds[0])
			c.check(ok && render(idx) == "$0", "C21.array-size", "Set addresses element i", builds[0].Pos(), "key.Append(i)", "Set addresses another element")
			c.requireAt("C21.array-size", "Set only inside the array", builds[0].Instr, wGE("i ≥ 0", 0, t(1, `^\$0$`)))
			c.requireAt("C21.array-size", "Set only inside the array", builds[0].Instr, wGE("i < size", -1, t(1, `^\$r\.Size\(\)$`), t(-1, `^\$0$`)))
		} else {
			c.violate("C21.array-size", "ArrayDB.Set structure", set.Pos(), "expected one element key")
		}
	}
	if get := c.mustFn(pk, "ArrayDB", "Get"); get != nil {
		builds := c.calls(get, byMethod("Build"))
		if len(builds) == 1 {
			idx, ok := keyIdx(get, builds[0])
			c.check(ok && render(idx) == "$0", "C21.array-size", "Get addresses element i", builds[0].Pos(), "key.Append(i)", "Get addresses another element")
		} else {
			c.violate("C21.array-size", "ArrayDB.Get structure", get.Pos(), "expected one element key")
		}
	}
	if sz := c.mustFn(pk, "ArrayDB", "Size"); sz != nil {
		for _, e := range exitAlts(sz) {
			c.check(strings.Contains(render(e.Results[0]), "$r.size.Int64()"), "C21.array-size", "Size reads the size record", e.pos(), render(e.Results[0]), "Size returns "+render(e.Results[0]))
		}
	}
	if na := c.mustFn(pk, "", "NewArrayDB"); na != nil {
		okN := false
		for _, fs := range fieldStores([]*ssa.Function{na}, "ArrayDB", "size") {
			okN = strings.HasSuffix(render(fs.Store.Val), ".At($1.Build())")
		}
		c.check(okN, "C21.array-size", "size record lives at the array's own key", na.Pos(), "store.At(key.Build())", "size record elsewhere")
	}

	// ------------------------------------------------------ dict
	depthEq := func(k int64) Want {
		return wEQ(fmt.Sprintf("len(keys) == depth%+d", k), -k, t(1, `^len\(\$0\)$`), t(-1, `^\$r\.depth$`))
	}
	for _, m := range []struct {
		name string
		k    int64
	}{{"Get", 0}, {"Delete", 0}, {"Set", 1}} {
		fn := c.mustFn(pk, "DictDB", m.name)
		if fn == nil {
			continue
		}
		aps := c.calls(fn, byMethod("Append"))
		if len(aps) != 1 {
			c.violate("C21.dict-depth", "DictDB."+m.name+" structure", fn.Pos(), "expected one key construction")
			continue
		}
		c.requireAt("C21.dict-depth", "DictDB."+m.name+" takes exactly depth key parts", aps[0].Instr, depthEq(m.k))
		r, a := callArgs(aps[0].Common())
		if m.k == 0 {
			c.check(render(r) == "$r.key" && render(a[0]) == "$0", "C21.dict-depth", "DictDB."+m.name+" key = key.Append(all parts)", aps[0].Pos(), "d.key.Append(keys...)", "key built from "+render(a[0]))
		} else {
			sl, ok := a[0].(*ssa.Slice)
			okK := ok && render(sl.X) == "$0" && sl.Low == nil && sl.High != nil
			if okK {
				l := linOf(sl.High)
				okK = len(l.T) == 1 && l.T["len($0)"] == 1 && l.K == -1
			}
			c.check(okK && render(r) == "$r.key", "C21.dict-depth", "DictDB.Set key = all parameters but the last", aps[0].Pos(), "params[:len-1]", "Set's key is built from "+render(a[0]))
			for _, s := range c.calls(fn, byMethod("Set")) {
				_, sa := callArgs(s.Common())
				ld, _ := loadOf(sa[0]).(*ssa.IndexAddr)
				okV := ld != nil && render(ld.X) == "$0"
				if okV {
					l := linOf(ld.Index)
					okV = len(l.T) == 1 && l.T["len($0)"] == 1 && l.K == -1
				}
				c.check(okV, "C21.dict-depth", "DictDB.Set value = last parameter", s.Pos(), "params[len-1]", "value is "+render(sa[0]))
			}
		}
	}
	if gd := c.mustFn(pk, "DictDB", "GetDB"); gd != nil {
		aps := c.calls(gd, byMethod("Append"))
		if len(aps) == 1 {
			c.requireAt("C21.dict-depth", "sub-dictionary only for a proper prefix of the path", aps[0].Instr, wGE("len(keys) < depth", -1, t(1, `^\$r\.depth$`), t(-1, `^len\(\$0\)$`)))
			okD := false
			for _, fs := range fieldStores([]*ssa.Function{gd}, "DictDB", "depth") {
				l := linOf(fs.Store.Val)
				okD = len(l.T) == 2 && l.T["$r.depth"] == 1 && l.T["len($0)"] == -1 && l.K == 0
			}
			c.check(okD, "C21.dict-depth", "sub-dictionary records the remaining depth", gd.Pos(), "depth − len(keys)", "remaining depth differs")
			okK := false
			for _, fs := range fieldStores([]*ssa.Function{gd}, "DictDB", "key") {
				okK = fs.Store.Val == aps[0].Instr.Value()
			}
			_, a := callArgs(aps[0].Common())
			c.check(okK && render(a[0]) == "$0", "C21.dict-depth", "sub-dictionary key = key.Append(prefix parts)", aps[0].Pos(), "d.key.Append(keys...)", "sub-dictionary key differs")
		} else {
			c.violate("C21.dict-depth", "DictDB.GetDB structure", gd.Pos(), "expected one key construction")
		}
	}
}

// runC21Extra: the length frame is complete and canonical on both sides — the
// writer's byte count for a length runs until nothing is left, the reader's
// smallest long-form length is one above the writer's largest short-form
// length, and big-integer key parts take the signed byte form.
func runC21Extra(c *Ctx) {
	const pkg = "common/containerdb"
	if f := c.mustFn(pkg, "", "rlpCountBytesForSize"); f != nil {
		okCnt := false
		desc := "loop not recognised"
		for _, b := range f.Blocks {
			iff, ok := b.Instrs[len(b.Instrs)-1].(*ssa.If)
			if !ok || loopHeaderOf(b) != b {
				continue
			}
			var rest *ssa.Phi
			for _, in := range b.Instrs {
				if p, ok := in.(*ssa.Phi); ok && p.Comment == "b" {
					rest = p
				}
			}
			if rest == nil {
				continue
			}
			// the exit edge establishes rest ≤ 0; each round shifts 8 bits and counts one
			var exit *ssa.BasicBlock
			body := loopBody(b)
			for _, s := range b.Succs {
				if !body[s] {
					exit = s
				}
			}
			if exit == nil {
				continue
			}
			_, hi, _, hasHi := boundsOn(guardsOnEdge(b, exit), render(rest))
			shifts := true
			for _, e := range rest.Edges {
				bo, ok := e.(*ssa.BinOp)
				k := int64(0)
				if ok {
					k, _ = constInt(bo.Y)
				}
				if !ok || bo.Op != token.SHR || k != 8 {
					shifts = false
				}
			}
			desc = fmt.Sprintf("ends at rest ≤ %d (known=%v), 8-bit steps=%v, cond %s", hi, hasHi, shifts, render(iff.Cond))
			okCnt = hasHi && hi == 0 && shifts
		}
		c.check(okCnt, "C21.framing-tables", "the length field has one byte for every non-zero byte of the length", f.Pos(), desc, "the byte count of a length "+desc+": lengths ≥ 256 get a truncated length field and distinct key tuples collide")
	}
	enc, rd := c.mustFn(pkg, "", "rlpEncodeBytes"), c.mustFn(pkg, "", "rlpReadSize")
	if enc != nil && rd != nil {
		var shortHi int64 = -1
		for _, b := range enc.Blocks {
			_, hi, _, hasHi := boundsOn(guardsAtBlock(b), "len($0)")
			if hasHi && hi > 1 && (shortHi < 0 || hi < shortHi) {
				shortHi = hi
			}
		}
		var longLo int64 = -1
		for _, e := range successAlts(rd) {
			for _, g := range e.Guards {
				p := predOf(g)
				if p.Kind != "ge" || len(p.L.T) != 1 {
					continue
				}
				for a, co := range p.L.T {
					if co == 1 && strings.HasPrefix(a, "phi(") && -p.L.K > longLo && -p.L.K < 1<<31 {
						longLo = -p.L.K
					}
				}
			}
		}
		c.check(shortHi > 0 && longLo == shortHi+1, "C21.framing-tables", "reader's smallest long-form length = writer's largest short-form length + 1", rd.Pos(), fmt.Sprintf("short ≤ %d, long ≥ %d", shortHi, longLo), fmt.Sprintf("the writer uses the short form up to %d bytes, the reader accepts long-form lengths from %d: a part of a length in between is written but cannot be read back (or has two encodings)", shortHi, longLo))
	}
	nBig := 0
	for _, f := range c.pkgFuncs(pkg) {
		if strings.HasSuffix(c.file(f.Pos()), "_test.go") {
			continue
		}
		for _, cs := range c.calls(f, byCallee("(*math/big.Int).Bytes", "(*math/big.Int).SetBytes")) {
			c.violate("C21.framing-tables", "big-integer key parts use the signed byte form", cs.Pos(), fnName(f)+" calls "+calleeName(cs.Common())+": n and −n (and 0 and the empty key) map to the same storage key")
		}
		nBig += len(c.calls(f, byCallee("common/intconv.BigIntToBytes")))
	}
	c.check(nBig >= 1, "C21.framing-tables", "ToBytes converts *big.Int with intconv.BigIntToBytes", token.NoPos, fmt.Sprintf("%d uses", nBig), "no use of intconv.BigIntToBytes left in containerdb")
}
