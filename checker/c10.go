package main

import (
	"fmt"
	"go/token"
	"strings"

	"golang.org/x/tools/go/ssa"
)

// C10 — block execution never silently drops a transaction.
func init() {
	register(&Prop{
		ID:             "C10",
		Pkgs:           []string{"service"},
		Run:            runC10,
		MinObligations: 20,
		Technique:      "static analysis: self-guard contradiction on the error latch, path-sensitive exit classification (provably-nil vs provably-non-nil error), must-pass-through on worker and loop paths",
		LevelText:      "Decides on all paths of both executors: (latch) the worker error latch can actually be set and is read after the join; (join-check) every exit of the concurrent dispatcher that may report success is behind a latch read made after Realize(); (slot-or-error) in the sequential loop the only exit that may return a nil error is the loop-exhausted one and every path to the per-transaction counter increment stores that receipt slot, and in the worker every path to Done() stored the slot or reported a provably non-nil error before Commit(); (aggregation) receipts are read only behind both executors returning nil. These hold for every schedule because they hold on every path.",
		LevelNote:      "Does not decide that Realize() really waits for all workers (C09), nor retry semantics; heap fields read in guards are assumed stable between guard and site.",
		Explanation:    "C10 rules: latch (K9 + K3), join-check (K2 order w.r.t. Realize + K1), slot-or-error (K8 path search + path-sensitive nil/non-nil error classification of every exit), report-before-commit (K2), aggregation (K1). Structural necessary conditions on all paths; no execution.",
		Mutants: []Mutant{
			{Name: "F3a-latch-inverted", File: "service/transition_pe.go", Old: "if c.lastError == nil {", New: "if c.lastError != nil {", Desc: "regression of F3a"},
			{Name: "F3b-return-nil-after-join", File: "service/transition_pe.go", Old: "\treturn ec.Error()\n}", New: "\treturn nil\n}", Desc: "regression of F3b"},
			{Name: "error-read-before-join", File: "service/transition_pe.go", Old: "\tif wvs := ctx.WorldVirtualState(); wvs != nil {\n\t\twvs.Realize()\n\t}\n\treturn ec.Error()", New: "\tif err := ec.Error(); err != nil {\n\t\treturn err\n\t}\n\tif wvs := ctx.WorldVirtualState(); wvs != nil {\n\t\twvs.Realize()\n\t}\n\treturn nil", Desc: "latch sampled before the join"},
			{Name: "seq-shadowed-err", File: "service/transition_se.go", Old: "if err = t.plt.OnTransactionEnd(ctx, t.log, rct); err == nil {", New: "if err := t.plt.OnTransactionEnd(ctx, t.log, rct); err == nil {", Desc: "hook error shadowed: return err returns nil"},
			{Name: "seq-skip-without-slot", File: "service/transition_se.go", Old: "\t\t\trctBuf[cnt] = rct\n\t\t\tcnt++\n\t\t\tcontinue", New: "\t\t\tcnt++\n\t\t\tcontinue", Desc: "skipped transaction gets no receipt"},
			{Name: "worker-break-without-report", File: "service/transition_pe.go", Old: "\t\t\t\t\tt.log.Warnf(\"Fail to execute transaction retry=%d err=%+v\", retry, err)\n\t\t\t\t\tec.Report(err)\n", New: "\t\t\t\t\tt.log.Warnf(\"Fail to execute transaction retry=%d err=%+v\", retry, err)\n", Desc: "retry exhaustion not reported"},
			{Name: "worker-report-after-commit", File: "service/transition_pe.go", Old: "\t\t\t\t\tt.log.Debugf(\"Fail to get handler err=%+v\", err)\n\t\t\t\t\tec.Report(err)\n\t\t\t\t\tbreak", New: "\t\t\t\t\tt.log.Debugf(\"Fail to get handler err=%+v\", err)\n\t\t\t\t\twvs.Commit()\n\t\t\t\t\tec.Report(err)\n\t\t\t\t\tbreak", Desc: "error reported after the commit that releases the join"},
			{Name: "aggregate-ignores-error", File: "service/transition.go", Old: "\tif err := t.executeTxs(t.normalTransactions, ctx, normalReceipts); err != nil {\n\t\tt.reportExecution(err)\n\t\treturn\n\t}", New: "\tif err := t.executeTxs(t.normalTransactions, ctx, normalReceipts); err != nil {\n\t\tt.log.Warnf(\"execution failed err=%+v\", err)\n\t}", Desc: "block result built although normal transactions failed"},
			{Name: "dispatcher-skips-latch", File: "service/transition_pe.go", Old: "\t\ttxo := txi.(transaction.Transaction)\n\t\ttxh, err := txo.GetHandler(t.cm)\n\t\tif err != nil {\n\t\t\tt.log.Debugf(\"Fail to handle transaction for %+v\", err)\n\t\t\treturn err\n\t\t}", New: "\t\ttxo := txi.(transaction.Transaction)\n\t\ttxh, err := txo.GetHandler(t.cm)\n\t\tif err != nil {\n\t\t\tt.log.Debugf(\"Fail to handle transaction for %+v\", err)\n\t\t\tcontinue\n\t\t}", Desc: "dispatcher skips a transaction whose handler cannot be created"},
		},
	})
}

func runC10(c *Ctx) {
	runC10Extra(c)
	const pkg = "service"
	pf := c.pkgFuncs(pkg)

	// ---- latch
	stores := fieldStores(pf, "executionContext", "lastError")
	nNonNil := 0
	for _, st := range stores {
		if isNilConst(st.Store.Val) {
			continue
		}
		nNonNil++
		name := "store to executionContext.lastError in " + fnName(st.Fn)
		// K9: the store must be reachable while the field is still nil
		blocked := false
		for _, alt := range altGuards(st.Store.Block()) {
			if _, ok := holds(alt, wDiffer("field already set", `\.lastError$`, `^nil$`)); ok {
				blocked = true
			}
		}
		c.check(!blocked, "C10.latch", name, st.Store.Pos(), "reachable with the latch empty", "the only store is guarded by lastError != nil, so the latch can never leave nil")
		c.check(st.Fn.Name() == "Report", "C10.latch", "writer "+fnName(st.Fn), st.Store.Pos(), "Report is the only writer", "unexpected writer of the latch")
		// stored value is the reported error
		c.check(render(st.Store.Val) == "$0", "C10.latch", name+" value", st.Store.Pos(), "stores the reported error", "stores "+render(st.Store.Val))
	}
	if nNonNil == 0 {
		c.violate("C10.latch", "executionContext.lastError", token.NoPos, "no store of a reported error into the latch")
	}
	if e := c.mustFn(pkg, "executionContext", "Error"); e != nil {
		for _, rs := range returnSites(e) {
			c.check(render(rs.Results[0]) == "$r.lastError", "C10.latch", "executionContext.Error", rs.pos(), "returns the latch", "returns "+render(rs.Results[0]))
		}
	}

	// ---- concurrent dispatcher
	conc := c.mustFn(pkg, "transition", "executeTxsConcurrent")
	if conc != nil {
		realize := c.calls(conc, byMethod("Realize"))
		if len(realize) != 1 {
			c.violate("C10.join-check", "executeTxsConcurrent join", conc.Pos(), fmt.Sprintf("expected exactly one Realize() join, found %d", len(realize)))
		} else {
			isRealize := func(in ssa.Instruction) bool { return in == ssa.Instruction(realize[0].Instr) }
			isGo := func(in ssa.Instruction) bool { _, ok := in.(*ssa.Go); return ok }
			n := 0
			for _, e := range successAlts(conc) {
				n++
				name := "executeTxsConcurrent may-succeed exit"
				// find the latch read that justifies this exit
				var read *ssa.Call
				if call, ok := e.Results[0].(*ssa.Call); ok && calleeName(call.Common()) == "(*service.executionContext).Error" {
					read = call
				} else {
					for _, g := range e.Guards {
						b, ok := g.Cond.(*ssa.BinOp)
						if !ok {
							continue
						}
						p := predOf(g)
						if p.Kind == "same" && p.Pol {
							for _, op := range []ssa.Value{b.X, b.Y} {
								if call, ok := op.(*ssa.Call); ok && calleeName(call.Common()) == "(*service.executionContext).Error" {
									if read == nil || dominatesInstr(read, call) {
										read = call // the latest dominating read
									}
								}
							}
						}
					}
				}
				if read == nil {
					c.violate("C10.join-check", name, e.pos(), "may return a nil error without consulting the worker error latch")
					continue
				}
				// the read must be after the join: no path read -> exit through Realize, and no goroutine started after it
				_, viaJoin := pathAvoiding(conc, read, isRealize, nil)
				_, viaGo := pathAvoiding(conc, read, isGo, nil)
				c.check(!viaJoin && !viaGo, "C10.join-check", name, e.pos(), "success is decided by a latch read made after Realize() and after the last go statement",
					"the latch is read before the join (Realize or a go statement can still follow the read), so late worker errors are lost")
			}
			if n == 0 {
				c.undecided("C10.join-check", "executeTxsConcurrent", conc.Pos(), "no exit that may succeed")
			}
			// Realize is executed on every path from the loop to the final exit unless there is no virtual state
			c.requireAt("C10.join-check", "Realize when a virtual state exists", realize[0].Instr, wDiffer("wvs != nil", `\.WorldVirtualState\(\)$`, `^nil$`))
		}
		// every dispatcher iteration either starts a worker for the slot or returns
		var cnt *ssa.Phi
		for _, b := range conc.Blocks {
			for _, in := range b.Instrs {
				if phi, ok := in.(*ssa.Phi); ok && isIntType(phi.Type()) {
					if _, isCnt := counterIncrements(phi, isZeroConst); isCnt {
						cnt = phi
					}
				}
			}
		}
		if cnt == nil {
			c.undecided("C10.slot-or-error", "executeTxsConcurrent counter", conc.Pos(), "transaction counter not found")
		} else {
			gos := c.calls(conc, func(cc *ssa.CallCommon) bool { return true })
			var goInstr *ssa.Go
			for _, g := range gos {
				if gi, ok := g.Instr.(*ssa.Go); ok {
					goInstr = gi
				}
			}
			if goInstr == nil {
				c.violate("C10.slot-or-error", "executeTxsConcurrent worker", conc.Pos(), "no go statement")
			} else {
				// slot passed to the worker is &rctBuf[cnt]
				okSlot := false
				for _, a := range goInstr.Call.Args {
					if ia, ok := a.(*ssa.IndexAddr); ok && ia.Index == ssa.Value(cnt) && render(ia.X) == "$3" {
						okSlot = true
					}
				}
				c.check(okSlot, "C10.slot-or-error", "worker slot", goInstr.Pos(), "worker receives &rctBuf[cnt]", "worker does not receive &rctBuf[cnt]")
				// no way round the go statement back to the loop header
				header := cnt.Block()
				tr, skip := pathAvoiding(conc, header.Instrs[len(header.Instrs)-1], func(in ssa.Instruction) bool {
					return in.Block() == header && in == header.Instrs[0]
				}, func(in ssa.Instruction) bool { return in == ssa.Instruction(goInstr) })
				c.check(!skip, "C10.slot-or-error", "dispatcher iteration starts a worker", goInstr.Pos(), "every iteration that continues starts the worker for its slot", "an iteration can continue without starting a worker: "+traceString(tr))
			}
		}
		// every non-final exit of the dispatcher returns a provably non-nil error: covered by join-check (successAlts lists all may-be-nil exits)

		// ---- worker closure
		for _, w := range conc.AnonFuncs {
			done := c.calls(w, byCallee("(*service.executionContext).Done"))
			commit := c.calls(w, byMethod("Commit"))
			if len(done) != 1 || len(commit) != 1 {
				c.violate("C10.slot-or-error", "worker Done/Commit", w.Pos(), fmt.Sprintf("expected one Commit and one Done in the worker, found %d/%d", len(commit), len(done)))
				continue
			}
			var rb ssa.Value
			for _, p := range w.Params {
				if strings.HasPrefix(p.Type().String(), "*") && strings.HasSuffix(p.Type().String(), "txresult.Receipt") {
					rb = p
				}
			}
			isSlotStore := func(in ssa.Instruction) bool {
				st, ok := in.(*ssa.Store)
				return ok && st.Addr == rb
			}
			isReport := isCallTo(byCallee("(*service.executionContext).Report"))
			tr, bad := pathAvoiding(w, nil, func(in ssa.Instruction) bool { return in == ssa.Instruction(done[0].Instr) },
				func(in ssa.Instruction) bool { return isSlotStore(in) || isReport(in) })
			c.check(!bad, "C10.slot-or-error", "worker reaches Done only with a receipt or a report", done[0].Pos(), "every path stores *rb or calls Report", "a worker path reaches Done without storing the receipt or reporting an error: "+traceString(tr))
			c.check(dominatesInstr(commit[0].Instr, done[0].Instr), "C10.slot-or-error", "worker Commit before Done", done[0].Pos(), "Commit dominates Done", "Done without Commit")
			for _, rp := range c.calls(w, byCallee("(*service.executionContext).Report")) {
				_, args := callArgs(rp.Common())
				nn := true
				for _, alt := range altGuards(rp.Instr.Block()) {
					if !definitelyNonNilErr(args[0], alt) {
						nn = false
					}
				}
				c.check(nn, "C10.slot-or-error", "worker reports a non-nil error", rp.Pos(), "reported error is provably non-nil on every path", "Report may be called with a nil error: "+render(args[0]))
				_, after := pathAvoiding(w, commit[0].Instr, func(in ssa.Instruction) bool { return in == ssa.Instruction(rp.Instr) }, nil)
				c.check(dominatesInstr(rp.Instr, commit[0].Instr) || !after, "C10.report-before-commit", "Report precedes Commit", rp.Pos(), "no Report after Commit", "Report can run after Commit, i.e. after the join may have been released")
			}
			// the stored receipt is the executed one and only when err == nil
			for _, b := range w.Blocks {
				for _, in := range b.Instrs {
					if isSlotStore(in) {
						st := in.(*ssa.Store)
						c.requireAt("C10.slot-or-error", "worker stores the receipt", st, wSame("err == nil", `^phi\(|Execute\(.*#1$|OnTransactionEnd\(`, `^nil$`))
						c.check(strings.Contains(render(st.Val), ".Execute("), "C10.slot-or-error", "worker receipt provenance", st.Pos(), "receipt of Execute", "stores "+render(st.Val))
					}
				}
			}
		}
	}

	// ---- sequential executor
	if seq := c.mustFn(pkg, "transition", "executeTxsSequential"); seq != nil {
		n := 0
		for _, e := range successAlts(seq) {
			n++
			if _, ok := holds(e.Guards, wFalse("iterator exhausted", `\.Has\(\)$`)); ok && isNilConst(e.Results[0]) {
				c.ok("C10.slot-or-error", "executeTxsSequential final exit", e.pos(), "returns nil only when the iterator is exhausted")
				continue
			}
			c.violate("C10.slot-or-error", "executeTxsSequential early exit", e.pos(), "an exit inside the loop may return a nil error ("+render(e.Results[0])+") on a path with guards: "+guardsString(e.Guards))
		}
		if n == 0 {
			c.undecided("C10.slot-or-error", "executeTxsSequential", seq.Pos(), "no success exit")
		}
		var cnt *ssa.Phi
		var incs []*ssa.BinOp
		for _, b := range seq.Blocks {
			for _, in := range b.Instrs {
				if phi, ok := in.(*ssa.Phi); ok && isIntType(phi.Type()) {
					is, isCnt := counterIncrements(phi, isZeroConst)
					if !isCnt {
						continue
					}
					// must index rctBuf
					for _, r := range *phi.Referrers() {
						if ia, ok := r.(*ssa.IndexAddr); ok && render(ia.X) == "$2" {
							cnt = phi
							incs = is
						}
					}
				}
			}
		}
		if cnt == nil {
			c.undecided("C10.slot-or-error", "executeTxsSequential counter", seq.Pos(), "receipt counter not found")
		} else {
			isSlot := func(in ssa.Instruction) bool {
				st, ok := in.(*ssa.Store)
				if !ok {
					return false
				}
				ia, ok := st.Addr.(*ssa.IndexAddr)
				return ok && ia.Index == ssa.Value(cnt) && render(ia.X) == "$2"
			}
			header := cnt.Block()
			for _, inc := range incs {
				inc := inc
				tr, bad := pathAvoiding(seq, header.Instrs[len(header.Instrs)-1], func(in ssa.Instruction) bool { return in == ssa.Instruction(inc) }, isSlot)
				c.check(!bad, "C10.slot-or-error", "executeTxsSequential cnt++ behind slot store", inc.Pos(), "every path to cnt++ stored rctBuf[cnt]", "cnt++ reachable without storing rctBuf[cnt]: "+traceString(tr))
			}
			// counterIncrements established that the loop header is re-entered only through cnt+1
			c.ok("C10.slot-or-error", "executeTxsSequential loop re-entry", header.Instrs[0].Pos(), "every back edge carries cnt+1")
			// stored receipts: executed receipt behind err == nil of Execute and OnTransactionEnd, or the skip receipt
			for _, b := range seq.Blocks {
				for _, in := range b.Instrs {
					if !isSlot(in) {
						continue
					}
					st := in.(*ssa.Store)
					r := render(st.Val)
					if strings.Contains(r, ".Execute(") {
						c.requireAt("C10.slot-or-error", "sequential stores the executed receipt", st, wSame("Execute err == nil", `\.Execute\(.*#1$`, `^nil$`))
						c.requireAt("C10.slot-or-error", "sequential stores the executed receipt", st, wSame("OnTransactionEnd == nil", `\.OnTransactionEnd\(`, `^nil$`))
					} else {
						c.requireAt("C10.slot-or-error", "sequential stores a skip receipt", st, wTrue("IsSkippable()", `\.IsSkippable\(\)$`))
					}
				}
			}
		}
	}

	// ---- dispatch: executeTxs delegates
	if ex := c.mustFn(pkg, "transition", "executeTxs"); ex != nil {
		for _, e := range successAlts(ex) {
			r := render(e.Results[0])
			if strings.Contains(r, ".executeTxsSequential(") || strings.Contains(r, ".executeTxsConcurrent(") {
				_, a := callArgs(e.Results[0].(*ssa.Call).Common())
				c.check(render(a[len(a)-1]) == "$2" && render(a[len(a)-3]) == "$0", "C10.aggregation", "executeTxs delegates", e.pos(), "same list and receipt buffer", "delegates with different list/buffer: "+r)
				continue
			}
			c.requireGuard("C10.aggregation", "executeTxs returns nil without executing", e.pos(), e.Guards, wSame("list == nil", `^\$0$`, `^nil$`))
		}
	}

	// ---- aggregation in doExecute
	if de := c.mustFn(pkg, "transition", "doExecute"); de != nil {
		var execs []callSite
		execs = append(execs, c.calls(de, byCallee("(*service.transition).executeTxsSequential", "(*service.transition).executeTxs", "(*service.transition).executeTxsConcurrent"))...)
		if len(execs) != 2 {
			c.violate("C10.aggregation", "doExecute executors", de.Pos(), fmt.Sprintf("expected 2 executor calls (patch, normal), found %d", len(execs)))
		} else {
			uses := c.calls(de, byCallee("service/txresult.NewReceiptListFromSlice"))
			if len(uses) < 2 {
				c.undecided("C10.aggregation", "doExecute receipt lists", de.Pos(), "NewReceiptListFromSlice calls not found")
			}
			for _, u := range uses {
				for _, ex := range execs {
					_, a := callArgs(ex.Common())
					buf := render(a[len(a)-1])
					_ = buf
					c.requireAt("C10.aggregation", "receipts aggregated", u.Instr, wSame(methodName(ex.Common())+"() == nil", `\.`+methodName(ex.Common())+`\(`+regexpQuote(render(a[0])), `^nil$`))
				}
			}
			// each buffer is sized by the transaction count of its list
			for _, ex := range execs {
				_, a := callArgs(ex.Common())
				buf, list := a[len(a)-1], a[0]
				ms, ok := buf.(*ssa.MakeSlice)
				want := map[string]string{"$r.patchTransactions": "$r.ptxCount", "$r.normalTransactions": "$r.ntxCount"}
				if !ok {
					c.undecided("C10.aggregation", "receipt buffer", ex.Pos(), "receipt buffer is not make([]Receipt, n)")
					continue
				}
				c.check(render(ms.Len) == want[render(list)], "C10.aggregation", "receipt buffer size for "+render(list), ms.Pos(), "one slot per transaction", "buffer for "+render(list)+" has length "+render(ms.Len))
			}
		}
	}
}

func regexpQuote(s string) string {
	r := strings.NewReplacer(`\`, `\\`, `.`, `\.`, `$`, `\$`, `(`, `\(`, `)`, `\)`, `[`, `\[`, `]`, `\]`, `*`, `\*`, `+`, `\+`, `?`, `\?`, `|`, `\|`, `^`, `\^`, `{`, `\{`, `}`, `\}`)
	return r.Replace(s)
}

// runC10Extra: rules added after independently produced mutants were missed.
func runC10Extra(c *Ctx) {
	// (a) a cancelled transition ends in an error, never in a normal completion
	for _, name := range []string{"executeTxsConcurrent", "executeTxsSequential"} {
		fn := c.mustFn("service", "transition", name)
		if fn == nil {
			continue
		}
		n := 0
		for _, e := range exitAlts(fn) {
			if _, cancelled := holds(e.Guards, wTrue("cancelled", `^\$r\.canceled\(\)$`)); !cancelled {
				continue
			}
			n++
			c.check(definitelyNonNilErr(e.Results[0], e.Guards), "C10.cancel-is-error", name+": a cancelled run returns an error", e.pos(), "ErrTransitionInterrupted", name+" can return "+render(e.Results[0])+" after cancellation: the remaining transactions have no receipts but the block completes")
		}
		// no way from `cancelled` to a return that could be nil
		for _, b := range fn.Blocks {
			if len(b.Instrs) == 0 {
				continue
			}
			iff, ok := b.Instrs[len(b.Instrs)-1].(*ssa.If)
			if !ok || render(iff.Cond) != "$r.canceled()" {
				continue
			}
			n++
			tr, reach := pathAvoiding(fn, b.Succs[0].Instrs[0], func(in ssa.Instruction) bool {
				r, isRet := in.(*ssa.Return)
				return isRet && !definitelyNonNilErr(r.Results[0], guardsAtBlock(r.Block()))
			}, nil)
			if !reach {
				if r, isRet := b.Succs[0].Instrs[0].(*ssa.Return); isRet && !definitelyNonNilErr(r.Results[0], guardsAtBlock(b.Succs[0])) {
					reach = true
				}
			}
			c.check(!reach, "C10.cancel-is-error", name+": cancellation cannot end in a possibly-nil return", iff.Pos(), "every path after canceled() returns a non-nil error", "after cancellation "+name+" can reach a return whose error may be nil ("+traceString(tr)+")")
		}
		c.check(n >= 1, "C10.cancel-is-error", name+" checks for cancellation", fn.Pos(), fmt.Sprint(n), "no cancellation check found")
	}
	// (b) sequential executor: a stored slot is always followed by the counter increment before the next transaction
	if fn := c.mustFn("service", "transition", "executeTxsSequential"); fn != nil {
		var slotStores []*ssa.Store
		for _, b := range fn.Blocks {
			for _, in := range b.Instrs {
				if st, ok := in.(*ssa.Store); ok {
					if ia, ok := st.Addr.(*ssa.IndexAddr); ok && render(ia.X) == "$2" {
						slotStores = append(slotStores, st)
					}
				}
			}
		}
		c.check(len(slotStores) >= 2, "C10.slot-or-error", "sequential executor slot stores", fn.Pos(), fmt.Sprint(len(slotStores)), "slot stores not found")
		for _, st := range slotStores {
			ia := st.Addr.(*ssa.IndexAddr)
			phi, isPhi := ia.Index.(*ssa.Phi)
			if !isPhi {
				c.violate("C10.slot-or-error", "slot index is the transaction counter", st.Pos(), "index "+render(ia.Index))
				continue
			}
			h := phi.Block()
			body := loopBody(h)
			reach := map[*ssa.BasicBlock]bool{st.Block(): true}
			q := []*ssa.BasicBlock{st.Block()}
			for len(q) > 0 {
				b := q[0]
				q = q[1:]
				for _, sc := range b.Succs {
					if sc != h && body[sc] && !reach[sc] {
						reach[sc] = true
						q = append(q, sc)
					}
				}
			}
			for i, p := range h.Preds {
				if !h.Dominates(p) || !reach[p] {
					continue
				}
				e := phi.Edges[i]
				inc := false
				seen := map[ssa.Value]bool{}
				var isInc func(v ssa.Value) bool
				isInc = func(v ssa.Value) bool {
					if seen[v] {
						return true
					}
					seen[v] = true
					switch x := v.(type) {
					case *ssa.BinOp:
						k, okK := constInt(x.Y)
						return x.Op == token.ADD && x.X == ssa.Value(phi) && okK && k == 1
					case *ssa.Phi:
						if x == phi {
							return false
						}
						for _, ee := range x.Edges {
							if !isInc(ee) {
								return false
							}
						}
						return true
					}
					return false
				}
				inc = isInc(e)
				c.check(inc, "C10.slot-or-error", "a stored receipt slot is followed by cnt++ before the next transaction", st.Pos(), "rctBuf[cnt] = rct; cnt++", "after storing rctBuf[cnt] the loop can continue with cnt unchanged: the next receipt overwrites this one and the last slot stays empty")
			}
		}
	}
	// (c) what is reported is the error that occurred
	if fn := c.mustFn("service", "transition", "doExecute"); fn != nil {
		n := 0
		for _, f := range withAnon(fn) {
			for _, cs := range c.calls(f, byCallee("transition).reportExecution", "transition).reportValidation")) {
				_, a := callArgs(cs.Common())
				if isNilConst(a[0]) {
					continue
				}
				n++
				c.check(definitelyNonNilErr(a[0], guardsAt(cs.Instr)), "C10.report-the-error", methodName(cs.Common())+" reports the error that was just checked", cs.Pos(), "argument is non-nil on this path", "the value reported ("+render(a[0])+") is not the error tested on this path: a failure is reported as success")
			}
		}
		c.check(n >= 10, "C10.report-the-error", "error report sites in doExecute", fn.Pos(), fmt.Sprint(n), fmt.Sprintf("%d sites", n))
		// (d) receipts published per list are the ones its execution filled
		bufOf := map[string]ssa.Value{}
		for _, cs := range c.calls(fn, byCallee("transition).executeTxs", "transition).executeTxsSequential", "transition).executeTxsConcurrent")) {
			_, a := callArgs(cs.Common())
			l := render(a[0])
			switch {
			case strings.HasSuffix(l, ".patchTransactions"):
				bufOf["patch"] = a[2]
			case strings.HasSuffix(l, ".normalTransactions"):
				bufOf["normal"] = a[2]
			}
		}
		for _, kind := range []string{"patch", "normal"} {
			okP := false
			for _, fs := range fieldStores([]*ssa.Function{fn}, "transition", kind+"Receipts") {
				cl, isCall := fs.Store.Val.(*ssa.Call)
				if !isCall || !strings.HasSuffix(calleeName(cl.Common()), "NewReceiptListFromSlice") {
					continue
				}
				okP = bufOf[kind] != nil && cl.Call.Args[1] == bufOf[kind]
				c.check(okP, "C10.report-the-error", "the "+kind+" receipt list is built from the slots its transactions filled", fs.Store.Pos(), kind+"Receipts ← executeTxs("+kind+"Transactions, …, buf)", "t."+kind+"Receipts is built from another slice than the one executeTxs filled for the "+kind+" transactions")
			}
			c.check(okP, "C10.report-the-error", kind+" receipts are published", fn.Pos(), "found", "no store of t."+kind+"Receipts from the executed slots")
		}
	}
}
