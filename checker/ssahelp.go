package main

import (
	"fmt"
	"go/constant"
	"go/token"
	"go/types"
	"regexp"
	"sort"
	"strings"

	"golang.org/x/tools/go/ssa"
)

// ------------------------------------------------------------ function lookup

// fn finds a package-level function or method. recv is "" for functions,
// "T" or "*T" for methods (pointer-ness is ignored).
func (c *Ctx) fn(pkgRel, recv, name string) *ssa.Function {
	sp := c.spkg(pkgRel)
	if recv == "" {
		if f := sp.Func(name); f != nil {
			return f
		}
		return nil
	}
	recv = strings.TrimPrefix(recv, "*")
	m := sp.Members[recv]
	t, ok := m.(*ssa.Type)
	if !ok {
		return nil
	}
	for _, typ := range []types.Type{t.Type(), types.NewPointer(t.Type())} {
		ms := c.L.Prog.MethodSets.MethodSet(typ)
		for i := 0; i < ms.Len(); i++ {
			sel := ms.At(i)
			if sel.Obj().Name() == name && sel.Obj().Pkg() == sp.Pkg && len(sel.Index()) == 1 {
				if f := c.L.Prog.MethodValue(sel); f != nil && f.Synthetic == "" {
					return f
				}
			}
		}
	}
	return nil
}

// mustFn is fn but records an undecided obligation when the anchor is missing.
func (c *Ctx) mustFn(pkgRel, recv, name string) *ssa.Function {
	f := c.fn(pkgRel, recv, name)
	if f == nil || f.Blocks == nil {
		c.undecided("anchor", fmt.Sprintf("%s.%s.%s", pkgRel, recv, name), token.NoPos, "anchor function not found in the loaded source")
		return nil
	}
	return f
}

// withAnon returns fn and all function literals nested in it.
func withAnon(fn *ssa.Function) []*ssa.Function {
	out := []*ssa.Function{fn}
	for _, a := range fn.AnonFuncs {
		out = append(out, withAnon(a)...)
	}
	return out
}

// pkgFuncs returns every source function (incl. methods and closures) of a loaded package.
func (c *Ctx) pkgFuncs(pkgRel string) []*ssa.Function {
	sp := c.spkg(pkgRel)
	var out []*ssa.Function
	seen := map[*ssa.Function]bool{}
	add := func(f *ssa.Function) {
		if f == nil || f.Blocks == nil || seen[f] || f.Synthetic != "" {
			return
		}
		for _, g := range withAnon(f) {
			if !seen[g] {
				seen[g] = true
				out = append(out, g)
			}
		}
	}
	var names []string
	for n := range sp.Members {
		names = append(names, n)
	}
	sort.Strings(names)
	for _, n := range names {
		switch m := sp.Members[n].(type) {
		case *ssa.Function:
			add(m)
		case *ssa.Type:
			for _, typ := range []types.Type{m.Type(), types.NewPointer(m.Type())} {
				ms := c.L.Prog.MethodSets.MethodSet(typ)
				for i := 0; i < ms.Len(); i++ {
					f := c.L.Prog.MethodValue(ms.At(i))
					if f != nil && f.Pkg == sp {
						add(f)
					}
				}
			}
		}
	}
	return out
}

func fnName(f *ssa.Function) string {
	if f == nil {
		return "<nil>"
	}
	s := f.String()
	s = strings.ReplaceAll(s, modPath+"/", "")
	return s
}

// ------------------------------------------------------------------- callees

// calleeName returns a canonical name for the callee of a call:
//
//	static function:   "pkg/path.Func" or "(*pkg/path.T).Method" (module prefix stripped)
//	interface invoke:  "iface:pkg/path.I.Method"
//	builtin:           "builtin:len"
//	dynamic:           "dyn:" + rendered value
func calleeName(cc *ssa.CallCommon) string {
	if cc.IsInvoke() {
		t := cc.Value.Type()
		return "iface:" + strings.ReplaceAll(types.TypeString(t, nil), modPath+"/", "") + "." + cc.Method.Name()
	}
	switch v := cc.Value.(type) {
	case *ssa.Function:
		return fnName(v)
	case *ssa.Builtin:
		return "builtin:" + v.Name()
	case *ssa.MakeClosure:
		return fnName(v.Fn.(*ssa.Function))
	}
	return "dyn"
}

// methodName returns just the method/function simple name of the callee.
func methodName(cc *ssa.CallCommon) string {
	if cc.IsInvoke() {
		return cc.Method.Name()
	}
	switch v := cc.Value.(type) {
	case *ssa.Function:
		return v.Name()
	case *ssa.Builtin:
		return v.Name()
	case *ssa.MakeClosure:
		return v.Fn.Name()
	}
	return ""
}

// callArgs returns receiver (or nil) and the ordinary arguments.
func callArgs(cc *ssa.CallCommon) (recv ssa.Value, args []ssa.Value) {
	if cc.IsInvoke() {
		return cc.Value, cc.Args
	}
	if f, ok := cc.Value.(*ssa.Function); ok && f.Signature.Recv() != nil && len(cc.Args) > 0 {
		return cc.Args[0], cc.Args[1:]
	}
	return nil, cc.Args
}

type callSite struct {
	Fn    *ssa.Function
	Instr ssa.CallInstruction
}

func (s callSite) Common() *ssa.CallCommon { return s.Instr.Common() }
func (s callSite) Pos() token.Pos {
	if p := s.Instr.Pos(); p != token.NoPos {
		return p
	}
	return s.Fn.Pos()
}

// calls lists the call instructions (call, go, defer) in fn (not nested closures)
// whose callee satisfies match.
func (c *Ctx) calls(fn *ssa.Function, match func(cc *ssa.CallCommon) bool) []callSite {
	var out []callSite
	for _, b := range fn.Blocks {
		for _, in := range b.Instrs {
			if ci, ok := in.(ssa.CallInstruction); ok {
				c.callSites++
				if match(ci.Common()) {
					out = append(out, callSite{fn, ci})
				}
			}
		}
	}
	return out
}

// callsDeep is calls over fn and its nested closures.
func (c *Ctx) callsDeep(fn *ssa.Function, match func(cc *ssa.CallCommon) bool) []callSite {
	var out []callSite
	for _, f := range withAnon(fn) {
		out = append(out, c.calls(f, match)...)
	}
	return out
}

func byMethod(names ...string) func(cc *ssa.CallCommon) bool {
	return func(cc *ssa.CallCommon) bool {
		n := methodName(cc)
		for _, x := range names {
			if n == x {
				return true
			}
		}
		return false
	}
}

func byCallee(sub ...string) func(cc *ssa.CallCommon) bool {
	return func(cc *ssa.CallCommon) bool {
		n := calleeName(cc)
		for _, x := range sub {
			if n == x || strings.HasSuffix(n, x) {
				return true
			}
		}
		return false
	}
}

// ------------------------------------------------------------------ rendering

// render gives a canonical, name-independent text for an SSA value: parameters
// are $r / $0.., locals disappear (SSA), fields, callees and constants are
// spelled out. It is the atom language of the guard algebra.
func render(v ssa.Value) string { return renderD(v, 14) }

func renderD(v ssa.Value, d int) string {
	if v == nil {
		return "<nil>"
	}
	if d <= 0 {
		return "…"
	}
	switch x := v.(type) {
	case *ssa.Const:
		if x.Value == nil {
			return "nil"
		}
		if x.Value.Kind() == constant.String {
			return x.Value.ExactString()
		}
		return x.Value.ExactString()
	case *ssa.Parameter:
		fn := x.Parent()
		for i, p := range fn.Params {
			if p == x {
				if fn.Signature.Recv() != nil {
					if i == 0 {
						return "$r"
					}
					return fmt.Sprintf("$%d", i-1)
				}
				return fmt.Sprintf("$%d", i)
			}
		}
		return "$?"
	case *ssa.FreeVar:
		return "free:" + x.Name()
	case *ssa.Global:
		return "global:" + x.Name()
	case *ssa.Function:
		return "func:" + fnName(x)
	case *ssa.Builtin:
		return "builtin:" + x.Name()
	case *ssa.Alloc:
		return "alloc<" + shortType(x.Type()) + ">"
	case *ssa.FieldAddr:
		return "&" + strings.TrimPrefix(renderD(x.X, d-1), "&") + "." + fieldName(x.X.Type(), x.Field)
	case *ssa.Field:
		return renderD(x.X, d-1) + "." + fieldName(x.X.Type(), x.Field)
	case *ssa.IndexAddr:
		return "&" + strings.TrimPrefix(renderD(x.X, d-1), "&") + "[" + renderD(x.Index, d-1) + "]"
	case *ssa.Index:
		return renderD(x.X, d-1) + "[" + renderD(x.Index, d-1) + "]"
	case *ssa.Lookup:
		return renderD(x.X, d-1) + "[" + renderD(x.Index, d-1) + "]"
	case *ssa.UnOp:
		if x.Op == token.MUL {
			// a parameter spilled to a local because a closure captures it:
			// `t0 = new *T (p); *t0 = p` — every `*t0` is that parameter
			if al, ok := x.X.(*ssa.Alloc); ok {
				if p := spilledParam(al); p != nil {
					return renderD(p, d-1)
				}
			}
			s := renderD(x.X, d-1)
			if strings.HasPrefix(s, "&") {
				return s[1:]
			}
			return "*" + s
		}
		return x.Op.String() + renderD(x.X, d-1)
	case *ssa.BinOp:
		return "(" + renderD(x.X, d-1) + " " + x.Op.String() + " " + renderD(x.Y, d-1) + ")"
	case *ssa.Call:
		if inlineValueHelpers {
			if s, ok := renderValueHelper(x, d); ok {
				return s
			}
		}
		return renderCall(x.Common(), d)
	case *ssa.Extract:
		return renderD(x.Tuple, d-1) + fmt.Sprintf("#%d", x.Index)
	case *ssa.Convert:
		return renderD(x.X, d-1)
	case *ssa.ChangeType:
		return renderD(x.X, d-1)
	case *ssa.ChangeInterface:
		return renderD(x.X, d-1)
	case *ssa.MakeInterface:
		return renderD(x.X, d-1)
	case *ssa.TypeAssert:
		return renderD(x.X, d-1) + ".(" + shortType(x.AssertedType) + ")"
	case *ssa.Slice:
		s := renderD(x.X, d-1) + "["
		if x.Low != nil {
			s += renderD(x.Low, d-1)
		}
		s += ":"
		if x.High != nil {
			s += renderD(x.High, d-1)
		}
		return s + "]"
	case *ssa.Phi:
		var parts []string
		for _, e := range x.Edges {
			if e == x {
				continue
			}
			dd := d - 2
			if dd > 2 {
				dd = 2
			}
			parts = append(parts, renderD(e, dd))
		}
		sort.Strings(parts)
		return "phi(" + strings.Join(dedup(parts), "|") + ")"
	case *ssa.MakeClosure:
		return "closure:" + fnName(x.Fn.(*ssa.Function))
	case *ssa.MakeSlice:
		return "make(" + shortType(x.Type()) + "," + renderD(x.Len, d-1) + ")"
	case *ssa.MakeMap:
		return "makemap"
	case *ssa.Next:
		return "next(" + renderD(x.Iter, d-1) + ")"
	case *ssa.Range:
		return "range(" + renderD(x.X, d-1) + ")"
	}
	return fmt.Sprintf("?%T", v)
}

func dedup(ss []string) []string {
	var out []string
	for i, s := range ss {
		if i == 0 || s != ss[i-1] {
			out = append(out, s)
		}
	}
	return out
}

func renderCall(cc *ssa.CallCommon, d int) string {
	recv, args := callArgs(cc)
	var as []string
	for _, a := range args {
		as = append(as, renderD(a, d-1))
	}
	name := methodName(cc)
	if recv != nil {
		return strings.TrimPrefix(renderD(recv, d-1), "&") + "." + name + "(" + strings.Join(as, ",") + ")"
	}
	if f, ok := cc.Value.(*ssa.Function); ok && f.Pkg != nil {
		return f.Pkg.Pkg.Name() + "." + name + "(" + strings.Join(as, ",") + ")"
	}
	if _, ok := cc.Value.(*ssa.Builtin); ok {
		return name + "(" + strings.Join(as, ",") + ")"
	}
	return "dyn:" + renderD(cc.Value, d-1) + "(" + strings.Join(as, ",") + ")"
}

func shortType(t types.Type) string {
	return strings.ReplaceAll(types.TypeString(t, func(p *types.Package) string { return p.Name() }), modPath+"/", "")
}

func fieldName(t types.Type, idx int) string {
	if p, ok := t.Underlying().(*types.Pointer); ok {
		t = p.Elem()
	}
	if s, ok := t.Underlying().(*types.Struct); ok && idx < s.NumFields() {
		return s.Field(idx).Name()
	}
	return fmt.Sprintf("f%d", idx)
}

// ---------------------------------------------------------------- fn info/CFG

type fnInfo struct {
	fn *ssa.Function
}

// edgeDominates reports whether the CFG edge a->s dominates block b.
func edgeDominates(a, s, b *ssa.BasicBlock) bool {
	if !s.Dominates(b) {
		return false
	}
	for _, p := range s.Preds {
		if p == a {
			continue
		}
		if !s.Dominates(p) { // another way into s that is not a back edge
			return false
		}
	}
	// a must appear exactly once among preds (if T==F both edges lead to s: no info)
	n := 0
	for _, p := range s.Preds {
		if p == a {
			n++
		}
	}
	return n == 1
}

// Guard is a branch condition known to hold (Pol=true) or not hold at a site.
type Guard struct {
	Cond ssa.Value
	Pol  bool
	At   *ssa.BasicBlock // block whose If establishes it
}

func (g Guard) String() string {
	if g.Pol {
		return render(g.Cond)
	}
	return "!(" + render(g.Cond) + ")"
}

// stripNot removes leading boolean negations.
func stripNot(v ssa.Value, pol bool) (ssa.Value, bool) {
	for {
		u, ok := v.(*ssa.UnOp)
		if !ok || u.Op != token.NOT {
			return v, pol
		}
		v = u.X
		pol = !pol
	}
}

// guardsAtBlock returns the branch conditions that hold on entry to b.
func guardsAtBlock(b *ssa.BasicBlock) []Guard {
	var out []Guard
	for a := b.Idom(); a != nil; a = a.Idom() {
		if len(a.Instrs) == 0 {
			continue
		}
		iff, ok := a.Instrs[len(a.Instrs)-1].(*ssa.If)
		if !ok || len(a.Succs) != 2 {
			continue
		}
		t, f := a.Succs[0], a.Succs[1]
		if t == f {
			continue
		}
		if edgeDominates(a, t, b) {
			v, pol := stripNot(iff.Cond, true)
			out = append(out, expandPhiGuard(Guard{v, pol, a})...)
		} else if edgeDominates(a, f, b) {
			v, pol := stripNot(iff.Cond, false)
			out = append(out, expandPhiGuard(Guard{v, pol, a})...)
		}
	}
	return out
}

// expandPhiGuard handles `ok := a && b; if ok` : a phi of booleans whose
// constant edges are all !pol implies every non-constant edge... (only the
// simple && / || materialisation shapes are expanded; otherwise unchanged).
func expandPhiGuard(g Guard) []Guard {
	phi, ok := g.Cond.(*ssa.Phi)
	if !ok {
		return []Guard{g}
	}
	// x = phi [false, b] where the false edge comes from "if a" false branch: x true => a && b.
	out := []Guard{g}
	var nonConst []ssa.Value
	allOpp := true
	for _, e := range phi.Edges {
		if k, ok := e.(*ssa.Const); ok && k.Value != nil && k.Value.Kind() == constant.Bool {
			if constant.BoolVal(k.Value) == g.Pol {
				allOpp = false
			}
		} else {
			nonConst = append(nonConst, e)
		}
	}
	if allOpp && len(nonConst) == 1 {
		v, pol := stripNot(nonConst[0], g.Pol)
		out = append(out, expandPhiGuard(Guard{v, pol, g.At})...)
		// the block that defines the non-const edge is reached only if the earlier tests passed
		if in, ok := nonConst[0].(ssa.Instruction); ok && in.Block() != nil {
			out = append(out, guardsAtBlock(in.Block())...)
		}
	}
	return out
}

// guardsAt returns the guards that hold at an instruction.
func guardsAt(in ssa.Instruction) []Guard { return guardsAtBlock(in.Block()) }

// guardsOnEdge: guards holding when control flows from block p to its successor s.
func guardsOnEdge(p, s *ssa.BasicBlock) []Guard {
	out := guardsAtBlock(p)
	if len(p.Instrs) > 0 {
		if iff, ok := p.Instrs[len(p.Instrs)-1].(*ssa.If); ok && len(p.Succs) == 2 && p.Succs[0] != p.Succs[1] {
			if p.Succs[0] == s {
				v, pol := stripNot(iff.Cond, true)
				out = append(out, expandPhiGuard(Guard{v, pol, p})...)
			} else if p.Succs[1] == s {
				v, pol := stripNot(iff.Cond, false)
				out = append(out, expandPhiGuard(Guard{v, pol, p})...)
			}
		}
	}
	return out
}

// closureGuards: for an instruction inside a function literal, the guards that
// dominate the creation of the closure in the enclosing function(s).
func enclosingGuards(fn *ssa.Function) []Guard {
	var out []Guard
	for fn.Parent() != nil {
		parent := fn.Parent()
		var mk ssa.Instruction
		for _, b := range parent.Blocks {
			for _, in := range b.Instrs {
				if mc, ok := in.(*ssa.MakeClosure); ok && mc.Fn == fn {
					mk = mc
				}
			}
		}
		if mk == nil {
			break
		}
		out = append(out, guardsAt(mk)...)
		fn = parent
	}
	return out
}

// ------------------------------------------------------------- return sites

// retSite is a way of leaving a function with particular result values: a
// Return instruction, or (when a result is a phi) one incoming edge of it.
type retSite struct {
	Ret     *ssa.Return
	Pred    *ssa.BasicBlock // non-nil when specialised to a phi edge
	Results []ssa.Value     // result values on this way out
}

func (r retSite) guards() []Guard {
	if r.Pred != nil {
		return guardsOnEdge(r.Pred, r.Ret.Block())
	}
	return guardsAt(r.Ret)
}

func (r retSite) pos() token.Pos {
	if r.Ret.Pos() != token.NoPos {
		return r.Ret.Pos()
	}
	return r.Ret.Parent().Pos()
}

// returnSites expands phi results of Return instructions one level (the phi
// must live in the returning block).
func returnSites(fn *ssa.Function) []retSite {
	var out []retSite
	for _, b := range fn.Blocks {
		if len(b.Instrs) == 0 {
			continue
		}
		ret, ok := b.Instrs[len(b.Instrs)-1].(*ssa.Return)
		if !ok || b == fn.Recover {
			continue
		}
		if spilled := unspill(ret); spilled != nil {
			out = append(out, retSite{Ret: ret, Results: spilled})
			continue
		}
		hasPhi := false
		for _, r := range ret.Results {
			if phi, ok := r.(*ssa.Phi); ok && phi.Block() == b {
				hasPhi = true
			}
		}
		if !hasPhi {
			out = append(out, retSite{Ret: ret, Results: ret.Results})
			continue
		}
		for i, p := range b.Preds {
			rs := make([]ssa.Value, len(ret.Results))
			for j, r := range ret.Results {
				if phi, ok := r.(*ssa.Phi); ok && phi.Block() == b {
					rs[j] = phi.Edges[i]
				} else {
					rs[j] = r
				}
			}
			out = append(out, retSite{Ret: ret, Pred: p, Results: rs})
		}
	}
	return out
}

func isNilConst(v ssa.Value) bool {
	k, ok := v.(*ssa.Const)
	return ok && k.Value == nil
}

func isConstBool(v ssa.Value, want bool) bool {
	k, ok := v.(*ssa.Const)
	return ok && k.Value != nil && k.Value.Kind() == constant.Bool && constant.BoolVal(k.Value) == want
}

func constInt(v ssa.Value) (int64, bool) {
	k, ok := v.(*ssa.Const)
	if !ok || k.Value == nil {
		return 0, false
	}
	if k.Value.Kind() != constant.Int {
		return 0, false
	}
	n, exact := constant.Int64Val(k.Value)
	return n, exact
}

// errResultIndex returns the index of the (last) error-typed result, or -1.
func errResultIndex(fn *ssa.Function) int {
	res := fn.Signature.Results()
	for i := res.Len() - 1; i >= 0; i-- {
		if types.TypeString(res.At(i).Type(), nil) == "error" {
			return i
		}
	}
	return -1
}

// definitelyNonNilErr: value is provably a non-nil error on this way out:
// result of a constructor call (errors.New/Errorf/Wrap..., fmt.Errorf, *.New/Errorf/Wrapf
// on error codes), a global error variable, or guarded by `v != nil`.
func definitelyNonNilErr(v ssa.Value, guards []Guard) bool {
	switch x := v.(type) {
	case *ssa.MakeInterface:
		return true // a concrete value boxed into error
	case *ssa.Call:
		n := methodName(x.Common())
		switch n {
		case "New", "Errorf", "NewBase", "Errorc", "Errorcf":
			return true
		case "Wrap", "Wrapf", "WithStack", "WithCode", "Wrapc", "AttachTo", "Wrapcf":
			// the repo's wrappers return nil for a nil error: non-nil iff the wrapped error is
			_, args := callArgs(x.Common())
			for _, a := range args {
				if types.TypeString(a.Type(), nil) == "error" {
					return definitelyNonNilErr(a, guards)
				}
			}
			return false
		}
	case *ssa.UnOp:
		if g, ok := x.X.(*ssa.Global); ok && x.Op == token.MUL && strings.HasPrefix(strings.ToLower(g.Name()), "err") {
			return true
		}
	case *ssa.Phi:
		// every incoming value is non-nil under the conditions of its own edge
		if phiDepth <= 6 {
			phiDepth++
			all := len(x.Edges) > 0
			for i, e := range x.Edges {
				if !definitelyNonNilErr(e, guardsOnEdge(x.Block().Preds[i], x.Block())) {
					all = false
					break
				}
			}
			phiDepth--
			if all {
				return true
			}
		}
	}
	for _, g := range guards {
		if b, ok := g.Cond.(*ssa.BinOp); ok {
			if (b.Op == token.NEQ && g.Pol) || (b.Op == token.EQL && !g.Pol) {
				if (sameValue(b.X, v) && isNilConst(b.Y)) || (sameValue(b.Y, v) && isNilConst(b.X)) {
					return true
				}
			}
		}
	}
	return false
}

// sameValue: identical SSA value, or same value through trivial conversions.
func sameValue(a, b ssa.Value) bool {
	return unwrap(a) == unwrap(b)
}

func unwrap(v ssa.Value) ssa.Value {
	for {
		switch x := v.(type) {
		case *ssa.ChangeType:
			v = x.X
		case *ssa.ChangeInterface:
			v = x.X
		case *ssa.MakeInterface:
			v = x.X
		case *ssa.Convert:
			v = x.X
		default:
			return v
		}
	}
}

// successSites returns the ways out of fn on which the error result may be nil
// (for functions without an error result: all return sites). For bool-result
// "predicate" functions use boolSites.
func successSites(fn *ssa.Function) []retSite {
	idx := errResultIndex(fn)
	var out []retSite
	for _, r := range returnSites(fn) {
		if idx < 0 {
			out = append(out, r)
			continue
		}
		if definitelyNonNilErr(r.Results[idx], r.guards()) {
			continue
		}
		out = append(out, r)
	}
	return out
}

// boolSites returns ways out on which result #idx may equal want.
func boolSites(fn *ssa.Function, idx int, want bool) []retSite {
	var out []retSite
	for _, r := range returnSites(fn) {
		if isConstBool(r.Results[idx], !want) {
			continue
		}
		out = append(out, r)
	}
	return out
}

// ------------------------------------------------------------------- paths

type ipos struct {
	b *ssa.BasicBlock
	i int
}

// pathAvoiding searches the CFG of fn from `from` (exclusive: the instruction
// after it) for an instruction satisfying target, never stepping through an
// instruction satisfying avoid. It returns the block trace when found.
// If from is nil the search starts at function entry.
func pathAvoiding(fn *ssa.Function, from ssa.Instruction, target, avoid func(ssa.Instruction) bool) ([]*ssa.BasicBlock, bool) {
	// The search is sensitive to boolean flag variables: when a block ends in
	// `if flag` and flag is a phi of that block with a constant on the edge the
	// path arrived by (`found := false; for … { found = true; break }; if !found`),
	// only the consistent successor is followed.
	// Boolean flag phis are tracked along the path: passing the phi's block on
	// an edge with a constant records its value; a later `if flag` (in any
	// block) then follows only the consistent successor.
	phiIdx := map[*ssa.Phi]uint{}
	for _, b := range fn.Blocks {
		for _, in := range b.Instrs {
			if phi, ok := in.(*ssa.Phi); ok && len(phiIdx) < 40 {
				if bt, ok := phi.Type().Underlying().(*types.Basic); ok && bt.Kind() == types.Bool {
					phiIdx[phi] = uint(len(phiIdx))
				}
			}
		}
	}
	// Branch conditions tested more than once (the same SSA value in several
	// `if`s) are tracked the same way: once a path has taken one side, a later
	// test of that value follows only the consistent side. A value defined in
	// a block is forgotten when the path enters that block again (loops).
	condIdx := map[ssa.Value]uint{}
	condDef := map[*ssa.BasicBlock][]uint{}
	{
		count := map[ssa.Value]int{}
		for _, b := range fn.Blocks {
			if len(b.Instrs) == 0 {
				continue
			}
			if iff, ok := b.Instrs[len(b.Instrs)-1].(*ssa.If); ok {
				v, _ := stripNot(iff.Cond, true)
				if _, isPhi := v.(*ssa.Phi); !isPhi {
					if _, isK := v.(*ssa.Const); !isK {
						count[v]++
					}
				}
			}
		}
		for _, b := range fn.Blocks {
			if len(b.Instrs) == 0 {
				continue
			}
			if iff, ok := b.Instrs[len(b.Instrs)-1].(*ssa.If); ok {
				v, _ := stripNot(iff.Cond, true)
				if count[v] >= 2 && len(phiIdx)+len(condIdx) < 62 {
					if _, seen := condIdx[v]; !seen {
						ix := uint(len(phiIdx) + len(condIdx))
						condIdx[v] = ix
						if in, isIn := v.(ssa.Instruction); isIn && in.Block() != nil {
							condDef[in.Block()] = append(condDef[in.Block()], ix)
						}
					}
				}
			}
		}
	}
	type st struct {
		b          *ssa.BasicBlock
		prev       *ssa.BasicBlock
		start      int
		trace      []*ssa.BasicBlock
		known, val uint64
	}
	type key struct {
		b, prev    *ssa.BasicBlock
		known, val uint64
	}
	var q []st
	seen := map[key]bool{}
	if from == nil {
		q = append(q, st{fn.Blocks[0], nil, 0, nil, 0, 0})
		seen[key{fn.Blocks[0], nil, 0, 0}] = true
	} else {
		b := from.Block()
		i := 0
		for j, in := range b.Instrs {
			if in == from {
				i = j + 1
			}
		}
		// what is known where the search starts: the branch conditions that dominate `from`
		var known0, val0 uint64
		for _, g := range guardsAtBlock(b) {
			v, pol := stripNot(g.Cond, g.Pol)
			if ix, ok := condIdx[v]; ok {
				known0 |= 1 << ix
				if pol {
					val0 |= 1 << ix
				}
			} else if phi, isPhi := v.(*ssa.Phi); isPhi {
				if ix, ok := phiIdx[phi]; ok {
					known0 |= 1 << ix
					if pol {
						val0 |= 1 << ix
					}
				}
			}
		}
		q = append(q, st{b, nil, i, nil, known0, val0})
		// note: from.Block() can be revisited from its start through a loop
	}
	for len(q) > 0 {
		s := q[0]
		q = q[1:]
		tr := append(append([]*ssa.BasicBlock{}, s.trace...), s.b)
		blocked := false
		for i := s.start; i < len(s.b.Instrs); i++ {
			in := s.b.Instrs[i]
			if avoid != nil && avoid(in) {
				blocked = true
				break
			}
			if target(in) {
				return tr, true
			}
		}
		if blocked {
			continue
		}
		succs := s.b.Succs
		branchCond, branchPol, branchIx := false, false, uint(0)
		if len(s.b.Instrs) > 0 && len(succs) == 2 {
			if iff, ok := s.b.Instrs[len(s.b.Instrs)-1].(*ssa.If); ok {
				v, pol := stripNot(iff.Cond, true)
				takeTrue, decided := false, false
				if isConstBool(v, true) {
					takeTrue, decided = pol, true
				} else if isConstBool(v, false) {
					takeTrue, decided = !pol, true
				} else if phi, ok := v.(*ssa.Phi); ok {
					if ix, ok := phiIdx[phi]; ok && s.known&(1<<ix) != 0 {
						pv := s.val&(1<<ix) != 0
						takeTrue, decided = pv == pol, true
					}
				} else if ix, ok := condIdx[v]; ok {
					if s.known&(1<<ix) != 0 {
						pv := s.val&(1<<ix) != 0
						takeTrue, decided = pv == pol, true
					} else {
						branchCond, branchPol, branchIx = true, pol, ix
					}
				}
				if decided {
					if takeTrue {
						succs = succs[:1]
					} else {
						succs = succs[1:]
					}
				}
			}
		}
		for _, nx := range succs {
			if pathEdgeFilter != nil && pathEdgeFilter(s.b, nx) {
				continue
			}
			known, val := s.known, s.val
			if branchCond && len(s.b.Succs) == 2 {
				// this successor fixes the value of the condition just tested
				isTrueSucc := nx == s.b.Succs[0]
				if s.b.Succs[0] != s.b.Succs[1] {
					known |= 1 << branchIx
					if isTrueSucc == branchPol {
						val |= 1 << branchIx
					} else {
						val &^= 1 << branchIx
					}
				}
			}
			for _, ix := range condDef[nx] {
				known &^= 1 << ix
				val &^= 1 << ix
			}
			for _, in := range nx.Instrs {
				phi, ok := in.(*ssa.Phi)
				if !ok {
					break
				}
				ix, ok := phiIdx[phi]
				if !ok {
					continue
				}
				known &^= 1 << ix
				val &^= 1 << ix
				for i, p := range nx.Preds {
					if p == s.b && i < len(phi.Edges) {
						if isConstBool(phi.Edges[i], true) {
							known |= 1 << ix
							val |= 1 << ix
						} else if isConstBool(phi.Edges[i], false) {
							known |= 1 << ix
						} else if src, ok := phi.Edges[i].(*ssa.Phi); ok {
							// flag copied from another tracked flag
							if sx, ok := phiIdx[src]; ok && s.known&(1<<sx) != 0 {
								known |= 1 << ix
								if s.val&(1<<sx) != 0 {
									val |= 1 << ix
								}
							}
						}
					}
				}
			}
			k := key{nx, s.b, known, val}
			if !seen[k] {
				seen[k] = true
				q = append(q, st{nx, s.b, 0, tr, known, val})
			}
		}
	}
	return nil, false
}

func traceString(tr []*ssa.BasicBlock) string {
	var s []string
	for _, b := range tr {
		s = append(s, fmt.Sprintf("%d", b.Index))
	}
	return "blocks " + strings.Join(s, "→")
}

func isReturn(in ssa.Instruction) bool { _, ok := in.(*ssa.Return); return ok }

// isCallTo builds an instruction predicate from a call matcher.
func isCallTo(match func(cc *ssa.CallCommon) bool) func(ssa.Instruction) bool {
	return func(in ssa.Instruction) bool {
		if ci, ok := in.(ssa.CallInstruction); ok {
			if _, isDefer := in.(*ssa.Defer); isDefer {
				return false
			}
			if _, isGo := in.(*ssa.Go); isGo {
				return false
			}
			return match(ci.Common())
		}
		return false
	}
}

// dominatesInstr: a executes before b on every path from entry to b.
func dominatesInstr(a, b ssa.Instruction) bool {
	if a.Block() == b.Block() {
		for _, in := range a.Block().Instrs {
			if in == a {
				return true
			}
			if in == b {
				return false
			}
		}
	}
	return a.Block().Dominates(b.Block())
}

// ---------------------------------------------------------------- referrers

// storesTo returns the values stored through address v (direct Store instrs).
func storesTo(addr ssa.Value) []*ssa.Store {
	var out []*ssa.Store
	if addr.Referrers() == nil {
		return nil
	}
	for _, r := range *addr.Referrers() {
		if s, ok := r.(*ssa.Store); ok && s.Addr == addr {
			out = append(out, s)
		}
	}
	return out
}

type fieldStore struct {
	Fn    *ssa.Function
	Store *ssa.Store
	Addr  *ssa.FieldAddr
}

// fieldStores finds every store to field `field` of struct type named typeName in the functions given.
func fieldStores(fns []*ssa.Function, typeName, field string) []fieldStore {
	var out []fieldStore
	for _, fn := range fns {
		for _, b := range fn.Blocks {
			for _, in := range b.Instrs {
				st, ok := in.(*ssa.Store)
				if !ok {
					continue
				}
				fa, ok := st.Addr.(*ssa.FieldAddr)
				if !ok {
					continue
				}
				if namedOf(fa.X.Type()) == typeName && fieldName(fa.X.Type(), fa.Field) == field {
					out = append(out, fieldStore{fn, st, fa})
				}
			}
		}
	}
	return out
}

func namedOf(t types.Type) string {
	if p, ok := t.(*types.Pointer); ok {
		t = p.Elem()
	}
	if n, ok := t.(*types.Named); ok {
		return n.Obj().Name()
	}
	return ""
}

// derivesFrom reports whether v is computed from root through field loads,
// conversions, calls on it (method receivers), extracts, slices, phis.
func derivesFrom(v ssa.Value, root func(ssa.Value) bool, depth int) bool {
	seen := map[ssa.Value]bool{}
	var rec func(v ssa.Value, d int) bool
	rec = func(v ssa.Value, d int) bool {
		if v == nil || d <= 0 || seen[v] {
			return false
		}
		seen[v] = true
		if root(v) {
			return true
		}
		switch x := v.(type) {
		case *ssa.FieldAddr:
			return rec(x.X, d-1)
		case *ssa.Field:
			return rec(x.X, d-1)
		case *ssa.IndexAddr:
			return rec(x.X, d-1)
		case *ssa.Index:
			return rec(x.X, d-1)
		case *ssa.UnOp:
			return rec(x.X, d-1)
		case *ssa.Extract:
			return rec(x.Tuple, d-1)
		case *ssa.Convert:
			return rec(x.X, d-1)
		case *ssa.ChangeType:
			return rec(x.X, d-1)
		case *ssa.ChangeInterface:
			return rec(x.X, d-1)
		case *ssa.MakeInterface:
			return rec(x.X, d-1)
		case *ssa.TypeAssert:
			return rec(x.X, d-1)
		case *ssa.Slice:
			return rec(x.X, d-1)
		case *ssa.Call:
			recv, args := callArgs(x.Common())
			if recv != nil && rec(recv, d-1) {
				return true
			}
			for _, a := range args {
				if rec(a, d-1) {
					return true
				}
			}
			return false
		case *ssa.Phi:
			for _, e := range x.Edges {
				if rec(e, d-1) {
					return true
				}
			}
			return false
		case *ssa.BinOp:
			return rec(x.X, d-1) || rec(x.Y, d-1)
		}
		return false
	}
	return rec(v, depth)
}

// ------------------------------------------------------- alternatives (DNF)

// altGuards returns the guards holding on entry to b as a disjunction of
// conjunctions: when b has several forward predecessors (the then-block of
// `if a || b`), each incoming edge contributes one alternative. Bounded.
func altGuards(b *ssa.BasicBlock) [][]Guard { return altGuardsD(b, 4) }

func altGuardsD(b *ssa.BasicBlock, depth int) [][]Guard {
	var fwd []*ssa.BasicBlock
	for _, p := range b.Preds {
		if !b.Dominates(p) {
			fwd = append(fwd, p)
		}
	}
	if len(fwd) == 0 || depth == 0 || len(fwd) > 6 {
		return [][]Guard{guardsAtBlock(b)}
	}
	nd := depth
	if len(fwd) > 1 {
		nd = depth - 1
	}
	var out [][]Guard
	for _, p := range fwd {
		edge := edgeGuard(p, b)
		for _, alt := range altGuardsD(p, nd) {
			g := append(append([]Guard{}, edge...), alt...)
			if contradictory(g) {
				continue // syntactic path that no execution takes
			}
			out = append(out, g)
			if len(out) > 24 {
				return [][]Guard{guardsAtBlock(b)}
			}
		}
	}
	return out
}

// contradictory: the conjunction contains P and ¬P over the *same SSA
// condition value* (not merely the same rendering, which could denote two
// loads of a field that changed in between).
func contradictory(gs []Guard) bool {
	seen := map[ssa.Value]bool{}
	for _, g := range gs {
		if pol, ok := seen[g.Cond]; ok && pol != g.Pol {
			return true
		}
		seen[g.Cond] = g.Pol
	}
	// equality with nil of the same SSA value, both ways
	type key struct {
		v ssa.Value
	}
	nilEq := map[ssa.Value]bool{}
	for _, g := range gs {
		b, ok := g.Cond.(*ssa.BinOp)
		if !ok || (b.Op != token.EQL && b.Op != token.NEQ) {
			continue
		}
		var v ssa.Value
		if isNilConst(b.Y) {
			v = b.X
		} else if isNilConst(b.X) {
			v = b.Y
		} else {
			continue
		}
		isNil := (b.Op == token.EQL) == g.Pol
		if prev, ok := nilEq[v]; ok && prev != isNil {
			return true
		}
		nilEq[v] = isNil
	}
	return false
}

// edgeGuard: the condition (if any) established by taking edge p->s.
func edgeGuard(p, s *ssa.BasicBlock) []Guard {
	if len(p.Instrs) == 0 {
		return nil
	}
	iff, ok := p.Instrs[len(p.Instrs)-1].(*ssa.If)
	if !ok || len(p.Succs) != 2 || p.Succs[0] == p.Succs[1] {
		return nil
	}
	if p.Succs[0] == s {
		v, pol := stripNot(iff.Cond, true)
		return expandPhiGuard(Guard{v, pol, p})
	}
	if p.Succs[1] == s {
		v, pol := stripNot(iff.Cond, false)
		return expandPhiGuard(Guard{v, pol, p})
	}
	return nil
}

// holdsAll: the want holds in every alternative.
func holdsAll(alts [][]Guard, w Want) (string, bool) {
	wit := ""
	for _, gs := range alts {
		s, ok := holds(gs, w)
		if !ok {
			return "", false
		}
		wit = s
	}
	return wit, true
}

// requireAt: want must hold at instruction `in` (path-sensitive over merges).
func (c *Ctx) requireAt(rule, construct string, in ssa.Instruction, w Want) bool {
	alts := altGuards(in.Block())
	pos := in.Pos()
	if pos == token.NoPos {
		pos = in.Parent().Pos()
	}
	if wit, ok := holdsAll(alts, w); ok {
		c.ok(rule, construct+" ⊢ "+w.Desc, pos, "established by "+wit)
		return true
	}
	var descs []string
	for _, gs := range alts {
		descs = append(descs, guardsString(gs))
	}
	c.violate(rule, construct+" ⊢ "+w.Desc, pos, "not established on every path; guards: "+strings.Join(descs, "  ||  "))
	return false
}

// requireAtAny: on every alternative at least one of the wants holds.
func (c *Ctx) requireAtAny(rule, construct string, in ssa.Instruction, desc string, ws ...Want) bool {
	alts := altGuards(in.Block())
	pos := in.Pos()
	if pos == token.NoPos {
		pos = in.Parent().Pos()
	}
	all := true
	wit := ""
	for _, gs := range alts {
		found := false
		for _, w := range ws {
			if s, ok := holds(gs, w); ok {
				found = true
				wit = s
				break
			}
		}
		if !found {
			all = false
			break
		}
	}
	if all {
		c.ok(rule, construct+" ⊢ "+desc, pos, "established by "+wit)
		return true
	}
	var descs []string
	for _, gs := range alts {
		descs = append(descs, guardsString(gs))
	}
	c.violate(rule, construct+" ⊢ "+desc, pos, "not established on every path; guards: "+strings.Join(descs, "  ||  "))
	return false
}

// ----------------------------------------------------------- value flows

// flow is one source a value may come from, with the branch conditions known
// on the phi edges taken.
type flow struct {
	Src    ssa.Value
	Guards []Guard
}

// flowsOf expands phis (with edge guards) and looks through conversions and
// the calls selected by passThrough (returning the argument that carries the
// value, e.g. errors.WithStack(err) -> err).
func flowsOf(v ssa.Value, passThrough func(*ssa.Call) ssa.Value) []flow {
	var out []flow
	seen := map[ssa.Value]bool{}
	var rec func(v ssa.Value, gs []Guard, d int)
	rec = func(v ssa.Value, gs []Guard, d int) {
		if d <= 0 {
			out = append(out, flow{v, gs})
			return
		}
		switch x := v.(type) {
		case *ssa.Phi:
			if seen[x] {
				return
			}
			seen[x] = true
			for i, e := range x.Edges {
				eg := append(append([]Guard{}, gs...), guardsOnEdge(x.Block().Preds[i], x.Block())...)
				rec(e, eg, d-1)
			}
			return
		case *ssa.MakeInterface:
			rec(x.X, gs, d-1)
			return
		case *ssa.ChangeInterface:
			rec(x.X, gs, d-1)
			return
		case *ssa.ChangeType:
			rec(x.X, gs, d-1)
			return
		case *ssa.Call:
			if passThrough != nil {
				if a := passThrough(x); a != nil {
					rec(a, gs, d-1)
					return
				}
			}
		}
		out = append(out, flow{v, gs})
	}
	rec(v, nil, 12)
	return out
}

// errWrapPassThrough: errors.WithStack(err), errors.Wrap(err,..), Wrapf(err,...), code.Wrap(err, ..)
func errWrapPassThrough(call *ssa.Call) ssa.Value {
	switch methodName(call.Common()) {
	case "WithStack", "Wrap", "Wrapf", "WithCode", "Wrapc", "Wrapcf":
		_, args := callArgs(call.Common())
		for _, a := range args {
			if types.TypeString(a.Type(), nil) == "error" {
				return a
			}
		}
	}
	return nil
}

// sliceBounds decodes x[lo:hi] with constant bounds (hi = -1 when absent).
func sliceBounds(v ssa.Value) (base ssa.Value, lo, hi int64, ok bool) {
	s, isSlice := v.(*ssa.Slice)
	if !isSlice {
		return nil, 0, 0, false
	}
	lo, hi = 0, -1
	if s.Low != nil {
		n, k := constInt(s.Low)
		if !k {
			return nil, 0, 0, false
		}
		lo = n
	}
	if s.High != nil {
		n, k := constInt(s.High)
		if !k {
			return nil, 0, 0, false
		}
		hi = n
	}
	return s.X, lo, hi, true
}

// unspill undoes the defer-induced spilling of results: in a function with
// defers, `return x` becomes `*slot = x; rundefers; t = *slot; return t`.
// Returns nil when the return is not of that shape.
func unspill(ret *ssa.Return) []ssa.Value {
	b := ret.Block()
	any := false
	out := make([]ssa.Value, len(ret.Results))
	for i, r := range ret.Results {
		out[i] = r
		ld, ok := r.(*ssa.UnOp)
		if !ok || ld.Op != token.MUL {
			continue
		}
		al, ok := ld.X.(*ssa.Alloc)
		if !ok || ld.Block() != b {
			continue
		}
		// last store to the slot in this block before the load
		var val ssa.Value
		for _, in := range b.Instrs {
			if in == ssa.Instruction(ld) {
				break
			}
			if st, ok := in.(*ssa.Store); ok && st.Addr == ssa.Value(al) {
				val = st.Val
			}
		}
		if val == nil {
			// named result assigned in an earlier block: the unique store that
			// dominates the load with no other store to the slot in between
			var stores []*ssa.Store
			for _, r := range *al.Referrers() {
				if st, ok := r.(*ssa.Store); ok && st.Addr == ssa.Value(al) {
					stores = append(stores, st)
				}
			}
			fn := ret.Parent()
			for _, s := range stores {
				if !dominatesInstr(s, ld) {
					continue
				}
				clean := true
				for _, o := range stores {
					if o == s {
						continue
					}
					_, r1 := pathAvoiding(fn, s, func(in ssa.Instruction) bool { return in == ssa.Instruction(o) }, func(in ssa.Instruction) bool { return in == ssa.Instruction(ld) })
					if r1 {
						_, r2 := pathAvoiding(fn, o, func(in ssa.Instruction) bool { return in == ssa.Instruction(ld) }, nil)
						if r2 {
							clean = false
						}
					}
				}
				if clean {
					val = s.Val
				}
			}
		}
		// `return n, obj, err` with named results first copies the slots:
		// t = *obj; …; *obj = t — follow such copies to the defining store
		for k := 0; k < 3 && val != nil; k++ {
			l2, ok := val.(*ssa.UnOp)
			if !ok || l2.Op != token.MUL {
				break
			}
			a2, ok := l2.X.(*ssa.Alloc)
			if !ok {
				break
			}
			v2 := definingStore(ret.Parent(), a2, l2)
			if v2 == nil {
				break
			}
			val = v2
		}
		if val != nil {
			out[i] = val
			any = true
		}
	}
	if !any {
		return nil
	}
	return out
}

// definingStore: the value of the unique store to slot that reaches load ld
// (same block before it, or dominating with no other store in between).
func definingStore(fn *ssa.Function, al *ssa.Alloc, ld ssa.Instruction) ssa.Value {
	var val ssa.Value
	for _, in := range ld.Block().Instrs {
		if in == ld {
			break
		}
		if st, ok := in.(*ssa.Store); ok && st.Addr == ssa.Value(al) {
			val = st.Val
		}
	}
	if val != nil {
		return val
	}
	var stores []*ssa.Store
	for _, r := range *al.Referrers() {
		if st, ok := r.(*ssa.Store); ok && st.Addr == ssa.Value(al) {
			stores = append(stores, st)
		}
	}
	for _, s := range stores {
		if !dominatesInstr(s, ld) {
			continue
		}
		clean := true
		for _, o := range stores {
			if o == s {
				continue
			}
			_, r1 := pathAvoiding(fn, s, func(in ssa.Instruction) bool { return in == ssa.Instruction(o) }, func(in ssa.Instruction) bool { return in == ld })
			if r1 {
				_, r2 := pathAvoiding(fn, o, func(in ssa.Instruction) bool { return in == ld }, nil)
				if r2 {
					clean = false
				}
			}
		}
		if clean {
			return s.Val
		}
	}
	return nil
}

// ------------------------------------------------- path-sensitive exit sites

// exitAlt is one way out of a function on one alternative path (merges are
// split up to the altGuards bound), with the branch conditions known there.
type exitAlt struct {
	retSite
	Guards []Guard
}

func exitAlts(fn *ssa.Function) []exitAlt {
	var out []exitAlt
	for _, rs := range returnSites(fn) {
		var alts [][]Guard
		if rs.Pred != nil {
			eg := edgeGuard(rs.Pred, rs.Ret.Block())
			for _, a := range altGuards(rs.Pred) {
				alts = append(alts, append(append([]Guard{}, eg...), a...))
			}
		} else {
			alts = altGuards(rs.Ret.Block())
		}
		for _, a := range alts {
			out = append(out, exitAlt{rs, a})
		}
	}
	return out
}

// successAlts: the exit alternatives on which the error result may be nil.
func successAlts(fn *ssa.Function) []exitAlt {
	idx := errResultIndex(fn)
	var out []exitAlt
	for _, e := range exitAlts(fn) {
		if idx >= 0 && definitelyNonNilErr(e.Results[idx], e.Guards) {
			continue
		}
		// `return f(x)`: this exit is a success exactly when the returned error value is nil —
		// the same knowledge `if err := f(x); err != nil { return err }; return nil` states with a branch
		if idx >= 0 && idx < len(e.Results) {
			if v := e.Results[idx]; !isNilConst(v) && !provablyNil(v, e.Guards) {
				if _, isConst := v.(*ssa.Const); !isConst {
					e.Guards = append(append([]Guard{}, e.Guards...), Guard{Cond: &ssa.BinOp{Op: token.EQL, X: v, Y: ssa.NewConst(nil, v.Type())}, Pol: true, At: e.Ret.Block()})
				}
			}
		}
		out = append(out, e)
	}
	return out
}

// provablyNil: the value is the nil constant or guarded by `v == nil`.
func provablyNil(v ssa.Value, gs []Guard) bool {
	if isNilConst(v) {
		return true
	}
	for _, g := range gs {
		if b, ok := g.Cond.(*ssa.BinOp); ok {
			if (b.Op == token.EQL && g.Pol) || (b.Op == token.NEQ && !g.Pol) {
				if (sameValue(b.X, v) && isNilConst(b.Y)) || (sameValue(b.Y, v) && isNilConst(b.X)) {
					return true
				}
			}
		}
	}
	return false
}

// inlineValueHelpers: when set (by holds, as a last reading), a call of a small local
// single-result helper is rendered as the value it returns, with the helper's parameters replaced
// by the rendered arguments — the text the expression had before it was moved into the helper.
var inlineValueHelpers bool
var valueHelperDepth int

var paramRefRe = regexp.MustCompile(`\$(r|[0-9]+)`)

func renderValueHelper(call *ssa.Call, d int) (string, bool) {
	if valueHelperDepth > 0 || call.Parent() == nil {
		return "", false
	}
	fn := call.Common().StaticCallee()
	if fn == nil || fn.Pkg == nil || fn.Pkg != call.Parent().Pkg || fn == call.Parent() || exported(fn.Name()) ||
		len(fn.Blocks) == 0 || len(fn.Blocks) > 4 || fn.Signature.Results().Len() != 1 {
		return "", false
	}
	var rets []string
	n := 0
	for _, b := range fn.Blocks {
		for _, in := range b.Instrs {
			n++
			switch y := in.(type) {
			case *ssa.Store, *ssa.MapUpdate, *ssa.Send, *ssa.Go, *ssa.Defer, *ssa.Panic:
				return "", false
			case *ssa.Return:
				if len(y.Results) != 1 {
					return "", false
				}
				dd := d - 2
				if dd > 2 {
					dd = 2
				}
				valueHelperDepth++
				rets = append(rets, renderD(y.Results[0], dd))
				valueHelperDepth--
			}
		}
	}
	if n > 16 || len(rets) == 0 {
		return "", false
	}
	sub := map[string]string{}
	for i, prm := range fn.Params {
		if i < len(call.Common().Args) {
			sub[renderD(prm, 2)] = renderD(call.Common().Args[i], d-1)
		}
	}
	for i, r := range rets {
		rets[i] = paramRefRe.ReplaceAllStringFunc(r, func(m string) string {
			if v, ok := sub[m]; ok {
				return v
			}
			return m
		})
	}
	if len(rets) == 1 {
		return rets[0], true
	}
	sort.Strings(rets)
	return "phi(" + strings.Join(dedup(rets), "|") + ")", true
}
