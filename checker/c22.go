package main

import (
	"fmt"
	"go/types"
	"strings"

	"golang.org/x/tools/go/ssa"
)

// C22 — transaction and receipt lists keep order and index.
func init() {
	register(&Prop{
		ID:             "C22",
		Pkgs:           []string{"service/transaction", "service/txresult", "common/codec", "common/trie/ompt"},
		Run:            runC22,
		MinObligations: 16,
		Technique:      "static analysis: provenance of every trie key used by the list writers, lookups, proofs and the iterator's index decoder (one codec, one Go type, on every path), index agreement between key and stored item in the build loops, loop no-bypass",
		LevelText:      "Decides on all paths: every key handed to the list tries of service/transaction and service/txresult (Set in the builders, Get, GetProof) is exactly codec.BC.MarshalToBytes(uint(index)) — no other codec, no integer type narrower than int between index and encoder, no shortcut path — and the iterator decodes its index with codec.BC into a uint and returns that value; the builders store item list[i] under the key of the same i for every i of the slice (no skipped iteration), and lookups return the object found under the key of the requested index.",
		LevelNote:      "Not decided: that byte-wise trie order of the RLP-encoded indices equals numeric order for every n (a value relation over all integers; it follows from the canonical big-endian integer form checked under C23 and the ordered iteration of C17/C18).",
		Explanation:    "C22 rules: key-agreement (K5 provenance + K4), build-loop (K5 index agreement + K2 no-bypass), iterator-index (K5).",
		Mutants: []Mutant{
			{Name: "small-index-shortcut", File: "service/transaction/transactionlist.go", Old: "func intToKey(i int) []byte {\n", New: "func intToKey(i int) []byte {\n\tif u := uint(i); u <= 0x80 {\n\t\treturn []byte{byte(u)}\n\t}\n", Desc: "index 128 keyed by a non-canonical byte"},
			{Name: "lookup-other-codec", File: "service/txresult/receiptlist.go", Old: "func (l *receiptList) Get(n int) (module.Receipt, error) {\n\tb, err := codec.BC.MarshalToBytes(uint(n))", New: "func (l *receiptList) Get(n int) (module.Receipt, error) {\n\tb, err := codec.MP.MarshalToBytes(uint(n))", Desc: "lookup key encoded with msgpack"},
			{Name: "proof-signed-key", File: "service/txresult/receiptlist.go", Old: "func (l *receiptList) GetProof(n int) ([][]byte, error) {\n\tb, err := codec.BC.MarshalToBytes(uint(n))", New: "func (l *receiptList) GetProof(n int) ([][]byte, error) {\n\tb, err := codec.BC.MarshalToBytes(int16(n))", Desc: "proof key of another integer type"},
			{Name: "builder-shifted-index", File: "service/txresult/receiptlist.go", Old: "\t\tk, _ := codec.BC.MarshalToBytes(uint(idx))\n", New: "\t\tk, _ := codec.BC.MarshalToBytes(uint(idx + 1))\n", Desc: "receipts stored one index off"},
			{Name: "builder-skips", File: "service/transaction/transactionlist.go", Old: "\tfor idx, tx := range list {\n\t\t_, err := mt.Set(intToKey(idx), tx.(trie.Object))", New: "\tfor idx, tx := range list {\n\t\tif tx == nil {\n\t\t\tcontinue\n\t\t}\n\t\t_, err := mt.Set(intToKey(idx), tx.(trie.Object))", Desc: "an item can be left out of the list"},
			{Name: "iterator-signed-index", File: "service/transaction/transactionlist.go", Old: "\tvar idx uint\n\tif _, err := codec.BC.UnmarshalFromBytes(key, &idx); err != nil {", New: "\tvar idx int8\n\tif _, err := codec.BC.UnmarshalFromBytes(key, &idx); err != nil {", Desc: "iterator decodes the index into another type"},
			{Name: "iterator-wrong-index", File: "service/transaction/transactionlist.go", Old: "\t\treturn tx, int(idx), nil", New: "\t\treturn tx, int(idx) + 1, nil", Desc: "iterator reports a shifted index"},
		},
	})
}

// c22KeyOf classifies the provenance of a trie key: returns the index operand
// when the key is codec.BC.MarshalToBytes(uint(x)) (directly or through
// intToKey) on every flow, else a reason.
func c22KeyOf(c *Ctx, v ssa.Value, depth int) (idx ssa.Value, why string) {
	if depth > 4 {
		return nil, "too deep"
	}
	var out ssa.Value
	for _, f := range flowsOf(v, nil) {
		src := f.Src
		var one ssa.Value
		switch x := src.(type) {
		case *ssa.Extract:
			cl, ok := x.Tuple.(*ssa.Call)
			if !ok || x.Index != 0 {
				return nil, "key is " + render(src)
			}
			if !strings.HasSuffix(calleeName(cl.Common()), "bytesWrapper).MarshalToBytes") {
				return nil, "key produced by " + calleeName(cl.Common())
			}
			r, a := callArgs(cl.Common())
			if !isCodecBC(r) {
				return nil, "key encoded with " + render(r) + " instead of codec.BC"
			}
			arg := a[0]
			if mi, ok := arg.(*ssa.MakeInterface); ok {
				arg = mi.X
			}
			// int, uint, int64 and uint64 encode a non-negative index to the same bytes (minimal
			// big-endian with a sign pad), and a negative int is no valid index under either; what
			// matters is that no narrowing conversion lies between the index and the encoder
			wide := func(t types.Type) bool {
				bt, ok := t.Underlying().(*types.Basic)
				return ok && (bt.Kind() == types.Uint || bt.Kind() == types.Int || bt.Kind() == types.Int64 || bt.Kind() == types.Uint64)
			}
			if !wide(arg.Type()) {
				return nil, "index encoded as " + arg.Type().String() + " (narrower than int)"
			}
			for {
				cv, ok := arg.(*ssa.Convert)
				if !ok {
					break
				}
				if !wide(cv.X.Type()) {
					return nil, "index passes through " + cv.X.Type().String() + " (narrower than int)"
				}
				arg = cv.X
			}
			one = arg
		case *ssa.Call:
			if !strings.HasSuffix(calleeName(x.Common()), "transaction.intToKey") {
				// any other key helper counts if every one of its exits returns the canonical
				// encoding of its own (single) parameter — the check intToKey itself has to pass
				h := x.Common().StaticCallee()
				okH := h != nil && len(h.Params) == 1 && len(x.Call.Args) == 1 && depth < 3
				if okH {
					for _, e := range exitAlts(h) {
						if isNilConst(e.Results[0]) {
							continue
						}
						idx, _ := c22KeyOf(c, e.Results[0], depth+1)
						if idx == nil || idx != ssa.Value(h.Params[0]) {
							okH = false
						}
					}
				}
				if !okH {
					return nil, "key produced by " + calleeName(x.Common())
				}
			}
			one = x.Call.Args[0]
		default:
			return nil, "key is " + render(src)
		}
		if out != nil && out != one {
			return nil, "different index operands on different paths"
		}
		out = one
	}
	if out == nil {
		return nil, "no source"
	}
	return out, ""
}

// isCodecBC: the value is a load of the package-level variable common/codec.BC.
func isCodecBC(v ssa.Value) bool {
	g, ok := loadOf(v).(*ssa.Global)
	return ok && g.Name() == "BC" && g.Pkg != nil && strings.HasSuffix(g.Pkg.Pkg.Path(), "/common/codec")
}

func runC22(c *Ctx) {
	// intToKey: every exit returns the canonical encoding of its argument
	if ik := c.mustFn("service/transaction", "", "intToKey"); ik != nil {
		for _, e := range exitAlts(ik) {
			idx, why := c22KeyOf(c, e.Results[0], 0)
			c.check(idx != nil && render(idx) == "$0", "C22.key-agreement", "intToKey = codec.BC.MarshalToBytes(uint(i)) on every path", e.pos(), "canonical", "intToKey returns a key that is not the canonical encoding of i: "+why)
		}
	}
	type site struct {
		pkg, recv, fn, method string
		build                 bool
	}
	for _, s := range []site{
		{"service/transaction", "transactionList", "Get", "Get", false},
		{"service/transaction", "", "NewTransactionListFromSlice", "Set", true},
		{"service/txresult", "receiptList", "Get", "Get", false},
		{"service/txresult", "receiptList", "GetProof", "GetProof", false},
		{"service/txresult", "", "NewReceiptListFromSlice", "Set", true},
	} {
		fn := c.mustFn(s.pkg, s.recv, s.fn)
		if fn == nil {
			continue
		}
		var calls []callSite
		for _, cs := range c.calls(fn, byMethod(s.method)) {
			r, _ := callArgs(cs.Common())
			if r != nil && strings.Contains(r.Type().String(), "trie.") {
				calls = append(calls, cs)
			}
		}
		name := fnName(fn)
		if len(calls) != 1 {
			c.violate("C22.key-agreement", name+": one trie access", fn.Pos(), fmt.Sprintf("%d trie %s calls", len(calls), s.method))
			continue
		}
		cs := calls[0]
		_, a := callArgs(cs.Common())
		idx, why := c22KeyOf(c, a[0], 0)
		if !c.check(idx != nil, "C22.key-agreement", name+": trie key = codec.BC.MarshalToBytes(uint(index))", cs.Pos(), "canonical", name+" uses a key that is not the canonical encoding of the index: "+why) {
			continue
		}
		if !s.build {
			c.check(render(idx) == "$0", "C22.key-agreement", name+": key of the requested index", cs.Pos(), "index = n", "key built from "+render(idx))
			// success returns the object found under that key
			for _, e := range successAlts(fn) {
				if s.method == "Get" {
					c.check(strings.Contains(render(e.Results[0]), "."+s.method+"(") || isNilConst(e.Results[0]), "C22.key-agreement", name+": returns the object found under the key", e.pos(), render(e.Results[0]), "returns "+render(e.Results[0]))
				}
			}
			continue
		}
		// build loop: list[i] stored under key(i), for every i
		h := loopHeaderOf(cs.Instr.Block())
		if h == nil {
			c.violate("C22.build-loop", name+": items stored in a loop over the slice", cs.Pos(), "not in a loop")
			continue
		}
		val := a[1]
		for {
			if ta, ok := val.(*ssa.TypeAssert); ok {
				val = ta.X
				continue
			}
			if mi, ok := val.(*ssa.MakeInterface); ok {
				val = mi.X
				continue
			}
			if ci, ok := val.(*ssa.ChangeInterface); ok {
				val = ci.X
				continue
			}
			break
		}
		ld, _ := loadOf(val).(*ssa.IndexAddr)
		okItem := ld != nil && ld.Index == idx && render(ld.X) == "$1"
		c.check(okItem, "C22.build-loop", name+": item list[i] is stored under the key of the same i", cs.Pos(), "Set(key(i), list[i])", "the item stored is "+render(val)+", the key is built from "+render(idx))
		okRange := false
		if li, lb, ok := indexLoop(h); ok && li == idx {
			rb := render(lb)
			okRange = rb == "len($1)"
		}
		c.check(okRange, "C22.build-loop", name+": the loop covers indices 0..len(list)-1", cs.Pos(), "for idx := range list", "loop bounds differ")
		tr, by := loopBypass(fn, h, cs.Instr)
		c.check(!by, "C22.build-loop", name+": no item is skipped", cs.Pos(), "no bypass", "an iteration can skip the store ("+traceString(tr)+")")
		// the trie built is the one returned
		for _, e := range exitAlts(fn) {
			r := render(e.Results[0])
			if isNilConst(e.Results[0]) {
				continue
			}
			rcv, _ := callArgs(cs.Common())
			okT := strings.Contains(r, "NewTransactionListFromHash(") || strings.Contains(r, "alloc<") || strings.Contains(r, "new")
			_ = rcv
			c.check(okT, "C22.build-loop", name+": returns the list built", e.pos(), "snapshot of the filled trie", "returns "+r)
		}
		var snap []callSite
		for _, g := range c.calls(fn, byMethod("GetSnapshot")) {
			snap = append(snap, g)
		}
		okSnap := len(snap) == 1
		if okSnap {
			r1, _ := callArgs(snap[0].Common())
			r2, _ := callArgs(cs.Common())
			okSnap = r1 == r2 && !dominatesInstr(snap[0].Instr, cs.Instr)
		}
		c.check(okSnap, "C22.build-loop", name+": the snapshot is taken from the filled trie after the loop", fn.Pos(), "mt.GetSnapshot()", "snapshot taken from another trie or before the items were stored")
	}

	// iterator
	if it := c.mustFn("service/transaction", "transactionIterator", "Get"); it != nil {
		um := c.calls(it, byCallee("bytesWrapper).UnmarshalFromBytes"))
		if len(um) != 1 {
			c.violate("C22.iterator-index", "iterator decodes the key", it.Pos(), "expected one UnmarshalFromBytes")
		} else {
			r, a := callArgs(um[0].Common())
			tgt := a[1]
			if mi, ok := tgt.(*ssa.MakeInterface); ok {
				tgt = mi.X
			}
			al, _ := tgt.(*ssa.Alloc)
			okT := false
			if al != nil {
				if bt, ok := al.Type().Underlying().(*types.Pointer).Elem().Underlying().(*types.Basic); ok && bt.Kind() == types.Uint {
					okT = true
				}
			}
			c.check(isCodecBC(r) && okT && strings.HasSuffix(render(a[0]), ".Get()#1"), "C22.iterator-index", "iterator decodes the trie key with codec.BC into a uint", um[0].Pos(), "BC.UnmarshalFromBytes(key, &uint)", "the iterator decodes the key with "+render(r)+" into "+tgt.Type().String())
			n := 0
			for _, e := range exitAlts(it) {
				if isNilConst(e.Results[0]) {
					continue
				}
				n++
				okI := false
				if cv, ok := e.Results[1].(*ssa.Convert); ok {
					if ld, ok := cv.X.(*ssa.UnOp); ok && ld.X == ssa.Value(al) {
						okI = true
					}
				}
				c.check(okI, "C22.iterator-index", "iterator returns the decoded index", e.pos(), "int(idx)", "the index returned is "+render(e.Results[1]))
				_, okG := holds(e.Guards, wSame("decode ok", `UnmarshalFromBytes\(.*\)#1$`, `^nil$`))
				c.check(okG, "C22.iterator-index", "item returned only if its key decoded", e.pos(), "err == nil", "item returned although the key did not decode")
				c.check(strings.Contains(render(e.Results[0]), ".Get()#0"), "C22.iterator-index", "iterator returns the object of the same entry", e.pos(), render(e.Results[0]), "returns "+render(e.Results[0]))
			}
			c.check(n >= 1, "C22.iterator-index", "iterator has an item exit", it.Pos(), fmt.Sprint(n), "no exit returns an item")
		}
	}
	runC22Extra(c)
}

// runC22Extra: the index is used as a key only — no lookup rejects an index
// before the trie was asked (other than a negative one); iterators start at the
// first entry; the empty-list shortcut applies to the empty slice only; a
// list that flushes through a writer has its snapshot registered there; and
// the integer byte form the index order rests on is the paired one (rules of
// C23, re-run here as C22.key-encoding/…).
// runC22Third: a nested RLP reader's two limits (stream limit and largest byte string) describe the
// same payload size.
func runC22Third(c *Ctx) {
	f := c.mustFn("common/codec", "rlpReader", "readList")
	if f == nil {
		return
	}
	// the integer readers leave the acceptance of the payload bytes to the paired converter: no
	// rejection is decided by looking at the bytes themselves (the writer's sign pad 0x00 is legal)
	for _, name := range []string{"readUintValue", "readIntValue"} {
		g := c.fn("common/codec", "rlpReader", name)
		if g == nil {
			continue
		}
		for _, cs := range c.calls(g, byMethod("readBytes")) {
			bs := render(cs.Instr.Value()) + "#0"
			n := 0
			for _, e := range exitAlts(g) {
				if !definitelyNonNilErr(e.Results[0], e.Guards) {
					continue
				}
				n++
				bad := ""
				for _, gd := range e.Guards {
					r := render(gd.Cond)
					if strings.Contains(r, bs+"[") || strings.Contains(r, "len("+bs+")") {
						bad = gd.String()
					}
				}
				c.check(bad == "", "C22.key-encoding/reader-accepts-writer", "rlpReader."+name+" rejects only what the converter rejects", e.pos(), "no test of the payload bytes", "an integer is rejected on "+bad+": the writer's own byte form (sign pad before a byte ≥ 0x80) is refused, index keys from 128 up cannot be read back")
			}
			if n == 0 {
				c.undecided("C22.key-encoding/reader-accepts-writer", "rlpReader."+name, g.Pos(), "no rejecting exit")
			}
		}
	}
	type lim struct{ stream, maxsb ssa.Value }
	lims := map[ssa.Value]*lim{}
	var order []ssa.Value
	for _, st := range fieldStoresAny([]*ssa.Function{f}, "rlpReader") {
		al := st.Addr.X
		if _, isAl := al.(*ssa.Alloc); !isAl {
			continue
		}
		if lims[al] == nil {
			lims[al] = &lim{}
			order = append(order, al)
		}
		cl, isCall := unwrap(st.Store.Val).(*ssa.Call)
		if !isCall || len(cl.Call.Args) < 2 {
			continue
		}
		switch faName(st.Addr) {
		case "reader":
			lims[al].stream = unwrap(cl.Call.Args[1])
		case "maxSB":
			lims[al].maxsb = unwrap(cl.Call.Args[1])
		}
	}
	n := 0
	for _, al := range order {
		l := lims[al]
		if l.stream == nil || l.maxsb == nil {
			continue
		}
		n++
		c.check(l.stream == l.maxsb, "C22.key-encoding/list-limits", "a nested list reader limits its stream and its byte strings by the same payload size", al.Pos(), render(l.stream), "the stream is limited to "+render(l.stream)+" bytes but byte strings to "+render(l.maxsb)+": a string that fits the list is refused (or one that cannot fit is attempted)")
	}
	if n < 2 {
		c.undecided("C22.key-encoding/list-limits", "rlpReader.readList", f.Pos(), fmt.Sprintf("expected the short and the long list form, found %d nested readers", n))
	}
}

func runC22Extra(c *Ctx) {
	runC22Third(c)
	for _, s := range [][3]string{
		{"service/transaction", "transactionList", "Get"},
		{"service/txresult", "receiptList", "Get"},
		{"service/txresult", "receiptList", "GetProof"},
	} {
		fn := c.mustFn(s[0], s[1], s[2])
		if fn == nil {
			continue
		}
		var trieCall ssa.Instruction
		for _, cs := range c.calls(fn, byMethod("Get", "GetProof")) {
			r, _ := callArgs(cs.Common())
			if r != nil && strings.Contains(r.Type().String(), "trie.") {
				trieCall = cs.Instr
			}
		}
		if trieCall == nil {
			continue
		}
		n := 0
		for _, e := range exitAlts(fn) {
			if dominatesInstr(trieCall, e.Ret) {
				continue
			}
			n++
			_, neg := holds(e.Guards, wGE("index < 0", -1, t(-1, `^\$0$`)))
			_, encErr := holds(e.Guards, wDiffer("key encoding failed", `MarshalToBytes\(.*\)#1$`, `^nil$`))
			c.check(neg || encErr, "C22.index-total", fnName(fn)+" gives up before asking the trie only for a negative index or an encoding error", e.pos(), "no index is refused", "an exit before the trie lookup is taken under "+guardsString(e.Guards)+": a valid index is reported as not found")
		}
		if n == 0 {
			c.okTrivial("C22.index-total", fnName(fn)+": every exit follows the trie lookup", fn.Pos(), "no early exit")
		}
	}
	for _, s := range [][2]string{{"service/transaction", "transactionList"}, {"service/txresult", "receiptList"}} {
		fn := c.mustFn(s[0], s[1], "Iterator")
		if fn == nil {
			continue
		}
		var other []string
		its := 0
		for _, cs := range c.calls(fn, func(cc *ssa.CallCommon) bool { return true }) {
			if methodName(cs.Common()) == "Iterator" {
				its++
				continue
			}
			other = append(other, methodName(cs.Common())+calleeName(cs.Common()))
		}
		c.check(its == 1 && len(other) == 0, "C22.iterator-start", fnName(fn)+" hands out the trie iterator untouched", fn.Pos(), "positioned at the first entry", fmt.Sprintf("%d Iterator() calls, other calls %v: the iterator is advanced (or replaced) before the caller sees entry 0", its, other))
	}
	if fn := c.mustFn("service/transaction", "", "NewTransactionListFromSlice"); fn != nil {
		n := 0
		for _, e := range exitAlts(fn) {
			r := render(e.Results[0])
			if strings.Contains(r, "NewTransactionListFromHash(") {
				n++
				c.requireGuard("C22.build-loop", "empty-list shortcut", e.pos(), e.Guards, wGE("len(list) ≤ 0", 0, t(-1, `^len\(\$1\)$`)))
			}
		}
		// the writer that Flush goes through knows the snapshot
		for _, st := range fieldStores([]*ssa.Function{fn}, "transactionList", "writer") {
			if isNilConst(st.Store.Val) {
				continue
			}
			n++
			var trieVal ssa.Value
			for _, t2 := range fieldStores([]*ssa.Function{fn}, "transactionList", "trie") {
				if t2.Addr.X == st.Addr.X {
					trieVal = t2.Store.Val
				}
			}
			okAdd := false
			for _, cs := range c.calls(fn, byMethod("Add")) {
				r, a := callArgs(cs.Common())
				if r == st.Store.Val && len(a) == 1 && trieVal != nil && unwrap(a[0]) == unwrap(trieVal) && dominatesInstr(cs.Instr, st.Store) {
					okAdd = true
				}
			}
			c.check(okAdd, "C22.build-loop", "the snapshot is registered with the writer the list flushes through", st.Store.Pos(), "writer.Add(snapshot)", "the list carries a writer that does not know its snapshot: Flush stores nothing and the list cannot be re-opened from its hash")
		}
		if n < 2 {
			c.undecided("C22.build-loop", "NewTransactionListFromSlice shortcut/writer", fn.Pos(), fmt.Sprintf("found %d of 2 constructs", n))
		}
	}
	// lists opened for fast sync resolve through the builder; a list that owns a writer flushes
	// through it (the snapshot alone would only reach the writer's in-memory layer)
	for _, sp := range [][2]string{{"service/transaction", "NewTransactionListWithBuilder"}, {"service/txresult", "NewReceiptListWithBuilder"}} {
		f := c.mustFn(sp[0], "", sp[1])
		if f == nil {
			continue
		}
		okR := false
		for _, cs := range c.calls(f, byMethod("Resolve")) {
			_, a := callArgs(cs.Common())
			if len(a) == 1 && render(a[0]) == "$0" {
				for _, e := range exitAlts(f) {
					if dominatesInstr(cs.Instr, e.Ret) {
						okR = true
					}
				}
			}
		}
		c.check(okR, "C22.builder-resolve", sp[1]+" registers the list's trie with the builder", f.Pos(), "snapshot.Resolve(builder)", sp[1]+" returns a list whose nodes the builder never requests: after a fast sync every Get and the iteration fail")
	}
	if f := c.mustFn("service/transaction", "transactionList", "Flush"); f != nil {
		n := 0
		for _, cs := range c.calls(f, byMethod("Flush")) {
			r := render(cs.Common().Value)
			if cs.Common().IsInvoke() && strings.HasSuffix(r, ".writer") {
				n++
				continue
			}
			n++
			c.requireAt("C22.flush-path", "transactionList.Flush flushes the snapshot itself", cs.Instr, wSame("the list has no writer", `^\$r\.writer$`, `^nil$`))
		}
		if n < 2 {
			c.undecided("C22.flush-path", "transactionList.Flush", f.Pos(), fmt.Sprintf("expected the writer path and the snapshot path, found %d Flush calls", n))
		}
	}
	// the RLP writer hands its pooled list buffer back only after the list was written out
	if f := c.mustFn("common/codec", "rlpWriter", "Close"); f != nil {
		wl := c.calls(f, byMethod("writeList"))
		fr := c.calls(f, byCallee("common/codec.freeRLPParent"))
		okO := len(wl) == 1 && len(fr) == 1 && dominatesInstr(wl[0].Instr, fr[0].Instr)
		c.check(okO, "C22.key-encoding/pool-order", "rlpWriter.Close writes the list before recycling its buffer", f.Pos(), "writeList → freeRLPParent", "the pooled buffer is returned before its bytes were written out: a concurrent encoder (transaction and receipt lists are flushed in parallel) overwrites them")
	}
	{
		sub := &Ctx{Prop: c.Prop, Tier: c.Tier, L: c.L}
		runC23(sub)
		for _, o := range sub.obs {
			if strings.HasPrefix(o.Rule, "C23.int-converters") || strings.HasPrefix(o.Rule, "C23.narrowing") || strings.HasPrefix(o.Rule, "C23.tag-partition") {
				o2 := *o
				o2.Rule = "C22.key-encoding/" + strings.TrimPrefix(o.Rule, "C23.")
				c.obs = append(c.obs, &o2)
			}
		}
		c.callSites += sub.callSites
		// the iteration order of the lists is the trie's: children visited from the lowest nibble (rule of C17)
		sub2 := &Ctx{Prop: c.Prop, Tier: c.Tier, L: c.L, Sub: true}
		runC17(sub2)
		for _, o := range sub2.obs {
			if strings.HasPrefix(o.Rule, "C17.iteration-order") || strings.HasPrefix(o.Rule, "C17.filter-prefix") {
				o2 := *o
				o2.Rule = "C22.iteration/" + strings.TrimPrefix(o.Rule, "C17.")
				c.obs = append(c.obs, &o2)
			}
		}
	}
}
