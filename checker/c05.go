package main

import (
	"fmt"
	"go/token"
	"regexp"
	"strings"

	"golang.org/x/tools/go/ssa"
)

// C05 — commit certificates are accepted only with >2/3 distinct valid signatures.
func init() {
	register(&Prop{
		ID:             "C05",
		Pkgs:           []string{"consensus", "block"},
		Run:            runC05,
		MinObligations: 30,
		Technique:      "static analysis: guard dominance on every accepting exit, loop no-bypass path search (every vote item passes the membership/duplicate/mark sequence), store provenance of the reconstructed vote, threshold normal form, door call-chain checks",
		LevelText:      "Decides on all paths: in VerifyBlock every list item is signature-checked (verify()==nil before its address is used), mapped to a validator index ≥ 0, rejected if that slot is already marked and then marked, with no way round the marking back to the loop; acceptance is behind enoughVote(len(items), n) whose body is voted > ⌊2n/3⌋; the vote whose signer is recovered is rebuilt from the *target* block's height/id, the list's round and part-set id, and only timestamp+signature come from the item. The fast-sync door (toVoteList + processBlock) checks signer membership, +2/3 precommits and that the part set computed from the delivered block equals the voted one; the import/propose doors reach VerifyBlock with the parent's voters and propagate its error.",
		LevelNote:      "ECDSA recovery and the validator-set provenance (GetVoters / NextValidators) are trusted; guards over heap fields are assumed stable between guard and site.",
		Explanation:    "C05 rules: verifyblock-guards (K1), item-no-bypass (K8 path search over the item loop), nil-address (K7: address() only behind verify()==nil), binds-target (K5 store provenance into the rebuilt vote), threshold-form (K1 normal form of enoughVote), fastsync-door (K1+K5 in toVoteList/processBlock), import-doors (K2: _import → verifyNewBlock → verifyProofForLastBlock → VerifyBlock, _propose → verifyProofForLastBlock, errors propagated). Structural necessary conditions; signatures are not executed.",
		Mutants: []Mutant{
			{Name: "F7-no-verify", File: "consensus/commitvotelist.go", Old: "\t\tif err := msg.signedBase.verify(); err != nil {\n\t\t\treturn nil, errors.Errorf(\"bad signature at index %d in vote list: %v\", i, err)\n\t\t}\n\t\tindex := validators.IndexOf", New: "\t\tindex := validators.IndexOf", Desc: "regression of F7 in VerifyBlock"},
			{Name: "F7-no-verify-tovotelist", File: "consensus/commitvotelist.go", Old: "\t\tif err := msg.signedBase.verify(); err != nil {\n\t\t\treturn nil, errors.Errorf(\"bad signature at index %d in vote list: %v\", i, err)\n\t\t}\n\t\tvIdx := validators.IndexOf", New: "\t\t_ = i\n\t\tvIdx := validators.IndexOf", Desc: "regression of F7 in toVoteList"},
			{Name: "duplicate-continue", File: "consensus/commitvotelist.go", Old: "\t\tif vset[index] {\n\t\t\treturn nil, errors.Errorf(\"bvl.VerifyBlock: duplicated validator %v\\n\", msg.address())\n\t\t}", New: "\t\tif vset[index] {\n\t\t\tcontinue\n\t\t}", Desc: "duplicated signer skipped but still counted by len(Items)"},
			{Name: "threshold-geq", File: "consensus/commitvotelist.go", Old: "return voted > twoThirds", New: "return voted >= twoThirds", Desc: "exactly 2/3 accepted"},
			{Name: "threshold-over-n", File: "consensus/commitvotelist.go", Old: "twoThirds := voters * 2 / 3", New: "twoThirds := voters / 3 * 2", Desc: "2*floor(n/3) instead of floor(2n/3)"},
			{Name: "height-from-list", File: "consensus/commitvotelist.go", Old: "\tmsg.Height = block.Height()\n\tmsg.Round = bvl.Round\n\tmsg.Type = VoteTypePrecommit\n\tmsg.SetRoundDecision(block.ID(), bvl.BlockPartSetIDAndAppData, nil)", New: "\tmsg.Height = block.Height()\n\tmsg.Round = bvl.Round\n\tmsg.Type = VoteTypePrevote\n\tmsg.SetRoundDecision(block.ID(), bvl.BlockPartSetIDAndAppData, nil)", Desc: "prevotes accepted as a commit certificate"},
			{Name: "index-check-dropped", File: "consensus/commitvotelist.go", Old: "\t\tif index < 0 {\n\t\t\treturn nil, errors.Errorf(\"bad voter %v at index %d in vote list\", msg.address(), i)\n\t\t}\n", New: "\t\tif index < 0 {\n\t\t\tcontinue\n\t\t}\n", Desc: "non-validator signatures skipped but counted"},
			{Name: "fastsync-declared-psid", File: "consensus/consensus.go", Old: "if !ps.ID().Equal(id) {", New: "if !votes.BlockPartSetIDAndAppData.ID().Equal(id) {", Desc: "fast-synced block compared through the id declared by the vote list, not its own part set"},
			{Name: "fastsync-no-two-thirds", File: "consensus/consensus.go", Old: "\tid, ok := precommits.getOverTwoThirdsPartSetID()\n\tif !ok {\n\t\tcs.log.Warnf(\"processBlock: no +2/3 precommits made for block id=%x\", blk.ID())\n\t\tbr.Reject()\n\t\treturn\n\t}", New: "\tid, ok := precommits.getOverTwoThirdsPartSetID()\n\tif !ok {\n\t\tcs.log.Warnf(\"processBlock: no +2/3 precommits made for block id=%x\", blk.ID())\n\t}", Desc: "fast-sync accepts without +2/3"},
			{Name: "import-skips-proof", File: "block/block.go", Old: "\tcsi, prevVoters, err := m.verifyProofForLastBlock(prev, b.Votes())\n\tif err != nil {\n\t\treturn nil, err\n\t}", New: "\tcsi, prevVoters, err := m.verifyProofForLastBlock(prev, b.Votes())\n\tif err != nil && prev.Height() == 0 {\n\t\treturn nil, err\n\t}", Desc: "proof error ignored above genesis"},
			{Name: "proof-ignores-verify-error", File: "block/block.go", Old: "\tvoted, err := votes.VerifyBlock(b, validators)\n\tif err != nil {\n\t\treturn nil, nil, err\n\t}", New: "\tvoted, _ := votes.VerifyBlock(b, validators)", Desc: "VerifyBlock error dropped"},
		},
	})
}

// loopHeaderOf: innermost loop header dominating b.
func loopHeaderOf(b *ssa.BasicBlock) *ssa.BasicBlock {
	for h := b; h != nil; h = h.Idom() {
		for _, p := range h.Preds {
			if h.Dominates(p) && (p == b || blockReaches(b, p, h)) {
				return h
			}
		}
	}
	return nil
}

// blockReaches: from reaches to without passing through stop.
func blockReaches(from, to, stop *ssa.BasicBlock) bool {
	seen := map[*ssa.BasicBlock]bool{from: true}
	q := []*ssa.BasicBlock{from}
	for len(q) > 0 {
		b := q[0]
		q = q[1:]
		if b == to {
			return true
		}
		for _, s := range b.Succs {
			if s != stop && !seen[s] {
				seen[s] = true
				q = append(q, s)
			}
		}
	}
	return false
}

// loopBody: the natural loop of header h (blocks that reach a back edge of h without passing h).
func loopBody(h *ssa.BasicBlock) map[*ssa.BasicBlock]bool {
	body := map[*ssa.BasicBlock]bool{h: true}
	var stack []*ssa.BasicBlock
	for _, p := range h.Preds {
		if h.Dominates(p) && !body[p] {
			body[p] = true
			stack = append(stack, p)
		}
	}
	for len(stack) > 0 {
		b := stack[len(stack)-1]
		stack = stack[:len(stack)-1]
		for _, p := range b.Preds {
			if !body[p] && h.Dominates(p) {
				body[p] = true
				stack = append(stack, p)
			}
		}
	}
	return body
}

// loopBypass: can the loop headed by h iterate again without executing must?
// Only paths that stay inside the loop count (leaving and re-entering through
// an enclosing loop is a new execution of the loop, not another iteration).
func loopBypass(fn *ssa.Function, h *ssa.BasicBlock, must ssa.Instruction) ([]*ssa.BasicBlock, bool) {
	last := h.Instrs[len(h.Instrs)-1]
	body := loopBody(h)
	old := pathEdgeFilter
	pathEdgeFilter = func(p, s *ssa.BasicBlock) bool {
		if !body[s] {
			return true
		}
		return old != nil && old(p, s)
	}
	defer func() { pathEdgeFilter = old }()
	return pathAvoiding(fn, last, func(in ssa.Instruction) bool { return in == h.Instrs[0] }, func(in ssa.Instruction) bool { return in == must })
}

func runC05(c *Ctx) {
	const pkg = "consensus"

	// ---- threshold-form
	checkEnoughVote(c, "C05.threshold-form")

	// ---- VerifyBlock
	if vb := c.mustFn(pkg, "blockCommitVoteList", "VerifyBlock"); vb != nil {
		var vset *ssa.MakeSlice
		var mark *ssa.Store
		for _, b := range vb.Blocks {
			for _, in := range b.Instrs {
				if st, ok := in.(*ssa.Store); ok && isConstBool(st.Val, true) {
					if ia, ok := st.Addr.(*ssa.IndexAddr); ok {
						if ms, ok := ia.X.(*ssa.MakeSlice); ok {
							vset, mark = ms, st
						}
					}
				}
			}
		}
		if mark == nil {
			c.violate("C05.verifyblock-guards", "VerifyBlock marks the signer's slot", vb.Pos(), "no `vset[index] = true` store found")
		} else {
			c.check(render(vset.Len) == "$1.Len()", "C05.verifyblock-guards", "slot table size", vset.Pos(), "one slot per validator", "slot table has length "+render(vset.Len))
			ia := mark.Addr.(*ssa.IndexAddr)
			idx := render(ia.Index)
			c.check(strings.HasPrefix(idx, "$1.IndexOf(") && strings.Contains(idx, ".address()"), "C05.verifyblock-guards", "slot index is the validator index of the recovered signer", mark.Pos(), idx, "slot index is "+idx)
			c.requireAt("C05.verifyblock-guards", "mark", mark, wGE("index ≥ 0", 0, t(1, `^\$1\.IndexOf\(`)))
			slotFresh := wFalse("slot not yet marked", `^make\(\[\]bool,.*\)\[\$1\.IndexOf\(`)
			if _, ok := holdsAll(altGuards(mark.Block()), slotFresh); ok {
				c.requireAt("C05.verifyblock-guards", "mark", mark, slotFresh)
			} else {
				// read-then-mark-then-test: the slot's previous value is read before the store, and the
				// loop goes on (or VerifyBlock succeeds) only over the edge where that value was false
				readBefore := false
				for _, b := range vb.Blocks {
					for _, in := range b.Instrs {
						if ld, ok := in.(*ssa.UnOp); ok && ld.Op == token.MUL {
							if ia, ok := ld.X.(*ssa.IndexAddr); ok && render(ia) == render(mark.Addr) && dominatesInstr(ld, mark) {
								readBefore = true
							}
						}
					}
				}
				hh := loopHeaderOf(mark.Block())
				_, leak := pathAvoidingEdges(vb, mark, func(in ssa.Instruction) bool {
					if hh != nil && in == hh.Instrs[0] {
						return true
					}
					if r, ok := in.(*ssa.Return); ok {
						return !definitelyNonNilErr(r.Results[len(r.Results)-1], guardsAtBlock(r.Block()))
					}
					return false
				}, nil, slotFresh)
				c.check(readBefore && !leak, "C05.verifyblock-guards", "mark ⊢ slot not yet marked", mark.Pos(), "previous value read before the mark and tested before going on", "a validator slot can be marked twice: the duplicate test does not guard the continuation of the loop")
			}
			c.requireAt("C05.nil-address", "VerifyBlock signer lookup", mark, wSame("verify() == nil", `\.verify\(\)$`, `^nil$`))
			h := loopHeaderOf(mark.Block())
			if h == nil {
				c.undecided("C05.item-no-bypass", "VerifyBlock item loop", mark.Pos(), "the mark is not inside a loop")
			} else {
				tr, bad := loopBypass(vb, h, mark)
				c.check(!bad, "C05.item-no-bypass", "VerifyBlock item loop", mark.Pos(), "every iteration that continues marked a fresh validator slot", "an item can be passed over without marking a fresh validator slot (it still counts in len(Items)): "+traceString(tr))
				// the loop ranges over the list's items
				c.check(strings.Contains(guardsString(guardsAtBlock(mark.Block())), "len($r.Items)"), "C05.item-no-bypass", "loop ranges over Items", mark.Pos(), "bounded by len(Items)", "the marking loop is not bounded by len(bvl.Items)")
			}
		}
		n := 0
		for _, e := range successAlts(vb) {
			if isNilConst(e.Results[0]) {
				// the (nil, nil) exit for genesis / no validators
				_, g1 := holds(e.Guards, wEQ("height == 0", 0, t(1, `^\$0\.Height\(\)$`)))
				_, g2 := holds(e.Guards, wSame("validators == nil", `^\$1$`, `^nil$`))
				_, g3 := holds(e.Guards, wEQ("no items", 0, t(1, `^len\(\$r\.Items\)$`)))
				c.check((g1 || g2) && g3, "C05.verifyblock-guards", "VerifyBlock empty acceptance", e.pos(), "only at height 0 / without validators and with no items", "accepts without a voter table under "+guardsString(e.Guards))
				continue
			}
			n++
			c.check(e.Results[0] == ssa.Value(vset), "C05.verifyblock-guards", "VerifyBlock returns the slot table", e.pos(), "returns vset", "returns "+render(e.Results[0]))
			c.requireGuard("C05.verifyblock-guards", "VerifyBlock acceptance", e.pos(), e.Guards, wTrue("enoughVote(len(Items), validators.Len())", `^consensus\.enoughVote\(len\(\$r\.Items\),\$1\.Len\(\)\)$`))
		}
		if n == 0 {
			c.undecided("C05.verifyblock-guards", "VerifyBlock", vb.Pos(), "no accepting exit found")
		}
		checkRebuiltVote(c, vb, "VerifyBlock", "$0.Height()", "$0.ID()", "nil")
	}

	// ---- fast-sync door: toVoteList + processBlock
	if tv := c.mustFn(pkg, "CommitVoteList", "toVoteList"); tv != nil {
		adds := c.calls(tv, byCallee("(*consensus.VoteList).AddVote"))
		if len(adds) != 1 {
			c.violate("C05.fastsync-door", "toVoteList adds votes", tv.Pos(), fmt.Sprintf("expected one AddVote, found %d", len(adds)))
		} else {
			c.requireAt("C05.fastsync-door", "toVoteList AddVote", adds[0].Instr, wGE("validator index ≥ 0", 0, t(1, `^\$3\.IndexOf\(`)))
			c.requireAt("C05.nil-address", "toVoteList signer lookup", adds[0].Instr, wSame("verify() == nil", `\.verify\(\)$`, `^nil$`))
			if h := loopHeaderOf(adds[0].Instr.Block()); h != nil {
				tr, bad := loopBypass(tv, h, adds[0].Instr)
				c.check(!bad, "C05.item-no-bypass", "toVoteList item loop", adds[0].Pos(), "every item is added or the conversion fails", "an item can be skipped: "+traceString(tr))
			}
		}
		checkRebuiltVote(c, tv, "toVoteList", "$0", "$1", "")
	}
	if pb := c.mustFn(pkg, "consensus", "processBlock"); pb != nil {
		sinks := c.calls(pb, byMethod("SetByPartSetAndBlock", "Consume", "enterCommit", "commitAndEnterNewHeight"))
		if len(sinks) < 4 {
			c.undecided("C05.fastsync-door", "processBlock acceptance", pb.Pos(), fmt.Sprintf("expected the 4 acceptance effects, found %d", len(sinks)))
		}
		for _, s := range sinks {
			name := "processBlock " + methodName(s.Common())
			c.requireAt("C05.fastsync-door", name, s.Instr, wTrue("+2/3 precommits", `\.votesFor\(.*\.getOverTwoThirdsPartSetID\(\)#1$`))
			c.requireAt("C05.fastsync-door", name, s.Instr, wSame("part set of the delivered block = voted part set", `^consensus\.NewPartSetBuffer\(.*\.PartSet\(\)\.ID\(\)$`, `\.getOverTwoThirdsPartSetID\(\)#0$`))
			c.requireAt("C05.fastsync-door", name, s.Instr, wSame("vote list converted", `\.toVoteListWithBlock\(.*#1$`, `^nil$`))
		}
		// the part set buffer is filled from the delivered block
		var psb ssa.Value
		for _, cs := range c.calls(pb, byCallee("consensus.NewPartSetBuffer")) {
			psb = cs.Instr.Value()
		}
		nm := 0
		for _, cs := range c.calls(pb, byMethod("MarshalHeader", "MarshalBody")) {
			recv, args := callArgs(cs.Common())
			if render(recv) == "$0.Block()" && len(args) == 1 && unwrap(args[0]) == psb {
				nm++
			}
		}
		c.check(psb != nil && nm == 2, "C05.fastsync-door", "processBlock part set is computed from the delivered block", pb.Pos(), "header and body of br.Block() marshalled into the compared part set", "the compared part set is not built from the delivered block's header and body")
		// votes are taken for the list's round, precommit type; signers are validators
		for _, cs := range c.calls(pb, byCallee("(*consensus.heightVoteSet).votesFor")) {
			_, a := callArgs(cs.Common())
			k, _ := constInt(a[1])
			c.check(strings.HasSuffix(render(a[0]), ".Round") && k == 1, "C05.fastsync-door", "processBlock tallies precommits of the list's round", cs.Pos(), "votesFor(votes.Round, precommit)", "tallies "+render(a[0])+", type "+render(a[1]))
		}
		for _, cs := range c.calls(pb, byCallee("(*consensus.heightVoteSet).add")) {
			c.requireAt("C05.fastsync-door", "processBlock adds a validator's vote", cs.Instr, wGE("validator index ≥ 0", 0, t(1, `\.IndexOf\(`)))
		}
	}

	// ---- import / propose doors
	if vp := c.mustFn("block", "manager", "verifyProofForLastBlock"); vp != nil {
		vcs := c.calls(vp, byMethod("VerifyBlock"))
		door := vp
		if len(vcs) == 0 {
			// the verification may sit in a local helper that is handed the same (block, votes) in the
			// same positions: the helper is then the door, and vp must succeed only when it did
			for g, site := range c.localHelpers(vp, true) {
				same := len(site.Common().Args) == len(vp.Params) && len(g.Params) == len(vp.Params)
				for i := range vp.Params {
					same = same && site.Common().Args[i] == ssa.Value(vp.Params[i])
				}
				if hv := c.calls(g, byMethod("VerifyBlock")); same && len(hv) == 1 {
					vcs, door = hv, g
					last := g.Signature.Results().Len() - 1
					for _, e := range successAlts(vp) {
						c.requireGuard("C05.import-doors", "verifyProofForLastBlock success", e.pos(), e.Guards, wSame(g.Name()+" error == nil", `^\$r\.`+regexp.QuoteMeta(g.Name())+`\(\$0,\$1\)#`+fmt.Sprint(last)+`$`, `^nil$`))
					}
				}
			}
		}
		if len(vcs) != 1 {
			c.violate("C05.import-doors", "verifyProofForLastBlock", vp.Pos(), fmt.Sprintf("expected one VerifyBlock call, found %d", len(vcs)))
		} else {
			recv, a := callArgs(vcs[0].Common())
			c.check(render(recv) == "$1" && render(a[0]) == "$0" && strings.Contains(render(a[1]), ".GetVoters("), "C05.import-doors", "verifyProofForLastBlock arguments", vcs[0].Pos(), "votes.VerifyBlock(block, its voters)", "VerifyBlock called as "+render(vcs[0].Instr.Value()))
			for _, e := range successAlts(door) {
				c.requireGuard("C05.import-doors", "verifyProofForLastBlock success", e.pos(), e.Guards, wSame("VerifyBlock error == nil", `\.VerifyBlock\(.*#1$`, `^nil$`))
				c.requireGuard("C05.import-doors", "verifyProofForLastBlock success", e.pos(), e.Guards, wSame("GetVoters error == nil", `^\$0\.[^ ]*GetVoters\([^()]*\)#1$`, `^nil$`))
			}
		}
	}
	if vn := c.mustFn("block", "manager", "verifyNewBlock"); vn != nil {
		for _, e := range successAlts(vn) {
			c.requireGuard("C05.import-doors", "verifyNewBlock success", e.pos(), e.Guards, wSame("proof of the parent verified", `^\$r\.verifyProofForLastBlock\(\$1,\$0\.Votes\(\)\)#2$`, `^nil$`))
		}
	}
	if im := c.mustFn("block", "manager", "_import"); im != nil {
		for _, e := range successAlts(im) {
			c.requireGuard("C05.import-doors", "_import success", e.pos(), e.Guards, wSame("verifyNewBlock(block, parent node's block) == nil", `^\$r\.verifyNewBlock\(\$0,\$r\.nmap\[.*\$0\.PrevID\(\).*\]\.block\)#1$`, `^nil$`))
		}
	}
	if pr := c.mustFn("block", "manager", "_propose"); pr != nil {
		for _, e := range successAlts(pr) {
			c.requireGuard("C05.import-doors", "_propose success", e.pos(), e.Guards, wSame("verifyProofForLastBlock(parent, votes) == nil", `^\$r\.verifyProofForLastBlock\(\$r\.nmap\[.*\$0.*\]\.block,\$1\)#2$`, `^nil$`))
		}
	}
	runC05Extra(c)
}

// checkEnoughVote: enoughVote(voted, voters) ≡ voters == 0 ∨ voted > ⌊2·voters/3⌋.
func checkEnoughVote(c *Ctx, rule string) {
	ev := c.mustFn("consensus", "", "enoughVote")
	if ev == nil {
		return
	}
	for _, rs := range boolSites(ev, 0, true) {
		gs := rs.guards()
		if !isConstBool(rs.Results[0], true) {
			v, pol := stripNot(rs.Results[0], true)
			gs = append(gs, Guard{v, pol, rs.Ret.Block()})
		}
		_, a := holds(gs, wEQ("voters == 0", 0, t(1, `^\$1$`)))
		_, b := holds(gs, wGE("voted > ⌊2n/3⌋", -1, t(1, `^\$0$`), t(-1, `^div\(\+2\*\$1,3\)$`)))
		_, b2 := holds(gs, wGE("3·voted > 2n", -1, t(3, `^\$0$`), t(-2, `^\$1$`)))
		c.check(a || b || b2, rule, "enoughVote true-exit", rs.pos(), "voters == 0 ∨ voted > ⌊2·voters/3⌋", "enoughVote returns true under "+guardsString(gs)+" — not the strict +2/3 form")
	}
	for _, rs := range boolSites(ev, 0, false) {
		gs := rs.guards()
		if !isConstBool(rs.Results[0], false) {
			v, pol := stripNot(rs.Results[0], false)
			gs = append(gs, Guard{v, pol, rs.Ret.Block()})
		}
		_, b := holds(gs, wGE("voted ≤ ⌊2n/3⌋", 0, t(-1, `^\$0$`), t(1, `^div\(\+2\*\$1,3\)$`)))
		_, b2 := holds(gs, wGE("3·voted ≤ 2n", 0, t(-3, `^\$0$`), t(2, `^\$1$`)))
		c.check(b || b2, rule, "enoughVote false-exit", rs.pos(), "voted ≤ ⌊2·voters/3⌋", "enoughVote returns false under "+guardsString(gs))
	}
}

// checkRebuiltVote: the vote message whose signer is recovered is rebuilt from
// the target (height, id), the list's round and part-set id; per item only
// timestamp and signature.
func checkRebuiltVote(c *Ctx, fn *ssa.Function, name, wantHeight, wantID, wantNTS string) {
	var msg ssa.Value
	for _, cs := range c.calls(fn, byCallee("consensus.newVoteMessage")) {
		msg = cs.Instr.Value()
	}
	if msg == nil {
		c.undecided("C05.binds-target", name+" rebuilt vote", fn.Pos(), "newVoteMessage() not found")
		return
	}
	got := map[string]string{}
	for _, b := range fn.Blocks {
		for _, in := range b.Instrs {
			st, ok := in.(*ssa.Store)
			if !ok {
				continue
			}
			fa, ok := st.Addr.(*ssa.FieldAddr)
			if !ok || !derivesFrom(fa, func(v ssa.Value) bool { return v == msg }, 8) {
				continue
			}
			got[fieldName(fa.X.Type(), fa.Field)] = render(st.Val)
		}
	}
	c.check(got["Height"] == wantHeight, "C05.binds-target", name+" vote height", fn.Pos(), "height of the target block", "rebuilt vote height is "+got["Height"])
	c.check(got["Round"] == "$r.blockCommitVoteList.Round" || got["Round"] == "$r.Round", "C05.binds-target", name+" vote round", fn.Pos(), "round of the list", "rebuilt vote round is "+got["Round"])
	c.check(got["Type"] == "1", "C05.binds-target", name+" vote type", fn.Pos(), "precommit", "rebuilt vote type is "+got["Type"]+" (precommit = 1)")
	c.check(strings.HasSuffix(got["Timestamp"], ".Timestamp"), "C05.binds-target", name+" vote timestamp", fn.Pos(), "from the item", "rebuilt vote timestamp is "+got["Timestamp"])
	srd := c.calls(fn, byCallee("(*consensus.voteBase).SetRoundDecision"))
	if len(srd) != 1 {
		c.violate("C05.binds-target", name+" round decision", fn.Pos(), "SetRoundDecision not called exactly once")
	} else {
		_, a := callArgs(srd[0].Common())
		psid := render(a[1])
		okNTS := wantNTS == "" || render(a[2]) == wantNTS
		c.check(render(a[0]) == wantID && strings.HasSuffix(psid, "BlockPartSetIDAndAppData") && strings.HasPrefix(psid, "$r.") && okNTS, "C05.binds-target", name+" round decision", srd[0].Pos(), "id of the target block, part-set id of the list", "SetRoundDecision("+render(a[0])+", "+psid+", "+render(a[2])+")")
	}
	ss := c.calls(fn, byCallee("(*consensus.signedBase).setSignature"))
	if len(ss) != 1 {
		c.violate("C05.binds-target", name+" signature", fn.Pos(), "setSignature not called exactly once")
	} else {
		_, a := callArgs(ss[0].Common())
		c.check(strings.HasSuffix(render(a[0]), ".Signature"), "C05.binds-target", name+" signature", ss[0].Pos(), "from the item", "signature is "+render(a[0]))
		// setSignature resets the cached hash and key
		if f := c.fn("consensus", "signedBase", "setSignature"); f != nil {
			reset := map[string]bool{}
			for _, st := range fieldStoresAny([]*ssa.Function{f}, "signedBase") {
				if isNilConst(st.Store.Val) {
					reset[fieldName(st.Addr.X.Type(), st.Addr.Field)] = true
				}
			}
			c.check(reset["_hash"] && reset["_publicKey"], "C05.binds-target", "setSignature invalidates cached hash and key", f.Pos(), "both caches reset", "cached hash/public key survive a signature change")
		}
	}
	_ = token.NoPos
}

// runC05Extra: rules added after independently produced mutants were missed.
// runC05Third: the key votes are tallied under covers everything a round decision consists of; the
// part-set holder compares the id it held *before* the replacement.
func runC05Third(c *Ctx) {
	const pkg = "consensus"
	set := c.mustFn(pkg, "voteBase", "SetRoundDecision")
	dig := c.mustFn(pkg, "voteBase", "RoundDecisionDigest")
	if set != nil && dig != nil {
		read := map[string]bool{}
		for _, b := range dig.Blocks {
			for _, in := range b.Instrs {
				if fa, ok := in.(*ssa.FieldAddr); ok && (namedOf(fa.X.Type()) == "voteBase" || namedOf(fa.X.Type()) == "blockVoteBase") {
					read[faName(fa)] = true
				}
			}
		}
		n := 0
		for _, st := range append(fieldStoresAny([]*ssa.Function{set}, "voteBase"), fieldStoresAny([]*ssa.Function{set}, "blockVoteBase")...) {
			fld := faName(st.Addr)
			if fld == "decisionDigest" {
				continue
			}
			n++
			c.check(read[fld], "C05.tally-key", "the round-decision digest covers "+fld, dig.Pos(), "read by RoundDecisionDigest", "SetRoundDecision sets "+fld+" but RoundDecisionDigest does not read it: votes that differ in it fall into one counter, and a +2/3 count is reported for a decision that +2/3 did not sign")
		}
		if n < 2 {
			c.undecided("C05.tally-key", "SetRoundDecision", set.Pos(), fmt.Sprintf("%d decision fields found", n))
		}
	}
	if f := c.mustFn(pkg, "blockPartSet", "SetByPartSetAndBlock"); f != nil {
		sts := fieldStores([]*ssa.Function{f}, "blockPartSet", "PartSet")
		ids := c.calls(f, func(cc *ssa.CallCommon) bool {
			r, _ := callArgs(cc)
			return methodName(cc) == "ID" && r != nil && strings.HasPrefix(render(r), "$r")
		})
		if len(sts) == 0 || len(ids) == 0 {
			c.undecided("C05.tally-key", "SetByPartSetAndBlock", f.Pos(), fmt.Sprintf("%d stores of the part set, %d reads of the held id", len(sts), len(ids)))
		} else {
			for _, id := range ids {
				for _, st := range sts {
					_, after := pathAvoiding(f, st.Store, func(in ssa.Instruction) bool { return in == ssa.Instruction(id.Instr) }, func(ssa.Instruction) bool { return false })
					c.check(!after, "C05.tally-key", "the held part-set id is read before the part set is replaced", id.Pos(), "ID() precedes the store", "the `previous` id is read after the new part set was stored, so it always equals the new one: the validated candidate of the old content is kept for the new content")
				}
			}
		}
	}
}

func runC05Extra(c *Ctx) {
	runC05Third(c)
	// (a) fast sync: every vote of the delivered list is filed under the validator index of its own signer
	if pb := c.mustFn("consensus", "consensus", "processBlock"); pb != nil {
		adds := c.calls(pb, byCallee("heightVoteSet).add"))
		ok := len(adds) == 1
		if ok {
			_, a := callArgs(adds[0].Common())
			io, isCall := a[0].(*ssa.Call)
			ok = isCall && methodName(io.Common()) == "IndexOf"
			if ok {
				r, ia := callArgs(io.Common())
				adv := ia[0]
				if mi, isMI := adv.(*ssa.MakeInterface); isMI {
					adv = mi.X
				}
				if ci, isCI := adv.(*ssa.ChangeInterface); isCI {
					adv = ci.X
				}
				ad, isAd := adv.(*ssa.Call)
				ok = strings.HasSuffix(render(r), "$r.validators") && isAd && methodName(ad.Common()) == "address"
				if ok {
					ar, _ := callArgs(ad.Common())
					// signer of the very message that is added
					for {
						if fa, isFA := ar.(*ssa.FieldAddr); isFA {
							ar = fa.X
							continue
						}
						break
					}
					ok = ar == a[1]
				}
			}
		}
		c.check(ok, "C05.fastsync-door", "processBlock files each vote under the validator index of its own signer", pb.Pos(), "hvs.add(validators.IndexOf(m.address()), m)", "votes of a delivered list are filed under another index (e.g. their list position): one validator signing twice counts as two voters")
		if len(adds) == 1 {
			c.requireAt("C05.fastsync-door", "processBlock adds only votes of known validators", adds[0].Instr, wGE("index ≥ 0", 0, t(1, `^\$r\.validators\.IndexOf\(`)))
		}
	}
	// (b) the voters of a block are the validators designated by its parent
	if gv := c.mustFn("block", "blockV2", "GetVoters"); gv != nil {
		calls := c.calls(gv, byMethod("GetBlockByHeight"))
		ok := len(calls) == 1
		if ok {
			_, a := callArgs(calls[0].Common())
			l := linOf(a[0])
			ok = len(l.T) == 1 && l.K == -1
			for atom, co := range l.T {
				if co != 1 || !strings.HasSuffix(atom, "$r.Height()") {
					ok = false
				}
			}
		}
		c.check(ok, "C05.import-doors", "the voters of a block are looked up at its parent's height", gv.Pos(), "GetBlockByHeight(b.Height()-1)", "GetVoters does not read the block at height−1: commit votes are checked against another validator set than the one the parent designated")
		for _, e := range successAlts(gv) {
			if isNilConst(e.Results[0]) {
				_, h0 := holds(e.Guards, wEQ("genesis", 0, t(1, `^\$r\.Height\(\)$`)))
				c.check(h0, "C05.import-doors", "no voters only for the genesis block", e.pos(), "height == 0", "GetVoters returns no voters for a non-genesis block")
				continue
			}
			c.check(strings.HasSuffix(render(e.Results[0]), ".NextValidators()") && strings.Contains(render(e.Results[0]), "GetBlockByHeight("), "C05.import-doors", "the voters are the parent's NextValidators", e.pos(), render(e.Results[0]), "GetVoters returns "+render(e.Results[0]))
		}
	}
	// (c) consensus verifies against the validators the last block designates
	if rh := c.mustFn("consensus", "consensus", "_resetForNewHeight"); rh != nil {
		stores := fieldStores([]*ssa.Function{rh}, "consensus", "validators")
		if len(stores) != 1 {
			c.violate("C05.import-doors", "_resetForNewHeight refreshes the validator set at one place", rh.Pos(), fmt.Sprintf("%d stores", len(stores)))
		} else {
			st := stores[0].Store
			c.check(render(st.Val) == "$r.lastBlock.NextValidators()", "C05.import-doors", "the validator set of the new height is the one designated by the last block", st.Pos(), "lastBlock.NextValidators()", "validators = "+render(st.Val))
			tr, reach := pathAvoidingEdges(rh, nil, isReturn, isInstr(st), wSame("same set (hash equal)", `^\$r\.validators\.Hash\(\)$`, `^\$r\.lastBlock\.NextValidatorsHash\(\)$`))
			c.check(!reach, "C05.import-doors", "the validator set is refreshed whenever its hash differs from the designated one", st.Pos(), "skip only when Hash() == NextValidatorsHash()", "a changed validator set can be kept (the refresh is skipped without the hashes being equal): votes of removed validators still count ("+traceString(tr)+")")
			// lastBlock must be set before it is consulted
			for _, fs := range fieldStores([]*ssa.Function{rh}, "consensus", "lastBlock") {
				c.check(dominatesInstr(fs.Store, st) && render(fs.Store.Val) == "$0", "C05.import-doors", "the designating block is the block just finalized", fs.Store.Pos(), "lastBlock = prevBlock", "lastBlock is assigned late or from another value")
			}
		}
	}
	// (d) VerifyBlock accepts only after every item was verified
	if vb := c.mustFn("consensus", "blockCommitVoteList", "VerifyBlock"); vb != nil {
		var hdr *ssa.BasicBlock
		for _, cs := range c.calls(vb, byCallee("signedBase).verify")) {
			hdr = loopHeaderOf(cs.Instr.Block())
		}
		if hdr == nil {
			c.violate("C05.item-no-bypass", "VerifyBlock verifies items in a loop", vb.Pos(), "no verification loop found")
		} else {
			body := loopBody(hdr)
			for _, rs := range returnSites(vb) {
				if isNilConst(rs.Results[0]) {
					continue
				}
				c.check(!body[rs.Ret.Block()] || rs.Ret.Block() == hdr && false, "C05.item-no-bypass", "VerifyBlock accepts only after the whole list was verified", rs.pos(), "acceptance after the loop", "VerifyBlock can accept from inside the item loop: the remaining items (forged, duplicated, foreign) are never looked at")
			}
		}
	}
	// (e) the consensus path: commit only on +2/3 precommits — finalize-gate and tally rules of C01/C04
	if !c.Sub {
		sub := &Ctx{Prop: c.Prop, Tier: c.Tier, L: c.L, Sub: true}
		runC01(sub)
		for _, o := range sub.obs {
			if !strings.HasPrefix(o.Rule, "C01.finalize-gate") && !strings.HasPrefix(o.Rule, "C01.tally/") {
				continue
			}
			o2 := *o
			o2.Rule = "C05.consensus-door/" + strings.TrimPrefix(o.Rule, "C01.")
			c.obs = append(c.obs, &o2)
		}
		c.callSites += sub.callSites
	}
}
