package main

import (
	"fmt"
	"go/ast"
	"go/token"
	"go/types"
	"reflect"
	"sort"
	"strconv"
	"strings"

	"golang.org/x/tools/go/ssa"
)

// C12 — a transaction keeps its identity across all representations.
func init() {
	register(&Prop{
		ID:             "C12",
		Pkgs:           []string{"service/transaction"},
		Run:            runC12,
		MinObligations: 30,
		Technique:      "static analysis: table agreement between struct tags, the hash serializer's key literals, the JSON exclusion table and the ToJSON keys; provenance of every byte written by the ICON serializer (escaped string, separator constant or nested fragment); pairing of raw mode with the JSON-derived id; marshal/unmarshal symmetry of the binary form",
		LevelText:      "Decides: the struct hash writes, for every field of the v3 data except the signature, the literal `.<json tag>.` immediately followed by that field's text, keys in ascending order, optional fields under a nil test iff they are optional; the JSON hash excludes exactly the unsigned keys (signature, txHash), so both hash paths cover the same key set; every byte the ICON serializer emits is a separator/bracket constant, a nested fragment, or a string (key or value) passed through the escaping function, whose escape set is exactly `\\ { } [ ] .`; when the id computed from the submitted JSON differs from the struct id the transaction switches to raw mode and its cached id is replaced by the JSON id on every such path, and raw mode keeps the original bytes; the binary form marshals and unmarshals the same embedded data value, stores a private copy and checks the version; the non-raw JSON view has one key per field (plus txHash) read from that field.",
		LevelNote:      "Does not decide equality of the two hash paths on all inputs nor the value equivalences of the ICON format (hex spelling); those are value-level.",
		Explanation:    "C12 rules: hash-coverage (K4 tags ↔ literals ↔ fields, K1 optional guards, order), exclusion-table (K4), serializer-provenance (K5) and escape-set (K4), raw-id (K8 + K5), binary-form (K5), tojson-keys (K4).",
		Mutants: []Mutant{
			{Name: "raw-id-not-updated", File: "service/transaction/transaction_v3.go", Old: "\t\tif !bytes.Equal(id, tx.ID()) {\n\t\t\ttx.txHash = id\n\t\t\traw = true\n\t\t}", New: "\t\tif !bytes.Equal(id, tx.ID()) {\n\t\t\traw = true\n\t\t}", Desc: "raw transaction keeps the struct-derived id in memory but the JSON id after reload"},
			{Name: "dict-keys-unescaped", File: "service/transaction/serialize.go", Old: "\t\tbuf.Write(serializeString(k))\n", New: "\t\tbuf.WriteString(k)\n", Desc: "object keys are not escaped: different data values hash to the same id"},
			{Name: "escape-set-missing-dot", File: "service/transaction/serialize.go", Old: "\t\tcase ']':\n\t\t\tfallthrough\n\t\tcase '.':\n", New: "\t\tcase ']':\n", Desc: "'.' inside strings is not escaped"},
			{Name: "hash-skips-nonce", File: "service/transaction/transaction_v3.go", Old: "\tif tx.Nonce != nil {\n\t\tsha.Write([]byte(\".nonce.\"))\n\t\tsha.Write([]byte(tx.Nonce.String()))\n\t}\n", New: "", Desc: "nonce is not part of the struct hash: changing it keeps the id"},
			{Name: "hash-value-under-to-key", File: "service/transaction/transaction_v3.go", Old: "\tsha.Write([]byte(\".to.\"))\n\tsha.Write([]byte(tx.To.String()))", New: "\tsha.Write([]byte(\".to.\"))\n\tsha.Write([]byte(tx.From.String()))", Desc: "recipient key carries the sender's text"},
			{Name: "exclusion-adds-nid", File: "service/transaction/transaction_json.go", Old: "\t\t\t\t\"signature\": true,\n\t\t\t\t\"txHash\":    true,\n\t\t\t},", New: "\t\t\t\t\"signature\": true,\n\t\t\t\t\"txHash\":    true,\n\t\t\t\t\"nid\":       true,\n\t\t\t},", Desc: "JSON hash ignores the network id while the struct hash includes it"},
			{Name: "setbytes-aliases-input", File: "service/transaction/transaction_v3.go", Old: "\tnbs := make([]byte, len(bs))\n\tcopy(nbs, bs)\n\ttx.bytes = nbs", New: "\ttx.bytes = bs", Desc: "stored binary form aliases the caller's buffer"},
			{Name: "list-separator-dropped", File: "service/transaction/serialize.go", Old: "\t\tif buf.Len() > 0 {\n\t\t\tbuf.WriteByte('.')\n\t\t}\n\t\tbuf.Write(frag)\n\t}\n\treturn buf.Bytes(), nil\n}\n\nfunc serializeValue", New: "\t\tbuf.Write(frag)\n\t}\n\treturn buf.Bytes(), nil\n}\n\nfunc serializeValue", Desc: "list elements are concatenated without separator: [\"ab\"] and [\"a\",\"b\"] collide"},
			{Name: "tojson-value-under-nonce", File: "service/transaction/transaction_v3.go", Old: "\t\tjso[\"nonce\"] = tx.transactionV3Data.Nonce", New: "\t\tjso[\"nonce\"] = tx.transactionV3Data.Value", Desc: "JSON view reports the value as the nonce"},
		},
	})
}

func structTags(c *Ctx, pkgRel, typeName string) (map[string]string, map[string]bool, []string) {
	// returns tag->field, tag->optional, ordered tags
	obj := c.pkg(pkgRel).Types.Scope().Lookup(typeName)
	if obj == nil {
		return nil, nil, nil
	}
	st, ok := obj.Type().Underlying().(*types.Struct)
	if !ok {
		return nil, nil, nil
	}
	t2f := map[string]string{}
	opt := map[string]bool{}
	var tags []string
	for i := 0; i < st.NumFields(); i++ {
		tag := reflect.StructTag(st.Tag(i)).Get("json")
		name := strings.Split(tag, ",")[0]
		if name == "" || name == "-" {
			continue
		}
		t2f[name] = st.Field(i).Name()
		_, isPtr := st.Field(i).Type().(*types.Pointer)
		isRaw := strings.HasSuffix(st.Field(i).Type().String(), "json.RawMessage")
		opt[name] = isPtr || isRaw
		tags = append(tags, name)
	}
	return t2f, opt, tags
}

func runC12(c *Ctx) {
	runC12Extra(c)
	const pkg = "service/transaction"
	t2f, opt, tags := structTags(c, pkg, "transactionV3Data")
	if len(tags) < 10 {
		c.undecided("anchor", "transactionV3Data tags", token.NoPos, "struct tags not found")
		return
	}

	// ---- hash-coverage
	ch := c.mustFn(pkg, "transactionV3Data", "calcHash")
	if ch != nil {
		type wr struct {
			call *ssa.Call
			lit  string
			arg  string
		}
		var ws []wr
		for _, cs := range c.calls(ch, byCallee("(*bytes.Buffer).Write", "(*bytes.Buffer).WriteString")) {
			call := cs.Instr.(*ssa.Call)
			_, a := callArgs(call.Common())
			w := wr{call: call, arg: render(a[0])}
			if k, ok := unwrap(a[0]).(*ssa.Const); ok && k.Value != nil {
				if s, err := strconv.Unquote(k.Value.ExactString()); err == nil {
					w.lit = s
				}
			}
			ws = append(ws, w)
		}
		sort.Slice(ws, func(i, j int) bool { return ws[i].call.Pos() < ws[j].call.Pos() })
		hashed := map[string]bool{}
		var order []string
		for i, w := range ws {
			if !(strings.HasPrefix(w.lit, ".") && strings.HasSuffix(w.lit, ".") && len(w.lit) > 2) {
				continue
			}
			key := strings.Trim(w.lit, ".")
			field, known := t2f[key]
			name := "hash key ." + key + "."
			if !known {
				c.violate("C12.hash-coverage", name, w.call.Pos(), "the struct hash writes a key that is not a JSON tag of the transaction data")
				continue
			}
			hashed[key] = true
			order = append(order, key)
			// the next write carries that field
			if i+1 >= len(ws) {
				c.violate("C12.hash-coverage", name+" followed by its field", w.call.Pos(), "key literal is the last write")
				continue
			}
			nx := ws[i+1]
			okField := strings.Contains(nx.arg, "$r."+field) && nx.lit == ""
			// Data goes through the serializer a few writes later; accept any later write before the next key that derives from the field
			if !okField {
				for j := i + 1; j < len(ws) && ws[j].lit == ""; j++ {
					if strings.Contains(ws[j].arg, "$r."+field) {
						okField = true
					}
					// the field's JSON text is unmarshalled and re-serialised by the ICON serializer
					if strings.HasPrefix(ws[j].arg, "transaction.serializeValue(") {
						for _, um := range c.calls(ch, byCallee("encoding/json.Unmarshal")) {
							_, ua := callArgs(um.Common())
							if render(ua[0]) == "$r."+field && dominatesInstr(um.Instr, ws[j].call) {
								okField = true
							}
						}
					}
				}
			}
			c.check(okField && dominatesInstr(w.call, nx.call), "C12.hash-coverage", name+" followed by field "+field, w.call.Pos(), nx.arg, "key ."+key+". is followed by "+nx.arg+", not by the text of field "+field)
			// optional ⇔ nil-guarded
			guarded := false
			for _, g := range guardsAt(w.call) {
				p := predOf(g)
				if p.Kind == "same" && !p.Pol && (p.A == "nil" || p.B == "nil") && strings.Contains(p.A+p.B, "$r."+field) {
					guarded = true
				}
			}
			c.check(guarded == opt[key], "C12.hash-coverage", name+" presence rule", w.call.Pos(), fmt.Sprintf("optional=%v", opt[key]), fmt.Sprintf("field %s optional=%v but the key is written under a nil test=%v", field, opt[key], guarded))
		}
		for _, tg := range tags {
			if tg == "signature" {
				c.check(!hashed[tg], "C12.hash-coverage", "signature is not hashed", ch.Pos(), "excluded", "the signature is part of the id")
				continue
			}
			c.check(hashed[tg], "C12.hash-coverage", "field with tag "+tg+" is hashed", ch.Pos(), "."+tg+".", "the struct hash never writes key ."+tg+".: changing field "+t2f[tg]+" does not change the id")
		}
		c.check(sort.StringsAreSorted(order), "C12.hash-coverage", "keys in ascending order", ch.Pos(), strings.Join(order, " < "), "keys are written as "+strings.Join(order, ",")+" — the JSON-map hash sorts keys")

		// ---- exclusion-table (AST)
		excl := v3Exclusion(c, pkg)
		if excl == nil {
			c.undecided("C12.exclusion-table", "transactionFields[Version3].exclusion", token.NoPos, "table literal not found")
		} else {
			var es []string
			for k := range excl {
				es = append(es, k)
			}
			sort.Strings(es)
			okEx := len(excl) == 2 && excl["signature"] && excl["txHash"]
			for _, tg := range tags {
				if hashed[tg] && excl[tg] {
					okEx = false
				}
				if !hashed[tg] && !excl[tg] {
					okEx = false
				}
			}
			c.check(okEx, "C12.exclusion-table", "JSON hash excludes exactly the unsigned keys", token.NoPos, strings.Join(es, ","), "exclusion table {"+strings.Join(es, ",")+"} does not complement the struct-hash key set")
		}
	}

	// ---- serializer-provenance
	for _, fn := range []string{"serializeDict", "serializeList", "serializeValue"} {
		f := c.mustFn(pkg, "", fn)
		if f == nil {
			continue
		}
		n := 0
		for _, cs := range c.calls(f, byCallee("(*bytes.Buffer).Write", "(*bytes.Buffer).WriteString", "(*bytes.Buffer).WriteByte")) {
			n++
			_, a := callArgs(cs.Common())
			v := unwrap(a[0])
			r := render(v)
			okSrc := false
			why := r
			if _, isK := v.(*ssa.Const); isK {
				okSrc, why = true, "constant "+r
			} else if strings.HasPrefix(r, "transaction.serializeString(") {
				okSrc, why = true, "escaped string"
			} else if strings.HasPrefix(r, "transaction.serializeValue(") || strings.HasPrefix(r, "transaction.serializeDict(") || strings.HasPrefix(r, "transaction.serializeList(") {
				okSrc, why = true, "nested fragment"
			}
			c.check(okSrc, "C12.serializer-provenance", fn+" writes "+why, cs.Pos(), why, fn+" writes "+r+" unescaped: it is neither a separator constant, a nested fragment nor a string passed through serializeString")
		}
		if n == 0 {
			c.undecided("C12.serializer-provenance", fn, f.Pos(), "no buffer writes")
		}
		// separator between elements
		if fn != "serializeValue" {
			okSep := false
			for _, cs := range c.calls(f, byCallee("(*bytes.Buffer).WriteByte")) {
				_, a := callArgs(cs.Common())
				if k, ok := constInt(a[0]); ok && k == '.' {
					if _, has := holds(guardsAt(cs.Instr), wGE("not the first element", -1, t(1, `\.Len\(\)$`))); has {
						okSep = true
					}
				}
			}
			c.check(okSep, "C12.serializer-provenance", fn+" separates elements with '.'", f.Pos(), "'.' before every element but the first", "elements are not separated")
		}
	}
	if ss := c.mustFn(pkg, "", "serializeString"); ss != nil {
		set := map[int64]bool{}
		for _, b := range ss.Blocks {
			for _, in := range b.Instrs {
				if bo, ok := in.(*ssa.BinOp); ok && bo.Op == token.EQL {
					if k, isK := constInt(bo.Y); isK {
						set[k] = true
					}
				}
			}
		}
		want := []int64{'\\', '{', '}', '[', ']', '.'}
		okSet := len(set) == len(want)
		for _, w := range want {
			if !set[w] {
				okSet = false
			}
		}
		c.check(okSet, "C12.escape-set", "escaped characters are exactly \\ { } [ ] .", ss.Pos(), "6 characters", fmt.Sprintf("escape set is %v", set))
	}

	// ---- raw-id
	if pj := c.mustFn(pkg, "", "parseV3JSON"); pj != nil {
		var rawStore, bytesStore *ssa.Store
		for _, st := range fieldStores([]*ssa.Function{pj}, "transactionV3", "raw") {
			rawStore = st.Store
		}
		for _, st := range fieldStores([]*ssa.Function{pj}, "transactionV3", "bytes") {
			bytesStore = st.Store
		}
		if rawStore == nil || bytesStore == nil {
			c.violate("C12.raw-id", "raw mode", pj.Pos(), "raw mode does not set raw and keep the original bytes")
		} else {
			c.check(strings.HasSuffix(render(bytesStore.Val), ".raw"), "C12.raw-id", "raw mode keeps the submitted bytes", bytesStore.Pos(), render(bytesStore.Val), "raw bytes are "+render(bytesStore.Val))
			c.check(rawStore.Block() == bytesStore.Block(), "C12.raw-id", "raw flag and raw bytes set together", rawStore.Pos(), "same block", "raw flag and bytes are set on different paths")
		}
		// the mismatch arm replaces the cached id by the JSON id
		found := false
		for _, b := range pj.Blocks {
			if len(b.Instrs) == 0 {
				continue
			}
			iff, ok := b.Instrs[len(b.Instrs)-1].(*ssa.If)
			if !ok {
				continue
			}
			p := predOfVal(iff.Cond, true)
			if p.Kind != "same" || !strings.Contains(p.A+p.B, "calcHashOfTransactionJSMap(") || !strings.Contains(p.A+p.B, ".ID()") {
				continue
			}
			found = true
			arm := b.Succs[1] // not equal
			if !p.Pol {
				arm = b.Succs[0]
			}
			okStore := false
			for _, st := range fieldStores([]*ssa.Function{pj}, "transactionV3", "txHash") {
				if st.Store.Block() == arm || arm.Dominates(st.Store.Block()) {
					okStore = strings.Contains(render(st.Store.Val), "calcHashOfTransactionJSMap(")
				}
			}
			c.check(okStore, "C12.raw-id", "id mismatch → cached id replaced by the JSON id", arm.Instrs[0].Pos(), "txHash = id of the submitted JSON", "when the JSON id differs from the struct id the cached (struct) id stays: the in-memory transaction and its reloaded raw form report different ids")
			// and that arm leads to raw mode
			if rawStore != nil {
				_, reaches := pathAvoiding(pj, arm.Instrs[0], func(in ssa.Instruction) bool { return in == ssa.Instruction(rawStore) }, nil)
				_, skips := pathAvoiding(pj, arm.Instrs[0], isReturn, func(in ssa.Instruction) bool { return in == ssa.Instruction(rawStore) })
				c.check(reaches && !skips, "C12.raw-id", "id mismatch → raw mode", arm.Instrs[0].Pos(), "raw set on every path", "a transaction whose JSON id differs is not kept in raw form")
			}
		}
		if !found {
			c.undecided("C12.raw-id", "id comparison", pj.Pos(), "comparison of the JSON id with the struct id not found")
		}
	}
	// raw transactions hash their bytes
	if f := c.mustFn(pkg, "transactionV3", "calcHash"); f != nil {
		for _, e := range exitAlts(f) {
			r := render(e.Results[0])
			if _, raw := holds(e.Guards, wTrue("raw", `^\$r\.raw$`)); raw {
				c.check(strings.HasPrefix(r, "transaction.calcHashOfTransactionJSON($r.bytes,"), "C12.raw-id", "raw id = hash of the kept JSON", e.pos(), r, "raw id is "+r)
			} else {
				c.check(strings.Contains(r, "transactionV3Data.calcHash()"), "C12.raw-id", "non-raw id = struct hash", e.pos(), r, "id is "+r)
			}
		}
	}

	// ---- binary-form
	if f := c.mustFn(pkg, "transactionV3", "Bytes"); f != nil {
		okM := false
		for _, cs := range c.calls(f, byMethod("MarshalToBytes")) {
			_, a := callArgs(cs.Common())
			okM = strings.HasSuffix(render(a[len(a)-1]), "$r.transactionV3Data")
		}
		c.check(okM, "C12.binary-form", "Bytes marshals the embedded data", f.Pos(), "&tx.transactionV3Data", "Bytes does not marshal the embedded transaction data")
	}
	if f := c.mustFn(pkg, "transactionV3", "SetBytes"); f != nil {
		okU := false
		for _, cs := range c.calls(f, byMethod("UnmarshalFromBytes")) {
			_, a := callArgs(cs.Common())
			okU = render(a[0]) == "$0" && strings.HasSuffix(render(a[1]), "$r.transactionV3Data")
		}
		c.check(okU, "C12.binary-form", "SetBytes unmarshals into the same embedded data", f.Pos(), "&tx.transactionV3Data", "SetBytes unmarshals elsewhere")
		for _, st := range fieldStores([]*ssa.Function{f}, "transactionV3", "bytes") {
			ms, isMs := st.Store.Val.(*ssa.MakeSlice)
			copied := false
			if isMs {
				for _, cp := range c.calls(f, byCallee("builtin:copy")) {
					_, a := callArgs(cp.Common())
					if a[0] == ssa.Value(ms) && render(a[1]) == "$0" {
						copied = true
					}
				}
			}
			if isMs && !copied && render(ms.Len) == "len($0)" {
				// the same copy written as an element loop over the whole source: nbs[i] = bs[i]
				for _, b := range f.Blocks {
					for _, in := range b.Instrs {
						es, ok := in.(*ssa.Store)
						if !ok {
							continue
						}
						dst, ok := es.Addr.(*ssa.IndexAddr)
						if !ok || dst.X != ssa.Value(ms) {
							continue
						}
						if ld, ok := es.Val.(*ssa.UnOp); ok {
							if src, ok := ld.X.(*ssa.IndexAddr); ok && render(src.X) == "$0" && src.Index == dst.Index {
								if li, lb, isLoop := indexLoop(loopHeaderOf(b)); isLoop && li == dst.Index && render(lb) == "len($0)" {
									copied = true
								}
							}
						}
					}
				}
			}
			c.check(copied, "C12.binary-form", "SetBytes stores a private copy", st.Store.Pos(), "make+copy", "stored bytes alias the caller's slice: "+render(st.Store.Val))
			c.requireAt("C12.binary-form", "bytes kept only for version 3", st.Store, wEQ("version == 3", -3, t(1, `Version\.Value$`)))
		}
	}

	// ---- tojson-keys
	if tj := c.mustFn(pkg, "transactionV3", "ToJSON"); tj != nil {
		keys := map[string]string{}
		for _, b := range tj.Blocks {
			for _, in := range b.Instrs {
				mu, ok := in.(*ssa.MapUpdate)
				if !ok {
					continue
				}
				if _, raw := holds(guardsAt(mu), wTrue("raw", `^\$r\.raw$`)); raw {
					continue
				}
				if k, ok := mu.Key.(*ssa.Const); ok {
					s, _ := strconv.Unquote(k.Value.ExactString())
					keys[s] = render(mu.Value)
					// a signed field is emitted whenever it is present: the only condition is `field != nil`
					for _, g := range guardsAt(mu) {
						p := predOf(g)
						if p.Kind == "bool" && strings.HasSuffix(p.A, ".raw") {
							continue
						}
						okG := p.Kind == "differ" && (p.A == "nil" || p.B == "nil") || (p.Kind == "same" && (p.A == "nil" || p.B == "nil"))
						if p.Kind == "ne" || p.Kind == "eq" {
							// len(x) != 0 style presence tests on the same field are fine
							okG = false
							for a := range p.L.T {
								if strings.HasPrefix(a, "len(") && p.L.K == 0 {
									okG = true
								}
							}
						}
						c.check(okG, "C12.tojson-keys", "JSON key "+s+" is emitted whenever the field is present", mu.Pos(), "only nil/empty tests", "key "+s+" is emitted only under "+p.String()+": a transaction that carried the field with that value loses it on a JSON round trip and its id changes")
					}
				}
			}
		}
		for _, tg := range tags {
			v, ok := keys[tg]
			c.check(ok && strings.Contains(v, "transactionV3Data."+t2f[tg]), "C12.tojson-keys", "JSON key "+tg+" ← field "+t2f[tg], tj.Pos(), v, "key "+tg+" is set from "+v)
		}
		c.check(strings.HasSuffix(keys["txHash"], ".ID()") || strings.HasSuffix(keys["txHash"], ".TxHash()"), "C12.tojson-keys", "JSON key txHash ← id", tj.Pos(), keys["txHash"], "txHash is "+keys["txHash"])
	}
}

// v3Exclusion reads transactionFields[Version3].exclusion from the syntax tree.
func v3Exclusion(c *Ctx, pkgRel string) map[string]bool {
	var out map[string]bool
	for _, f := range c.pkg(pkgRel).Syntax {
		ast.Inspect(f, func(n ast.Node) bool {
			vs, ok := n.(*ast.ValueSpec)
			if !ok || len(vs.Names) == 0 || vs.Names[0].Name != "transactionFields" || len(vs.Values) == 0 {
				return true
			}
			cl, ok := vs.Values[0].(*ast.CompositeLit)
			if !ok {
				return true
			}
			for _, el := range cl.Elts {
				kv, ok := el.(*ast.KeyValueExpr)
				if !ok || types.ExprString(kv.Key) != "Version3" {
					continue
				}
				inner, ok := kv.Value.(*ast.CompositeLit)
				if !ok {
					continue
				}
				for _, e2 := range inner.Elts {
					kv2, ok := e2.(*ast.KeyValueExpr)
					if !ok || types.ExprString(kv2.Key) != "exclusion" {
						continue
					}
					m, ok := kv2.Value.(*ast.CompositeLit)
					if !ok {
						continue
					}
					out = map[string]bool{}
					for _, e3 := range m.Elts {
						if kv3, ok := e3.(*ast.KeyValueExpr); ok {
							if bl, ok := kv3.Key.(*ast.BasicLit); ok {
								s, _ := strconv.Unquote(bl.Value)
								out[s] = types.ExprString(kv3.Value) == "true"
							}
						}
					}
				}
			}
			return true
		})
	}
	return out
}

// runC12Extra: rules added after independently produced mutants were missed.
func runC12Extra(c *Ctx) {
	const pk = "service/transaction"
	// the cached id is computed by the raw-aware hash of the transaction itself
	if fn := c.mustFn(pk, "transactionV3", "TxHash"); fn != nil {
		n := 0
		for _, fs := range fieldStores([]*ssa.Function{fn}, "transactionV3", "txHash") {
			for _, fl := range flowsOf(fs.Store.Val, nil) {
				ex, isEx := fl.Src.(*ssa.Extract)
				if !isEx {
					continue // the empty-id marker
				}
				n++
				cl, isCall := ex.Tuple.(*ssa.Call)
				okC := isCall && strings.HasSuffix(calleeName(cl.Common()), "transaction.transactionV3).calcHash")
				if okC {
					r, _ := callArgs(cl.Common())
					okC = render(r) == "$r"
				}
				c.check(okC, "C12.raw-id", "TxHash caches the raw-aware hash of the transaction", fs.Store.Pos(), "tx.calcHash()", "TxHash caches "+render(fl.Src)+": a transaction stored as raw JSON gets the id of its parsed fields after a reload")
			}
		}
		c.check(n >= 1, "C12.raw-id", "TxHash computes the id", fn.Pos(), fmt.Sprint(n), "no computed id stored")
	}
	if fn := c.mustFn(pk, "transactionV3", "calcHash"); fn != nil {
		v3, _ := c.constVal(pk, "Version3")
		for _, cs := range c.calls(fn, byCallee("transaction.calcHashOfTransactionJSON")) {
			_, a := callArgs(cs.Common())
			k, isK := constInt(a[1])
			c.check(isK && k == v3 && render(a[0]) == "$r.bytes", "C12.raw-id", "the raw id is hashed with the version-3 exclusion set over the stored bytes", cs.Pos(), "calcHashOfTransactionJSON(tx.bytes, Version3)", "raw transactions are hashed as version "+render(a[1]))
			c.requireAt("C12.raw-id", "raw hash only for raw transactions", cs.Instr, wTrue("raw", `^\$r\.raw$`))
		}
	}
	// the salt is an exact-capacity constant: appending to it never writes into shared storage
	if init := c.spkg(pk).Func("init"); init != nil {
		n := 0
		for _, b := range init.Blocks {
			for _, in := range b.Instrs {
				st, ok := in.(*ssa.Store)
				if !ok {
					continue
				}
				g, ok := st.Addr.(*ssa.Global)
				if !ok || g.Name() != "transactionSaltBytes" {
					continue
				}
				n++
				cv, isConv := st.Val.(*ssa.Convert)
				_, isK := ssa.Value(nil), false
				if isConv {
					_, isK = cv.X.(*ssa.Const)
				}
				c.check(isConv && isK, "C12.serializer-provenance", "the id salt is a conversion of a string constant (exact capacity)", st.Pos(), "[]byte(\"…\")", "the salt slice is built with spare capacity: append(salt, …) writes every transaction's serialisation into one shared array, so concurrent id computations corrupt each other")
			}
		}
		c.check(n == 1, "C12.serializer-provenance", "salt initialised once", token.NoPos, "1", fmt.Sprint(n))
	}
	for _, fn := range c.pkgFuncs(pk) {
		for _, b := range fn.Blocks {
			for _, in := range b.Instrs {
				st, ok := in.(*ssa.Store)
				if !ok {
					continue
				}
				if g, ok := st.Addr.(*ssa.Global); ok && g.Name() == "transactionSaltBytes" && fn.Name() != "init" {
					c.violate("C12.serializer-provenance", "the id salt is constant", st.Pos(), fnName(fn)+" reassigns the salt")
				}
			}
		}
	}
	// null is serialised with the escape character, so it cannot collide with any string or number
	if fn := c.mustFn(pk, "", "serializeValue"); fn != nil {
		n := 0
		for _, e := range exitAlts(fn) {
			if _, isNil := holds(e.Guards, wSame("v == nil", `^\$0$`, `^nil`)); !isNil {
				continue
			}
			n++
			okE := false
			if cv, ok := e.Results[0].(*ssa.Convert); ok {
				if k, ok := cv.X.(*ssa.Const); ok {
					sv, _ := strconv.Unquote(k.Value.ExactString())
					okE = len(sv) >= 2 && sv[0] == '\\'
				}
			}
			if sl, ok := e.Results[0].(*ssa.Slice); ok {
				if el, ok2 := varargElems(sl); ok2 && len(el) >= 2 {
					k0, _ := constInt(el[0])
					okE = k0 == '\\'
				}
			}
			c.check(okE, "C12.escape-set", "null is serialised as an escape sequence", e.pos(), "\\0", "null serialises as "+render(e.Results[0])+", which a string or number can also produce: two different transactions share one id")
		}
		c.check(n >= 1, "C12.escape-set", "serializeValue handles null", fn.Pos(), fmt.Sprint(n), "no nil case")
	}
}
