package main

import (
	"fmt"
	"go/token"
	"strings"

	"golang.org/x/tools/go/ssa"
)

// Rules added after independently produced mutants were missed (consensus, WAL).

// checkReplayMonotone: WAL replay (applyLockWAL, applyCommitWAL) may only
// raise the restored (round, step): every store of the step is behind
// `cs.round < r  ∨  (cs.round == r ∧ cs.step < s)` for the very r and s stored.
func checkReplayMonotone(c *Ctx, rule string) {
	const pk = "consensus"
	for _, name := range []string{"applyLockWAL", "applyCommitWAL"} {
		fn := c.mustFn(pk, "consensus", name)
		if fn == nil {
			continue
		}
		steps := fieldStores([]*ssa.Function{fn}, "hrs", "step")
		rounds := fieldStores([]*ssa.Function{fn}, "hrs", "round")
		if len(steps) != 1 || len(rounds) != 1 {
			c.violate(rule, name+": restores round and step at one place", fn.Pos(), fmt.Sprintf("%d step / %d round stores", len(steps), len(rounds)))
			continue
		}
		st, rd := steps[0].Store, rounds[0].Store
		c.check(st.Block() == rd.Block(), rule, name+": round and step are restored together", st.Pos(), "same block", "round and step are restored on different paths")
		R, S := render(rd.Val), render(st.Val)
		ok := true
		bad := ""
		alts := altGuards(st.Block())
		for _, alt := range alts {
			higher, same, stepUp := false, false, false
			for _, g := range alt {
				p := predOf(g)
				switch p.Kind {
				case "ge":
					if len(p.L.T) == 2 && p.L.T[R] == 1 && p.L.T["$r.hrs.round"] == -1 && p.L.K == -1 {
						higher = true
					}
					if len(p.L.T) == 2 && p.L.T[S] == 1 && p.L.T["$r.hrs.step"] == -1 && p.L.K == -1 {
						stepUp = true
					}
				case "eq":
					if len(p.L.T) == 2 && p.L.T[R]*p.L.T["$r.hrs.round"] == -1 && p.L.K == 0 {
						same = true
					}
				}
			}
			if !(higher || (same && stepUp)) {
				ok = false
				bad = guardsString(alt)
			}
		}
		c.check(ok && len(alts) > 0, rule, name+": replay only raises (round, step)", st.Pos(), "round < r ∨ (round == r ∧ step < s)", "a logged record can lower the restored step or round (or restore it unconditionally): after restart the node re-enters a step it already voted in and signs a second vote: "+bad)
		// and only behind +2/3 of that round's votes
		c.requireAt(rule, name+": round/step restored only from a +2/3 vote list", st, wTrue("+2/3 of that round", `\.hasOverTwoThirds\(\)$`))
	}
}

// checkRoundIncreases: a round is (re)entered only with a strictly larger round number.
func checkRoundIncreases(c *Ctx, rule string) {
	const pk = "consensus"
	n := 0
	for _, fn := range c.pkgFuncs(pk) {
		for _, cs := range c.calls(fn, byCallee("consensus).resetForNewRound")) {
			n++
			_, a := callArgs(cs.Common())
			l := linOf(a[0])
			if len(l.T) == 1 && l.T["$r.hrs.round"] == 1 && l.K >= 1 {
				c.ok(rule, fnName(fn)+": next round = round+"+fmt.Sprint(l.K), cs.Pos(), "strictly larger")
				continue
			}
			R := render(a[0])
			ok := false
			for _, alt := range altGuards(cs.Instr.Block()) {
				ok = false
				for _, g := range alt {
					p := predOf(g)
					if p.Kind == "ge" && len(p.L.T) == 2 && p.L.T[R] == 1 && p.L.T["$r.hrs.round"] == -1 && p.L.K <= -1 {
						ok = true
					}
				}
				if !ok {
					break
				}
			}
			c.check(ok, rule, fnName(fn)+": a round is entered only with a strictly larger number", cs.Pos(), "cs.round < newRound", "resetForNewRound("+R+") is reachable with "+R+" ≤ cs.round: the node re-enters a round it already voted in and signs a second vote for it")
		}
	}
	c.check(n >= 3, rule, "round reset sites found", token.NoPos, fmt.Sprint(n), fmt.Sprintf("%d sites", n))
	// the only writer of the round outside recovery is _resetForNewRound
	for _, fn := range c.pkgFuncs(pk) {
		for _, fs := range fieldStores([]*ssa.Function{fn}, "hrs", "round") {
			okW := map[string]bool{"_resetForNewRound": true, "applyRoundWAL": true, "applyLockWAL": true, "applyCommitWAL": true}[fn.Name()]
			c.check(okW, rule, "the round is assigned only by _resetForNewRound (and restored by WAL recovery)", fs.Store.Pos(), fnName(fn), fnName(fn)+" assigns the round")
		}
	}
}

// checkWALSegments: segment bookkeeping of the WAL writer and the exact shape of the repair.
func checkWALSegments(c *Ctx, rulePrefix string) {
	const pk = "consensus"
	rule := rulePrefix + "segments"
	if ow := c.mustFn(pk, "", "OpenWALForWrite"); ow != nil {
		opens := c.calls(ow, byCallee("os.OpenFile"))
		stores := fieldStores([]*ssa.Function{ow}, "walWriter", "tailIdx")
		okO := len(opens) == 1 && len(stores) == 1
		if okO {
			_, a := callArgs(opens[0].Common())
			ff, _ := a[0].(*ssa.Call)
			okO = ff != nil && methodName(ff.Common()) == "fileFor" && strings.HasSuffix(render(ff.Call.Args[1]), ".tailIdx") && strings.Contains(render(ff.Call.Args[1]), "readWALInfo(")
			okO = okO && render(stores[0].Store.Val) == render(ff.Call.Args[1])
		}
		c.check(okO, rule, "the writer continues the existing tail segment and remembers its index", ow.Pos(), "OpenFile(fileFor(id, wi.tailIdx)); w.tailIdx = wi.tailIdx", "OpenWALForWrite does not record the tail index it opened: the next shift opens an old segment number and records land before older ones")
		if len(stores) == 1 {
			for _, e := range successAlts(ow) {
				tr, reach := pathAvoiding(ow, nil, isInstr(e.Ret), isInstr(stores[0].Store))
				c.check(!reach, rule, "every successful open records the tail index", e.pos(), "no bypass", "success without recording the tail index ("+traceString(tr)+")")
			}
		}
	}
	if sh := c.mustFn(pk, "walWriter", "shift"); sh != nil {
		opens := c.calls(sh, byCallee("os.OpenFile"))
		stores := fieldStores([]*ssa.Function{sh}, "walWriter", "tailIdx")
		okS := len(opens) == 1 && len(stores) == 1
		if okS {
			_, a := callArgs(opens[0].Common())
			ff, _ := a[0].(*ssa.Call)
			okS = ff != nil && methodName(ff.Common()) == "fileFor"
			if okS {
				l := linOf(ff.Call.Args[1])
				okS = len(l.T) == 1 && l.T["$r.tailIdx"] == 1 && l.K == 1
				l2 := linOf(stores[0].Store.Val)
				okS = okS && len(l2.T) == 1 && l2.T["$r.tailIdx"] == 1 && l2.K == 1
				ev := errValueOf(opens[0].Instr)
				pathEdgeFilter = nilErrEdgeFilter(ev)
				_, reach := pathAvoiding(sh, opens[0].Instr, isInstr(stores[0].Store), nil)
				pathEdgeFilter = nil
				okS = okS && !reach && dominatesInstr(opens[0].Instr, stores[0].Store)
			}
		}
		c.check(okS, rule, "shift opens segment tail+1 and then advances the tail index by one", sh.Pos(), "OpenFile(fileFor(id, tailIdx+1)); tailIdx++", "shift does not move to exactly the next segment number")
	}
	if hk := c.mustFn(pk, "walWriter", "doHousekeeping"); hk != nil {
		rms := c.calls(hk, byCallee("os.Remove"))
		if len(rms) != 1 {
			c.violate(rule, "housekeeping removes old segments at one place", hk.Pos(), fmt.Sprintf("%d Remove sites", len(rms)))
		} else {
			okG := false
			for _, g := range guardsAt(rms[0].Instr) {
				p := predOf(g)
				if p.Kind != "ge" || len(p.L.T) != 2 {
					continue
				}
				hasTotal, hasLimit := false, false
				for a, co := range p.L.T {
					if co == 1 && strings.HasSuffix(a, "totalSize") || (co == 1 && strings.Contains(a, "totalSize")) {
						hasTotal = true
					}
					if co == -1 && strings.HasSuffix(a, ".cfg.TotalLimit") {
						hasLimit = true
					}
				}
				if hasTotal && hasLimit && p.L.K == -1 {
					okG = true
				}
			}
			c.check(okG, rule, "old segments are purged only while the total size exceeds the total limit", rms[0].Pos(), "totalSize > cfg.TotalLimit", "the purge loop is not bounded by cfg.TotalLimit: segments that still hold the latest records (own votes) can be deleted")
			_, a := callArgs(rms[0].Common())
			c.check(strings.Contains(render(a[0]), "fileFor($r.id,") && strings.Contains(render(a[0]), "headIdx"), rule, "the segment purged is the head (oldest) one", rms[0].Pos(), render(a[0]), "purges "+render(a[0]))
		}
		for _, cs := range c.calls(hk, byCallee("walWriter).shift")) {
			okG := false
			for _, g := range guardsAt(cs.Instr) {
				p := predOf(g)
				if p.Kind == "ge" && len(p.L.T) == 2 && p.L.K == -1 {
					for a, co := range p.L.T {
						if co == -1 && strings.HasSuffix(a, ".cfg.FileLimit") {
							okG = true
						}
					}
				}
			}
			c.check(okG, rule, "a new segment is started when the tail exceeds the file limit", cs.Pos(), "tailSize > cfg.FileLimit", "shift guard differs")
		}
	}

	// ---- exact repair shape
	rule = rulePrefix + "repair-exact"
	rep := c.mustFn(pk, "walReader", "CloseAndRepair")
	if rep == nil {
		return
	}
	tr := c.calls(rep, byCallee("os.Truncate"))
	rm := c.calls(rep, byCallee("os.Remove"))
	if len(tr) != 1 || len(rm) != 1 {
		c.violate(rule, "CloseAndRepair structure", rep.Pos(), "expected one Truncate and one Remove site")
		return
	}
	// (1) inside the segment that contains the valid offset the tail is cut unless the offset is exactly the segment end
	isSizeMinusLeft := func(p Pred, strictOK bool) bool {
		if p.Kind != "ge" || len(p.L.T) != 2 || (p.L.K != 0 && !(strictOK && p.L.K < 0)) {
			return false
		}
		hasSize, hasLeft := false, false
		for a, co := range p.L.T {
			if co == 1 && strings.Contains(a, "fileSizes[") {
				hasSize = true
			}
			if co == -1 && strings.HasPrefix(a, "phi(") {
				hasLeft = true
			}
		}
		return hasSize && hasLeft
	}
	isLeftMinusSize := func(p Pred) bool { // left − size + K ≥ 0 with K ≤ 0, or left == size
		if len(p.L.T) != 2 {
			return false
		}
		hasSize, hasLeft := false, false
		for a, co := range p.L.T {
			if strings.Contains(a, "fileSizes[") {
				hasSize = true
				if p.Kind == "ge" && co != -1 {
					return false
				}
			}
			if strings.HasPrefix(a, "phi(") {
				hasLeft = true
				if p.Kind == "ge" && co != 1 {
					return false
				}
			}
		}
		if !hasSize || !hasLeft {
			return false
		}
		return (p.Kind == "ge" && p.L.K <= 0) || (p.Kind == "eq" && p.L.K == 0)
	}
	var inSeg *ssa.If
	var otherSucc *ssa.BasicBlock
	for _, b := range rep.Blocks {
		if len(b.Instrs) == 0 || len(b.Succs) != 2 {
			continue
		}
		iff, ok := b.Instrs[len(b.Instrs)-1].(*ssa.If)
		if !ok || !b.Dominates(tr[0].Instr.Block()) {
			continue
		}
		for i, sc := range b.Succs {
			for _, g := range edgeGuard(b, sc) {
				if isSizeMinusLeft(predOf(g), false) && sc.Dominates(tr[0].Instr.Block()) {
					inSeg = iff
					otherSucc = b.Succs[1-i]
				}
			}
		}
	}
	if !c.check(inSeg != nil, rule, "the segment holding the valid offset is found by left ≤ size", rep.Pos(), "if left <= s", "no `left <= size` test dominates the truncation") {
		return
	}
	segBlock := inSeg.Block()
	old := pathEdgeFilter
	pathEdgeFilter = func(p, s *ssa.BasicBlock) bool {
		if p == segBlock && s == otherSucc {
			return true
		}
		for _, g := range edgeGuard(p, s) {
			// left ≥ size together with left ≤ size: nothing to cut
			if isLeftMinusSize(predOf(g)) {
				return true
			}
		}
		return false
	}
	trc, reach := pathAvoiding(rep, inSeg, isReturn, isInstr(tr[0].Instr))
	pathEdgeFilter = old
	c.check(!reach, rule, "a segment longer than the valid offset is always truncated", tr[0].Pos(), "skip only when left == size", "the torn tail can be left in place (the truncation is skipped although left < size): later records are appended behind garbage ("+traceString(trc)+")")
	// (2) all later segments are removed: the removal loop runs while i ≤ tailIdx exactly
	h := loopHeaderOf(rm[0].Instr.Block())
	okB := false
	if h != nil {
		if iff, ok := h.Instrs[len(h.Instrs)-1].(*ssa.If); ok {
			v, pol := stripNot(iff.Cond, true)
			p := predOfVal(v, pol)
			if p.Kind == "ge" && len(p.L.T) == 2 && p.L.T["$r.wi.tailIdx"] == 1 && p.L.K == 0 {
				okB = true
			}
		}
	}
	c.check(okB, rule, "every segment after the cut, up to and including the tail, is removed", rm[0].Pos(), "for i := idx+1; i <= tailIdx", "the removal loop does not run to the tail segment inclusively: a segment that begins with a torn record survives and hides everything written after it")
	// (3) no early success before the segment walk
	if hs := loopHeaderOf(segBlock); hs != nil {
		for _, e := range successAlts(rep) {
			trc, reach := pathAvoiding(rep, nil, isInstr(e.Ret), func(in ssa.Instruction) bool { return in == hs.Instrs[0] })
			c.check(!reach, rule, "repair succeeds only after walking the segments", e.pos(), "no early return", "CloseAndRepair can return success without looking at the segments (e.g. when nothing was valid): a torn first record is never cut ("+traceString(trc)+")")
		}
	} else {
		c.violate(rule, "segment walk is a loop", segBlock.Instrs[0].Pos(), "the left <= size test is not inside a loop over the segment sizes")
	}
}
