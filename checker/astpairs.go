package main

import (
	"fmt"
	"go/ast"
	"go/token"
	"go/types"
	"sort"
	"strconv"
	"strings"
)

// codecPair is the encode/decode field tables of one type with both
// RLPEncodeSelf and RLPDecodeSelf, extracted from the syntax tree.
type codecPair struct {
	Type     string
	Pos      token.Pos
	Enc      [][]string // every EncodeListOf/EncodeMulti argument list (receiver-relative)
	Dec      [][]string // every DecodeMulti/DecodeListOf pointer list (receiver-relative)
	CntLits  []int64    // integer literals compared with the decode count
	Simple   bool       // both sides use the list-of-fields idiom
	EncPos   token.Pos
	DecPos   token.Pos
	ResetsTo map[int64][]string // cnt literal -> fields assigned in that branch

	otherCalls int // element-wise Encode/Decode calls next to the list calls (mixed idiom)
}

func recvName(fd *ast.FuncDecl) (typ, name string) {
	if fd.Recv == nil || len(fd.Recv.List) == 0 {
		return "", ""
	}
	f := fd.Recv.List[0]
	t := f.Type
	if s, ok := t.(*ast.StarExpr); ok {
		t = s.X
	}
	if id, ok := t.(*ast.Ident); ok {
		typ = id.Name
	}
	if len(f.Names) > 0 {
		name = f.Names[0].Name
	}
	return
}

func relExpr(e ast.Expr, recv string) string {
	if u, ok := e.(*ast.UnaryExpr); ok && u.Op == token.AND {
		e = u.X
	}
	s := types.ExprString(e)
	if recv != "" && strings.HasPrefix(s, recv+".") {
		s = "$." + s[len(recv)+1:]
	}
	return s
}

// codecPairs extracts the pairs of one loaded package.
func (c *Ctx) codecPairs(pkgRel string) []*codecPair {
	p := c.pkg(pkgRel)
	by := map[string]*codecPair{}
	get := func(t string, pos token.Pos) *codecPair {
		if by[t] == nil {
			by[t] = &codecPair{Type: t, Pos: pos, ResetsTo: map[int64][]string{}}
		}
		return by[t]
	}
	hasEnc, hasDec := map[string]bool{}, map[string]bool{}
	for _, file := range p.Syntax {
		if strings.HasSuffix(c.L.Fset.Position(file.Pos()).Filename, "_test.go") {
			continue
		}
		for _, d := range file.Decls {
			fd, ok := d.(*ast.FuncDecl)
			if !ok || fd.Body == nil {
				continue
			}
			typ, recv := recvName(fd)
			if typ == "" {
				continue
			}
			switch fd.Name.Name {
			case "RLPEncodeSelf":
				hasEnc[typ] = true
				cp := get(typ, fd.Pos())
				cp.EncPos = fd.Pos()
				ast.Inspect(fd.Body, func(n ast.Node) bool {
					call, ok := n.(*ast.CallExpr)
					if !ok {
						return true
					}
					sel, ok := call.Fun.(*ast.SelectorExpr)
					if !ok {
						return true
					}
					if sel.Sel.Name == "Encode" || sel.Sel.Name == "EncodeNil" {
						cp.otherCalls++
					}
					if sel.Sel.Name == "EncodeListOf" || sel.Sel.Name == "EncodeMulti" {
						var fs []string
						for _, a := range call.Args {
							fs = append(fs, relExpr(a, recv))
						}
						cp.Enc = append(cp.Enc, fs)
					}
					return true
				})
			case "RLPDecodeSelf":
				hasDec[typ] = true
				cp := get(typ, fd.Pos())
				cp.DecPos = fd.Pos()
				ast.Inspect(fd.Body, func(n ast.Node) bool {
					switch x := n.(type) {
					case *ast.CallExpr:
						sel, ok := x.Fun.(*ast.SelectorExpr)
						if ok && sel.Sel.Name == "Decode" {
							cp.otherCalls++
						}
						if ok && (sel.Sel.Name == "DecodeMulti" || sel.Sel.Name == "DecodeListOf") {
							var fs []string
							for _, a := range x.Args {
								fs = append(fs, relExpr(a, recv))
							}
							cp.Dec = append(cp.Dec, fs)
						}
					case *ast.BlockStmt:
						// the same arm written as a rejecting guard: `if cnt != K || err != io.EOF { return err }`
						// followed by the resets on the fall-through path
						for i, st := range x.List {
							ifs, ok := st.(*ast.IfStmt)
							if !ok || ifs.Else != nil || len(ifs.Body.List) == 0 {
								continue
							}
							if _, isRet := ifs.Body.List[len(ifs.Body.List)-1].(*ast.ReturnStmt); !isRet {
								continue
							}
							var lit int64 = -1
							if be, ok := ifs.Cond.(*ast.BinaryExpr); ok && be.Op == token.LOR {
								for _, part := range []ast.Expr{be.X, be.Y} {
									if pb, ok := part.(*ast.BinaryExpr); ok && pb.Op == token.NEQ {
										for _, side := range []ast.Expr{pb.X, pb.Y} {
											if bl, ok := side.(*ast.BasicLit); ok && bl.Kind == token.INT {
												v, _ := strconv.ParseInt(bl.Value, 0, 64)
												lit = v
											}
										}
									}
								}
							}
							if lit < 0 {
								continue
							}
							cp.CntLits = append(cp.CntLits, lit)
							for _, rest := range x.List[i+1:] {
								if as, ok := rest.(*ast.AssignStmt); ok {
									for _, l := range as.Lhs {
										cp.ResetsTo[lit] = append(cp.ResetsTo[lit], relExpr(l, recv))
									}
								}
							}
						}
					case *ast.IfStmt:
						// if cnt == K && err == io.EOF { field = nil ... }
						var lit int64 = -1
						ast.Inspect(x.Cond, func(m ast.Node) bool {
							if be, ok := m.(*ast.BinaryExpr); ok && be.Op == token.EQL {
								for _, side := range []ast.Expr{be.X, be.Y} {
									if bl, ok := side.(*ast.BasicLit); ok && bl.Kind == token.INT {
										v, _ := strconv.ParseInt(bl.Value, 0, 64)
										lit = v
									}
								}
							}
							return true
						})
						if lit >= 0 {
							cp.CntLits = append(cp.CntLits, lit)
							for _, st := range x.Body.List {
								if as, ok := st.(*ast.AssignStmt); ok {
									for _, l := range as.Lhs {
										cp.ResetsTo[lit] = append(cp.ResetsTo[lit], relExpr(l, recv))
									}
								}
							}
						}
					}
					return true
				})
			}
		}
	}
	var out []*codecPair
	var names []string
	for t := range by {
		names = append(names, t)
	}
	sort.Strings(names)
	for _, t := range names {
		if hasEnc[t] && hasDec[t] {
			cp := by[t]
			cp.Simple = len(cp.Enc) > 0 && len(cp.Dec) == 1 && cp.otherCalls == 0
			// list-of-fields idiom: every element is a field of the receiver
			for _, l := range append(append([][]string{}, cp.Enc...), cp.Dec...) {
				for _, f := range l {
					if !strings.HasPrefix(f, "$.") {
						cp.Simple = false
					}
				}
			}
			out = append(out, cp)
		}
	}
	return out
}

// checkCodecPair applies the agreement rule to a simple pair; returns false
// when the pair does not use the list-of-fields idiom.
func (c *Ctx) checkCodecPair(rule string, cp *codecPair, mustBeSimple bool) bool {
	name := cp.Type + " encode/decode"
	if !cp.Simple {
		if mustBeSimple {
			c.undecided(rule, name, cp.Pos, "the type no longer uses the EncodeListOf/DecodeMulti idiom; field agreement cannot be read off")
		}
		return false
	}
	dec := cp.Dec[0]
	longest := cp.Enc[0]
	for _, e := range cp.Enc {
		if len(e) > len(longest) {
			longest = e
		}
	}
	eq := func(a, b []string) bool {
		if len(a) != len(b) {
			return false
		}
		for i := range a {
			if a[i] != b[i] {
				return false
			}
		}
		return true
	}
	c.check(eq(longest, dec), rule, name+": full form", cp.EncPos, fmt.Sprintf("%d fields in the same order on both sides", len(dec)),
		fmt.Sprintf("encoder writes %v but decoder reads %v", longest, dec))
	for _, e := range cp.Enc {
		if len(e) == len(longest) {
			continue
		}
		c.check(eq(e, dec[:min(len(e), len(dec))]), rule, fmt.Sprintf("%s: short form (%d fields) is a prefix of the full form", cp.Type, len(e)), cp.EncPos, "prefix", fmt.Sprintf("short form %v is not a prefix of %v", e, dec))
		found := false
		for _, k := range cp.CntLits {
			if k == int64(len(e)) {
				found = true
			}
		}
		c.check(found, rule, fmt.Sprintf("%s: decoder accepts the short form of %d fields", cp.Type, len(e)), cp.DecPos, fmt.Sprintf("cnt == %d", len(e)), fmt.Sprintf("encoder can emit %d fields but the decoder has no `cnt == %d` arm (it accepts %v)", len(e), len(e), cp.CntLits))
		// the omitted tail is reset in that arm
		if found {
			tail := dec[len(e):]
			resets := cp.ResetsTo[int64(len(e))]
			okReset := true
			for _, f := range tail {
				has := false
				for _, r := range resets {
					if r == f {
						has = true
					}
				}
				if !has {
					okReset = false
				}
			}
			c.check(okReset, rule, fmt.Sprintf("%s: omitted tail reset in the short arm", cp.Type), cp.DecPos, strings.Join(tail, ","), fmt.Sprintf("fields %v are not reset when the short form is decoded", tail))
		}
	}
	for _, k := range cp.CntLits {
		okK := false
		for _, e := range cp.Enc {
			if int64(len(e)) == k {
				okK = true
			}
		}
		c.check(okK, rule, fmt.Sprintf("%s: decoder short arm cnt == %d has an encoder form", cp.Type, k), cp.DecPos, "matches an encoder form", fmt.Sprintf("decoder accepts %d fields but no encoder form has that length", k))
	}
	return true
}

func min(a, b int) int {
	if a < b {
		return a
	}
	return b
}
