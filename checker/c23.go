package main

import (
	"fmt"
	"go/ast"
	"go/token"
	"go/types"
	"reflect"
	"sort"
	"strings"

	"golang.org/x/tools/go/ssa"
)

// C23 — the RLP codec round-trips every supported value and rejects malformed input.
func init() {
	register(&Prop{
		ID:             "C23",
		Pkgs:           []string{"common/codec"},
		Run:            runC23,
		MinObligations: 60,
		Technique:      "static analysis: table agreement between the RLP writer's tag formulas and every reader's tag partition (boundaries and offsets extracted from branch guards), sibling agreement of reflect.Kind case sets, guard dominance of every input-sized allocation and of every narrowing store, must-pass-through of element counting and key sorting",
		LevelText:      "Decides the structural conditions the round trip and the rejection of malformed input rest on: (1) writeBytes/writeList emit tags 0x80+len / 0xB7+n / 0xC0+len / 0xF7+n with the short form up to 55 bytes, and skipOne, readBytes, readList and ReadRaw partition the tag byte at exactly those boundaries with exactly those offsets; nil is 0xF8 0x00 on both sides; (2) every element writer counts itself exactly once in its parent (map parity check on Close); (3) every allocation whose size comes from the input is bounded by a tag class (≤ 55) or dominated by `size ≤ maxSB`, and every header slice stays inside the 9-byte header; (4) every sub-64-bit integer kind is stored only behind `value == T64(Tn(value))` for its own width, and only behind a successful overflow-checked conversion; (5) encodeValue/decodeValue and WriteValue/ReadValue accept the same kinds (Interface is encode-only); (6) map keys pass sort.Slice with the comparator of their own kind family on every path before emission, and unsupported key kinds are errors; (7) closing a sub-reader/sub-writer (flush) is never deferred or discarded — its error reaches the caller — and a container decode succeeds only through that close, which is where a list announcing more payload than the input holds is rejected.",
		LevelNote:      "Not decided: equality of decoded and encoded values for all inputs (a runtime relation), absence of panics inside reflect, and the msgpack codec.",
		Explanation:    "C23 rules: tag-partition (K4), null (K4), count (K2), bounded-alloc (K11), narrowing (K1 sibling), kinds (K4 AST), sorted-maps (K2), close-propagated (K2 + error discipline).",
		Mutants: []Mutant{
			{Name: "struct-flush-deferred", File: "common/codec/codec.go", Old: "\t\tif err := decodeRecursiveFields(d2, elem); err != nil {\n\t\t\treturn err\n\t\t}\n\t\treturn d.flush()\n", New: "\t\tdefer d.flush()\n\t\treturn decodeRecursiveFields(d2, elem)\n", Desc: "a struct list announcing more payload than the input holds is accepted"},
			{Name: "map-flush-ignored", File: "common/codec/codec.go", Old: "\t\telem.Set(m)\n\t\treturn d.flush()", New: "\t\telem.Set(m)\n\t\t_ = d.flush()\n\t\treturn nil", Desc: "close error of a decoded map is dropped"},
			{Name: "readlist-boundary", File: "common/codec/rlp.go", Old: "\tcase tag <= 0xF7:\n\t\tsize := tag - 0xC0\n\t\treturn &rlpReader{", New: "\tcase tag < 0xF7:\n\t\tsize := tag - 0xC0\n\t\treturn &rlpReader{", Desc: "55-byte lists decoded as empty"},
			{Name: "skip-offset", File: "common/codec/rlp.go", Old: "\tcase tag <= 0xF7:\n\t\tsz := tag - 0xC0\n\t\treturn r.skipN(sz)", New: "\tcase tag <= 0xF7:\n\t\tsz := tag - 0xBF\n\t\treturn r.skipN(sz)", Desc: "Skip consumes one byte too many"},
			{Name: "writer-short-limit", File: "common/codec/rlp.go", Old: "\tcase l <= 55:\n\t\tvar header [1]byte\n\t\theader[0] = byte(0xC0 + l)", New: "\tcase l <= 56:\n\t\tvar header [1]byte\n\t\theader[0] = byte(0xC0 + l)", Desc: "56-byte list written with a long-form tag value"},
			{Name: "null-not-counted", File: "common/codec/rlp.go", Old: "func (w *rlpWriter) WriteNull() error {\n\tw.countN(1)\n\treturn w.writeNull()", New: "func (w *rlpWriter) WriteNull() error {\n\treturn w.writeBytes(nil)", Desc: "maps with an odd number of nils fail to encode"},
			{Name: "raw-counted-twice", File: "common/codec/rlp.go", Old: "func (w *rlpWriter) WriteRaw(b []byte) error {\n\tw.countN(1)\n\treturn w.writeAll(b)", New: "func (w *rlpWriter) WriteRaw(b []byte) error {\n\tw.countN(1)\n\tw.countN(1)\n\treturn w.writeAll(b)", Desc: "map parity wrong with raw elements"},
			{Name: "unbounded-alloc", File: "common/codec/rlp.go", Old: "\t\tif sz2 > r.maxSB {\n\t\t\treturn nil, cerrors.Wrapf(ErrInvalidFormat, \"InvalidSize(%d>%d)\", sz2, r.maxSB)\n\t\t}\n\t\tbuffer := make([]byte, sz2)", New: "\t\tbuffer := make([]byte, sz2)", Desc: "attacker-chosen allocation size"},
			{Name: "readmore-unbounded", File: "common/codec/rlp.go", Old: "\tif size+len(org) > r.maxSB {", New: "\tif size > r.maxSB {", Desc: "raw read may exceed the limit by the header"},
			{Name: "uint16-unchecked", File: "common/codec/rlp.go", Old: "\t\tif value != uint64(uint16(value)) {", New: "\t\tif value != uint64(uint32(value)) {", Desc: "uint16 overflow accepted and truncated"},
			{Name: "int8-unchecked", File: "common/codec/rlp.go", Old: "\tcase reflect.Int8:\n\t\tif value != int64(int8(value)) {\n\t\t\treturn cerrors.Wrapf(ErrInvalidFormat, \"IntOverflow(bs=%#x,type=int8)\", bs)\n\t\t}\n", New: "", Desc: "int8 overflow accepted and truncated"},
			{Name: "overflow-flag-ignored", File: "common/codec/rlp.go", Old: "\tvalue, ok := intconv.SafeBytesToUint64(bs)\n\tif !ok {\n\t\treturn cerrors.Wrapf(ErrInvalidFormat, \"UintOverflow(bs=%#x)\", bs)\n\t}", New: "\tvalue, _ := intconv.SafeBytesToUint64(bs)", Desc: "more than 8 bytes accepted as uint64"},
			{Name: "nil-marker-reader", File: "common/codec/rlp.go", Old: "\t\tif sz == 1 && sz2 == 0 {\n\t\t\treturn nil, ErrNilValue", New: "\t\tif sz == 2 && sz2 == 0 {\n\t\t\treturn nil, ErrNilValue", Desc: "nil list decoded as empty list"},
			{Name: "map-unsorted", File: "common/codec/codec.go", Old: "\t\t\tcase reflect.Int, reflect.Int8, reflect.Int16, reflect.Int32, reflect.Int64:\n\t\t\t\tsort.Slice(keys, func(i, j int) bool {\n\t\t\t\t\treturn keys[i].Int() < keys[j].Int()\n\t\t\t\t})", New: "\t\t\tcase reflect.Int, reflect.Int8, reflect.Int16, reflect.Int32, reflect.Int64:", Desc: "integer-keyed maps encoded in iteration order"},
			{Name: "map-wrong-comparator", File: "common/codec/codec.go", Old: "\t\t\t\t\treturn keys[i].Uint() < keys[j].Uint()", New: "\t\t\t\t\treturn keys[i].Uint() < keys[i].Uint()", Desc: "comparator ignores the second key"},
			{Name: "decode-kind-missing", File: "common/codec/codec.go", Old: "\tcase reflect.Bool, reflect.Uint, reflect.Uint8, reflect.Uint16, reflect.Uint32, reflect.Uint64,\n\t\treflect.Int, reflect.Int8, reflect.Int16, reflect.Int32, reflect.Int64, reflect.String:\n\t\treturn d.real.ReadValue(elem)", New: "\tcase reflect.Bool, reflect.Uint, reflect.Uint8, reflect.Uint16, reflect.Uint32, reflect.Uint64,\n\t\treflect.Int, reflect.Int8, reflect.Int32, reflect.Int64, reflect.String:\n\t\treturn d.real.ReadValue(elem)", Desc: "int16 encodes but does not decode"},
		},
	})
}

const c23Tag = "alloc<*[9]byte>[0]"

// boundsOnAll is boundsOn that also understands equalities.
func boundsOnAll(gs []Guard, atom string) (lo, hi int64, hasLo, hasHi bool) {
	lo, hi, hasLo, hasHi = boundsOn(gs, atom)
	for _, g := range gs {
		p := predOf(g)
		if p.Kind == "eq" && len(p.L.T) == 1 && (p.L.T[atom] == 1 || p.L.T[atom] == -1) {
			v := -p.L.K * p.L.T[atom]
			if !hasLo || v > lo {
				lo, hasLo = v, true
			}
			if !hasHi || v < hi {
				hi, hasHi = v, true
			}
		}
	}
	return
}

// kindCases collects the reflect.Kind names per case clause of the first
// `switch x.Kind()` statement at the top level of the function body.
func kindCases(c *Ctx, pkgRel, recv, name string, nth int) ([][]string, token.Pos) {
	p := c.pkg(pkgRel)
	for _, f := range p.Syntax {
		for _, d := range f.Decls {
			fd, ok := d.(*ast.FuncDecl)
			if !ok || fd.Name.Name != name || fd.Body == nil {
				continue
			}
			r := ""
			if fd.Recv != nil && len(fd.Recv.List) > 0 {
				t := fd.Recv.List[0].Type
				if s, ok := t.(*ast.StarExpr); ok {
					t = s.X
				}
				if id, ok := t.(*ast.Ident); ok {
					r = id.Name
				}
			}
			if r != recv {
				continue
			}
			n := 0
			for _, st := range fd.Body.List {
				sw, ok := st.(*ast.SwitchStmt)
				if !ok || sw.Tag == nil {
					continue
				}
				call, ok := sw.Tag.(*ast.CallExpr)
				if !ok {
					continue
				}
				sel, ok := call.Fun.(*ast.SelectorExpr)
				if !ok || sel.Sel.Name != "Kind" {
					continue
				}
				if n != nth {
					n++
					continue
				}
				var out [][]string
				for _, cs := range sw.Body.List {
					cc := cs.(*ast.CaseClause)
					var names []string
					for _, e := range cc.List {
						if s, ok := e.(*ast.SelectorExpr); ok {
							names = append(names, s.Sel.Name)
						} else {
							names = append(names, "?")
						}
					}
					if cc.List == nil {
						names = []string{"default"}
					}
					// a `fallthrough` joins this clause with the next one
					if len(cc.Body) == 1 {
						if bs, ok := cc.Body[0].(*ast.BranchStmt); ok && bs.Tok == token.FALLTHROUGH {
							names = append(names, "+fallthrough")
						}
					}
					out = append(out, names)
				}
				return out, sw.Pos()
			}
		}
	}
	return nil, token.NoPos
}

func flatKinds(cs [][]string) []string {
	var out []string
	for _, c := range cs {
		for _, n := range c {
			if n != "default" && n != "+fallthrough" {
				out = append(out, n)
			}
		}
	}
	sort.Strings(out)
	return out
}

func runC23(c *Ctx) {
	runC23IntPairs(c, "C23.int-converters")
	runC23Extra(c)
	const pk = "common/codec"

	// ------------------------------------------------------------ writer tables
	type wtab struct{ shortOff, shortMax, longOff, emptyTag int64 }
	extract := func(name string) (wtab, bool) {
		tab := wtab{-1, -1, -1, -1}
		fn := c.mustFn(pk, "rlpWriter", name)
		if fn == nil {
			return tab, false
		}
		for _, b := range fn.Blocks {
			for _, in := range b.Instrs {
				st, ok := in.(*ssa.Store)
				if !ok {
					continue
				}
				ia, ok := st.Addr.(*ssa.IndexAddr)
				if !ok || !isZeroConst(ia.Index) {
					continue
				}
				al, ok := ia.X.(*ssa.Alloc)
				if !ok || !strings.Contains(al.Type().String(), "[1]byte") {
					continue
				}
				v := st.Val
				if k, ok := constInt(v); ok {
					// literal single-byte sequence: the empty form
					_, hi, _, hasHi := boundsOnAll(guardsAtBlock(b), "len($0)")
					if hasHi && hi == 0 {
						tab.emptyTag = k
					} else {
						c.violate("C23.tag-partition", name+": constant tag only for the empty payload", st.Pos(), fmt.Sprintf("constant tag %#x written without len == 0", k))
					}
					continue
				}
				if cv, ok := v.(*ssa.Convert); ok {
					v = cv.X
				}
				l := linOf(v)
				switch {
				case len(l.T) == 1 && l.T["len($0)"] == 1:
					tab.shortOff = l.K
					hi := int64(-1)
					for _, alt := range altGuards(b) {
						_, h, _, hasHi := boundsOnAll(alt, "len($0)")
						if !hasHi {
							hi = 1 << 40
						} else if h > hi {
							hi = h
						}
					}
					tab.shortMax = hi
				case len(l.T) == 1 && l.T["len(codec.sizeToBytes(len($0)))"] == 1:
					tab.longOff = l.K
					lo, _, hasLo, _ := boundsOnAll(guardsAtBlock(b), "len($0)")
					c.check(hasLo && lo == tab.shortMax+1, "C23.tag-partition", name+": long form starts right above the short form", st.Pos(), fmt.Sprintf("len ≥ %d", lo), "long form is used from another length than short-max+1")
				default:
					c.violate("C23.tag-partition", name+": tag formula", st.Pos(), "unrecognised tag formula "+l.String())
				}
			}
		}
		ok := tab.shortOff >= 0 && tab.shortMax >= 0 && tab.longOff >= 0 && tab.emptyTag >= 0
		c.check(ok, "C23.tag-partition", name+" has empty/short/long forms", fn.Pos(), fmt.Sprintf("empty %#x, short %#x+len (≤%d), long %#x+n", tab.emptyTag, tab.shortOff, tab.shortMax, tab.longOff), "could not extract the writer's tag formulas")
		if ok {
			c.check(tab.emptyTag == tab.shortOff, "C23.tag-partition", name+": empty form is the short form of length 0", fn.Pos(), "equal", fmt.Sprintf("empty tag %#x ≠ short offset %#x", tab.emptyTag, tab.shortOff))
			c.check(tab.longOff == tab.shortOff+tab.shortMax, "C23.tag-partition", name+": long tags follow the short tags", fn.Pos(), fmt.Sprintf("%#x = %#x+%d", tab.longOff, tab.shortOff, tab.shortMax), "short and long tag ranges overlap or leave a gap")
		}
		return tab, ok
	}
	wb, okB := extract("writeBytes")
	wl, okL := extract("writeList")
	var selfHi int64 = -1
	if fn := c.fn(pk, "rlpWriter", "writeBytes"); fn != nil {
		// bare emission: writeAll(b) without a header on that path
		for _, cs := range c.calls(fn, byCallee("rlpWriter).writeAll")) {
			_, a := callArgs(cs.Common())
			if render(a[0]) != "$0" {
				continue
			}
			// header written before on this path?
			hdr := false
			for _, h := range c.calls(fn, byCallee("rlpWriter).writeAll")) {
				if h.Instr != cs.Instr && dominatesInstr(h.Instr, cs.Instr) {
					hdr = true
				}
			}
			if hdr {
				continue
			}
			gs := guardsAt(cs.Instr)
			_, hi, _, hasHi := boundsOn(gs, "$0[0]")
			_, lhi, _, lHas := boundsOnAll(gs, "len($0)")
			if hasHi && lHas && lhi == 1 {
				selfHi = hi
			} else {
				c.violate("C23.tag-partition", "writeBytes: bare emission only for one byte below the tag range", cs.Pos(), "payload written without header and without `len == 1 && b[0] < 0x80`")
			}
		}
	}
	if okB && okL {
		c.check(selfHi == wb.shortOff-1, "C23.tag-partition", "bare bytes stay below every tag", token.NoPos, fmt.Sprintf("bare ≤ %#x", selfHi), fmt.Sprintf("bare bytes up to %#x, first tag %#x", selfHi, wb.shortOff))
		c.check(wl.shortOff-1-wb.longOff == 8, "C23.tag-partition", "bytes long form has room for 8 size bytes below the list tags", token.NoPos, fmt.Sprintf("%#x..%#x", wb.longOff+1, wl.shortOff-1), "byte-string and list tag ranges overlap")
		c.check(wl.longOff+8 == 255, "C23.tag-partition", "list long form ends at 0xFF", token.NoPos, "0xF8..0xFF", "list long form range does not fit a byte")
	}
	uppers := map[int64]string{selfHi: "bare", wb.shortOff + wb.shortMax: "bytes-short", wl.shortOff - 1: "bytes-long", wl.shortOff + wl.shortMax: "list-short"}
	lowers := map[int64]string{wb.shortOff: "bytes-short", wb.longOff + 1: "bytes-long", wl.shortOff: "list-short", wl.longOff + 1: "list-long"}
	offs := map[int64][2]int64{wb.shortOff: {wb.shortOff, wb.shortOff + wb.shortMax}, wb.longOff: {wb.longOff + 1, wl.shortOff - 1}, wl.shortOff: {wl.shortOff, wl.shortOff + wl.shortMax}, wl.longOff: {wl.longOff + 1, 255}}

	// ------------------------------------------------------------ reader partitions
	readers := map[string][]int64{
		"skipOne":   {wb.shortOff, wb.longOff, wl.shortOff, wl.longOff},
		"ReadRaw":   {wb.shortOff, wb.longOff, wl.shortOff, wl.longOff},
		"readBytes": {wb.shortOff, wb.longOff},
		"readList":  {wl.shortOff, wl.longOff},
	}
	var rnames []string
	for n := range readers {
		rnames = append(rnames, n)
	}
	sort.Strings(rnames)
	for _, name := range rnames {
		fn := c.mustFn(pk, "rlpReader", name)
		if fn == nil || !okB || !okL {
			continue
		}
		// every threshold on the tag is one of the writer's boundaries
		nT := 0
		for _, b := range fn.Blocks {
			if len(b.Instrs) == 0 {
				continue
			}
			iff, ok := b.Instrs[len(b.Instrs)-1].(*ssa.If)
			if !ok {
				continue
			}
			v, pol := stripNot(iff.Cond, true)
			p := predOfVal(v, pol)
			if len(p.L.T) != 1 || (p.L.T[c23Tag] != 1 && p.L.T[c23Tag] != -1) {
				continue
			}
			nT++
			switch p.Kind {
			case "ge":
				if p.L.T[c23Tag] == 1 {
					_, ok := lowers[-p.L.K]
					_, ok2 := uppers[-p.L.K-1]
					c.check(ok || ok2, "C23.tag-partition", name+": tag threshold is a writer boundary", iff.Pos(), fmt.Sprintf("tag ≥ %#x", -p.L.K), fmt.Sprintf("%s splits the tag byte at %#x, which is not a boundary of the writer's tag ranges", name, -p.L.K))
				} else {
					_, ok := uppers[p.L.K]
					_, ok2 := lowers[p.L.K+1]
					c.check(ok || ok2, "C23.tag-partition", name+": tag threshold is a writer boundary", iff.Pos(), fmt.Sprintf("tag ≤ %#x", p.L.K), fmt.Sprintf("%s splits the tag byte at %#x, which is not a boundary of the writer's tag ranges", name, p.L.K))
				}
			case "eq", "ne":
				v := -p.L.K * p.L.T[c23Tag]
				c.check(v == wl.longOff+1, "C23.tag-partition", name+": tag equality only for the nil marker", iff.Pos(), fmt.Sprintf("tag == %#x", v), fmt.Sprintf("tag compared with %#x", v))
			}
		}
		c.check(nT >= 2, "C23.tag-partition", name+" partitions the tag byte", fn.Pos(), fmt.Sprintf("%d thresholds", nT), "no tag thresholds found")
		// offsets with their ranges
		found := map[int64]bool{}
		for _, b := range fn.Blocks {
			for _, in := range b.Instrs {
				bo, ok := in.(*ssa.BinOp)
				if !ok || bo.Op != token.SUB {
					continue
				}
				lx := linOf(bo.X)
				k, isK := constInt(bo.Y)
				if !isK || len(lx.T) != 1 || lx.T[c23Tag] != 1 || lx.K != 0 {
					continue
				}
				lo, hi, hasLo, hasHi := boundsOnAll(guardsAtBlock(b), c23Tag)
				if !hasHi {
					hi = 255
				}
				want, known := offs[k]
				if !known || !hasLo {
					c.violate("C23.tag-partition", fmt.Sprintf("%s: offset %#x belongs to a writer class", name, k), bo.Pos(), fmt.Sprintf("tag − %#x is not one of the writer's offsets (or has no lower bound)", k))
					continue
				}
				found[k] = true
				c.check(lo == want[0] && hi == want[1], "C23.tag-partition", fmt.Sprintf("%s: class of offset %#x", name, k), bo.Pos(), fmt.Sprintf("[%#x,%#x]", lo, hi), fmt.Sprintf("%s subtracts %#x for tags [%#x,%#x]; the writer uses that offset for [%#x,%#x]", name, k, lo, hi, want[0], want[1]))
			}
		}
		for _, k := range readers[name] {
			c.check(found[k], "C23.tag-partition", fmt.Sprintf("%s handles the class of offset %#x", name, k), fn.Pos(), "present", "class missing")
		}
	}
	// readList accepts only list tags; readBytes only byte-string tags
	if fn := c.fn(pk, "rlpReader", "readList"); fn != nil && okL {
		for _, e := range exitAlts(fn) {
			if definitelyNonNilErr(e.Results[1], e.Guards) {
				continue
			}
			lo, _, hasLo, _ := boundsOnAll(e.Guards, c23Tag)
			c.check(hasLo && lo >= wl.shortOff, "C23.tag-partition", "readList succeeds only for list tags", e.pos(), fmt.Sprintf("tag ≥ %#x", lo), "readList can succeed on a byte-string tag")
		}
	}
	if fn := c.fn(pk, "rlpReader", "readBytes"); fn != nil && okL {
		for _, e := range exitAlts(fn) {
			if definitelyNonNilErr(e.Results[1], e.Guards) {
				continue
			}
			_, hi, _, hasHi := boundsOnAll(e.Guards, c23Tag)
			c.check(hasHi && hi < wl.shortOff, "C23.tag-partition", "readBytes succeeds only for byte-string tags", e.pos(), fmt.Sprintf("tag ≤ %#x", hi), "readBytes can succeed on a list tag")
		}
	}

	// ------------------------------------------------------------ null
	{
		var nullBytes []int64
		if init := c.spkg(pk).Func("init"); init != nil {
			for _, b := range init.Blocks {
				for _, in := range b.Instrs {
					st, ok := in.(*ssa.Store)
					if !ok {
						continue
					}
					g, ok := st.Addr.(*ssa.Global)
					if !ok || g.Name() != "nullSequence" {
						continue
					}
					if el, ok := varargElems(st.Val); ok {
						for _, e := range el {
							k, _ := constInt(e)
							nullBytes = append(nullBytes, k)
						}
					}
				}
			}
		}
		c.check(len(nullBytes) == 2 && nullBytes[0] == wl.longOff+1 && nullBytes[1] == 0, "C23.null", "nil is written as list-long tag with a one-byte zero size", token.NoPos, fmt.Sprint(nullBytes), fmt.Sprintf("null sequence %v is not {%#x, 0}", nullBytes, wl.longOff+1))
		if wn := c.mustFn(pk, "rlpWriter", "writeNull"); wn != nil {
			cs := c.calls(wn, byCallee("rlpWriter).writeAll"))
			okN := len(cs) == 1
			if okN {
				_, a := callArgs(cs[0].Common())
				okN = strings.Contains(render(a[0]), "nullSequence")
			}
			c.check(okN, "C23.null", "writeNull emits the null sequence", wn.Pos(), "writeAll(nullSequence)", "writeNull writes something else")
		}
		if fn := c.fn(pk, "rlpWriter", "writeBytes"); fn != nil {
			for _, cs := range c.calls(fn, byCallee("rlpWriter).writeNull")) {
				c.requireAt("C23.null", "nil byte slice is written as nil, not as empty", cs.Instr, wSame("b == nil", `^\$0$`, `^nil`))
			}
			c.check(len(c.calls(fn, byCallee("rlpWriter).writeNull"))) == 1, "C23.null", "writeBytes keeps nil and empty distinct", fn.Pos(), "nil → null sequence", "writeBytes has no nil case")
		}
		isNilErr := func(v ssa.Value) bool {
			return strings.Contains(render(v), "global:ErrNilValue") || strings.Contains(render(v), "ErrNilValue")
		}
		for _, name := range []string{"readList", "readBytes"} {
			fn := c.fn(pk, "rlpReader", name)
			if fn == nil {
				continue
			}
			n := 0
			for _, e := range exitAlts(fn) {
				if !isNilErr(e.Results[1]) {
					continue
				}
				n++
				lo, hi, hasLo, hasHi := boundsOnAll(e.Guards, c23Tag)
				_, zero := holds(e.Guards, wEQ("size == 0", 0, t(1, `\.readSize\(.*\)#0$`)))
				c.check(hasLo && hasHi && lo == wl.longOff+1 && hi == wl.longOff+1 && zero, "C23.null", name+" reports nil exactly for the null sequence", e.pos(), fmt.Sprintf("tag == %#x ∧ size == 0", lo), name+" reports nil for another encoding: "+guardsString(e.Guards))
			}
			c.check(n >= 1, "C23.null", name+" recognises nil", fn.Pos(), "ErrNilValue exit", name+" never reports nil")
		}
	}

	// ------------------------------------------------------------ count
	for _, name := range []string{"WriteList", "WriteMap", "WriteBytes", "WriteRaw", "WriteValue", "WriteNull"} {
		fn := c.mustFn(pk, "rlpWriter", name)
		if fn == nil {
			continue
		}
		cs := c.calls(fn, byCallee("rlpWriter).countN"))
		okOne := len(cs) == 1
		if okOne {
			r, a := callArgs(cs[0].Common())
			k, isK := constInt(a[0])
			okOne = isK && k == 1 && render(r) == "$r"
		}
		c.check(okOne, "C23.count", name+" counts itself once in its parent", fn.Pos(), "countN(1)", fmt.Sprintf("%s has %d countN calls (or not countN(1) on the receiver): the parent's element count — and the map parity check — goes wrong", name, len(cs)))
		if len(cs) >= 1 {
			tr, reach := pathAvoiding(fn, nil, isReturn, isInstr(cs[0].Instr))
			c.check(!reach, "C23.count", name+" counts on every path", cs[0].Pos(), "no bypass", name+" can return without counting ("+traceString(tr)+")")
			if h := loopHeaderOf(cs[0].Instr.Block()); h != nil {
				c.violate("C23.count", name+" counts outside loops", cs[0].Pos(), "countN inside a loop")
			}
		}
	}
	if cn := c.mustFn(pk, "rlpWriter", "countN"); cn != nil {
		okC := false
		for _, fs := range fieldStores([]*ssa.Function{cn}, "rlpParent", "cnt") {
			l := linOf(fs.Store.Val)
			okC = len(l.T) == 2 && l.T["$r.parent.cnt"] == 1 && l.T["$0"] == 1 && l.K == 0
		}
		c.check(okC, "C23.count", "countN adds to the parent's count", cn.Pos(), "parent.cnt += n", "countN does not add its argument to parent.cnt")
	}
	if cl := c.mustFn(pk, "rlpWriter", "Close"); cl != nil {
		wls := c.calls(cl, byCallee("rlpWriter).writeList"))
		okW := len(wls) == 1
		if okW {
			r, a := callArgs(wls[0].Common())
			okW = render(r) == "$r.parent.writer" && render(a[0]) == "$r.parent.buffer.Bytes()"
			tr, reach := pathAvoidingEdges(cl, nil, isReturn, isInstr(wls[0].Instr), wSame("no parent", `^\$r\.parent$`, `^nil`), wNE("odd map", 0, t(1, `%`)))
			_ = tr
			for _, e := range successAlts(cl) {
				tr, reach2 := pathAvoidingEdges(cl, nil, isInstr(e.Ret), isInstr(wls[0].Instr), wSame("no parent", `^\$r\.parent$`, `^nil`))
				c.check(!reach2, "C23.count", "Close succeeds only after emitting the container", e.pos(), "no bypass", "Close can succeed without writing the list ("+traceString(tr)+")")
			}
			_ = reach
		}
		c.check(okW, "C23.count", "Close writes the buffered elements as a list to the parent writer", cl.Pos(), "parent.writer.writeList(buffer)", "Close does not write the buffer through the parent writer")
	}

	// ------------------------------------------------------------ bounded-alloc
	nAlloc := 0
	for _, fn := range c.pkgFuncs(pk) {
		if fn.Signature.Recv() == nil || !strings.Contains(fn.Signature.Recv().Type().String(), "rlpReader") {
			continue
		}
		for _, b := range fn.Blocks {
			for _, in := range b.Instrs {
				switch x := in.(type) {
				case *ssa.MakeSlice:
					if _, isK := constInt(x.Len); isK {
						continue
					}
					nAlloc++
					l := linOf(x.Len)
					gs := guardsAtBlock(b)
					okA := false
					why := ""
					if len(l.T) == 1 && l.T[c23Tag] == 1 {
						_, hi, _, hasHi := boundsOnAll(gs, c23Tag)
						okA = hasHi && hi+l.K <= 55
						why = fmt.Sprintf("tag-bounded ≤ %d", hi+l.K)
					} else {
						for _, g := range gs {
							p := predOf(g)
							if p.Kind != "ge" {
								continue
							}
							sum := p.L.add(l, 1)
							if len(sum.T) == 1 && sum.T["$r.maxSB"] == 1 && sum.K <= 0 {
								okA = true
								why = "dominated by " + p.String()
							}
						}
					}
					c.check(okA, "C23.bounded-alloc", fnName(fn)+": input-sized allocation is bounded", x.Pos(), why, "make([]byte, "+render(x.Len)+") is neither bounded by its tag class nor dominated by a check against maxSB")
				case *ssa.Slice:
					al, ok := x.X.(*ssa.Alloc)
					if !ok || !strings.Contains(al.Type().String(), "[9]byte") || x.High == nil {
						continue
					}
					if _, isK := constInt(x.High); isK {
						continue
					}
					nAlloc++
					l := linOf(x.High)
					okS := false
					if len(l.T) == 1 && l.T[c23Tag] == 1 {
						_, hi, _, hasHi := boundsOnAll(guardsAtBlock(b), c23Tag)
						if !hasHi {
							hi = 255
						}
						okS = hi+l.K <= 9
					}
					c.check(okS, "C23.bounded-alloc", fnName(fn)+": header slice stays inside the 9-byte header", x.Pos(), "≤ 9", "header["+render(x.Low)+":"+render(x.High)+"] can exceed the header array")
				}
			}
		}
	}
	c.check(nAlloc >= 10, "C23.bounded-alloc", "input-sized allocations found", token.NoPos, fmt.Sprint(nAlloc), fmt.Sprintf("only %d input-sized allocations/slices found", nAlloc))

	// ------------------------------------------------------------ narrowing
	type fam struct {
		fn, setter, conv string
		narrow           []reflect.Kind
		wide             string
	}
	for _, f := range []fam{
		{"readUintValue", "SetUint", "SafeBytesToUint64", []reflect.Kind{reflect.Uint, reflect.Uint8, reflect.Uint16, reflect.Uint32}, "uint64"},
		{"readIntValue", "SetInt", "SafeBytesToInt64", []reflect.Kind{reflect.Int, reflect.Int8, reflect.Int16, reflect.Int32}, "int64"},
	} {
		fn := c.mustFn(pk, "rlpReader", f.fn)
		if fn == nil {
			continue
		}
		sets := c.calls(fn, byMethod(f.setter))
		if len(sets) != 1 {
			c.violate("C23.narrowing", f.fn+" structure", fn.Pos(), "expected one "+f.setter)
			continue
		}
		_, a := callArgs(sets[0].Common())
		val := a[len(a)-1]
		c.check(strings.HasSuffix(render(val), "intconv."+f.conv+"($r.readBytes()#0)#0"), "C23.narrowing", f.fn+" stores the checked conversion of the bytes read", sets[0].Pos(), render(val), "stores "+render(val))
		c.requireAt("C23.narrowing", f.fn+": more than 8 bytes rejected", sets[0].Instr, wTrue("conversion ok", `intconv\.`+f.conv+`\(\$r\.readBytes\(\)#0\)#1$`))
		alts := altGuards(sets[0].Instr.Block())
		c.check(len(alts) >= len(f.narrow)+1, "C23.narrowing", f.fn+": one path per kind", sets[0].Pos(), fmt.Sprintf("%d paths", len(alts)), fmt.Sprintf("only %d paths reach the store", len(alts)))
		seen := map[reflect.Kind]bool{}
		for _, alt := range alts {
			var eqK []int64
			ne := map[int64]bool{}
			for _, g := range alt {
				p := predOf(g)
				if len(p.L.T) == 1 && p.L.T["$0.Kind()"] == 1 {
					if p.Kind == "eq" {
						eqK = append(eqK, -p.L.K)
					} else if p.Kind == "ne" {
						ne[-p.L.K] = true
					}
				}
			}
			if len(eqK) == 0 {
				all := true
				for _, k := range f.narrow {
					if !ne[int64(k)] {
						all = false
					}
				}
				c.check(all, "C23.narrowing", f.fn+": unchecked store only for the 64-bit kind", sets[0].Pos(), "every narrow kind excluded", "a path stores the value without a width check and without excluding every narrow kind: "+guardsString(alt))
				continue
			}
			k := reflect.Kind(eqK[0])
			isNarrow := false
			for _, n := range f.narrow {
				if n == k {
					isNarrow = true
				}
			}
			if !isNarrow {
				continue
			}
			seen[k] = true
			okN := false
			for _, g := range alt {
				bo, ok := g.Cond.(*ssa.BinOp)
				if !ok {
					continue
				}
				isEq := (bo.Op == token.EQL && g.Pol) || (bo.Op == token.NEQ && !g.Pol)
				if !isEq {
					continue
				}
				for _, pair := range [][2]ssa.Value{{bo.X, bo.Y}, {bo.Y, bo.X}} {
					if pair[0] != val {
						continue
					}
					outer, ok := pair[1].(*ssa.Convert)
					if !ok {
						continue
					}
					inner, ok := outer.X.(*ssa.Convert)
					if !ok || inner.X != val {
						continue
					}
					if bt, ok := inner.Type().Underlying().(*types.Basic); ok && bt.Name() == k.String() && outer.Type().String() == f.wide {
						okN = true
					}
				}
			}
			c.check(okN, "C23.narrowing", fmt.Sprintf("%s: %s stored only if it survives the round trip through %s", f.fn, k, k), sets[0].Pos(), fmt.Sprintf("value == %s(%s(value))", f.wide, k), fmt.Sprintf("a %s value is stored without the check value == %s(%s(value)): overflow is truncated silently", k, f.wide, k))
		}
		for _, k := range f.narrow {
			c.check(seen[k], "C23.narrowing", fmt.Sprintf("%s has a width check for %s", f.fn, k), fn.Pos(), "present", fmt.Sprintf("no dedicated path for %s: it is stored unchecked", k))
		}
	}
	if rv := c.mustFn(pk, "rlpReader", "ReadValue"); rv != nil {
		for _, cs := range c.calls(rv, byCallee("rlpReader).readUintValue")) {
			lo, hi, hasLo, hasHi := boundsOnAll(guardsAt(cs.Instr), "$0.Kind()")
			_ = lo
			_ = hi
			_ = hasLo
			_ = hasHi
		}
		// dispatch agreement is covered by the kinds rule (AST) below
	}

	// ------------------------------------------------------------ kinds
	scalar := []string{"Bool", "Int", "Int16", "Int32", "Int64", "Int8", "String", "Uint", "Uint16", "Uint32", "Uint64", "Uint8"}
	sort.Strings(scalar)
	enc, ep := kindCases(c, pk, "encoderImpl", "encodeValue", 0)
	dec, dp := kindCases(c, pk, "decoderImpl", "decodeValue", 0)
	wv, wp := kindCases(c, pk, "rlpWriter", "WriteValue", 0)
	rvk, rp := kindCases(c, pk, "rlpReader", "ReadValue", 0)
	if enc == nil || dec == nil || wv == nil || rvk == nil {
		c.violate("C23.kinds", "kind switches found", token.NoPos, "could not find the reflect.Kind switches")
	} else {
		ek, dk := flatKinds(enc), flatKinds(dec)
		var ekNoIface []string
		for _, k := range ek {
			if k != "Interface" {
				ekNoIface = append(ekNoIface, k)
			}
		}
		c.check(strings.Join(ekNoIface, ",") == strings.Join(dk, ","), "C23.kinds", "every kind the encoder accepts the decoder accepts (Interface is encode-only)", dp, strings.Join(dk, ","), "encoder kinds {"+strings.Join(ek, ",")+"} vs decoder kinds {"+strings.Join(dk, ",")+"}")
		first := func(cs [][]string) string {
			for _, c := range cs {
				for _, n := range c {
					if n == "Bool" {
						s := append([]string{}, c...)
						sort.Strings(s)
						return strings.Join(s, ",")
					}
				}
			}
			return ""
		}
		c.check(first(enc) == strings.Join(scalar, ","), "C23.kinds", "encoder sends exactly the scalar kinds to WriteValue", ep, first(enc), "scalar case of encodeValue is {"+first(enc)+"}")
		c.check(first(dec) == strings.Join(scalar, ","), "C23.kinds", "decoder sends exactly the scalar kinds to ReadValue", dp, first(dec), "scalar case of decodeValue is {"+first(dec)+"}")
		c.check(strings.Join(flatKinds(wv), ",") == strings.Join(scalar, ","), "C23.kinds", "WriteValue handles every scalar kind", wp, strings.Join(flatKinds(wv), ","), "WriteValue kinds {"+strings.Join(flatKinds(wv), ",")+"}")
		c.check(strings.Join(flatKinds(rvk), ",") == strings.Join(scalar, ","), "C23.kinds", "ReadValue handles every scalar kind", rp, strings.Join(flatKinds(rvk), ","), "ReadValue kinds {"+strings.Join(flatKinds(rvk), ",")+"}")
		// signed/unsigned families go to the matching reader
		for _, cs := range rvk {
			j := strings.Join(cs, ",")
			switch {
			case strings.HasPrefix(j, "Uint"):
				c.check(!strings.Contains(j, "Int,") && !strings.Contains(j, ",Int"), "C23.kinds", "ReadValue: unsigned kinds in one case", rp, j, "mixed case "+j)
			}
		}
	}
	if rv := c.fn(pk, "rlpReader", "ReadValue"); rv != nil {
		for _, spec := range []struct {
			callee string
			lo, hi reflect.Kind
			bool_  bool
		}{{"rlpReader).readUintValue", reflect.Uint, reflect.Uint64, true}, {"rlpReader).readIntValue", reflect.Int, reflect.Int64, false}} {
			for _, cs := range c.calls(rv, byCallee(spec.callee)) {
				okAll := true
				for _, alt := range altGuards(cs.Instr.Block()) {
					okAlt := false
					for _, g := range alt {
						p := predOf(g)
						if p.Kind == "eq" && len(p.L.T) == 1 && p.L.T["$0.Kind()"] == 1 {
							k := reflect.Kind(-p.L.K)
							if (k >= spec.lo && k <= spec.hi) || (spec.bool_ && k == reflect.Bool) {
								okAlt = true
							}
						}
					}
					if !okAlt {
						okAll = false
					}
				}
				c.check(okAll, "C23.kinds", "ReadValue dispatches "+spec.callee[11:]+" only for its own kinds", cs.Pos(), fmt.Sprintf("%s..%s", spec.lo, spec.hi), "a kind of the other signedness reaches "+spec.callee[11:])
			}
		}
	}

	// ------------------------------------------------------------ sorted maps
	var mapFn *ssa.Function
	if ev := c.mustFn(pk, "encoderImpl", "encodeValue"); ev != nil {
		for _, a := range withAnon(ev) {
			if len(c.calls(a, byMethod("MapKeys"))) > 0 {
				mapFn = a
			}
		}
	}
	if mapFn == nil {
		c.violate("C23.sorted-maps", "map encoder found", token.NoPos, "no function calls MapKeys")
	} else {
		mk := c.calls(mapFn, byMethod("MapKeys"))[0]
		sorts := c.calls(mapFn, byCallee("sort.Slice"))
		var emits []callSite
		for _, e := range c.calls(mapFn, byCallee("encoderImpl).encodeValue")) {
			emits = append(emits, e)
		}
		c.check(len(emits) == 2, "C23.sorted-maps", "map encoder emits key then value", mapFn.Pos(), "2 emit sites", fmt.Sprintf("%d emit sites", len(emits)))
		isSort := func(in ssa.Instruction) bool {
			for _, s := range sorts {
				if s.Instr == in {
					return true
				}
			}
			return false
		}
		for _, e := range emits {
			tr, reach := pathAvoiding(mapFn, mk.Instr, isInstr(e.Instr), isSort)
			c.check(!reach, "C23.sorted-maps", "keys are sorted on every path before anything is emitted", e.Pos(), "MapKeys → sort.Slice → emit", "map entries can be emitted in iteration order: a path from MapKeys to the emit loop avoids sort.Slice ("+traceString(tr)+")")
		}
		c.check(len(sorts) == 3, "C23.sorted-maps", "one sort per key family", mapFn.Pos(), "string / signed / unsigned", fmt.Sprintf("%d sort sites", len(sorts)))
		for _, s := range sorts {
			_, a := callArgs(s.Common())
			isKeys := unwrap(a[0]) == mk.Instr.Value() || strings.Contains(render(a[0]), "MapKeys()")
			a0 := a[0]
			if mi, ok := a0.(*ssa.MakeInterface); ok {
				a0 = mi.X
			}
			if al, ok := loadOf(a0).(*ssa.Alloc); ok {
				sts := storesTo(al)
				isKeys = len(sts) == 1 && sts[0].Val == mk.Instr.Value()
			}
			c.check(isKeys, "C23.sorted-maps", "the slice sorted is the key slice", s.Pos(), "keys", "sorts "+render(a[0]))
			// kinds guarding this sort
			var kinds []reflect.Kind
			for _, alt := range altGuards(s.Instr.Block()) {
				for _, g := range alt {
					p := predOf(g)
					if p.Kind == "eq" && len(p.L.T) == 1 {
						for atom, co := range p.L.T {
							if co == 1 && strings.HasSuffix(atom, ".Key().Kind()") {
								kinds = append(kinds, reflect.Kind(-p.L.K))
							}
						}
					}
				}
			}
			want := ""
			okFam := len(kinds) > 0
			for _, k := range kinds {
				f := ""
				switch {
				case k == reflect.String:
					f = "String"
				case k >= reflect.Int && k <= reflect.Int64:
					f = "Int"
				case k >= reflect.Uint && k <= reflect.Uint64:
					f = "Uint"
				}
				if want == "" {
					want = f
				}
				if f == "" || f != want {
					okFam = false
				}
			}
			// comparator
			var cmp *ssa.Function
			if mc, ok := a[1].(*ssa.MakeClosure); ok {
				cmp = mc.Fn.(*ssa.Function)
			}
			okCmp := false
			if cmp != nil && okFam {
				for _, e := range exitAlts(cmp) {
					bo, ok := e.Results[0].(*ssa.BinOp)
					if !ok || bo.Op != token.LSS {
						okCmp = false
						break
					}
					x, y := render(bo.X), render(bo.Y)
					okCmp = strings.HasSuffix(x, "[$0]."+want+"()") && strings.HasSuffix(y, "[$1]."+want+"()") && strings.TrimSuffix(x, "[$0]."+want+"()") == strings.TrimSuffix(y, "[$1]."+want+"()")
				}
			}
			c.check(okFam && okCmp, "C23.sorted-maps", "comparator orders keys[i] < keys[j] by the accessor of the key's own family", s.Pos(), want, fmt.Sprintf("sort for kinds %v does not compare keys[i].%s() < keys[j].%s()", kinds, want, want))
		}
		// unsupported key kinds are errors: every exit not passing a sort and reachable from MapKeys is an error
		for _, e := range successAlts(mapFn) {
			tr, reach := pathAvoiding(mapFn, mk.Instr, isInstr(e.Ret), isSort)
			c.check(!reach, "C23.sorted-maps", "unsupported key kinds are rejected", e.pos(), "error", "the map encoder can succeed without having sorted ("+traceString(tr)+")")
		}
		// emit key i then value of key i
		if len(emits) == 2 {
			_, a0 := callArgs(emits[0].Common())
			_, a1 := callArgs(emits[1].Common())
			k0 := render(a0[0])
			c.check(strings.Contains(render(a1[0]), ".MapIndex("+k0+")"), "C23.sorted-maps", "value emitted is the one of the key just emitted", emits[1].Pos(), "v.MapIndex(keys[i])", "value "+render(a1[0])+" for key "+k0)
		}
	}

	// ------------------------------------------------------------ close-propagated
	// Closing a sub-reader (flush) drains the rest of its list; that is where a
	// list announcing more payload than the input holds is rejected. The error
	// must reach the caller, and every container decode must pass through it.
	nFlush := 0
	for _, fn := range c.pkgFuncs(pk) {
		for _, cs := range c.calls(fn, byCallee("decoderImpl).flush", "encoderImpl).flush")) {
			nFlush++
			name := fnName(fn) + ": " + strings.TrimPrefix(calleeName(cs.Common()), "(*common/codec.")
			call, isCall := cs.Instr.(*ssa.Call)
			if !isCall {
				c.violate("C23.close-propagated", name+" result reaches the caller", cs.Pos(), "flush is deferred: its error (sizes beyond the input, write failures) is dropped and malformed input is accepted")
				continue
			}
			used := false
			if call.Referrers() != nil {
				for _, ref := range *call.Referrers() {
					switch r := ref.(type) {
					case *ssa.Return:
						used = true
					case *ssa.BinOp:
						used = true
					case *ssa.Store:
						used = true
					case *ssa.Phi:
						used = true
					default:
						_ = r
					}
				}
			}
			c.check(used, "C23.close-propagated", name+" result reaches the caller", cs.Pos(), "returned / checked", "the error of flush is discarded: a list whose announced size runs past the input is accepted")
		}
	}
	c.check(nFlush >= 8, "C23.close-propagated", "flush sites found", token.NoPos, fmt.Sprint(nFlush), fmt.Sprintf("%d flush sites", nFlush))
	if dv := c.mustFn(pk, "decoderImpl", "decodeValue"); dv != nil {
		for _, op := range c.calls(dv, byCallee("decoderImpl).decodeList", "decoderImpl).decodeMap")) {
			ev := errValueOf(op.Instr)
			for _, e := range successAlts(dv) {
				if !dominatesInstr(op.Instr, e.Ret) && !blockReaches(op.Instr.Block(), e.Ret.Block(), nil) {
					continue
				}
				// paths on which the sub-reader was opened (err == nil, not the nil-value case) must flush before succeeding
				pathEdgeFilter = func(p, sb *ssa.BasicBlock) bool {
					for _, g := range edgeGuard(p, sb) {
						bo, ok := g.Cond.(*ssa.BinOp)
						if !ok {
							continue
						}
						nonNil := (bo.Op == token.NEQ && g.Pol) || (bo.Op == token.EQL && !g.Pol)
						if nonNil && ((bo.X == ev && isNilConst(bo.Y)) || (bo.Y == ev && isNilConst(bo.X))) {
							return true
						}
					}
					return false
				}
				tr, reach := pathAvoiding(dv, op.Instr, isInstr(e.Ret), isCallTo(byCallee("decoderImpl).flush")))
				pathEdgeFilter = nil
				if reach {
					// the only legitimate bypass returns the flush result itself
					if cl, ok := unwrap(e.Results[0]).(*ssa.Call); ok && strings.HasSuffix(calleeName(cl.Common()), "decoderImpl).flush") {
						reach = false
					}
				}
				c.check(!reach, "C23.close-propagated", "a container decode succeeds only through closing its sub-reader", op.Pos(), "decodeList … flush", "decodeValue can succeed on a container without closing (draining and size-checking) its sub-reader ("+traceString(tr)+")")
			}
		}
	}
}

// runC23IntPairs: integers cross the codec only through matching converter
// pairs of common/intconv — sizes: SizeToBytes ↔ SafeBytesToSize; unsigned:
// Uint64ToBytes ↔ SafeBytesToUint64; signed: Int64ToBytes ↔ SafeBytesToInt64;
// big: BigIntToBytes ↔ BigIntSetBytes — and the RLP value writer hands
// writeBytes nothing but these encodings (or the bool byte / string bytes).
// The pairs fix the byte form of every integer, among them the trie keys of
// the transaction and receipt lists (C22), whose order is the index order only
// for this form (0 ↦ 0x00, sign pad for a set top bit).
func runC23IntPairs(c *Ctx, rule string) {
	const pkg = "common/codec"
	type use struct {
		recv, fn, callee string
		arg              string // expected rendering of the argument ("" = any)
	}
	for _, u := range []use{
		{"", "sizeToBytes", "common/intconv.SizeToBytes", ""},
		{"", "bytesToSize", "common/intconv.SafeBytesToSize", ""},
		{"rlpReader", "readUintValue", "common/intconv.SafeBytesToUint64", ""},
		{"rlpReader", "readIntValue", "common/intconv.SafeBytesToInt64", ""},
		{"rlpWriter", "WriteValue", "common/intconv.Uint64ToBytes", "$0.Uint()"},
		{"rlpWriter", "WriteValue", "common/intconv.Int64ToBytes", "$0.Int()"},
	} {
		f := c.fn(pkg, u.recv, u.fn)
		if f == nil {
			c.undecided(rule, u.fn, token.NoPos, "function not found")
			continue
		}
		cs := c.calls(f, byCallee(u.callee))
		okU := len(cs) == 1
		got := ""
		if okU && u.arg != "" {
			_, a := callArgs(cs[0].Common())
			got = render(a[0])
			okU = got == u.arg
		}
		c.check(okU, rule, u.fn+" converts with "+strings.TrimPrefix(u.callee, "common/"), f.Pos(), "paired converter", fmt.Sprintf("%d calls of %s (argument %s): writer and reader no longer use the matching pair", len(cs), u.callee, got))
	}
	// the value writer emits only the paired encodings
	if f := c.fn(pkg, "rlpWriter", "WriteValue"); f != nil {
		n := 0
		for _, cs := range c.calls(f, byMethod("writeBytes")) {
			_, a := callArgs(cs.Common())
			r := render(a[0])
			n++
			okA := r == "intconv.Uint64ToBytes($0.Uint())" || r == "intconv.Int64ToBytes($0.Int())" || r == "[]byte($0.String())" || r == "$0.String()" || strings.HasPrefix(r, "alloc<*[1]byte>")
			c.check(okA, rule, "WriteValue writes a paired encoding", cs.Pos(), r, "WriteValue writes "+r+": not the byte form the reader's converter (and the index order of the list tries) expects")
		}
		if n < 4 {
			c.undecided(rule, "WriteValue", f.Pos(), fmt.Sprintf("expected ≥4 writeBytes calls, found %d", n))
		}
	}
	// big integers: nothing in the codec reads or writes big.Int magnitudes directly
	nBig := 0
	for _, f := range c.pkgFuncs(pkg) {
		for _, cs := range c.calls(f, func(cc *ssa.CallCommon) bool {
			n := calleeName(cc)
			return n == "(*math/big.Int).Bytes" || n == "(*math/big.Int).SetBytes" || n == "(*math/big.Int).FillBytes"
		}) {
			c.violate(rule, "big integers pass through intconv", cs.Pos(), fnName(f)+" calls "+calleeName(cs.Common())+" directly: the sign is lost (−5 ↦ 5, 128 ↦ −128)")
		}
		for _, cs := range c.calls(f, byCallee("common/intconv.BigIntToBytes", "common/intconv.BigIntSetBytes")) {
			_ = cs
			nBig++
		}
	}
	c.check(nBig == 2, rule, "big.Int: BigIntToBytes ↔ BigIntSetBytes", token.NoPos, "one encoder use, one decoder use", fmt.Sprintf("%d uses of the big-integer pair", nBig))
}

// runC23Extra: truncated input is an error of the format (never a clean EOF);
// every nil-able kind is written through the nullable wrapper the decoder
// mirrors; marshalled bytes are detached from the pooled encoder; a pooled
// RLP container is returned to the pool with every field reset.
func runC23Extra(c *Ctx) {
	const pkg = "common/codec"
	// (1) limitReader.Read
	if f := c.mustFn(pkg, "limitReader", "Read"); f != nil {
		n := 0
		for _, e := range exitAlts(f) {
			for _, fl := range flowsOf(e.Results[1], nil) {
				if !strings.HasPrefix(render(fl.Src), "$r.reader.Read(") {
					continue
				}
				n++
				gs := append(append([]Guard{}, e.Guards...), fl.Guards...)
				c.requireGuard("C23.truncated-input", "limitReader.Read passes the inner reader's error on", e.pos(), gs, wDiffer("it is not io.EOF", `^\$r\.reader\.Read\(.*\)#1$`, `^\*global:EOF$`))
			}
		}
		if n == 0 {
			c.undecided("C23.truncated-input", "limitReader.Read", f.Pos(), "the inner reader's error does not reach a result")
		}
	}
	// (2) nil-able kinds
	if f := c.mustFn(pkg, "encoderImpl", "encodeValue"); f != nil {
		got := map[int64]bool{}
		for _, cs := range c.calls(f, byCallee("(*common/codec.encoderImpl).encodeNullable")) {
			for _, k := range []int64{int64(reflect.Interface), int64(reflect.Map), int64(reflect.Ptr), int64(reflect.Slice)} {
				if _, ok := holdsAll(altGuards(cs.Instr.Block()), wEQ("kind", -k, t(1, `^\$0\.Kind\(\)$`))); ok {
					got[k] = true
				}
			}
		}
		for _, k := range []reflect.Kind{reflect.Interface, reflect.Map, reflect.Ptr, reflect.Slice} {
			c.check(got[int64(k)], "C23.nullable-kinds", "encodeValue writes a "+k.String()+" through the nullable wrapper", f.Pos(), "nil ↦ null", "a nil "+k.String()+" is not written as null: it decodes to a non-nil empty value (nil and empty are different values of the type)")
		}
	}
	// (3) detached results
	for _, nm := range []string{"MarshalToBytes", "UnmarshalFromBytes"} {
		f := c.mustFn(pkg, "bytesWrapper", nm)
		if f == nil {
			continue
		}
		n := 0
		for _, e := range successAlts(f) {
			if isNilConst(e.Results[0]) {
				continue
			}
			n++
			call, ok := e.Results[0].(*ssa.Call)
			c.check(ok && strings.HasSuffix(calleeName(call.Common()), "codec.bytesDup"), "C23.detached-bytes", nm+" returns a copy, not the pooled buffer", e.pos(), "bytesDup(...)", "returns "+render(e.Results[0])+": the buffer goes back to the pool and the next call overwrites bytes the caller still holds")
		}
		if n == 0 {
			c.undecided("C23.detached-bytes", nm, f.Pos(), "no successful exit")
		}
	}
	// (4) pooled container
	al, fr := c.mustFn(pkg, "", "allocRLPParent"), c.mustFn(pkg, "", "freeRLPParent")
	if al != nil && fr != nil {
		set := map[string]string{}
		for _, st := range fieldStoresAny([]*ssa.Function{al}, "rlpParent") {
			set[fieldName(st.Addr.X.Type(), st.Addr.Field)] = "set on alloc"
		}
		for _, st := range fieldStoresAny([]*ssa.Function{fr}, "rlpParent") {
			set[fieldName(st.Addr.X.Type(), st.Addr.Field)] = "reset on free"
		}
		for _, cs := range c.calls(fr, byMethod("Reset")) {
			if render(cs.Common().Args[0]) == "$0.buffer" {
				set["buffer"] = "Reset() on free"
			}
		}
		st, _ := fr.Params[0].Type().Underlying().(*types.Pointer).Elem().Underlying().(*types.Struct)
		if st == nil {
			c.undecided("C23.pool-reset", "rlpParent", fr.Pos(), "struct type not found")
		} else {
			for i := 0; i < st.NumFields(); i++ {
				fn := st.Field(i).Name()
				c.check(set[fn] != "", "C23.pool-reset", "pooled rlpParent."+fn+" does not survive recycling", fr.Pos(), set[fn], "field "+fn+" is neither set by allocRLPParent nor reset by freeRLPParent: a recycled container starts with its predecessor's "+fn)
			}
		}
	}
}
