package main

import (
	"fmt"
	"go/token"
	"strings"

	"golang.org/x/tools/go/ssa"
)

// C29 — BTP proofs require more than two thirds of distinct validator signatures.
func init() {
	register(&Prop{
		ID:             "C29",
		Pkgs:           []string{"btp/ntm", "btp"},
		Run:            runC29,
		MinObligations: 14,
		Technique:      "static analysis: guard dominance on the accepting exits of Verify/VerifyPart (range check, signer-at-own-index equality on the claimed index, duplicate rejection, strict +2/3 threshold relative to the context's validator count), loop no-bypass, per-network-type door",
		LevelText:      "Decides on all paths: VerifyPart accepts only with 0 ≤ Index < len(Validators) and the address recovered over the decision hash equal to Validators[Index] — the slot the part itself claims, not a looked-up one — and returns that index; Verify verifies every non-nil signature at its own slot index, propagates any part error, rejects a repeated index, counts only verified parts, and accepts only if count > ⌊2·len(context validators)/3⌋ (the context's validator list, not the proof's own vector); proofContextMap.Verify demands exactly one proof per network type with a context and verifies each against the decision built from the block's own digest entry, propagating errors.",
		LevelNote:      "ECDSA recovery and address derivation are trusted.",
		Explanation:    "C29 rules: verifypart (K1+K5), verify-loop (K8 no-bypass + K1), threshold (K1 normal form, base = len(pc.Validators)), map-verify (K2/K5).",
		Mutants: []Mutant{
			{Name: "threshold-over-proof-length", File: "btp/ntm/secp256k1proof.go", Old: "if valid <= 2*len(pc.Validators)/3 {", New: "if valid <= 2*len(ep.Signatures)/3 {", Desc: "quorum measured against the attacker-supplied vector length"},
			{Name: "own-index-tautology", File: "btp/ntm/secp256k1proof.go", Old: "\tif !bytes.Equal(pc.Validators[epp.Index], addr) {\n\t\tidx, ok := pc.indexOf(addr)\n\t\tif ok {", New: "\tif idx, ok := pc.indexOf(addr); !ok || !bytes.Equal(pc.Validators[idx], addr) {\n\t\tif ok {", Desc: "a validator's signature is accepted at any index"},
			{Name: "threshold-geq", File: "btp/ntm/secp256k1proof.go", Old: "if valid <= 2*len(pc.Validators)/3 {", New: "if valid < 2*len(pc.Validators)/3 {", Desc: "exactly two thirds accepted"},
			{Name: "part-error-skipped", File: "btp/ntm/secp256k1proof.go", Old: "\t\t_, err := pc.VerifyPart(dHash, &epp)\n\t\tif err != nil {\n\t\t\treturn err\n\t\t}", New: "\t\t_, err := pc.VerifyPart(dHash, &epp)\n\t\tif err != nil {\n\t\t\tcontinue\n\t\t}", Desc: "control: skipping invalid parts without counting them keeps the quorum sound", Equivalent: true},
			{Name: "invalid-part-counted", File: "btp/ntm/secp256k1proof.go", Old: "\t\t_, err := pc.VerifyPart(dHash, &epp)\n\t\tif err != nil {\n\t\t\treturn err\n\t\t}", New: "\t\t_, err := pc.VerifyPart(dHash, &epp)\n\t\tif err != nil {\n\t\t\tvalid++\n\t\t\tcontinue\n\t\t}", Desc: "forged signatures count toward the quorum"},
			{Name: "index-range-open", File: "btp/ntm/secp256k1proof.go", Old: "if epp.Index < 0 || epp.Index >= len(pc.Validators) {", New: "if epp.Index < 0 || epp.Index > len(pc.Validators) {", Desc: "index == len(validators) passes the range check (panic)"},
			{Name: "map-skips-error", File: "btp/proofcontextmap.go", Old: "\t\terr = pc.Verify(d.Hash(), proof)\n\t\tif err != nil {", New: "\t\terr = pc.Verify(d.Hash(), proof)\n\t\tif err != nil && i > 0 {", Desc: "first network type's proof error ignored"},
		},
	})
}

func runC29(c *Ctx) {
	const pkg = "btp/ntm"
	vp := c.mustFn(pkg, "secp256k1ProofContext", "VerifyPart")
	vf := c.mustFn(pkg, "secp256k1ProofContext", "Verify")
	if vp == nil || vf == nil {
		return
	}
	// ---- VerifyPart
	n := 0
	for _, e := range successAlts(vp) {
		n++
		c.requireGuard("C29.verifypart", "VerifyPart accepts", e.pos(), e.Guards, wGE("Index ≥ 0", 0, t(1, `\.Index$`)))
		c.requireGuard("C29.verifypart", "VerifyPart accepts", e.pos(), e.Guards, wGE("Index < len(Validators)", -1, t(-1, `\.Index$`), t(1, `^len\(\$r\.Validators\)$`)))
		c.requireGuard("C29.verifypart", "VerifyPart accepts", e.pos(), e.Guards, wSame("recovery succeeded", `\.recover\(\$r\.mod,\$0\)#1$`, `^nil$`))
		c.requireGuard("C29.verifypart", "VerifyPart accepts ⊢ signer sits at the index the part claims", e.pos(), e.Guards,
			wSame("Validators[part.Index] == recovered address", `^\$r\.Validators\[\$1\.\(\*ntm\.secp256k1ProofPart\)\.Index\]$`, `\.recover\(\$r\.mod,\$0\)#0$`))
		c.check(strings.HasSuffix(render(e.Results[0]), ".Index"), "C29.verifypart", "VerifyPart returns the verified index", e.pos(), render(e.Results[0]), "returns "+render(e.Results[0]))
	}
	if n == 0 {
		c.undecided("C29.verifypart", "VerifyPart", vp.Pos(), "no accepting exit")
	}
	if rc := c.mustFn(pkg, "secp256k1ProofPart", "recover"); rc != nil {
		for _, cs := range c.calls(rc, byMethod("RecoverPublicKey")) {
			_, a := callArgs(cs.Common())
			c.check(render(a[0]) == "$1" && strings.HasSuffix(render(cs.Common().Args[0]), "$r.Signature"), "C29.verifypart", "recover uses the part's signature over the decision hash", cs.Pos(), "Signature.RecoverPublicKey(hash)", "recovers as "+render(cs.Instr.Value()))
		}
	}

	// ---- Verify loop
	parts := c.calls(vf, byCallee("(*btp/ntm.secp256k1ProofContext).VerifyPart"))
	if len(parts) != 1 {
		c.violate("C29.verify-loop", "Verify checks each part", vf.Pos(), fmt.Sprintf("expected one VerifyPart call, found %d", len(parts)))
		return
	}
	// the counter
	var cnt *ssa.Phi
	var incs []*ssa.BinOp
	for _, b := range vf.Blocks {
		for _, in := range b.Instrs {
			if phi, ok := in.(*ssa.Phi); ok && isIntType(phi.Type()) {
				if is, isCnt := counterIncrements(phi, isZeroConst); isCnt {
					// the counter that reaches the threshold comparison (not a loop index)
					reaches := false
					if phi.Referrers() != nil {
						for _, ref := range *phi.Referrers() {
							if bo, ok := ref.(*ssa.BinOp); ok && (bo.Op == token.LEQ || bo.Op == token.LSS || bo.Op == token.GTR || bo.Op == token.GEQ) {
								if strings.Contains(render(bo), "len($r.Validators)") && (strings.Contains(render(bo), "3") || strings.Contains(render(bo), "hasSecp256k1Quorum")) {
									reaches = true
								}
							}
							if cl, ok := ref.(*ssa.Call); ok && cl.Common().StaticCallee() != nil && strings.Contains(render(cl), "len($r.Validators)") {
								reaches = true // handed to a quorum helper together with the validator count
							}
						}
					}
					if reaches {
						cnt, incs = phi, is
					}
				}
			}
		}
	}
	if cnt == nil {
		c.undecided("C29.verify-loop", "valid counter", vf.Pos(), "counter not found")
		return
	}
	for _, inc := range incs {
		c.requireAt("C29.verify-loop", "a part is counted only if it verified", inc, wSame("VerifyPart error == nil", `\.VerifyPart\(.*#1$`, `^nil$`))
		c.requireAt("C29.verify-loop", "a part is counted only once per index", inc, wFalse("index not seen before", `^make.*\[.*Index\]#1$|\[.*\.Index\]#1$`))
		// the index recorded as seen
		okSet := false
		for _, b := range vf.Blocks {
			for _, in := range b.Instrs {
				if mu, ok := in.(*ssa.MapUpdate); ok && strings.HasSuffix(render(mu.Key), ".Index") && (dominatesInstr(mu, inc) || mu.Block() == inc.Block()) {
					okSet = true
				}
			}
		}
		c.check(okSet, "C29.verify-loop", "counted index is recorded", inc.Pos(), "set[index] = …", "counted parts are not recorded, so duplicates are not detected")
	}
	// the part checked is (slot index, slot signature)
	{
		_, a := callArgs(parts[0].Common())
		al, _ := unwrap(a[1]).(*ssa.Alloc)
		okIdx, okSig := false, false
		if al != nil {
			for _, st := range fieldStoresAny([]*ssa.Function{vf}, "secp256k1ProofPart") {
				if st.Addr.X != ssa.Value(al) {
					continue
				}
				switch fieldName(st.Addr.X.Type(), st.Addr.Field) {
				case "Index":
					_, okIdx = st.Store.Val.(*ssa.BinOp) // rangeindex+1
					if p, isPhi := st.Store.Val.(*ssa.Phi); isPhi {
						_ = p
						okIdx = true
					}
				case "Signature":
					okSig = strings.Contains(render(st.Store.Val), ".Signatures[")
				}
			}
		}
		c.check(okIdx && okSig && render(a[0]) == "$0", "C29.verify-loop", "each signature is verified at its own slot index over the decision hash", parts[0].Pos(), "VerifyPart(dHash, {i, Signatures[i]})", "VerifyPart is called with "+render(a[1]))
	}
	// every non-nil signature is examined: the only way round VerifyPart in the loop is sig == nil
	if h := loopHeaderOf(parts[0].Instr.Block()); h != nil {
		tr, bad := pathAvoidingEdges(vf, h.Instrs[len(h.Instrs)-1], func(in ssa.Instruction) bool { return in == h.Instrs[0] }, func(in ssa.Instruction) bool { return in == ssa.Instruction(parts[0].Instr) }, wSame("empty slot", `\.Signatures\[`, `^nil$`))
		c.check(!bad, "C29.verify-loop", "every non-nil signature is verified", parts[0].Pos(), "no way round VerifyPart", "a non-nil signature can be passed over: "+traceString(tr))
	}
	// ---- threshold
	ns := 0
	for _, e := range successAlts(vf) {
		ns++
		c.requireGuard("C29.threshold", "Verify accepts", e.pos(), e.Guards, wGE("valid > ⌊2·len(pc.Validators)/3⌋", -1, t(1, `^phi\(`), t(-1, `^div\(\+2\*len\(\$r\.Validators\),3\)$`)))
	}
	if ns == 0 {
		c.undecided("C29.threshold", "Verify", vf.Pos(), "no accepting exit")
	}
	// part errors: either returned, or the part is not counted (covered by the counted-only-if-verified rule)

	// ---- map-verify
	if mv := c.mustFn("btp", "proofContextMap", "Verify"); mv != nil {
		vcs := c.calls(mv, byMethod("Verify"))
		if len(vcs) != 1 {
			c.violate("C29.map-verify", "proofContextMap.Verify verifies each proof", mv.Pos(), fmt.Sprintf("expected one pc.Verify call, found %d", len(vcs)))
		} else {
			for _, e := range successAlts(mv) {
				c.requireGuard("C29.map-verify", "map accepts ⊢ proof count matches the network types with a context", e.pos(), e.Guards, wEQ("count == NTSDProofCount()", 0, t(1, `^phi\(`), t(-1, `\.NTSDProofCount\(\)$`)))
			}
			if h := loopHeaderOf(vcs[0].Instr.Block()); h != nil {
				tr, bad := pathAvoidingEdges(mv, h.Instrs[len(h.Instrs)-1], func(in ssa.Instruction) bool { return in == h.Instrs[0] }, func(in ssa.Instruction) bool { return in == ssa.Instruction(vcs[0].Instr) }, wFalse("no context for this network type", `\.pcMap\[.*\]#1$`))
				c.check(!bad, "C29.map-verify", "every network type with a context is verified", vcs[0].Pos(), "no way round pc.Verify", "a network type with a proof context can be skipped: "+traceString(tr))
				// continuing the loop requires Verify()==nil
				errV := vcs[0].Instr.Value()
				_, cont := pathAvoidingEdges(mv, vcs[0].Instr, func(in ssa.Instruction) bool { return in == h.Instrs[0] }, nil, wSame("verification succeeded", `\.Verify\(.*\)$`, `^nil$`))
				_ = errV
				c.check(!cont, "C29.map-verify", "a failed proof ends verification", vcs[0].Pos(), "loop continues only on success", "the loop continues although a proof failed")
			}
			// the loop is left towards success only when the digest list is exhausted (no break)
			if h := loopHeaderOf(vcs[0].Instr.Block()); h != nil {
				body := loopBody(h)
				for b := range body {
					if b == h {
						continue
					}
					for _, sc := range b.Succs {
						if body[sc] {
							continue
						}
						okExit := true
						for _, rs := range returnSites(mv) {
							if (rs.Ret.Block() == sc || blockReaches(sc, rs.Ret.Block(), nil)) && isNilConst(rs.Results[0]) {
								okExit = false
							}
						}
						c.check(okExit, "C29.map-verify", "the verification loop is left early only with an error", b.Instrs[len(b.Instrs)-1].Pos(), "early exits carry an error", "the loop over the network types is left before the end and verification succeeds: the remaining network types' proofs are never verified")
					}
				}
			}
			_, a := callArgs(vcs[0].Common())
			c.check(strings.HasSuffix(render(a[0]), ".Hash()") && strings.Contains(render(a[0]), ".NewDecision($0,") && strings.Contains(render(a[0]), ".NetworkTypeSectionHash()"), "C29.map-verify", "proof verified over the decision built from the block's digest entry", vcs[0].Pos(), render(a[0]), "verified over "+render(a[0]))
		}
	}
	// ---- the snapshot of a block's contexts is never written through a later block's map
	if cp := c.mustFn("btp", "proofContextMap", "copy"); cp != nil {
		n := 0
		for _, st := range fieldStores([]*ssa.Function{cp}, "proofContextMap", "pcMap") {
			n++
			_, fresh := st.Store.Val.(*ssa.MakeMap)
			c.check(fresh, "C29.context-map-copy", "copy() gives the new map its own table", st.Store.Pos(), "make(map)", "the copy shares "+render(st.Store.Val)+" with the original: Update writes the next block's contexts into the map the previous block's votes are verified against")
		}
		if n == 0 {
			c.undecided("C29.context-map-copy", "proofContextMap.copy", cp.Pos(), "no store to pcMap")
		}
	}
	if up := c.mustFn("btp", "proofContextMap", "Update"); up != nil {
		for _, b := range up.Blocks {
			for _, in := range b.Instrs {
				var m ssa.Value
				switch x := in.(type) {
				case *ssa.MapUpdate:
					m = x.Map
				case *ssa.Call:
					if calleeName(x.Common()) == "builtin:delete" {
						m = x.Call.Args[0]
					}
				}
				if m == nil {
					continue
				}
				c.check(!strings.HasPrefix(render(m), "$r."), "C29.context-map-copy", "Update writes only the copy", in.Pos(), render(m), "Update writes the receiver's own table "+render(m))
			}
		}
	}
	// ---- a validator without a key owns no address: its slot is nil, never a neighbour's address
	if nc := c.mustFn(pkg, "", "newSecp256k1ProofContext"); nc != nil {
		n := 0
		for _, cs := range c.calls(nc, byCallee("builtin:append")) {
			_, a := callArgs(cs.Common())
			els, ok := varargElems(a[len(a)-1])
			if !ok {
				continue
			}
			for _, el := range els {
				// a value merged at a loop header is carried over from the previous validator
				var carried func(v ssa.Value, seen map[ssa.Value]bool) bool
				carried = func(v ssa.Value, seen map[ssa.Value]bool) bool {
					phi, ok := v.(*ssa.Phi)
					if !ok || seen[v] {
						return false
					}
					seen[v] = true
					for _, p := range phi.Block().Preds {
						if phi.Block().Dominates(p) {
							return true
						}
					}
					for _, e := range phi.Edges {
						if carried(e, seen) {
							return true
						}
					}
					return false
				}
				if carried(el, map[ssa.Value]bool{}) {
					n++
					c.violate("C29.context-build", "validator slot is computed for this validator alone", cs.Pos(), "the slot value "+render(el)+" is carried over from the previous loop iteration: a validator without a key inherits the previous validator's address, which then counts at two indices")
					continue
				}
				for _, fl := range flowsOf(el, nil) {
					n++
					r := render(fl.Src)
					if isNilConst(fl.Src) {
						c.okTrivial("C29.context-build", "slot of a validator without a key is nil", cs.Pos(), "nil")
						continue
					}
					c.check(strings.Contains(r, ".AddressFromPubKey(") && strings.HasSuffix(r, ")#0") && !strings.HasPrefix(r, "phi("), "C29.context-build", "validator slot is the address of this validator's own key", cs.Pos(), r, "slot value is "+r+": a validator without a key inherits another validator's address, which then counts at two indices")
				}
			}
		}
		if n < 2 {
			c.undecided("C29.context-build", "newSecp256k1ProofContext", nc.Pos(), fmt.Sprintf("expected ≥2 flows into Validators, found %d", n))
		}
	}
	_ = token.NoPos
}
