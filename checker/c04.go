package main

import (
	"fmt"
	"go/token"
	"strings"

	"golang.org/x/tools/go/ssa"
)

// C04 — vote tallies report a 2/3 majority exactly when one exists.
func init() {
	register(&Prop{
		ID:             "C04",
		Pkgs:           []string{"consensus"},
		Run:            runC04,
		MinObligations: 25,
		Technique:      "static analysis: normal form of every threshold comparison (sweep over all ⌊·/3⌋ sites of package consensus), must-pass-through of the cache invalidation and of the counter updates on every path of voteSet.add, guard dominance of the replace/decrement path, who-may-write on the tally fields",
		LevelText:      "Decides on all paths: every +2/3 decision in package consensus compares `count > ⌊2·n/3⌋` with n = number of validator slots (any other ⌊·/3⌋ comparison must be one of the two classified +1/3 sites); in voteSet.add every path that changes a counter passes `maxIndex = -1` before returning (no stale cached maximum), storing a vote is followed by exactly one counter increment-or-append and count++, the old vote's counter and count are decremented only when a different old vote existed and the sticky +2/3 test did not hold; the cached maximum is recomputed as the arg-max over all counters when invalid; msgs/counters/count/maxIndex are written only by add, the cache fill and the constructor.",
		LevelNote:      "Does not decide equality with an independent recount on every vote sequence (that is a behavioural property); decides the structural conditions each of which is necessary for it.",
		Explanation:    "C04 rules: threshold-form (K1 normal form + sweep), cache-invalidation (K8 path search), bookkeeping (K8/K1 in add), sticky (K1 DNF at the decrement), max-scan (K1/K5 in getOverTwoThirdsRoundDecisionDigest), writers (K3).",
		Mutants: []Mutant{
			{Name: "invalidate-only-on-swap", File: "consensus/voteset.go", Old: "\t\t\t\t\tvs.counters = vs.counters[:last]\n\t\t\t\t}\n\t\t\t\tbreak", New: "\t\t\t\t\tvs.counters = vs.counters[:last]\n\t\t\t\t\tvs.maxIndex = -1\n\t\t\t\t}\n\t\t\t\tbreak", Desc: "control: an extra invalidation is harmless", Equivalent: true},
			{Name: "stale-max-cache", File: "consensus/voteset.go", Old: "\tvs.count++\n\tvs.maxIndex = -1\n", New: "\tvs.count++\n", Desc: "cached maximum not invalidated after a vote is stored"},
			{Name: "threshold-2f", File: "consensus/voteset.go", Old: "\tif max > len(vs.msgs)*2/3 {", New: "\tf := len(vs.msgs) / 3\n\tif max > 2*f {", Desc: "2·⌊n/3⌋ instead of ⌊2n/3⌋: off by one for n ≡ 2 mod 3"},
			{Name: "threshold-geq", File: "consensus/voteset.go", Old: "return vs.count > len(vs.msgs)*2/3", New: "return vs.count >= len(vs.msgs)*2/3", Desc: "exactly 2/3 counts as +2/3"},
			{Name: "no-decrement", File: "consensus/voteset.go", Old: "\t\t\t\tvs.counters[i].count--\n", New: "", Desc: "replaced vote still counted for its old decision"},
			{Name: "sticky-dropped", File: "consensus/voteset.go", Old: "\t\tif ok && rdd != nil && bytes.Equal(rdd, omsg.RoundDecisionDigest()) {\n\t\t\treturn false\n\t\t}\n", New: "\t\t_, _ = rdd, ok\n", Desc: "a conflicting re-vote can remove an existing +2/3 decision"},
			{Name: "double-count", File: "consensus/voteset.go", Old: "\t\t\tvs.counters[i].count++\n\t\t\tfound = true\n\t\t\tbreak", New: "\t\t\tvs.counters[i].count++\n\t\t\tbreak", Desc: "a vote for a known decision is counted and appended again"},
			{Name: "scan-first-not-max", File: "consensus/voteset.go", Old: "\t\t\tif c.count > max {\n\t\t\t\tvs.maxIndex = i\n\t\t\t\tmax = c.count\n\t\t\t}", New: "\t\t\tif c.count > max {\n\t\t\t\tvs.maxIndex = i\n\t\t\t}", Desc: "scan keeps the last non-empty counter instead of the maximum"},
			{Name: "count-n-from-counters", File: "consensus/voteset.go", Old: "return vs.count > len(vs.msgs)*2/3", New: "return vs.count > len(vs.counters)*2/3", Desc: "threshold relative to the number of decisions, not of validator slots"},
		},
	})
}

func runC04(c *Ctx) {
	const pkg = "consensus"
	pf := c.pkgFuncs(pkg)

	// ---- threshold-form: sweep of every comparison involving ⌊·/3⌋
	classified := map[string]string{
		"hasOverTwoThirds":                    "2/3",
		"getOverTwoThirdsRoundDecisionDigest": "2/3",
		"enoughVote":                          "2/3",
		"getRoundEvidences":                   "1/3",
		"Verify":                              "1/3", // skipPatch.Verify
	}
	nSites := 0
	for _, f := range pf {
		if strings.HasSuffix(c.file(f.Pos()), "_test.go") {
			continue
		}
		for _, b := range f.Blocks {
			for _, in := range b.Instrs {
				bo, ok := in.(*ssa.BinOp)
				if !ok {
					continue
				}
				switch bo.Op {
				case token.LSS, token.LEQ, token.GTR, token.GEQ, token.EQL, token.NEQ:
				default:
					continue
				}
				if !isIntType(bo.X.Type()) {
					continue
				}
				p := predOfVal(bo, true)
				hasThird := false
				for a := range p.L.T {
					if strings.HasPrefix(a, "div(") && strings.HasSuffix(a, ",3)") {
						hasThird = true
					}
				}
				kind := classified[f.Name()]
				name := "threshold comparison in " + fnName(f)
				if !hasThird {
					// the same thresholds written without the division: 3·count > 2·n, 3·count > n
					if kind != "" && len(p.L.T) == 2 && (p.Kind == "ge" || p.Kind == "eq" || p.Kind == "ne") {
						var c3, cN int64
						var nAtom string
						for a, k := range p.L.T {
							if k == 3 || k == -3 {
								c3 = k
							} else {
								cN, nAtom = k, a
							}
						}
						want := int64(-2)
						if kind == "1/3" {
							want = -1
						}
						if c3 != 0 && cN != 0 {
							nSites++
							okForm := p.Kind == "ge" && c3 == 3 && cN == want && p.L.K == -1
							c.check(okForm, "C04.threshold-form", name, bo.Pos(), fmt.Sprintf("3·count > %d·%s", -want, nAtom), "not the strict +"+kind+" form: "+p.String())
							if okForm && kind == "2/3" && f.Signature.Recv() != nil && namedOf(f.Signature.Recv().Type()) == "voteSet" {
								c.check(nAtom == "len($r.msgs)", "C04.threshold-form", name+" base", bo.Pos(), "n = number of validator slots", "threshold is relative to "+nAtom+", not to the number of validator slots len(vs.msgs)")
							}
						}
					}
					continue
				}
				nSites++
				if kind == "" {
					c.violate("C04.threshold-form", name, bo.Pos(), "unclassified comparison against ⌊·/3⌋: "+p.String()+" — every quorum site must be one of the confirmed ones")
					continue
				}
				if kind == "2/3" {
					// canonical: X - div(2*N,3) - 1 >= 0  (strictly more than two thirds)
					okForm := p.Kind == "ge" && p.L.K == -1 && len(p.L.T) == 2
					var nAtom string
					for a, k := range p.L.T {
						if strings.HasPrefix(a, "div(+2*") && strings.HasSuffix(a, ",3)") && k == -1 {
							nAtom = strings.TrimSuffix(strings.TrimPrefix(a, "div(+2*"), ",3)")
						} else if k != 1 {
							okForm = false
						}
					}
					if !okForm || nAtom == "" {
						// the exact complement, count ≤ ⌊2N/3⌋, written as the rejecting test; which
						// side accepts is decided per function by thresholdDirection below
						okForm = p.Kind == "ge" && p.L.K == 0 && len(p.L.T) == 2
						nAtom = ""
						for a, k := range p.L.T {
							if strings.HasPrefix(a, "div(+2*") && strings.HasSuffix(a, ",3)") && k == 1 {
								nAtom = strings.TrimSuffix(strings.TrimPrefix(a, "div(+2*"), ",3)")
							} else if k != -1 {
								okForm = false
							}
						}
					}
					c.check(okForm && nAtom != "", "C04.threshold-form", name, bo.Pos(), "count > ⌊2·"+nAtom+"/3⌋", "not the strict +2/3 form: "+p.String())
					if okForm && f.Signature.Recv() != nil && namedOf(f.Signature.Recv().Type()) == "voteSet" {
						c.check(nAtom == "len($r.msgs)", "C04.threshold-form", name+" base", bo.Pos(), "n = number of validator slots", "threshold is relative to "+nAtom+", not to the number of validator slots len(vs.msgs)")
					}
				} else {
					okForm := p.Kind == "ge" && p.L.K == -1 && len(p.L.T) == 2
					for a, k := range p.L.T {
						if strings.HasPrefix(a, "div(") {
							if k != -1 || !strings.HasPrefix(a, "div(+1*") {
								okForm = false
							}
						} else if k != 1 {
							okForm = false
						}
					}
					c.check(okForm, "C04.threshold-form", name+" (+1/3)", bo.Pos(), "count > ⌊n/3⌋", "not the strict +1/3 form: "+p.String())
				}
			}
		}
	}
	if nSites < 4 {
		c.undecided("C04.threshold-form", "threshold sites", token.NoPos, fmt.Sprintf("expected ≥4 ⌊·/3⌋ comparisons in consensus, found %d", nSites))
	}
	checkEnoughVote(c, "C04.threshold-form")
	thresholdDirection(c, "C04.threshold-form", c.mustFn(pkg, "voteSet", "hasOverTwoThirds"), 0)
	thresholdDirection(c, "C04.threshold-form", c.mustFn(pkg, "voteSet", "getOverTwoThirdsRoundDecisionDigest"), 2)

	// what is compared in the voteSet sites
	if f := c.mustFn(pkg, "voteSet", "hasOverTwoThirds"); f != nil {
		for _, rs := range returnSites(f) {
			p := predOfVal(rs.Results[0], true)
			c.check(p.Kind == "ge" && (p.L.T["$r.count"] == 1 || p.L.T["$r.count"] == 3), "C04.threshold-form", "hasOverTwoThirds counts stored votes", rs.pos(), "vs.count", "compares "+p.String())
		}
	}

	// ---- add
	add := c.mustFn(pkg, "voteSet", "add")
	if add == nil {
		return
	}
	var stMsgs, stMaxInv *ssa.Store
	var stCountInc, stCountDec, stCtrInc, stCtrDec, stAppend *ssa.Store
	var ctrWrites []ssa.Instruction
	for _, b := range add.Blocks {
		for _, in := range b.Instrs {
			st, ok := in.(*ssa.Store)
			if !ok {
				continue
			}
			a := render(st.Addr)
			switch {
			case strings.HasPrefix(a, "&$r.msgs["):
				stMsgs = st
			case a == "&$r.maxIndex":
				if k, ok := constInt(st.Val); ok && k == -1 {
					stMaxInv = st
				}
			case a == "&$r.count":
				l := linOf(st.Val)
				if l.K == 1 {
					stCountInc = st
				} else if l.K == -1 {
					stCountDec = st
				}
			case strings.HasPrefix(a, "&$r.counters[") && strings.HasSuffix(a, "].count"):
				l := linOf(st.Val)
				if l.K == 1 {
					stCtrInc = st
				} else if l.K == -1 {
					stCtrDec = st
				}
				ctrWrites = append(ctrWrites, st)
			case a == "&$r.counters":
				if strings.HasPrefix(render(st.Val), "append(") {
					stAppend = st
				}
				ctrWrites = append(ctrWrites, st)
			case strings.HasPrefix(a, "&$r.counters["):
				ctrWrites = append(ctrWrites, st)
			}
		}
	}
	need := map[string]*ssa.Store{"msgs[index] = v": stMsgs, "maxIndex = -1": stMaxInv, "count++": stCountInc, "count--": stCountDec, "counters[i].count++": stCtrInc, "counters[i].count--": stCtrDec, "counters = append(…)": stAppend}
	missing := false
	for k, v := range need {
		if v == nil {
			c.violate("C04.bookkeeping", "voteSet.add: "+k, add.Pos(), "update not found in add")
			missing = true
		}
	}
	if missing {
		return
	}
	is := func(s *ssa.Store) func(ssa.Instruction) bool {
		return func(in ssa.Instruction) bool { return in == ssa.Instruction(s) }
	}
	// cache-invalidation: after any change of the counters, maxIndex = -1 before any exit
	for _, w := range ctrWrites {
		tr, bad := pathAvoiding(add, w, isReturn, is(stMaxInv))
		c.check(!bad, "C04.cache-invalidation", "counter change followed by maxIndex = -1 ("+strings.TrimPrefix(render(w.(*ssa.Store).Addr), "&")+")", w.Pos(), "every path to an exit invalidates the cached maximum", "the counters change and add can return without resetting maxIndex: the cached +2/3 candidate goes stale ("+traceString(tr)+")")
	}
	// storing a vote => exactly one of counter++ / append, then count++
	tr, bad := pathAvoiding(add, stMsgs, is(stCountInc), func(in ssa.Instruction) bool {
		return in == ssa.Instruction(stCtrInc) || in == ssa.Instruction(stAppend)
	})
	c.check(!bad, "C04.bookkeeping", "stored vote is tallied", stMsgs.Pos(), "counter++ or append on every path to count++", "a stored vote reaches count++ without being tallied in a counter: "+traceString(tr))
	_, both := pathAvoiding(add, stCtrInc, is(stAppend), nil)
	c.check(!both, "C04.bookkeeping", "stored vote is tallied once", stCtrInc.Pos(), "increment and append are exclusive", "a vote whose decision already has a counter is also appended as a new counter (counted twice)")
	_, noInc := pathAvoiding(add, stMsgs, isReturn, is(stCountInc))
	c.check(!noInc, "C04.bookkeeping", "stored vote raises count", stMsgs.Pos(), "count++ on every path", "a vote is stored without count++")
	// the counter incremented / appended is keyed by the new vote's decision digest
	c.requireAt("C04.bookkeeping", "incremented counter matches the new vote", stCtrInc, wSame("counter digest = v.RoundDecisionDigest()", `\.roundDecisionDigest$`, `^\$1\.[a-zA-Z.]*RoundDecisionDigest\(\)$`))
	// decrement path
	c.requireAt("C04.bookkeeping", "decrement only when replacing", stCtrDec, wDiffer("old vote exists", `^\$r\.msgs\[\$0\]$`, `^nil$`))
	c.requireAt("C04.bookkeeping", "decrement only when replacing", stCountDec, wDiffer("old vote exists", `^\$r\.msgs\[\$0\]$`, `^nil$`))
	c.requireAt("C04.bookkeeping", "decremented counter matches the old vote", stCtrDec, wSame("counter digest = omsg.RoundDecisionDigest()", `\.roundDecisionDigest$`, `^\$r\.msgs\[\$0\]\.[a-zA-Z.]*RoundDecisionDigest\(\)$`))
	c.requireAt("C04.bookkeeping", "identical re-vote is not re-tallied", stCountDec, wFalse("old vote differs", `^\$r\.msgs\[\$0\]\.EqualExceptSigs\(\$1\)$`))
	_, skipDec := pathAvoiding(add, stCountDec, is(stMsgs), nil)
	c.check(skipDec, "C04.bookkeeping", "replacement continues to the store", stCountDec.Pos(), "decrement then store", "after decrementing the old vote the new vote is not stored")
	// a replaced vote (omsg != nil, different) always goes through the counter decrement before the store
	for _, alt := range altGuards(stMsgs.Block()) {
		_, hadOld := holds(alt, wDiffer("old vote exists", `^\$r\.msgs\[\$0\]$`, `^nil$`))
		if !hadOld {
			continue
		}
	}
	trd, badd := pathAvoiding(add, nil, is(stMsgs), func(in ssa.Instruction) bool {
		if in == ssa.Instruction(stCountDec) {
			return true
		}
		// or the path on which no old vote existed
		if iff, ok := in.(*ssa.If); ok {
			p := predOfVal(iff.Cond, true)
			if p.Kind == "same" && (p.A == "$r.msgs[$0]" || p.B == "$r.msgs[$0]") && (p.A == "nil" || p.B == "nil") {
				return true
			}
		}
		return false
	})
	c.check(!badd, "C04.bookkeeping", "old vote is always un-tallied before being overwritten", stMsgs.Pos(), "nil test or count-- on every path", "a vote can be overwritten without un-tallying the old one: "+traceString(trd))

	// ---- sticky
	c.requireAtAny("C04.sticky", "decrement never removes a vote of the +2/3 decision", stCountDec, "¬(ok ∧ rdd ≠ nil ∧ rdd = old vote's decision)",
		wFalse("no +2/3 decision", `^\$r\.getOverTwoThirdsRoundDecisionDigest\(\)#2$`),
		wSame("decision digest is nil", `^\$r\.getOverTwoThirdsRoundDecisionDigest\(\)#0$`, `^nil$`),
		wDiffer("old vote is not for the +2/3 decision", `^\$r\.getOverTwoThirdsRoundDecisionDigest\(\)#0$`, `^\$r\.msgs\[\$0\]\.[a-zA-Z.]*RoundDecisionDigest\(\)$`))

	// ---- nil-vs-none: consumers of the decision distinguish "+2/3 voted nil" (nil, true) from "no +2/3 decision" (nil, false)
	nCons := 0
	for _, f := range pf {
		if strings.HasSuffix(c.file(f.Pos()), "_test.go") {
			continue
		}
		for _, g := range c.calls(f, byCallee("voteSet).getOverTwoThirdsPartSetID")) {
			var id, okv ssa.Value
			if g.Instr.Value() == nil || g.Instr.Value().Referrers() == nil {
				continue
			}
			for _, ref := range *g.Instr.Value().Referrers() {
				if ex, isEx := ref.(*ssa.Extract); isEx {
					if ex.Index == 0 {
						id = ex
					} else {
						okv = ex
					}
				}
			}
			if id == nil {
				continue
			}
			for _, act := range c.calls(f, func(cc *ssa.CallCommon) bool {
				n := methodName(cc)
				return strings.HasPrefix(n, "enter") || n == "sendVote" || n == "Zerofy" || strings.HasPrefix(n, "resetFor")
			}) {
				for _, alt := range altGuards(act.Instr.Block()) {
					idNil, okTrue := false, false
					for _, gd := range alt {
						if bo, isB := gd.Cond.(*ssa.BinOp); isB {
							isNil := (bo.Op == token.EQL && gd.Pol) || (bo.Op == token.NEQ && !gd.Pol)
							if isNil && ((bo.X == id && isNilConst(bo.Y)) || (bo.Y == id && isNilConst(bo.X))) {
								idNil = true
							}
						}
						if okv != nil && gd.Cond == okv && gd.Pol {
							okTrue = true
						}
					}
					if idNil {
						nCons++
						c.check(okTrue, "C04.nil-vs-none", fnName(f)+": "+methodName(act.Common())+" on a nil decision ⊢ +2/3 really voted nil", act.Pos(), "ok ∧ id == nil", "`no +2/3 decision` (nil, false) is acted upon as if +2/3 had voted nil")
					}
				}
			}
		}
	}
	c.check(nCons >= 3, "C04.nil-vs-none", "nil-decision consumers found", token.NoPos, fmt.Sprint(nCons), fmt.Sprintf("%d consumers", nCons))

	// ---- swap-remove of an emptied counter keeps every live counter
	if add := c.mustFn(pkg, "voteSet", "add"); add != nil {
		nTrunc := 0
		for _, fs := range fieldStores([]*ssa.Function{add}, "voteSet", "counters") {
			sl, isSl := fs.Store.Val.(*ssa.Slice)
			if !isSl || sl.High == nil {
				continue // the append of a new counter
			}
			nTrunc++
			l := linOf(sl.High)
			okLast := len(l.T) == 1 && l.T["len($r.counters)"] == 1 && l.K == -1
			// counters[i] = counters[last] before truncating
			okMove := false
			for _, b := range add.Blocks {
				for _, in := range b.Instrs {
					st, isSt := in.(*ssa.Store)
					if !isSt || !dominatesInstr(st, fs.Store) {
						continue
					}
					dst, isIA := st.Addr.(*ssa.IndexAddr)
					if !isIA || !strings.HasSuffix(render(dst.X), "$r.counters") {
						continue
					}
					src, _ := loadOf(st.Val).(*ssa.IndexAddr)
					if src != nil && strings.HasSuffix(render(src.X), "$r.counters") {
						ls := linOf(src.Index)
						if len(ls.T) == 1 && ls.T["len($r.counters)"] == 1 && ls.K == -1 {
							okMove = true
						}
					}
				}
			}
			c.check(okLast && okMove, "C04.bookkeeping", "an emptied counter is removed by moving the last counter into its slot, then truncating by one", fs.Store.Pos(), "counters[i] = counters[last]; counters = counters[:last]", "the counter list is truncated without moving the last counter into the freed slot: a live counter (and its votes) is dropped from the tally")
		}
		c.check(nTrunc == 1, "C04.bookkeeping", "counter removal site", add.Pos(), "1", fmt.Sprintf("%d truncations", nTrunc))
	}

	// ---- max-scan
	if g := c.mustFn(pkg, "voteSet", "getOverTwoThirdsRoundDecisionDigest"); g != nil {
		for _, st := range fieldStores([]*ssa.Function{g}, "voteSet", "maxIndex") {
			// value is the range index of the counter whose count exceeds the running maximum
			c.requireAt("C04.max-scan", "cache fill only when invalid", st.Store, wGE("maxIndex < 0", -1, t(-1, `^\$r\.maxIndex$`)))
			c.requireAt("C04.max-scan", "cache fill picks a larger counter", st.Store, wGE("c.count > max", -1, t(1, `\.count$`), t(-1, `^phi\(`)))
			// the running maximum is updated with that count on the same edge
			blk := st.Store.Block()
			upd := false
			for _, b := range g.Blocks {
				for _, in := range b.Instrs {
					if phi, ok := in.(*ssa.Phi); ok && isIntType(phi.Type()) {
						for i, e := range phi.Edges {
							if phi.Block().Preds[i] == blk && strings.HasSuffix(render(e), ".count") {
								upd = true
							}
						}
					}
				}
			}
			c.check(upd, "C04.max-scan", "running maximum updated with the larger count", st.Store.Pos(), "max = c.count", "maxIndex is moved but the running maximum is not updated: the scan does not find the arg-max")
		}
		for _, e := range exitAlts(g) {
			if isConstBool(e.Results[2], false) {
				continue
			}
			c.requireAny("C04.max-scan", "decision reported", e.pos(), e.Guards, "max > ⌊2n/3⌋",
				wGE("max > ⌊2n/3⌋", -1, t(1, `^phi\(`), t(-1, `^div\(\+2\*len\(\$r\.msgs\),3\)$`)),
				wGE("3·max > 2n", -1, t(3, `^phi\(`), t(-2, `^len\(\$r\.msgs\)$`)))
			src := render(e.Results[0])
			if ld, ok := e.Results[0].(*ssa.UnOp); ok {
				if fa, ok := ld.X.(*ssa.FieldAddr); ok {
					if al, ok := fa.X.(*ssa.Alloc); ok { // `counter := vs.counters[vs.maxIndex]` copy
						for _, st := range storesTo(al) {
							src = render(st.Val) + "." + fieldName(fa.X.Type(), fa.Field)
						}
					}
				}
			}
			c.check(strings.HasPrefix(src, "$r.counters[$r.maxIndex]"), "C04.max-scan", "reported decision is the cached arg-max", e.pos(), render(e.Results[0]), "reports "+render(e.Results[0]))
		}
	}

	// ---- writers
	allowed := map[string]map[string]bool{
		"msgs":     {"add": true, "newVoteSet": true},
		"counters": {"add": true},
		"count":    {"add": true},
		"maxIndex": {"add": true, "getOverTwoThirdsRoundDecisionDigest": true, "newVoteSet": true},
	}
	for field, fns := range allowed {
		for _, st := range fieldStores(pf, "voteSet", field) {
			c.check(fns[st.Fn.Name()], "C04.writers", "writer of voteSet."+field+": "+fnName(st.Fn), st.Store.Pos(), "expected writer", "unexpected writer of a tally field")
		}
	}
	for _, f := range pf {
		if fnAllowed := f.Name() == "add" || f.Name() == "newVoteSet"; fnAllowed {
			continue
		}
		for _, b := range f.Blocks {
			for _, in := range b.Instrs {
				if st, ok := in.(*ssa.Store); ok {
					a := render(st.Addr)
					if strings.Contains(a, ".msgs[") && strings.Contains(shortType(st.Val.Type()), "VoteMessage") && namedOfAddrBase(st.Addr) == "voteSet" {
						c.violate("C04.writers", "element store into voteSet.msgs in "+fnName(f), st.Pos(), "votes may only be stored by add")
					}
				}
			}
		}
	}
}

func namedOfAddrBase(v ssa.Value) string {
	for {
		switch x := v.(type) {
		case *ssa.IndexAddr:
			v = x.X
		case *ssa.UnOp:
			v = x.X
		case *ssa.FieldAddr:
			return namedOf(x.X.Type())
		default:
			return ""
		}
	}
}

// thresholdDirection: the boolean result idx of fn is true only behind
// count > ⌊2·len(msgs)/3⌋ and false only behind its complement (whichever way
// the comparison is written and whichever branch comes first).
func thresholdDirection(c *Ctx, rule string, fn *ssa.Function, idx int) {
	if fn == nil {
		return
	}
	more := []Want{wGE("count > ⌊2n/3⌋", -1, t(1, `.`), t(-1, `^div\(\+2\*len\(\$r\.msgs\),3\)$`)), wGE("3·count > 2n", -1, t(3, `.`), t(-2, `^len\(\$r\.msgs\)$`))}
	notMore := []Want{wGE("count ≤ ⌊2n/3⌋", 0, t(-1, `.`), t(1, `^div\(\+2\*len\(\$r\.msgs\),3\)$`)), wGE("3·count ≤ 2n", 0, t(-3, `.`), t(2, `^len\(\$r\.msgs\)$`))}
	n := 0
	for _, want := range []bool{true, false} {
		for _, rs := range boolSites(fn, idx, want) {
			gs := rs.guards()
			if !isConstBool(rs.Results[idx], want) {
				v, pol := stripNot(rs.Results[idx], want)
				gs = append(gs, Guard{v, pol, rs.Ret.Block()})
			}
			ws := more
			if !want {
				ws = notMore
			}
			okD := false
			for _, w := range ws {
				if _, ok := holds(gs, w); ok {
					okD = true
				}
			}
			n++
			c.check(okD, rule, fmt.Sprintf("%s = %v only on the matching side of the +2/3 threshold", fnName(fn), want), rs.pos(), "direction agrees", fmt.Sprintf("%s returns %v under %s: the accepting side of the +2/3 comparison is the wrong one", fnName(fn), want, guardsString(gs)))
		}
	}
	if n < 2 {
		c.undecided(rule, fnName(fn)+" direction", fn.Pos(), fmt.Sprintf("%d classified exits", n))
	}
}
