package main

import (
	"fmt"
	"go/token"
	"go/types"
	"regexp"
	"strings"

	"golang.org/x/tools/go/ssa"
)

// C13 — only the sender's key can authorize a transaction.
func init() {
	register(&Prop{
		ID:             "C13",
		Pkgs:           []string{"service/transaction", "common/crypto", "service", "common"},
		Run:            runC13,
		MinObligations: 18,
		Technique:      "static analysis: guard dominance on every accepting exit of the signature checks (whole-address equality between the address recovered over the transaction's own id and its sender), must-pass-through of the signature check in every Verify and of Verify in every validation loop, input guards of key recovery",
		LevelText:      "Decides on all paths: every signature check of a transaction kind (v3, v2, signed double-sign report) accepts only behind a successful key recovery over that transaction's own id and an equality of the *whole* recovered account address (type flag and body, not a projection) with the transaction's sender; each Verify reaches its signature check on every accepting path; block validation and the transaction manager call Verify for every transaction and propagate its error; key recovery itself rejects signatures without recovery id and empty or over-long hashes before calling the curve code, and an id that could not be computed is the empty slice, which recovery rejects.",
		LevelNote:      "ECDSA recovery (decred secp256k1) is trusted; signature malleability (high-S twins) is not in this claim. service.manager.ExecuteTransaction deliberately tolerates an invalid signature (fee estimation, nothing is committed) and is a listed exception.",
		Explanation:    "C13 rules: verify-guard (K1+K5 in the three signature checks), verify-door (K2/K8 in Verify, validateTxs, VerifyTx), recover-guard (K1 in crypto.Signature.RecoverPublicKey), empty-id (K5 in TxHash).",
		Mutants: []Mutant{
			{Name: "sender-body-only", File: "service/transaction/transaction_v3.go", Old: "\tif addr.Equal(tx.From()) {", New: "\tif bytes.Equal(addr.ID(), tx.From().ID()) {", Desc: "contract-typed sender with the same body is authorized by an account key"},
			{Name: "recover-accepts-empty-hash", File: "common/crypto/signature.go", Old: "if len(hash) == 0 || len(hash) > HashLen {", New: "if hash == nil || len(hash) > HashLen {", Desc: "non-nil empty hash reaches the curve code (forgeable recovery for message 0)"},
			{Name: "verify-skips-signature", File: "service/transaction/transaction_v3.go", Old: "\t// signature verification\n\tif err := tx.verifySignature(); err != nil {\n\t\treturn err\n\t}\n\n\treturn nil\n}\n\nfunc (tx *transactionV3) ValidateNetwork", New: "\t// signature verification\n\tif err := tx.verifySignature(); err != nil && tx.DataType == nil {\n\t\treturn err\n\t}\n\n\treturn nil\n}\n\nfunc (tx *transactionV3) ValidateNetwork", Desc: "signature failure ignored for typed transactions"},
			{Name: "recover-over-other-hash", File: "service/transaction/transaction_v3.go", Old: "pk, err := tx.Signature.RecoverPublicKey(tx.TxHash())", New: "pk, err := tx.Signature.RecoverPublicKey(tx.From().ID())", Desc: "key recovered over attacker-chosen bytes instead of the id"},
			{Name: "dsr-signer-unchecked", File: "service/transaction/doublesignreport.go", Old: "\t\tif !common.AddressEqual(tx.data.From, signer) {", New: "\t\tif tx.data.From == nil {", Desc: "signed report accepted from any key"},
			{Name: "validate-skips-verify", File: "service/transition.go", Old: "\t\tif err := tx.Verify(); err != nil {\n\t\t\treturn err\n\t\t}\n\t\tif err := tsr.CheckTx(tx); err != nil {", New: "\t\tif err := tx.Verify(); err != nil && tx.Group() == module.TransactionGroupPatch {\n\t\t\treturn err\n\t\t}\n\t\tif err := tsr.CheckTx(tx); err != nil {", Desc: "block validation ignores verification failures of normal transactions"},
			{Name: "empty-id-as-zero-hash", File: "service/transaction/transaction_v3.go", Old: "\t\t\ttx.txHash = []byte{}", New: "\t\t\ttx.txHash = make([]byte, 32)", Desc: "a transaction whose id cannot be computed gets the all-zero id (recoverable)"},
		},
	})
}

func runC13(c *Ctx) {
	runC13Second(c)
	runC13Extra(c)
	const tp = "service/transaction"

	// ---- verify-guard
	type chk struct {
		fn        *ssa.Function
		name      string
		signedArm func(gs []Guard) bool
	}
	var checks []chk
	if f := c.mustFn(tp, "transactionV3", "verifySignature"); f != nil {
		checks = append(checks, chk{f, "transactionV3.verifySignature", nil})
	}
	if f := c.mustFn(tp, "transactionV2", "verifySignature"); f != nil {
		checks = append(checks, chk{f, "transactionV2.verifySignature", nil})
	} else if f := c.fn(tp, "transactionJSON", "verifySignature"); f != nil {
		checks = append(checks, chk{f, "transactionJSON.verifySignature", nil})
	}
	if f := c.mustFn(tp, "doubleSignReportTx", "Verify"); f != nil {
		checks = append(checks, chk{f, "doubleSignReportTx.Verify", func(gs []Guard) bool {
			_, a := holds(gs, wDiffer("has a sender", `\.data\.From$`, `^nil$`))
			return a
		}})
	}
	for _, k := range checks {
		n := 0
		for _, e := range successAlts(k.fn) {
			if contradictoryR(e.Guards) {
				continue // syntactic path no execution takes (the function writes nothing in between)
			}
			if k.signedArm != nil && !k.signedArm(e.Guards) {
				// unsigned system report: must have neither sender nor signature
				_, noFrom := holds(e.Guards, wSame("no sender", `\.data\.From$`, `^nil$`))
				_, noSig := holds(e.Guards, wSame("no signature", `\.data\.Signature$`, `^nil$`))
				c.check(noFrom && noSig, "C13.verify-guard", k.name+": unsigned form has neither sender nor signature", e.pos(), "From == nil ∧ Signature == nil", "accepts a half-signed report under "+guardsString(e.Guards))
				continue
			}
			n++
			own := `\$r\.[A-Za-z0-9_.]*(TxHash\(\)|ID(\[[^\]]*\])?\(\)|txHash)`
			rec := `\.RecoverPublicKey\(` + own + `\)#0\)`
			c.requireAnyG(e, "C13.verify-guard", k.name+" accepts ⊢ recovered account address = sender (whole address)",
				wSame("addr.Equal(from)", `^common\.NewAccountAddressFromPublicKey\(.*`+rec+`$`, `^(&)?\$r\.[A-Za-z0-9_.]*From(\(\))?$`),
				wTrue("AddressEqual(from, addr)", `^common\.AddressEqual\(\$r\.[A-Za-z0-9_.]*From(\(\))?,common\.NewAccountAddressFromPublicKey\(.*`+rec+`\)$`),
				wTrue("AddressEqual(addr, from)", `^common\.AddressEqual\(common\.NewAccountAddressFromPublicKey\(.*`+rec+`,\$r\.[A-Za-z0-9_.]*From(\(\))?\)$`))
			c.requireGuard("C13.verify-guard", k.name+" accepts", e.pos(), e.Guards, wSame("key recovery succeeded", `\.RecoverPublicKey\(`+own+`\)#1$`, `^nil$`))
		}
		if n == 0 {
			c.undecided("C13.verify-guard", k.name, k.fn.Pos(), "no accepting exit on the signed arm")
		}
		// the key is recovered from this transaction's own signature
		for _, cs := range c.calls(k.fn, byMethod("RecoverPublicKey")) {
			r, _ := callArgs(cs.Common())
			c.check(strings.HasPrefix(strings.TrimLeft(render(r), "&*"), "$r.") && strings.Contains(render(r), "Signature"), "C13.verify-guard", k.name+": recovers from its own signature", cs.Pos(), render(r), "recovers from "+render(r))
		}
	}

	// ---- verify-door
	for _, t := range []string{"transactionV3", "transactionV2"} {
		f := c.mustFn(tp, t, "Verify")
		if f == nil {
			continue
		}
		for _, e := range successAlts(f) {
			c.requireGuard("C13.verify-door", t+".Verify accepts", e.pos(), e.Guards, wSame("verifySignature() == nil", `^\$r\.[a-zA-Z.]*verifySignature\(\)$`, `^nil$`))
		}
	}
	if vt := c.mustFn("service", "transition", "validateTxs"); vt != nil {
		vs := c.calls(vt, byMethod("Verify"))
		if len(vs) != 1 {
			c.violate("C13.verify-door", "validateTxs verifies", vt.Pos(), fmt.Sprintf("expected one Verify call, found %d", len(vs)))
		} else {
			if h := loopHeaderOf(vs[0].Instr.Block()); h != nil {
				tr, bad := loopBypass(vt, h, vs[0].Instr)
				c.check(!bad, "C13.verify-door", "validateTxs verifies every transaction", vs[0].Pos(), "no iteration skips Verify", "a transaction can skip Verify: "+traceString(tr))
			}
			// its error ends validation: continuing the loop requires Verify()==nil
			errV := vs[0].Instr.Value()
			okProp := false
			for _, e := range exitAlts(vt) {
				if e.Results[0] == ssa.Value(errV) {
					okProp = true
				}
			}
			c.check(okProp, "C13.verify-door", "validateTxs returns the verification error", vs[0].Pos(), "returned", "the error of Verify is not returned")
			for _, cs := range c.calls(vt, byMethod("PreValidate", "CheckTx")) {
				c.requireAt("C13.verify-door", "validateTxs continues only after a successful Verify", cs.Instr, wSame("Verify() == nil", `\.Verify\(\)$`, `^nil$`))
			}
		}
	}
	if vx := c.mustFn("service", "TransactionManager", "VerifyTx"); vx != nil {
		for _, e := range successAlts(vx) {
			if _, isNil := holds(e.Guards, wSame("nil transaction", `^\$0$`, `^nil$`)); isNil {
				continue
			}
			c.requireGuard("C13.verify-door", "TransactionManager.VerifyTx accepts", e.pos(), e.Guards, wSame("Verify() == nil", `^\$0\.Verify\(\)$`, `^nil$`))
		}
	}

	// ---- recover-guard
	if rp := c.mustFn("common/crypto", "Signature", "RecoverPublicKey"); rp != nil {
		n := 0
		for _, e := range successAlts(rp) {
			n++
			withV, _ := c.constVal("common/crypto", "SignatureLenRawWithV")
			c.requireAny("C13.recover-guard", "RecoverPublicKey succeeds", e.pos(), e.Guards, "signature has a recovery id", wTrue("HasV()", `^\$r\.HasV\(\)$`), wEQ("len(bytes) == 65", -withV, t(1, `^len\(\$r\.bytes\)$`)))
			c.requireGuard("C13.recover-guard", "RecoverPublicKey succeeds", e.pos(), e.Guards, wGE("hash not empty", -1, t(1, `^len\(\$0\)$`)))
			c.requireGuard("C13.recover-guard", "RecoverPublicKey succeeds", e.pos(), e.Guards, wGE("hash ≤ 32 bytes", 32, t(-1, `^len\(\$0\)$`)))
			c.requireGuard("C13.recover-guard", "RecoverPublicKey succeeds", e.pos(), e.Guards, wSame("curve recovery succeeded", `RecoverCompact\(\$r\.bytes,\$0\)#2$`, `^nil$`))
		}
		if n == 0 {
			c.undecided("C13.recover-guard", "RecoverPublicKey", rp.Pos(), "no success exit")
		}
	}
	if hv := c.mustFn("common/crypto", "Signature", "HasV"); hv != nil {
		for _, rs := range returnSites(hv) {
			p := predOfVal(rs.Results[0], true)
			c.check(p.Kind == "eq" && p.L.T["len($r.bytes)"] == 1 && p.L.K == -65, "C13.recover-guard", "HasV ⇔ 65-byte signature", rs.pos(), "len == 65", "HasV is "+p.String())
		}
	}

	// ---- empty-id
	if th := c.mustFn(tp, "transactionV3", "TxHash"); th != nil {
		for _, st := range fieldStores([]*ssa.Function{th}, "transactionV3", "txHash") {
			r := render(st.Store.Val)
			if strings.Contains(r, "calcHash()#0") {
				c.requireAt("C13.empty-id", "id = computed hash only when computable", st.Store, wSame("calcHash error == nil", `calcHash\(\)#1$`, `^nil$`))
				continue
			}
			// the failure arm: must be a zero-length slice (rejected by RecoverPublicKey)
			okEmpty := false
			if sl, ok := st.Store.Val.(*ssa.Slice); ok {
				if al, ok := sl.X.(*ssa.Alloc); ok && strings.Contains(al.Type().String(), "[0]byte") {
					okEmpty = true
				}
			}
			if ms, ok := st.Store.Val.(*ssa.MakeSlice); ok {
				if k, isK := constInt(ms.Len); isK && k == 0 {
					okEmpty = true
				}
			}
			c.check(okEmpty, "C13.empty-id", "an id that cannot be computed is the empty slice", st.Store.Pos(), "[]byte{}", "uncomputable id is set to "+r+" (a non-empty constant id is recoverable by anyone)")
		}
	}
	_ = token.NoPos
}

// requireAnyG: on this exit alternative at least one want holds.
func (c *Ctx) requireAnyG(e exitAlt, rule, construct string, ws ...Want) {
	for _, w := range ws {
		if wit, ok := holds(e.Guards, w); ok {
			c.ok(rule, construct, e.pos(), "established by "+wit)
			return
		}
	}
	c.violate(rule, construct, e.pos(), "not established; guards: "+guardsString(e.Guards))
}

// runC13Extra: rules added after independently produced mutants were missed.
func runC13Extra(c *Ctx) {
	const cr = "common/crypto"
	hl, _ := c.constVal(cr, "HashLen")
	// the curve code signs / verifies exactly one hash: longer messages are rejected, not truncated
	if fn := c.mustFn(cr, "Signature", "Verify"); fn != nil {
		for _, cs := range c.calls(fn, byMethod("Verify")) {
			c.requireAt("C13.recover-guard", "Signature.Verify reaches the curve only with a message of at most one hash", cs.Instr, wGE("len(msg) ≤ HashLen", hl, t(-1, `^len\(\$0\)$`)))
			c.requireAt("C13.recover-guard", "Signature.Verify reaches the curve only with a non-empty message", cs.Instr, wNE("len(msg) ≠ 0", 0, t(1, `^len\(\$0\)$`)))
		}
	}
	if fn := c.mustFn(cr, "", "NewSignature"); fn != nil {
		n := 0
		for _, cs := range c.calls(fn, func(cc *ssa.CallCommon) bool { return strings.HasSuffix(calleeName(cc), "ecdsa.SignCompact") }) {
			n++
			c.requireAt("C13.recover-guard", "signing covers the whole message (at most one hash)", cs.Instr, wGE("len(hash) ≤ HashLen", hl, t(-1, `^len\(\$0\)$`)))
		}
		c.check(n == 1, "C13.recover-guard", "NewSignature signs at one place", fn.Pos(), "1", fmt.Sprint(n))
	}
	// parsing: the recovery id is taken verbatim from the 65th byte; parsed signatures own their bytes
	if fn := c.mustFn(cr, "", "parseSignature"); fn != nil {
		for _, cs := range c.calls(fn, byCallee("crypto.recoverFlagToECDSA")) {
			_, a := callArgs(cs.Common())
			ia, _ := loadOf(a[0]).(*ssa.IndexAddr)
			okA := ia != nil && render(ia.X) == "$0"
			if okA {
				k, isK := constInt(ia.Index)
				raw, _ := c.constVal(cr, "SignatureLenRaw")
				okA = isK && k == raw
			}
			c.check(okA, "C13.recover-guard", "the recovery id is the signature's own last byte, unaltered", cs.Pos(), "recoverFlagToECDSA(sig[64])", "the recovery id passes through another mapping ("+render(a[0])+"): several encodings of one signature are accepted")
		}
		for _, e := range successAlts(fn) {
			var bases []ssa.Value
			appendBases(e.Results[0], map[ssa.Value]bool{}, &bases)
			fresh := len(bases) > 0
			for _, b := range bases {
				_, isMk := b.(*ssa.MakeSlice)
				if al, isAl := b.(*ssa.Alloc); isAl && (al.Comment == "makeslice" || al.Comment == "slicelit") {
					isMk = true
				}
				if !isMk {
					fresh = false
				}
			}
			c.check(fresh, "C13.recover-guard", "a parsed signature owns its bytes", e.pos(), "make + copy", "parseSignature returns storage shared with the caller's buffer")
			lo, hi, hasLo, hasHi := boundsOnAll(e.Guards, "len($0)")
			raw, _ := c.constVal(cr, "SignatureLenRaw")
			c.check(hasLo && hasHi && lo == hi && (lo == raw || lo == raw+1), "C13.recover-guard", "only the two exact signature lengths parse", e.pos(), fmt.Sprintf("len == %d", lo), "parseSignature accepts other lengths")
		}
	}
	if fn := c.mustFn(cr, "", "ParseSignatureVRS"); fn != nil {
		for _, fs := range fieldStores([]*ssa.Function{fn}, "Signature", "bytes") {
			var bases []ssa.Value
			appendBases(fs.Store.Val, map[ssa.Value]bool{}, &bases)
			fresh := len(bases) > 0
			for _, b := range bases {
				// append onto the zero value of the field (nil) allocates
				if !(isNilConst(b) || strings.HasSuffix(render(b), ".bytes")) {
					fresh = false
				}
				if p, isP := b.(*ssa.Parameter); isP && p != nil {
					fresh = false
				}
			}
			_, isApp := fs.Store.Val.(*ssa.Call)
			c.check(fresh && isApp, "C13.recover-guard", "ParseSignatureVRS copies the caller's buffer before rewriting the recovery id", fs.Store.Pos(), "append(s.bytes, sig...)", "the signature aliases the caller's buffer and then rewrites its first byte in place")
		}
	}
	// the recovered key is used only after recovery succeeded
	for _, tn := range []string{"transactionV3", "transactionV2"} {
		fn := c.fn("service/transaction", tn, "verifySignature")
		if fn == nil {
			continue
		}
		for _, rc := range c.calls(fn, byMethod("RecoverPublicKey")) {
			ev := errValueOf(rc.Instr)
			for _, use := range c.calls(fn, byCallee("common.NewAccountAddressFromPublicKey")) {
				okG := false
				for _, g := range guardsAt(use.Instr) {
					if bo, isB := g.Cond.(*ssa.BinOp); isB {
						isNil := (bo.Op == token.EQL && g.Pol) || (bo.Op == token.NEQ && !g.Pol)
						if isNil && (bo.X == ev || bo.Y == ev) {
							okG = true
						}
					}
				}
				c.check(okG, "C13.verify-guard", tn+": the recovered key is used only after recovery succeeded", use.Pos(), "err == nil", "the address is derived from the recovered key before the recovery error is checked: a missing or malformed signature gives a nil key and a panic instead of a rejection")
			}
		}
	}
	// JSON signature: parsed only if base64 decoding succeeded
	if fn := c.mustFn("common", "Signature", "UnmarshalJSON"); fn != nil {
		for _, cs := range c.calls(fn, byCallee("crypto.ParseSignature")) {
			c.requireAt("C13.recover-guard", "a JSON signature is parsed only if its base64 text decoded completely", cs.Instr, wSame("DecodeString ok", `DecodeString\(.*\)#1$`, `^nil$`))
		}
	}
	// a transaction whose JSON id differs from the id of its fields keeps the JSON id
	if fn := c.mustFn("service/transaction", "", "parseV3JSON"); fn != nil {
		n := 0
		for _, fs := range fieldStores(withAnon(fn), "transactionV3", "txHash") {
			n++
			_, okD := holds(guardsAt(fs.Store), wDiffer("id of the JSON ≠ id of the fields", `calcHashOfTransactionJSON|\.ID\(\)$`, `\.ID\(\)$|calcHashOfTransactionJSON`))
			c.check(okD || len(guardsAt(fs.Store)) > 0, "C13.empty-id", "the JSON id is installed when it differs from the field id", fs.Store.Pos(), render(fs.Store.Val), "txHash store unguarded")
		}
		c.check(n >= 1, "C13.empty-id", "parseV3JSON installs the id of the original JSON when it differs from the id of the parsed fields", fn.Pos(), "tx.txHash = id", "a transaction with non-canonical or extra fields keeps the id of its parsed fields: its signature is checked against an id that is not the one of the bytes that were signed")
	}
}

// runC13Second: rules added for the second list of independent mutants.
// (1) a transaction enters the pool as `already verified` only behind a
// successful VerifyTx of that very transaction; (2) serialising a signature
// never writes into the signature's own bytes; (3) the binary form of a
// signature is parsed whole (no truncation of an over-long field).
// runC13Third: address derivation takes the tail of the key digest; a locally built transaction is
// signed after its last content field was set.
func runC13Third(c *Ctx) {
	if f := c.mustFn("common", "", "NewAccountAddressFromPublicKey"); f != nil {
		idLen, okL := c.constVal("common", "AddressIDBytes")
		n := 0
		for _, cs := range c.calls(f, func(cc *ssa.CallCommon) bool {
			cal := cc.StaticCallee()
			return cal != nil && cal.Name() == "NewAccountAddress"
		}) {
			n++
			_, a := callArgs(cs.Common())
			sl, isSl := unwrap(a[0]).(*ssa.Slice)
			okT := false
			if isSl && okL && sl.Low != nil && sl.High == nil {
				if k, isK := constInt(sl.Low); isK {
					if pt, isP := sl.X.Type().Underlying().(*types.Pointer); isP {
						if at, isA := pt.Elem().Underlying().(*types.Array); isA {
							okT = at.Len()-k == idLen
						}
					}
				} else {
					okT = render(sl.Low) == fmt.Sprintf("(len(%s) - %d)", render(sl.X), idLen)
				}
			}
			c.check(okT, "C13.address-of-key", "an account address is the last AddressIDBytes bytes of the key digest", cs.Pos(), "digest[len(digest)-AddressIDBytes:]", "the address is built from "+render(a[0])+": the signer recovered from a signature maps to another address than the one every ICON wallet derives, so correctly signed transactions are rejected")
		}
		if n == 0 {
			c.undecided("C13.address-of-key", "NewAccountAddressFromPublicKey", f.Pos(), "no NewAccountAddress call")
		}
	}
	if f := c.mustFn("service/transaction", "", "NewPatchTransaction"); f != nil {
		hs := c.calls(f, byMethod("TxHash"))
		if len(hs) != 1 {
			c.undecided("C13.sign-last", "NewPatchTransaction", f.Pos(), fmt.Sprintf("%d TxHash calls", len(hs)))
		} else {
			rootPath := func(v ssa.Value) (ssa.Value, string) {
				path := ""
				for {
					fa, ok := v.(*ssa.FieldAddr)
					if !ok {
						return v, path
					}
					path = faName(fa) + "." + path
					v = fa.X
				}
			}
			var txRoot ssa.Value
			if r, _ := callArgs(hs[0].Common()); r != nil {
				txRoot, _ = rootPath(r)
			}
			bad := ""
			var badPos token.Pos
			for _, b := range f.Blocks {
				for _, in := range b.Instrs {
					var target ssa.Value
					switch x := in.(type) {
					case *ssa.Store:
						target = x.Addr
					case *ssa.Call:
						if r, _ := callArgs(x.Common()); r != nil && x != hs[0].Instr {
							target = r
						}
					}
					if target == nil {
						continue
					}
					root, path := rootPath(target)
					if root != txRoot || txRoot == nil || path == "" || strings.Contains(path, "Signature") {
						continue
					}
					if _, after := pathAvoiding(f, hs[0].Instr, func(i ssa.Instruction) bool { return i == in }, func(ssa.Instruction) bool { return false }); after && !dominatesInstr(in, hs[0].Instr) {
						bad, badPos = strings.TrimSuffix(path, "."), in.Pos()
					}
				}
			}
			c.check(bad == "", "C13.sign-last", "NewPatchTransaction signs the id of the finished transaction", hs[0].Pos(), "no content field is written after TxHash()", "field "+bad+" is written after TxHash() was computed (and cached): the signature covers another id than the one every receiver recomputes from the bytes ("+c.pos(badPos)+")")
		}
	}
}

func runC13Second(c *Ctx) {
	runC13Third(c)
	nAdd := 0
	for _, f := range c.pkgFuncs("service") {
		if strings.HasSuffix(c.file(f.Pos()), "_test.go") {
			continue
		}
		for _, cs := range c.calls(f, byCallee("(*service.TransactionManager).Add")) {
			_, a := callArgs(cs.Common())
			if len(a) != 3 {
				continue
			}
			nAdd++
			if isConstBool(a[2], false) {
				c.okTrivial("C13.verify-door", fnName(f)+" adds an unverified transaction (Add verifies it)", cs.Pos(), "verified=false")
				continue
			}
			if !isConstBool(a[2], true) {
				c.violate("C13.verify-door", fnName(f)+": the `verified` flag is a constant", cs.Pos(), "verified = "+render(a[2]))
				continue
			}
			c.requireAt("C13.verify-door", fnName(f)+" adds a transaction as already verified", cs.Instr, wSame("VerifyTx(tx) == nil", "^"+regexp.QuoteMeta("$r.tm.VerifyTx("+render(a[0])+")")+"$", `^nil$`))
		}
	}
	if nAdd < 2 {
		c.undecided("C13.verify-door", "TransactionManager.Add call sites", token.NoPos, fmt.Sprintf("expected ≥2, found %d", nAdd))
	}
	if f := c.mustFn("service", "TransactionManager", "Add"); f != nil {
		// inside Add: the pool insertion is reached only with verified set or VerifyTx passed
		for _, cs := range c.calls(f, byMethod("addInLock")) {
			c.requireAtAny("C13.verify-door", "TransactionManager.Add inserts", cs.Instr, "verified by the caller ∨ VerifyTx == nil",
				wTrue("verified", `^\$2$`), wSame("VerifyTx == nil", `^\$r\.VerifyTx\(\$0\)$`, `^nil$`))
		}
	}
	for _, nm := range []string{"SerializeVRS", "SerializeRS", "SerializeRSV"} {
		f := c.fn("common/crypto", "Signature", nm)
		if f == nil {
			continue
		}
		for _, b := range f.Blocks {
			for _, in := range b.Instrs {
				st, ok := in.(*ssa.Store)
				if !ok {
					continue
				}
				if ia, ok := st.Addr.(*ssa.IndexAddr); ok && strings.HasPrefix(render(ia.X), "$r.bytes") {
					c.violate("C13.recover-guard", "Signature."+nm+" does not modify the signature", st.Pos(), "writes "+render(st.Addr)+": after serialising once the same signature no longer recovers its signer")
				}
			}
		}
		for _, cs := range c.calls(f, byCallee("builtin:copy")) {
			_, a := callArgs(cs.Common())
			c.check(!strings.HasPrefix(render(a[0]), "$r.bytes"), "C13.recover-guard", "Signature."+nm+" copies out of, not into, the signature", cs.Pos(), render(a[0]), "copies into "+render(a[0]))
		}
	}
	if f := c.mustFn("common", "Signature", "UnmarshalBinary"); f != nil {
		n := 0
		for _, cs := range c.calls(f, byCallee("common/crypto.ParseSignature")) {
			_, a := callArgs(cs.Common())
			n++
			c.check(render(a[0]) == "$0", "C13.recover-guard", "UnmarshalBinary parses the whole field", cs.Pos(), "ParseSignature(s)", "parses "+render(a[0])+": trailing bytes of an over-long signature field are ignored instead of rejected")
		}
		if n != 1 {
			c.undecided("C13.recover-guard", "Signature.UnmarshalBinary", f.Pos(), fmt.Sprintf("%d ParseSignature calls", n))
		}
	}
}
