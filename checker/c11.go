package main

import (
	"fmt"
	"go/token"
	"strings"

	"golang.org/x/tools/go/ssa"
)

// C11 — replay protection: a transaction is included at most once per chain.
func init() {
	register(&Prop{
		ID:             "C11",
		Pkgs:           []string{"common/txlocator", "service"},
		Run:            runC11,
		MinObligations: 25,
		Technique:      "static analysis: linear guard algebra over the timestamp window (interval-convention consistency between the acceptance window and every lookup shortcut), guard dominance and loop no-bypass on the recording path, argument provenance of group/threshold",
		LevelText:      "Decides on all paths: the acceptance window is exactly min < ts ≤ max with min = bts − th and max = bts + th in both range constructors; every `cannot be here` shortcut that skips a duplicate lookup implies ts strictly above the inclusive window maximum it compares against (tracker.Has, the manager's DB shortcut), maxTSInDB only grows and is the inclusive maximum of an evicted list; a locator is recorded only behind `id not in this block` ∧ (force ∨ ¬parentHas(id, ts)) with errors propagated and no item skipped; validation is reported only after the ids were recorded; the tracker of each group is created with that group's threshold, the same group whose window validation uses.",
		LevelNote:      "One genuine defect is recorded as a known finding (tracker.Has treats the inclusive maximum as exclusive; its repair contradicts an existing test). Does not decide the asynchronous flush protocol or database contents; guards over heap fields assumed stable between guard and site.",
		Explanation:    "C11 rules: window (K1 normal form of CheckTxTimestamp + K5 of both range constructors), interval-consistency (K1 linear implication at every shortcut exit: tracker.Has, manager.hasLocatorInCache; K3/K1 on maxTSInDB stores), add-guards (K1 + K8 loop no-bypass in tracker.Add, argument pass-through of parentHasInLock/manager.Has), record-before-validate (K2 in doExecute), group-threshold agreement (K5 in ensureRecordTXIDsInLock vs the validation window constructor). Structural necessary conditions on all paths.",
		Mutants: []Mutant{
			{Name: "F4b-cache-shortcut-inclusive", File: "common/txlocator/manager.go", Old: "l != 0 && l < ts {", New: "l != 0 && l <= ts {", Desc: "regression of F4b"},
			{Name: "window-min-inclusive", File: "service/tschecker.go", Old: "if ts <= min {", New: "if ts < min {", Desc: "window minimum becomes inclusive"},
			{Name: "window-max-exclusive-plus", File: "service/tschecker.go", Old: "} else if ts > max {", New: "} else if ts > max+1 {", Desc: "window maximum widened by one"},
			{Name: "range-max-minus", File: "service/tschecker.go", Old: "\treturn &timestampRange{\n\t\tmin: bts - th,\n\t\tmax: bts + th,\n\t}\n}\n\ntype dummyTimestampRange", New: "\treturn &timestampRange{\n\t\tmin: bts - th,\n\t\tmax: bts + th + th,\n\t}\n}\n\ntype dummyTimestampRange", Desc: "NewTimestampRange doubles the upper threshold"},
			{Name: "add-ignores-parent", File: "common/txlocator/manager.go", Old: "\t\t\t\t} else if has {\n\t\t\t\t\treturn cnt, errors.IllegalArgumentError.Errorf(\"DuplicateTx(id=%#x)\", id)\n\t\t\t\t}", New: "\t\t\t\t} else if has && force {\n\t\t\t\t\treturn cnt, errors.IllegalArgumentError.Errorf(\"DuplicateTx(id=%#x)\", id)\n\t\t\t\t}", Desc: "duplicate in an ancestor is never rejected"},
			{Name: "add-ignores-same-block", File: "common/txlocator/manager.go", Old: "\t\t\tif _, ok := locators[string(id)]; ok {\n\t\t\t\treturn cnt, errors.IllegalArgumentError.Errorf(\"DuplicateTx(id=%#x)\", id)\n\t\t\t}", New: "\t\t\tif _, ok := locators[string(id)]; ok {\n\t\t\t\tcontinue\n\t\t\t}", Desc: "duplicate in the same block silently skipped (and executed twice)"},
			{Name: "maxts-from-min", File: "common/txlocator/manager.go", Old: "\t\tptrMax := ptr.ts+ptr.th", New: "\t\tptrMax := ptr.ts", Desc: "maxTSInDB records the block time, not the window maximum"},
			{Name: "normal-logger-patch-threshold", File: "service/transition.go", Old: "nth := TransactionTimestampThreshold(wc, module.TransactionGroupNormal)", New: "nth := TransactionTimestampThreshold(wc, module.TransactionGroupPatch)", Desc: "normal-transaction tracker created with the patch threshold"},
			{Name: "validate-before-record", File: "service/transition.go", Old: "\t\tif err := t.ensureRecordTXIDs(wc, false); err != nil {\n\t\t\tt.reportValidation(err)\n\t\t\treturn\n\t\t}\n", New: "\t\tif err := t.ensureRecordTXIDs(wc, false); err != nil {\n\t\t\tt.log.Warnf(\"duplicate transaction %+v\", err)\n\t\t}\n", Desc: "duplicate id error logged but validation succeeds"},
			{Name: "parenthas-wrong-ts", File: "common/txlocator/manager.go", Old: "t.parentHasInLock(id, txi.Timestamp())", New: "t.parentHasInLock(id, t.list.ts)", Desc: "ancestor lookup keyed by the block time instead of the transaction time"},
		},
	})
}

func runC11(c *Ctx) {
	runC11Extra(c)
	// ---- window
	if f := c.mustFn("service", "", "CheckTxTimestamp"); f != nil {
		n := 0
		for _, e := range successAlts(f) {
			n++
			c.requireGuard("C11.window", "CheckTxTimestamp accepts", e.pos(), e.Guards, wGE("ts > min", -1, t(1, `^\$2\.Timestamp\(\)$`), t(-1, `^\$0$`)))
			c.requireGuard("C11.window", "CheckTxTimestamp accepts", e.pos(), e.Guards, wGE("ts ≤ max", 0, t(-1, `^\$2\.Timestamp\(\)$`), t(1, `^\$1$`)))
		}
		if n == 0 {
			c.undecided("C11.window", "CheckTxTimestamp", f.Pos(), "no accepting exit")
		}
		// and it rejects everything outside: error exits are exactly the complements
		for _, e := range exitAlts(f) {
			if !definitelyNonNilErr(e.Results[0], e.Guards) {
				continue
			}
			_, lo := holds(e.Guards, wGE("ts ≤ min", 0, t(-1, `^\$2\.Timestamp\(\)$`), t(1, `^\$0$`)))
			_, hi := holds(e.Guards, wGE("ts > max", -1, t(1, `^\$2\.Timestamp\(\)$`), t(-1, `^\$1$`)))
			c.check(lo || hi, "C11.window", "CheckTxTimestamp rejects only outside the window", e.pos(), "ts ≤ min ∨ ts > max", "rejects under "+guardsString(e.Guards))
		}
	}
	for _, cn := range []struct{ name, bts, th string }{
		{"NewTimestampRange", `$0`, `$1`},
		{"NewTxTimestampRangeFor", `$0.BlockTimeStamp()`, `service.TransactionTimestampThreshold($0,$1)`},
	} {
		f := c.mustFn("service", "", cn.name)
		if f == nil {
			continue
		}
		got := map[string]Lin{}
		for _, st := range fieldStoresAny([]*ssa.Function{f}, "timestampRange") {
			got[fieldName(st.Addr.X.Type(), st.Addr.Field)] = linOf(st.Store.Val)
		}
		okMin := len(got["min"].T) == 2 && got["min"].T[cn.bts] == 1 && got["min"].T[cn.th] == -1 && got["min"].K == 0
		okMax := len(got["max"].T) == 2 && got["max"].T[cn.bts] == 1 && got["max"].T[cn.th] == 1 && got["max"].K == 0
		c.check(okMin, "C11.window", cn.name+" min", f.Pos(), "min = bts − th", "min = "+got["min"].String())
		c.check(okMax, "C11.window", cn.name+" max", f.Pos(), "max = bts + th", "max = "+got["max"].String())
	}
	if f := c.mustFn("service", "timestampRange", "CheckTx"); f != nil {
		for _, rs := range returnSites(f) {
			c.check(render(rs.Results[0]) == "service.CheckTxTimestamp($r.min,$r.max,$0)", "C11.window", "timestampRange.CheckTx", rs.pos(), "CheckTxTimestamp(min, max, tx)", "delegates as "+render(rs.Results[0]))
		}
	}

	// ---- interval-consistency: tracker.Has
	if f := c.mustFn("common/txlocator", "tracker", "Has"); f != nil {
		n := 0
		for _, e := range exitAlts(f) {
			if !isConstBool(e.Results[0], false) || !isNilConst(e.Results[1]) {
				continue
			}
			n++
			// "not present" without any lookup: must be strictly above the inclusive maximum list.ts+list.th
			w := wGE("ts > list.ts + list.th (strictly above the inclusive window maximum)", -1, t(1, `^\$1$`), t(-1, `^\$r\.list\.ts$`), t(-1, `^\$r\.list\.th$`))
			if wit, ok := holds(e.Guards, w); ok {
				c.ok("C11.interval-consistency", "tracker.Has shortcut", e.pos(), "established by "+wit)
			} else {
				c.violate("C11.interval-consistency", "tracker.Has shortcut", e.pos(), "returns `not present` without a lookup although ts may equal list.ts+list.th, which the acceptance window (min, max] includes; guards: "+guardsString(e.Guards))
			}
		}
		if n == 0 {
			c.ok("C11.interval-consistency", "tracker.Has shortcut", f.Pos(), "no lookup-free `not present` exit")
		}
		// other exits: found in this block's locators, or delegated to the parent with the same (id, ts)
		for _, e := range exitAlts(f) {
			if isConstBool(e.Results[0], false) && isNilConst(e.Results[1]) {
				continue
			}
			r := render(e.Results[0])
			if isConstBool(e.Results[0], true) {
				c.requireGuard("C11.interval-consistency", "tracker.Has found", e.pos(), e.Guards, wTrue("id ∈ locators", `^\$r\.locators\[.*\$0.*\]#1$`))
				continue
			}
			c.check(r == "$r.parentHasInLock($0,$1)#0", "C11.interval-consistency", "tracker.Has delegates", e.pos(), "parentHasInLock(id, ts)", "returns "+r)
		}
	}
	if f := c.mustFn("common/txlocator", "tracker", "parentHasInLock"); f != nil {
		for _, rs := range returnSites(f) {
			r := render(rs.Results[0])
			ok := r == "$r.parent.Has($0,$1)#0" || r == "$r.manager.Has($r.list.group,$0,$1)#0"
			c.check(ok, "C11.add-guards", "parentHasInLock delegates with the same id, ts and group", rs.pos(), r, "delegates as "+r)
		}
	}

	// ---- interval-consistency: manager DB shortcut
	if f := c.mustFn("common/txlocator", "manager", "hasLocatorInCache"); f != nil {
		for _, e := range exitAlts(f) {
			if !isConstBool(e.Results[0], false) || !isConstBool(e.Results[1], true) {
				continue
			}
			// frozen exception: the manager is terminated (locators == nil)
			if _, ok := holds(e.Guards, wSame("terminated", `^\$r\.locators$`, `^nil$`)); ok {
				c.ok("C11.interval-consistency", "hasLocatorInCache terminated", e.pos(), "terminated manager answers without lookup (no block is produced after Term)")
				continue
			}
			c.requireGuard("C11.interval-consistency", "hasLocatorInCache DB shortcut", e.pos(), e.Guards, wGE("ts > maxTSInDB (inclusive maximum of everything evicted)", -1, t(1, `^\$2$`), t(-1, `maxTSInDB$`)))
			c.requireGuard("C11.interval-consistency", "hasLocatorInCache DB shortcut", e.pos(), e.Guards, wNE("maxTSInDB known", 0, t(1, `maxTSInDB$`)))
			c.requireGuard("C11.interval-consistency", "hasLocatorInCache DB shortcut", e.pos(), e.Guards, wFalse("id ∉ cache", `^\$r\.locators\[.*\$1.*\]#1$`))
		}
		// the shortcut reads the cache entry of the queried group
		for _, b := range f.Blocks {
			for _, in := range b.Instrs {
				if fa, ok := in.(*ssa.FieldAddr); ok && fieldName(fa.X.Type(), fa.Field) == "maxTSInDB" {
					c.check(render(fa) == "&$r.cache[$0].maxTSInDB", "C11.interval-consistency", "hasLocatorInCache uses the group's cache", fa.Pos(), "cache[group]", "reads "+render(fa))
				}
			}
		}
	}
	if f := c.mustFn("common/txlocator", "manager", "Has"); f != nil {
		for _, e := range exitAlts(f) {
			r := render(e.Results[0])
			if r == "$r.hasLocatorInDB($1)#0" {
				c.requireGuard("C11.interval-consistency", "manager.Has falls back to the database", e.pos(), e.Guards, wFalse("cache could not answer", `^\$r\.hasLocatorInCache\(\$0,\$1,\$2\)#1$`))
				continue
			}
			c.check(r == "$r.hasLocatorInCache($0,$1,$2)#0", "C11.interval-consistency", "manager.Has answer", e.pos(), "cache answer", "returns "+r)
			c.requireGuard("C11.interval-consistency", "manager.Has cache answer", e.pos(), e.Guards, wTrue("cache answered", `^\$r\.hasLocatorInCache\(\$0,\$1,\$2\)#1$`))
		}
	}
	// maxTSInDB writers
	{
		pf := c.pkgFuncs("common/txlocator")
		sts := fieldStores(pf, "txListCache", "maxTSInDB")
		if len(sts) == 0 {
			c.undecided("C11.interval-consistency", "maxTSInDB writers", token.NoPos, "no store found")
		}
		for _, st := range sts {
			c.check(st.Fn.Name() == "addListAndClearOldInLock", "C11.interval-consistency", "writer of maxTSInDB: "+fnName(st.Fn), st.Store.Pos(), "only eviction updates it", "unexpected writer")
			l := linOf(st.Store.Val)
			okV := l.K == 0 && len(l.T) == 2
			for a, k := range l.T {
				if k != 1 || !(strings.HasSuffix(a, ".ts") || strings.HasSuffix(a, ".th")) || !strings.HasPrefix(a, "phi(") {
					okV = false
				}
			}
			c.check(okV, "C11.interval-consistency", "maxTSInDB value", st.Store.Pos(), "evicted list's ts + th (its inclusive window maximum)", "maxTSInDB set to "+l.String())
			c.requireAt("C11.interval-consistency", "maxTSInDB only grows", st.Store, wGE("new > old", -1, t(1, `\.ts$`), t(1, `\.th$`), t(-1, `maxTSInDB$`)))
		}
	}

	// ---- add-guards
	if f := c.mustFn("common/txlocator", "tracker", "Add"); f != nil {
		var rec *ssa.MapUpdate
		for _, b := range f.Blocks {
			for _, in := range b.Instrs {
				if mu, ok := in.(*ssa.MapUpdate); ok && strings.HasSuffix(render(mu.Map), ".locators") {
					rec = mu
				}
			}
		}
		if rec == nil {
			c.violate("C11.add-guards", "tracker.Add records", f.Pos(), "no store into the locators map")
		} else {
			c.requireAt("C11.add-guards", "tracker.Add records", rec, wFalse("id not yet in this block", `^\$r\.locators\[.*\.ID\(\).*\]#1$`))
			c.requireAtAny("C11.add-guards", "tracker.Add records", rec, "force ∨ ¬parentHas(id, ts)",
				wTrue("force", `^\$1$`), wFalse("parent has it", `^\$r\.parentHasInLock\(.*\.ID\(\),.*\.Timestamp\(\)\)#0$`))
			// when not forced, the parent lookup error is nil
			alts := altGuards(rec.Block())
			okErr := true
			for _, gs := range alts {
				if _, forced := holds(gs, wTrue("force", `^\$1$`)); forced {
					continue
				}
				if _, ok := holds(gs, wSame("lookup error == nil", `^\$r\.parentHasInLock\(.*#1$`, `^nil$`)); !ok {
					okErr = false
				}
			}
			c.check(okErr, "C11.add-guards", "tracker.Add propagates lookup errors", rec.Pos(), "recorded only when the ancestor lookup succeeded", "records although the ancestor lookup failed")
			// key of the record is the transaction id
			if h := loopHeaderOf(rec.Block()); h != nil {
				tr, bad := loopBypass(f, h, rec)
				c.check(!bad, "C11.add-guards", "tracker.Add item loop", rec.Pos(), "every transaction is recorded or the call fails", "a transaction can be passed over without being recorded: "+traceString(tr))
			} else {
				c.undecided("C11.add-guards", "tracker.Add item loop", rec.Pos(), "record is not in a loop")
			}
			for _, e := range successAlts(f) {
				c.requireGuard("C11.add-guards", "tracker.Add success", e.pos(), e.Guards, wFalse("iterator exhausted", `\.Has\(\)$`))
			}
		}
	}
	// txIDLogger delegates
	for _, m := range []struct{ name, want string }{{"Has", "$r.lt.Has($0,$1)"}, {"Add", "$r.lt.Add($0,$1)"}} {
		if f := c.mustFn("service", "txIDLogger", m.name); f != nil {
			for _, rs := range returnSites(f) {
				c.check(strings.HasPrefix(render(rs.Results[0]), m.want), "C11.add-guards", "txIDLogger."+m.name+" delegates", rs.pos(), m.want, "returns "+render(rs.Results[0]))
			}
		}
	}

	// ---- record-before-validate
	if de := c.mustFn("service", "transition", "doExecute"); de != nil {
		n := 0
		for _, cs := range c.calls(de, byCallee("(*service.transition).reportValidation")) {
			_, a := callArgs(cs.Common())
			if !isNilConst(a[0]) {
				continue
			}
			n++
			c.requireAt("C11.record-before-validate", "doExecute reports validation success", cs.Instr, wSame("ensureRecordTXIDs == nil", `^\$r\.ensureRecordTXIDs\(`, `^nil$`))
		}
		if n == 0 {
			c.undecided("C11.record-before-validate", "doExecute", de.Pos(), "no reportValidation(nil)")
		}
		for _, cs := range c.calls(de, byCallee("(*service.transition).ensureRecordTXIDs")) {
			_, a := callArgs(cs.Common())
			// the validating arm must not force
			gs := guardsAt(cs.Instr)
			if _, validating := holds(gs, wFalse("not yet validated", `^\$0$`)); validating {
				c.check(isConstBool(a[1], false), "C11.record-before-validate", "validating arm does not force", cs.Pos(), "force=false", "ids are recorded with force in the validating arm (duplicates not rejected)")
			}
		}
		// normal transactions are validated against the normal-group window
		for _, cs := range c.calls(de, byCallee("(*service.transition).validateTxs")) {
			_, a := callArgs(cs.Common())
			list, tsr := render(a[0]), render(a[2])
			if list == "$r.normalTransactions" {
				c.check(tsr == "service.NewTxTimestampRangeFor("+render(a[1])+",1)", "C11.group-threshold", "normal transactions validated in the normal window", cs.Pos(), tsr, "window is "+tsr)
			}
			c.requireAt("C11.record-before-validate", "validateTxs after recording "+list, cs.Instr, wSame("ensureRecordTXIDs == nil", `^\$r\.ensureRecordTXIDs\(`, `^nil$`))
		}
	}
	if vt := c.mustFn("service", "transition", "validateTxs"); vt != nil {
		chk := c.calls(vt, byMethod("CheckTx"))
		if len(chk) != 1 {
			c.violate("C11.window", "validateTxs checks the window", vt.Pos(), fmt.Sprintf("expected one CheckTx call, found %d", len(chk)))
		} else if h := loopHeaderOf(chk[0].Instr.Block()); h != nil {
			tr, bad := loopBypass(vt, h, chk[0].Instr)
			c.check(!bad, "C11.window", "validateTxs checks every transaction", chk[0].Pos(), "no iteration skips CheckTx", "a transaction can skip the window check: "+traceString(tr))
			for _, e := range successAlts(vt) {
				if _, ok := holds(e.Guards, wSame("list == nil", `^\$0$`, `^nil$`)); ok {
					continue
				}
				c.requireGuard("C11.window", "validateTxs success", e.pos(), e.Guards, wFalse("iterator exhausted", `\.Has\(\)$`))
			}
		}
	}

	// ---- group-threshold agreement
	if er := c.mustFn("service", "transition", "ensureRecordTXIDsInLock"); er != nil {
		want := map[string]string{"ntxIDs": "1", "ptxIDs": "0"}
		for field, grp := range want {
			sts := fieldStores([]*ssa.Function{er}, "transition", field)
			if len(sts) == 0 {
				c.undecided("C11.group-threshold", "transition."+field, er.Pos(), "no store")
			}
			for _, st := range sts {
				r := render(st.Store.Val)
				okG := false
				if call, ok := st.Store.Val.(*ssa.Call); ok && methodName(call.Common()) == "NewLogger" {
					recv, a := callArgs(call.Common())
					if th, ok := a[len(a)-1].(*ssa.Call); ok && calleeName(th.Common()) == "service.TransactionTimestampThreshold" {
						_, ta := callArgs(th.Common())
						okG = render(ta[1]) == grp && render(recv) == "$r.parent."+field
					}
				}
				c.check(okG, "C11.group-threshold", "tracker of "+field+" uses its own group's threshold", st.Store.Pos(), "parent."+field+".NewLogger(h, ts, threshold(group "+grp+"))", "tracker created as "+r)
				// the Add that follows is on the same list kind
			}
		}
		for _, cs := range c.calls(er, byMethod("Add")) {
			recv, a := callArgs(cs.Common())
			pair := render(recv) + "/" + render(a[0])
			c.check(pair == "$r.ptxIDs/$r.patchTransactions" || pair == "$r.ntxIDs/$r.normalTransactions", "C11.group-threshold", "ids recorded in the tracker of their group", cs.Pos(), pair, "records "+pair)
			c.check(render(a[1]) == "$1", "C11.group-threshold", "force flag passed through", cs.Pos(), "force", "force is "+render(a[1]))
		}
		for _, e := range successAlts(er) {
			if _, ok := holds(e.Guards, wDiffer("already recorded", `^\$r\.ntxIDs$`, `^nil$`)); ok {
				if _, ok2 := holds(e.Guards, wDiffer("already recorded", `^\$r\.ptxIDs$`, `^nil$`)); ok2 {
					continue
				}
			}
			// otherwise both Add calls (when executed) returned nil: no exit ignores an Add error
			for _, g := range e.Guards {
				p := predOf(g)
				if p.Kind == "same" && !p.Pol && (strings.Contains(p.A, ".Add(") || strings.Contains(p.B, ".Add(")) && (p.A == "nil" || p.B == "nil") {
					c.violate("C11.group-threshold", "ensureRecordTXIDsInLock ignores an Add error", e.pos(), "returns success although Add failed")
				}
			}
		}
		c.ok("C11.group-threshold", "ensureRecordTXIDsInLock error exits", er.Pos(), "no success exit behind a failed Add")
	}
	if tt := c.mustFn("service", "", "TransactionTimestampThreshold"); tt != nil {
		for _, e := range exitAlts(tt) {
			r := render(e.Results[0])
			if _, normal := holds(e.Guards, wEQ("group == normal", -1, t(1, `^\$1$`))); normal {
				c.check(strings.Contains(r, "TransactionTimestampThreshold()") || r == "300000000", "C11.group-threshold", "normal threshold", e.pos(), r, "normal group threshold is "+r)
			} else {
				c.check(r == "60000000", "C11.group-threshold", "patch threshold", e.pos(), r, "patch group threshold is "+r)
			}
		}
	}
}

// runC11Extra: rules added after independently produced mutants were missed.
func runC11Extra(c *Ctx) {
	const pk = "common/txlocator"
	if fn := c.mustFn(pk, "tracker", "New"); fn != nil {
		calls := c.calls(fn, byMethod("NewTracker"))
		if len(calls) != 1 {
			c.violate("C11.add-guards", "tracker.New detaches through NewTracker", fn.Pos(), "expected one NewTracker call")
		} else {
			c.requireAt("C11.add-guards", "a child is detached from its parent only if the parent holds no uncommitted ids", calls[0].Instr, wSame("parent's own ids committed", `^\$r\.locators$`, `^nil`))
			c.requireAt("C11.add-guards", "a child is detached from its parent only if the parent has no uncommitted ancestors", calls[0].Instr, wSame("no ancestors", `^\$r\.parent$`, `^nil`))
		}
		okP := false
		for _, fs := range fieldStores([]*ssa.Function{fn}, "tracker", "parent") {
			okP = render(fs.Store.Val) == "$r"
		}
		c.check(okP, "C11.add-guards", "an attached child records its parent", fn.Pos(), "parent: t", "the new tracker does not link to its parent")
	}
	n := 0
	for _, fn := range c.pkgFuncs(pk) {
		for _, fs := range fieldStoresAny([]*ssa.Function{fn}, "cache") {
			if fieldName(fs.Addr.X.Type(), fs.Addr.Field) != "maxTSInDB" {
				continue
			}
			n++
			c.requireAt("C11.interval-consistency", "maxTSInDB is raised only by a real (non-placeholder) list", fs.Store, wNE("list.ts ≠ 0", 0, t(1, `\.ts$`)))
		}
	}
	if n == 0 {
		// the field may live in another struct name: look it up by field name only
		for _, fn := range c.pkgFuncs(pk) {
			for _, b := range fn.Blocks {
				for _, in := range b.Instrs {
					st, ok := in.(*ssa.Store)
					if !ok {
						continue
					}
					fa, ok := st.Addr.(*ssa.FieldAddr)
					if !ok || fieldName(fa.X.Type(), fa.Field) != "maxTSInDB" {
						continue
					}
					n++
					c.requireAt("C11.interval-consistency", "maxTSInDB is raised only by a real (non-placeholder) list", st, wNE("list.ts ≠ 0", 0, t(1, `\.ts$`)))
				}
			}
		}
	}
	c.check(n >= 1, "C11.interval-consistency", "maxTSInDB writers found", token.NoPos, fmt.Sprint(n), "no store to maxTSInDB")
}
