package main

import (
	"fmt"
	"go/token"
	"strings"

	"golang.org/x/tools/go/ssa"
)

// C07 — imported blocks extend their parent with consistent height, link and time.
func init() {
	register(&Prop{
		ID:             "C07",
		Pkgs:           []string{"block", "consensus"},
		Run:            runC07,
		MinObligations: 18,
		Technique:      "static analysis: linear guard algebra on every accepting exit of the import checks (height+1, strict timestamp increase), equality guards (version, parent id, median), sort-before-index order and comparator provenance of the median",
		LevelText:      "Decides on all paths: verifyNewBlock returns success only behind version == GetNextBlockVersion(parent result), height − parentHeight − 1 == 0, PrevID == parent.ID, a verified commit proof of the parent, and a nil VerifyTimestamp on (parent, the proof's voters); blockV2.VerifyTimestamp succeeds above height 1 only behind timestamp == Votes().Timestamp() and timestamp − parentTimestamp ≥ 1; the vote-list timestamp is a true median: a copy of all item timestamps is sorted (comparator `<` over that very copy) before the middle element(s) are read, odd → middle, even → mean of the two middles; _import rejects unless verifyNewBlock passed against the node of block.PrevID().",
		LevelNote:      "Numeric overflow of the mean and sort.Slice itself are trusted; the blockv1 (legacy ICON) VerifyTimestamp is out of this claim.",
		Explanation:    "C07 rules: newblock-guards (K1 with linear normalisation, 5 predicates on every may-succeed exit), timestamp (K1 on both arms of VerifyTimestamp), median-shape (K2 sort dominates reads; K5 comparator operands are elements of the sorted slice; K4 fill loop covers every item; K1 odd/even selection), import-door (K1).",
		Mutants: []Mutant{
			{Name: "timestamp-non-strict", File: "block/blockv2.go", Old: "prev.Timestamp() >= b.Timestamp()", New: "prev.Timestamp() > b.Timestamp()", Desc: "equal timestamps accepted"},
			{Name: "median-compares-unsorted-source", File: "consensus/commitvotelist.go", Old: "\t\treturn ts[i] < ts[j]", New: "\t\treturn bvl.Items[i].Timestamp < bvl.Items[j].Timestamp", Desc: "comparator reads the unsorted item list while the copy is permuted"},
			{Name: "height-check-geq", File: "block/block.go", Old: "if b.Height() != prev.Height()+1 {", New: "if b.Height() < prev.Height()+1 {", Desc: "heights above parent+1 accepted"},
			{Name: "previd-self", File: "block/block.go", Old: "if !bytes.Equal(b.PrevID(), prev.ID()) {", New: "if !bytes.Equal(b.PrevID(), b.PrevID()) {", Desc: "parent id link compared with itself"},
			{Name: "version-dropped", File: "block/block.go", Old: "if b.Version() != m.sm.GetNextBlockVersion(prevResult) {", New: "if b.Version() < m.sm.GetNextBlockVersion(prevResult) {", Desc: "newer versions than required accepted"},
			{Name: "median-skipped-at-height", File: "block/blockv2.go", Old: "if b.Height() > 1 && b.Timestamp() != b.Votes().Timestamp() {", New: "if b.Height() > 2 && b.Timestamp() != b.Votes().Timestamp() {", Desc: "height 2 exempt from the median rule"},
			{Name: "median-even-upper", File: "consensus/commitvotelist.go", Old: "return (ts[l/2-1] + ts[l/2]) / 2", New: "return ts[l/2]", Desc: "even count takes the upper middle"},
			{Name: "median-sort-after", File: "consensus/commitvotelist.go", Old: "\tsort.Slice(ts, func(i, j int) bool {\n\t\treturn ts[i] < ts[j]\n\t})\n\tif l%2 == 1 {\n\t\treturn ts[l/2]\n\t}", New: "\tif l%2 == 1 {\n\t\treturn ts[l/2]\n\t}\n\tsort.Slice(ts, func(i, j int) bool {\n\t\treturn ts[i] < ts[j]\n\t})", Desc: "odd count reads the middle before sorting"},
			{Name: "timestamp-error-ignored", File: "block/block.go", Old: "\tif err := b.(base.BlockVersionSpec).VerifyTimestamp(prev, prevVoters); err != nil {\n\t\treturn nil, err\n\t}\n", New: "\t_ = b.(base.BlockVersionSpec).VerifyTimestamp(prev, prevVoters)\n", Desc: "timestamp verdict dropped"},
			{Name: "height-check-reordered", File: "block/block.go", Old: "if b.Height() != prev.Height()+1 {", New: "if prev.Height() != b.Height()-1 {", Desc: "algebraically identical height check", Equivalent: true},
		},
	})
}

func runC07(c *Ctx) {
	// ---- newblock-guards
	if vn := c.mustFn("block", "manager", "verifyNewBlock"); vn != nil {
		n := 0
		for _, e := range successAlts(vn) {
			n++
			site := "verifyNewBlock success"
			c.requireGuard("C07.newblock-guards", site, e.pos(), e.Guards, wEQ("version = version required by the parent's result", 0, t(1, `^\$0\.Version\(\)$`), t(-1, `^\$r\.[a-zA-Z.]*sm\.GetNextBlockVersion\(phi\(.*\$1\.Result\(\).*\)\)$`)))
			c.requireGuard("C07.newblock-guards", site, e.pos(), e.Guards, wEQ("height = parent height + 1", -1, t(1, `^\$0\.Height\(\)$`), t(-1, `^\$1\.Height\(\)$`)))
			c.requireGuard("C07.newblock-guards", site, e.pos(), e.Guards, wSame("PrevID = parent ID", `^\$0\.PrevID\(\)$`, `^\$1\.ID\(\)$`))
			c.requireGuard("C07.newblock-guards", site, e.pos(), e.Guards, wSame("commit proof of the parent verified", `^\$r\.verifyProofForLastBlock\(\$1,\$0\.Votes\(\)\)#2$`, `^nil$`))
			c.requireGuard("C07.newblock-guards", site, e.pos(), e.Guards, wSame("VerifyTimestamp(parent, voters) == nil", `^\$0\.\(base\.BlockVersionSpec\)\.VerifyTimestamp\(\$1,\$r\.verifyProofForLastBlock\(\$1,\$0\.Votes\(\)\)#1\)$`, `^nil$`))
		}
		if n == 0 {
			c.undecided("C07.newblock-guards", "verifyNewBlock", vn.Pos(), "no exit that may succeed")
		}
	}

	// ---- timestamp
	if vt := c.mustFn("block", "blockV2", "VerifyTimestamp"); vt != nil {
		n := 0
		for _, e := range successAlts(vt) {
			n++
			if _, low := holds(e.Guards, wGE("height ≤ 1", 1, t(-1, `^\$r\.Height\(\)$`))); low {
				c.ok("C07.timestamp", "VerifyTimestamp success at height ≤ 1", e.pos(), "genesis/first block exempt")
				continue
			}
			c.requireGuard("C07.timestamp", "VerifyTimestamp success", e.pos(), e.Guards, wEQ("timestamp = median of the commit votes", 0, t(1, `^\$r\.Timestamp\(\)$`), t(-1, `^\$r\.Votes\(\)\.Timestamp\(\)$`)))
			c.requireGuard("C07.timestamp", "VerifyTimestamp success", e.pos(), e.Guards, wGE("timestamp > parent timestamp", -1, t(1, `^\$r\.Timestamp\(\)$`), t(-1, `^\$0\.Timestamp\(\)$`)))
		}
		if n == 0 {
			c.undecided("C07.timestamp", "VerifyTimestamp", vt.Pos(), "no success exit")
		}
	}

	// ---- median-shape
	if ts := c.mustFn("consensus", "blockCommitVoteList", "Timestamp"); ts != nil {
		sorts := c.calls(ts, byCallee("sort.Slice", "sort.SliceStable"))
		if len(sorts) != 1 {
			c.violate("C07.median-shape", "Timestamp sorts", ts.Pos(), fmt.Sprintf("expected one sort.Slice, found %d", len(sorts)))
		} else {
			srt := sorts[0]
			_, a := callArgs(srt.Common())
			sorted := unwrap(a[0]) // load of the slot holding the slice
			var slot ssa.Value
			if ld, ok := sorted.(*ssa.UnOp); ok && ld.Op == token.MUL {
				slot = ld.X
			}
			ms := (*ssa.MakeSlice)(nil)
			if slot != nil {
				for _, st := range storesTo(slot) {
					if m, ok := st.Val.(*ssa.MakeSlice); ok {
						ms = m
					}
				}
			} else if m, ok := sorted.(*ssa.MakeSlice); ok {
				ms = m
			}
			if ms == nil {
				c.undecided("C07.median-shape", "sorted slice", srt.Pos(), "the sorted value is not a locally made slice")
			} else {
				c.check(render(ms.Len) == "len($r.Items)", "C07.median-shape", "copy holds one timestamp per item", ms.Pos(), "len = len(Items)", "copy length is "+render(ms.Len))
			}
			isElemOfSorted := func(v ssa.Value) (idx ssa.Value, ok bool) {
				ld, isLd := v.(*ssa.UnOp)
				if !isLd || ld.Op != token.MUL {
					return nil, false
				}
				ia, isIA := ld.X.(*ssa.IndexAddr)
				if !isIA {
					return nil, false
				}
				base := ia.X
				if l2, ok := base.(*ssa.UnOp); ok && l2.Op == token.MUL {
					if l2.X == slot {
						return ia.Index, true
					}
					if fv, ok := l2.X.(*ssa.FreeVar); ok {
						// free variable bound to the slot in the closure
						fn := fv.Parent()
						for i, f := range fn.FreeVars {
							if f == fv {
								if mc, ok := a[1].(*ssa.MakeClosure); ok && mc.Fn == fn && mc.Bindings[i] == slot {
									return ia.Index, true
								}
							}
						}
					}
				}
				if base == ssa.Value(ms) {
					return ia.Index, true
				}
				return nil, false
			}
			// comparator
			if mc, ok := a[1].(*ssa.MakeClosure); ok {
				less := mc.Fn.(*ssa.Function)
				for _, rs := range returnSites(less) {
					bo, isBo := rs.Results[0].(*ssa.BinOp)
					okCmp := false
					if isBo && bo.Op == token.LSS {
						i1, ok1 := isElemOfSorted(bo.X)
						i2, ok2 := isElemOfSorted(bo.Y)
						okCmp = ok1 && ok2 && i1 == ssa.Value(less.Params[0]) && i2 == ssa.Value(less.Params[1])
					}
					c.check(okCmp, "C07.median-shape", "comparator orders the elements of the slice being sorted", rs.pos(), "ts[i] < ts[j]", "comparator is "+render(rs.Results[0])+": it does not compare the elements of the slice that sort.Slice permutes")
				}
			} else {
				c.undecided("C07.median-shape", "comparator", srt.Pos(), "not a function literal")
			}
			// fill loop: ts[i] = Items[i].Timestamp for the range index
			filled := false
			for _, b := range ts.Blocks {
				for _, in := range b.Instrs {
					st, ok := in.(*ssa.Store)
					if !ok {
						continue
					}
					ia, ok := st.Addr.(*ssa.IndexAddr)
					if !ok {
						continue
					}
					if l2, ok := ia.X.(*ssa.UnOp); !ok || l2.X != slot {
						if ia.X != ssa.Value(ms) {
							continue
						}
					}
					src := render(st.Val)
					okFill := strings.HasPrefix(src, "$r.Items[") && strings.HasSuffix(src, "].Timestamp") && strings.Contains(src, render(ia.Index))
					if !okFill {
						// `for i, item := range Items { ts[i] = item.Timestamp }`: the element copy of the same index
						if ld, ok := st.Val.(*ssa.UnOp); ok {
							if fa, ok := ld.X.(*ssa.FieldAddr); ok && fieldName(fa.X.Type(), fa.Field) == "Timestamp" {
								if al, ok := fa.X.(*ssa.Alloc); ok {
									for _, es := range storesTo(al) {
										if el, ok := es.Val.(*ssa.UnOp); ok {
											if eia, ok := el.X.(*ssa.IndexAddr); ok && render(eia.X) == "$r.Items" && eia.Index == ia.Index && es.Block() == st.Block() {
												okFill = true
											}
										}
									}
								}
							}
						}
					}
					c.check(okFill, "C07.median-shape", "copy filled from the item timestamps index by index", st.Pos(), "ts[i] = Items[i].Timestamp", "copy filled with "+src)
					filled = okFill
					c.check(dominatesInstr(st, srt.Instr) || st.Block().Dominates(srt.Instr.Block()) || blockReaches(st.Block(), srt.Instr.Block(), nil), "C07.median-shape", "fill precedes sort", st.Pos(), "before sort", "the copy is filled after sorting")
				}
			}
			if !filled {
				c.violate("C07.median-shape", "copy filled", ts.Pos(), "no loop copying Items[i].Timestamp into the slice that is sorted")
			}
			// result reads
			for _, e := range exitAlts(ts) {
				if isZeroConst(e.Results[0]) {
					c.requireGuard("C07.median-shape", "zero only for an empty list", e.pos(), e.Guards, wEQ("no items", 0, t(1, `^len\(\$r\.Items\)$`)))
					continue
				}
				// every element read contributing to the result happens after the sort
				okOrder := true
				var idxs []string
				var walk func(v ssa.Value)
				walk = func(v ssa.Value) {
					switch x := v.(type) {
					case *ssa.BinOp:
						walk(x.X)
						walk(x.Y)
					case *ssa.UnOp:
						if idx, ok := isElemOfSorted(x); ok {
							idxs = append(idxs, linOf(idx).String())
							if !dominatesInstr(srt.Instr, x) {
								okOrder = false
							}
						}
					}
				}
				walk(e.Results[0])
				c.check(okOrder && len(idxs) > 0, "C07.median-shape", "middle element read after sorting", e.pos(), "sort dominates the read", "the result reads the slice before it is sorted (or not at all): "+render(e.Results[0]))
				half := "+1*div(+1*len($r.Items),2)"
				_, odd := holds(e.Guards, wEQ("odd count", -1, t(1, `^\(len\(\$r\.Items\) % 2\)$`)))
				if !odd {
					_, odd = holds(e.Guards, wNE("odd count (not even)", 0, t(1, `^\(len\(\$r\.Items\) % 2\)$`)))
				}
				if odd {
					c.check(len(idxs) == 1 && idxs[0] == half, "C07.median-shape", "odd count → middle element", e.pos(), "ts[l/2]", "odd count returns index "+strings.Join(idxs, ","))
				} else {
					l := linOf(e.Results[0])
					isMean := false
					for a2 := range l.T {
						if strings.HasPrefix(a2, "div(") && strings.HasSuffix(a2, ",2)") {
							isMean = true
						}
					}
					okIdx := len(idxs) == 2 && ((idxs[0] == half+" -1" && idxs[1] == half) || (idxs[1] == half+" -1" && idxs[0] == half))
					c.check(okIdx && isMean, "C07.median-shape", "even count → mean of the two middle elements", e.pos(), "(ts[l/2-1]+ts[l/2])/2", "even count returns "+render(e.Results[0])+" (indices "+strings.Join(idxs, ",")+")")
				}
			}
		}
	}

	// ---- import-door
	if im := c.mustFn("block", "manager", "_import"); im != nil {
		for _, e := range successAlts(im) {
			c.requireGuard("C07.import-door", "_import success", e.pos(), e.Guards, wSame("verifyNewBlock(block, node of block.PrevID()) == nil", `^\$r\.verifyNewBlock\(\$0,\$r\.nmap\[.*\$0\.PrevID\(\).*\](#0)?\.block\)#1$`, `^nil$`))
			c.requireGuard("C07.import-door", "_import success", e.pos(), e.Guards, wDiffer("parent node known", `^\$r\.nmap\[.*\$0\.PrevID\(\).*\](#0)?$`, `^nil$`))
		}
	}
}
