package main

import (
	"fmt"
	"go/token"
	"strings"

	"golang.org/x/tools/go/ssa"
)

// C09 — parallel transaction execution is equivalent to sequential execution.
func init() {
	register(&Prop{
		ID:             "C09",
		Pkgs:           []string{"service/state", "service", "service/contract"},
		Run:            runC09,
		MinObligations: 25,
		Technique:      "static analysis: wait-before-read ordering on dependency links, realize-before-real ordering on every access to the shared world state, lock discipline on the virtual-state fields, dispatch structure of the concurrent executor (lock requests chained in block order, snapshot first, commit before done)",
		LevelText:      "Decides on all paths of the virtual world state and the concurrent executor: an account reached through a dependency link is read only after that predecessor's waitCommit(); every access to the shared real world state or to the base snapshot from a virtual state is dominated by realizeBaseInLock() (which waits for all earlier transactions) or by a waitCommit() on the account's dependency, except the construction-time and owner-commit sites listed with reasons; the fields of a virtual state are touched only under its mutex (or in *InLock helpers whose callers lock, or on a not-yet-published fresh object); the dispatcher calls Prepare in block order on the context chained from the previous transaction (so lock requests are totally ordered), waits for a slot before starting a worker, and each worker takes its snapshot before executing and reaches Done only through Commit.",
		LevelNote:      "That every handler's Prepare declares all accounts it touches, and equality of results for every schedule, are behavioural and not decided. Realize()'s hand-over-hand locking is a listed exception of the lock rule.",
		Explanation:    "C09 rules: wait-before-read (K2), realize-before-real (K2 + frozen exceptions), lockset (K6), dispatch-order (K5 + structure), snapshot-first and commit-then-done (K2/K8).",
		Mutants: []Mutant{
			{Name: "commit-reads-before-wait", File: "service/state/worldvirtualstate.go", Old: "\t\t\t\tlas.depend.waitCommit()\n\t\t\t\tlas.state = las.depend.GetAccountROState([]byte(id))\n\t\t\t\tlas.base = las.state.GetSnapshot()\n\t\t\t\tlas.depend = nil", New: "\t\t\t\tlas.state = las.depend.GetAccountROState([]byte(id))\n\t\t\t\tlas.base = las.state.GetSnapshot()\n\t\t\t\tlas.depend.waitCommit()\n\t\t\t\tlas.depend = nil", Desc: "an untouched write-locked account is published from a predecessor that may still be executing"},
			{Name: "snapshot-without-realize", File: "service/state/worldvirtualstate.go", Old: "\tcase AccountWriteLock:\n\t\twvs.realizeBaseInLock()\n\t\twvss.base = wvs.real.GetSnapshot()", New: "\tcase AccountWriteLock:\n\t\twvss.base = wvs.real.GetSnapshot()", Desc: "world-lock transaction snapshots the real state without waiting for earlier transactions"},
			{Name: "validator-state-without-realize", File: "service/state/worldvirtualstate.go", Old: "func (wvs *worldVirtualState) GetValidatorState() ValidatorState {\n\twvs.mutex.Lock()\n\tdefer wvs.mutex.Unlock()\n\n\tif wvs.worldLock != AccountNoLock {\n\t\twvs.realizeBaseInLock()\n", New: "func (wvs *worldVirtualState) GetValidatorState() ValidatorState {\n\twvs.mutex.Lock()\n\tdefer wvs.mutex.Unlock()\n\n\tif wvs.worldLock != AccountNoLock {\n", Desc: "validators read from the real state before earlier transactions finished"},
			{Name: "account-read-before-wait", File: "service/state/worldvirtualstate.go", Old: "\t\tif las.depend != nil {\n\t\t\tlas.depend.waitCommit()\n\t\t\tif las.lock == AccountWriteLock {", New: "\t\tif las.depend != nil {\n\t\t\tif las.lock == AccountWriteLock {", Desc: "first access to a locked account does not wait for the previous holder"},
			{Name: "unlocked-accessor", File: "service/state/worldvirtualstate.go", Old: "func (wvs *worldVirtualState) GetAccountState(id []byte) AccountState {\n\twvs.mutex.Lock()\n\tdefer wvs.mutex.Unlock()\n\n\treturn", New: "func (wvs *worldVirtualState) GetAccountState(id []byte) AccountState {\n\treturn", Desc: "account table read without the virtual state's mutex"},
			{Name: "prepare-in-worker", File: "service/transition_pe.go", Old: "\t\t\twvs := ctx.WorldVirtualState()\n\t\t\twvss := wvs.GetSnapshot()\n", New: "\t\t\twvs := ctx.WorldVirtualState()\n\t\t\ttxh.Prepare(ctx)\n\t\t\twvss := wvs.GetSnapshot()\n", Desc: "lock requests issued from worker goroutines (unordered)"},
			{Name: "worker-done-before-commit", File: "service/transition_pe.go", Old: "\t\t\twvs.Commit()\n\t\t\tec.Done()", New: "\t\t\tec.Done()\n\t\t\twvs.Commit()", Desc: "slot released before the transaction's results are published"},
			{Name: "context-not-chained", File: "service/transition_pe.go", Old: "\t\tctx = t.newContractContext(wc)\n\n\t\tec.Ready()", New: "\t\t_ = t.newContractContext(wc)\n\n\t\tec.Ready()", Desc: "every transaction prepares against the initial context: later transactions do not depend on earlier ones"},
		},
	})
}

func runC09(c *Ctx) {
	runC09Second(c)
	runC09Deps(c)
	const sp = "service/state"
	pf := c.pkgFuncs(sp)
	isWvs := func(f *ssa.Function) bool {
		return f.Signature.Recv() != nil && namedOf(f.Signature.Recv().Type()) == "worldVirtualState" && f.Parent() == nil
	}

	// ---- wait-before-read
	nDep := 0
	for _, f := range pf {
		if !isWvs(f) && f.Name() != "applyLockRequests" {
			continue
		}
		for _, cs := range c.calls(f, func(cc *ssa.CallCommon) bool {
			r, _ := callArgs(cc)
			return r != nil && strings.HasSuffix(render(r), ".depend") && methodName(cc) != "waitCommit"
		}) {
			nDep++
			r, _ := callArgs(cs.Common())
			okW := false
			for _, w := range c.calls(f, byMethod("waitCommit")) {
				wr, _ := callArgs(w.Common())
				if render(wr) == render(r) && dominatesInstr(w.Instr, cs.Instr) {
					// no store to .depend in between is needed: the link is cleared only after use
					okW = true
				}
			}
			c.check(okW, "C09.wait-before-read", fnName(f)+": "+methodName(cs.Common())+" through a dependency link", cs.Pos(), "waitCommit() on that link dominates", "the predecessor's account is read before waitCommit(): a transaction observes state from before an earlier transaction's write")
		}
	}
	if nDep < 2 {
		c.undecided("C09.wait-before-read", "reads through dependency links", token.NoPos, fmt.Sprintf("expected ≥2 (first access, commit pass-through), found %d", nDep))
	}

	// ---- realize-before-real
	exceptions := map[string]string{
		"Commit":            "the committing transaction owns the lock; its worker took GetSnapshot() first, which realized the base (checked in snapshot-first)",
		"Reset":             "resets to a snapshot obtained from GetSnapshot(), which realized the base",
		"Database":          "immutable handle",
		"getROAccountState": "called at construction for accounts nobody before holds",
		"applyLockRequests": "construction time: only on the arm where no predecessor holds the account (depend == nil)",
	}
	nReal := 0
	for _, f := range pf {
		if !isWvs(f) && f.Name() != "applyLockRequests" {
			continue
		}
		for _, cs := range c.calls(f, func(cc *ssa.CallCommon) bool {
			r, _ := callArgs(cc)
			if r == nil {
				return false
			}
			s := render(r)
			return strings.HasSuffix(s, ".real") || s == "$r.base" || strings.HasSuffix(s, "$r.base")
		}) {
			nReal++
			name := fnName(f) + ": " + methodName(cs.Common()) + " on " + strings.TrimPrefix(render(cs.Common().Value), "$r.")
			if why, ok := exceptions[f.Name()]; ok {
				if f.Name() == "applyLockRequests" {
					c.requireAt("C09.realize-before-real", name+" (construction)", cs.Instr, wSame("no predecessor holds the account", `\.depend$`, `^nil$`))
				} else {
					c.okTrivial("C09.realize-before-real", name+" (listed exception)", cs.Pos(), why)
				}
				continue
			}
			okR := false
			for _, w := range c.calls(f, byMethod("realizeBaseInLock", "waitCommit", "waitCommitInLock", "Realize")) {
				if dominatesInstr(w.Instr, cs.Instr) {
					okR = true
				}
			}
			c.check(okR, "C09.realize-before-real", name, cs.Pos(), "dominated by realizeBaseInLock()/waitCommit()", "the shared world state is accessed without first waiting for the earlier transactions of the block (no realizeBaseInLock/waitCommit dominates)")
		}
	}
	if nReal < 8 {
		c.undecided("C09.realize-before-real", "accesses to the shared state", token.NoPos, fmt.Sprintf("expected ≥8, found %d", nReal))
	}
	// realizeBaseInLock really waits: it realizes the parent and takes its committed snapshot
	if rb := c.mustFn(sp, "worldVirtualState", "realizeBaseInLock"); rb != nil {
		re := c.calls(rb, byMethod("Realize"))
		okRB := len(re) == 1 && render(re[0].Common().Args[0]) == "$r.parent"
		c.check(okRB, "C09.realize-before-real", "realizeBaseInLock realizes the parent chain", rb.Pos(), "parent.Realize()", "realizeBaseInLock does not realize the parent")
		for _, st := range fieldStores([]*ssa.Function{rb}, "worldVirtualState", "base") {
			c.check(render(st.Store.Val) == "$r.parent.committed" && len(re) == 1 && dominatesInstr(re[0].Instr, st.Store), "C09.realize-before-real", "base = parent's committed snapshot, after Realize", st.Store.Pos(), "parent.committed", "base set to "+render(st.Store.Val))
		}
	}

	// ---- lockset
	guarded := map[string]bool{"accountStates": true, "committed": true, "base": true, "worldLock": true, "waiter": true}
	lockExempt := map[string]string{
		"GetFuture":         "initialises a fresh, not yet published virtual state",
		"applyLockRequests": "runs on a fresh, not yet published virtual state",
		"Realize":           "hand-over-hand locking of the ancestor chain",
		"realizeBaseInLock": "*InLock helper",
	}
	for _, f := range pf {
		if !isWvs(f) {
			continue
		}
		touches := ""
		for _, b := range f.Blocks {
			for _, in := range b.Instrs {
				if fa, ok := in.(*ssa.FieldAddr); ok && render(fa.X) == "$r" && guarded[fieldName(fa.X.Type(), fa.Field)] {
					touches = fieldName(fa.X.Type(), fa.Field)
				}
			}
		}
		if touches == "" {
			continue
		}
		if why, ok := lockExempt[f.Name()]; ok {
			c.okTrivial("C09.lockset", f.Name()+" (listed exception)", f.Pos(), why)
			continue
		}
		locks := false
		for _, cs := range c.calls(f, byMethod("Lock")) {
			r, _ := callArgs(cs.Common())
			if render(r) != "&$r.mutex" {
				continue
			}
			// the Lock must precede every access to a guarded field
			all := true
			for _, b := range f.Blocks {
				for _, in := range b.Instrs {
					if fa, ok := in.(*ssa.FieldAddr); ok && render(fa.X) == "$r" && guarded[fieldName(fa.X.Type(), fa.Field)] {
						if !dominatesInstr(cs.Instr, fa) {
							all = false
						}
					}
				}
			}
			if all {
				locks = true
			}
		}
		if strings.HasSuffix(f.Name(), "InLock") {
			okCallers := true
			for _, g := range pf {
				for _, cs := range c.calls(g, byCallee("(*service/state.worldVirtualState)."+f.Name())) {
					r, _ := callArgs(cs.Common())
					gl := false
					for _, lk := range c.calls(g, byMethod("Lock")) {
						lr, _ := callArgs(lk.Common())
						if strings.TrimSuffix(strings.TrimPrefix(render(lr), "&"), ".mutex") == render(r) && dominatesInstr(lk.Instr, cs.Instr) {
							gl = true
						}
					}
					if _, listed := lockExempt[g.Name()]; listed {
						continue
					}
					if !gl && !strings.HasSuffix(g.Name(), "InLock") {
						okCallers = false
						c.violate("C09.lockset", g.Name()+" calls "+f.Name()+" without the mutex", cs.Pos(), "an *InLock helper is called from a function that does not hold that state's mutex")
					}
				}
			}
			if okCallers {
				c.ok("C09.lockset", f.Name()+" is only called with the mutex held", f.Pos(), "all callers lock")
			}
			continue
		}
		c.check(locks, "C09.lockset", f.Name()+" holds the mutex (touches "+touches+")", f.Pos(), "Lock at entry", "field "+touches+" of the virtual state is accessed without its mutex")
	}

	// ---- executor structure
	conc := c.mustFn("service", "transition", "executeTxsConcurrent")
	if conc == nil {
		return
	}
	prep := c.callsDeep(conc, byMethod("Prepare"))
	if len(prep) != 1 || prep[0].Fn != conc {
		c.violate("C09.dispatch-order", "Prepare is called once, by the dispatcher", conc.Pos(), fmt.Sprintf("expected exactly one Prepare call in the dispatcher loop (found %d, in %v)", len(prep), func() []string {
			var s []string
			for _, p := range prep {
				s = append(s, fnName(p.Fn))
			}
			return s
		}()))
	} else {
		_, a := callArgs(prep[0].Common())
		phi, isPhi := a[0].(*ssa.Phi)
		chained := false
		if isPhi {
			hasParam, hasNew := false, false
			for _, e := range phi.Edges {
				r := render(e)
				if r == "$2" {
					hasParam = true
				}
				if strings.Contains(r, ".newContractContext(") && strings.Contains(r, ".Prepare(") {
					hasNew = true
				}
			}
			chained = hasParam && hasNew
		}
		c.check(chained, "C09.dispatch-order", "each Prepare runs on the context chained from the previous transaction", prep[0].Pos(), "ctx = newContractContext(Prepare(ctx)) carried round the loop", "Prepare is not called on the context produced by the previous transaction's lock requests: transactions are not ordered against each other")
		// in the loop
		c.check(loopHeaderOf(prep[0].Instr.Block()) != nil, "C09.dispatch-order", "Prepare inside the dispatch loop", prep[0].Pos(), "in block order", "Prepare is outside the transaction loop")
	}
	var goI *ssa.Go
	for _, b := range conc.Blocks {
		for _, in := range b.Instrs {
			if g, ok := in.(*ssa.Go); ok {
				goI = g
			}
		}
	}
	if goI == nil {
		c.violate("C09.dispatch-order", "worker start", conc.Pos(), "no go statement")
		return
	}
	ready := c.calls(conc, byCallee("(*service.executionContext).Ready"))
	c.check(len(ready) == 1 && dominatesInstr(ready[0].Instr, goI), "C09.dispatch-order", "a slot is awaited before each worker starts", goI.Pos(), "Ready() dominates go", "workers are started without waiting for a slot")
	if len(prep) == 1 && prep[0].Fn == conc {
		c.check(dominatesInstr(prep[0].Instr, goI), "C09.dispatch-order", "locks are requested before the worker starts", goI.Pos(), "Prepare dominates go", "the worker starts before its lock requests are registered")
		// the worker gets the context created from this transaction's Prepare
		okCtx := false
		for _, a := range goI.Call.Args {
			if strings.Contains(render(a), ".newContractContext(") {
				okCtx = true
			}
		}
		c.check(okCtx, "C09.dispatch-order", "worker runs on its own prepared context", goI.Pos(), "newContractContext(wc)", "the worker does not receive the context prepared for its transaction")
	}
	for _, w := range conc.AnonFuncs {
		snap := c.calls(w, byMethod("GetSnapshot"))
		exec := c.calls(w, byMethod("Execute"))
		commit := c.calls(w, byMethod("Commit"))
		done := c.calls(w, byCallee("(*service.executionContext).Done"))
		if len(snap) < 1 || len(exec) != 1 || len(commit) != 1 || len(done) != 1 {
			c.violate("C09.snapshot-first", "worker structure", w.Pos(), fmt.Sprintf("expected GetSnapshot, one Execute, one Commit, one Done (found %d,%d,%d,%d)", len(snap), len(exec), len(commit), len(done)))
			continue
		}
		var first callSite
		for _, s := range snap {
			if strings.HasSuffix(render(s.Common().Value), ".WorldVirtualState()") {
				first = s
			}
		}
		c.check(first.Instr != nil && dominatesInstr(first.Instr, exec[0].Instr) && dominatesInstr(first.Instr, commit[0].Instr), "C09.snapshot-first", "worker takes the virtual-state snapshot before executing", exec[0].Pos(), "GetSnapshot dominates Execute and Commit", "the worker executes/commits without first taking the virtual-state snapshot (which waits for earlier world-lock holders)")
		_, a := callArgs(exec[0].Common())
		c.check(first.Instr != nil && a[1] == first.Instr.Value(), "C09.snapshot-first", "Execute rolls back to that snapshot", exec[0].Pos(), "Execute(ctx, wvss, …)", "Execute is given "+render(a[1]))
		c.check(dominatesInstr(commit[0].Instr, done[0].Instr), "C09.commit-then-done", "results are published before the slot is released", done[0].Pos(), "Commit dominates Done", "Done can run before Commit: the dispatcher may finish while results are unpublished")
		_, skip := pathAvoiding(w, nil, func(in ssa.Instruction) bool { return in == ssa.Instruction(done[0].Instr) }, func(in ssa.Instruction) bool { return in == ssa.Instruction(commit[0].Instr) })
		c.check(!skip, "C09.commit-then-done", "every worker exit commits", done[0].Pos(), "no path to Done round Commit", "a worker path reaches Done without Commit: successors wait forever or read unpublished state")
		// no Prepare in the worker
		c.check(len(c.calls(w, byMethod("Prepare"))) == 0, "C09.dispatch-order", "worker issues no lock requests", w.Pos(), "none", "lock requests are issued from a worker goroutine, i.e. in schedule order, not block order")
	}
	// the dispatcher joins
	re := c.calls(conc, byMethod("Realize"))
	c.check(len(re) == 1, "C09.commit-then-done", "dispatcher joins through Realize()", conc.Pos(), "one Realize", fmt.Sprintf("%d Realize calls", len(re)))
}

// runC09Deps: dependency bookkeeping of the virtual world state (rules added
// after independently produced mutants were missed).
func runC09Deps(c *Ctx) {
	const pk = "service/state"
	const rule = "C09.dependency-bookkeeping"
	// (1) a world write-locker supersedes every earlier account locker
	if fn := c.mustFn(pk, "worldVirtualContext", "setLocker"); fn != nil {
		var mapSt, wlSt *ssa.Store
		for _, fs := range fieldStoresAny([]*ssa.Function{fn}, "worldVirtualContext") {
			switch fieldName(fs.Addr.X.Type(), fs.Addr.Field) {
			case "lastAccountLocker":
				mapSt = fs.Store
			case "lastWorldLocker":
				wlSt = fs.Store
			}
		}
		ok := mapSt != nil && wlSt != nil && mapSt.Block() == wlSt.Block()
		if ok {
			_, isMk := mapSt.Val.(*ssa.MakeMap)
			ok = isMk && render(wlSt.Val) == "$1"
		}
		c.check(ok, rule, "registering a world locker clears the per-account lockers", fn.Pos(), "lastAccountLocker = make(...); lastWorldLocker = wvs", "a world write-locker is registered without clearing the account lockers: a later transaction depends on a transaction from before the world lock instead of on the world locker")
		if wlSt != nil {
			c.requireAt(rule, "world locker registered only for the world id", wlSt, wSame("id == world", `^\$0$`, `^""$`))
		}
	}
	// (2) duplicate lock requests keep the stronger lock
	if fn := c.mustFn(pk, "", "applyLockRequests"); fn != nil {
		n := 0
		for _, fs := range fieldStores([]*ssa.Function{fn}, "lockedAccountState", "lock") {
			v := render(fs.Store.Val)
			if !strings.HasSuffix(v, ".Lock") {
				continue
			}
			// the update of an existing entry (not the literal of a new one)
			if _, isAlloc := fs.Addr.X.(*ssa.Alloc); isAlloc {
				continue
			}
			n++
			okG := false
			for _, g := range guardsAt(fs.Store) {
				p := predOf(g)
				if p.Kind == "ge" && len(p.L.T) == 2 && p.L.K == -1 {
					pos, neg := "", ""
					for a, co := range p.L.T {
						if co == 1 {
							pos = a
						} else if co == -1 {
							neg = a
						}
					}
					if strings.HasSuffix(pos, ".Lock") && strings.HasSuffix(neg, ".lock") {
						okG = true
					}
				}
			}
			c.check(okG, rule, "a repeated lock request can only strengthen the lock", fs.Store.Pos(), "if las.lock < req.Lock { las.lock = req.Lock }", "a repeated request can weaken an account lock (write → read): the transaction then works on a read-only view and is not registered as the account's locker")
		}
		c.check(n == 1, rule, "lock merge site", fn.Pos(), "1", fmt.Sprint(n))
		// world lock likewise
		for _, fs := range fieldStores([]*ssa.Function{fn}, "worldVirtualState", "worldLock") {
			okG := false
			for _, g := range guardsAt(fs.Store) {
				p := predOf(g)
				if p.Kind == "ge" && len(p.L.T) == 2 && p.L.K == -1 {
					for a, co := range p.L.T {
						if co == 1 && strings.HasSuffix(a, ".Lock") {
							okG = true
						}
					}
				}
			}
			c.check(okG, rule, "a repeated world lock request can only strengthen the lock", fs.Store.Pos(), "if req.Lock > worldLock", "world lock can be weakened")
		}
	}
	// (3) a child's base is the parent's committed snapshot
	if fn := c.mustFn(pk, "worldVirtualState", "GetFuture"); fn != nil {
		ok := false
		for _, fs := range fieldStores([]*ssa.Function{fn}, "worldVirtualState", "base") {
			ok = render(fs.Store.Val) == "$r.committed"
		}
		okP := false
		for _, fs := range fieldStores([]*ssa.Function{fn}, "worldVirtualState", "parent") {
			okP = render(fs.Store.Val) == "$r"
		}
		c.check(ok && okP, rule, "a future state starts from its parent's committed snapshot and links to the parent", fn.Pos(), "base = parent.committed; parent = wvs", "the child's base is not the parent's committed snapshot: it believes a base from before the parent executed is already realized and does not wait for its predecessors")
	}
	// (4) Commit publishes frozen copies
	wl, _ := c.constVal(pk, "AccountWriteLock")
	if fn := c.mustFn(pk, "worldVirtualState", "Commit"); fn != nil {
		nState := 0
		for _, fs := range fieldStores([]*ssa.Function{fn}, "lockedAccountState", "state") {
			nState++
			v := render(fs.Store.Val)
			ok := strings.HasPrefix(v, "state.newAccountROState(") && strings.Contains(v, ".state.GetSnapshot()") || strings.Contains(v, ".depend.GetAccountROState(")
			c.check(ok, rule, "a committed writer publishes a read-only copy of its account snapshot", fs.Store.Pos(), v, "Commit leaves "+v+" in the published account state")
		}
		c.check(nState == 2, rule, "Commit replaces the account state on both branches (own / inherited)", fn.Pos(), "2 stores", fmt.Sprintf("%d stores of las.state: a committed writer keeps the live shared account state, so a reader between two writers can see the later writer's changes", nState))
		okW := false
		for _, fs := range fieldStores([]*ssa.Function{fn}, "worldVirtualState", "committed") {
			okW = render(fs.Store.Val) == "$r.worldVirtualContext.real.GetSnapshot()" || strings.HasSuffix(render(fs.Store.Val), ".real.GetSnapshot()")
			c.requireAt(rule, "the committed world snapshot is published by the world write-locker", fs.Store, wEQ("worldLock == write", -wl, t(1, `^\$r\.worldLock$`)))
		}
		c.check(okW, rule, "a world write-locker publishes its committed snapshot when it commits", fn.Pos(), "committed = real.GetSnapshot()", "a committing world locker does not publish its snapshot: readers fall back to the stale base")
		// before waking the waiters
		for _, bc := range c.calls(fn, byMethod("Broadcast")) {
			for _, fs := range fieldStores([]*ssa.Function{fn}, "worldVirtualState", "committed") {
				_, reach := pathAvoiding(fn, bc.Instr, isInstr(fs.Store), nil)
				c.check(!reach, rule, "results are published before the waiters are woken", bc.Pos(), "stores → Broadcast", "waiters are woken before the committed snapshot is stored")
			}
		}
	}
	// (5) Reset restores every write-locked account, also one realized after the snapshot was taken
	if fn := c.mustFn(pk, "worldVirtualState", "Reset"); fn != nil {
		resets := c.calls(fn, byMethod("Reset"))
		var acct []callSite
		for _, r := range resets {
			rc, _ := callArgs(r.Common())
			if rc != nil && strings.HasSuffix(render(rc), ".state") {
				acct = append(acct, r)
			}
		}
		c.check(len(acct) >= 2, rule, "Reset handles accounts with and without an entry in the snapshot", fn.Pos(), fmt.Sprintf("%d account resets", len(acct)), "Reset only restores accounts that were already realized when the snapshot was taken: changes to the others survive a rollback")
		if len(acct) > 0 {
			h := loopHeaderOf(acct[0].Instr.Block())
			if h != nil {
				isAcct := func(in ssa.Instruction) bool {
					for _, a := range acct {
						if a.Instr == in {
							return true
						}
					}
					return false
				}
				body := loopBody(h)
				old := pathEdgeFilter
				pathEdgeFilter = func(p, sb *ssa.BasicBlock) bool {
					if !body[sb] {
						return true
					}
					for _, g := range edgeGuard(p, sb) {
						pd := predOf(g)
						s := pd.String()
						// not write-locked, or never realized (state == nil)
						if (pd.Kind == "ne" && strings.Contains(s, ".lock")) || (pd.Kind == "same" && strings.Contains(s, ".state") && strings.Contains(s, "nil")) {
							return true
						}
					}
					return false
				}
				tr, by := pathAvoiding(fn, h.Instrs[len(h.Instrs)-1], func(in ssa.Instruction) bool { return in == h.Instrs[0] }, isAcct)
				pathEdgeFilter = old
				c.check(!by, rule, "every write-locked, realized account is reset", acct[0].Pos(), "skip only if not write-locked or not realized", "a write-locked account can be skipped by Reset ("+traceString(tr)+")")
			}
		}
	}
}

// runC09Second: rules added for the second list of independent mutants.
// (1) a committing transaction wakes every goroutine waiting for it
// (Broadcast, never Signal: several successors may wait on one predecessor);
// (2) both executors refresh the context's system information before each
// transaction (the parallel worker must see what an earlier governance
// transaction changed, as the sequential loop does).
// runC09Third: lock-table rules added for the second list of independent mutants.
func runC09Third(c *Ctx) {
	const pkg = "service/state"
	wl, ok := c.constVal(pkg, "AccountWriteLock")
	if !ok {
		c.undecided("C09.lock-table", "AccountWriteLock", token.NoPos, "constant not found")
		return
	}
	// a virtual state hands out the live account object only to a write-locker
	n := 0
	for _, f := range c.pkgFuncs(pkg) {
		for _, st := range fieldStores([]*ssa.Function{f}, "lockedAccountState", "state") {
			cl, isCall := unwrap(st.Store.Val).(*ssa.Call)
			if !isCall || methodName(cl.Common()) != "GetAccountState" || !strings.Contains(render(cl), ".real.") {
				continue
			}
			n++
			c.requireAt("C09.lock-table", fnName(f)+" hands out the live account state", st.Store, wEQ("the entry holds the write lock", -wl, t(1, `\.lock$`)))
		}
	}
	if n < 2 {
		c.undecided("C09.lock-table", "live account state hand-outs", token.NoPos, fmt.Sprintf("expected ≥2 (applyLockRequests, getAccountStateInLock), found %d", n))
	}
	// an account without a locker of its own depends on the last world-locker
	if f := c.mustFn(pkg, "worldVirtualContext", "getLocker"); f != nil {
		seen := false
		for _, e := range exitAlts(f) {
			r := render(e.Results[0])
			if r == "$r.lastWorldLocker" {
				seen = true
			}
			if _, isC := e.Results[0].(*ssa.Const); isC {
				c.violate("C09.lock-table", "getLocker falls back to the last world-locker", e.pos(), "an exit answers `no locker` outright: a transaction after a world-locked one does not wait for it and reads state the world-locker is still writing")
			}
		}
		c.check(seen, "C09.lock-table", "getLocker falls back to the last world-locker", f.Pos(), "return lastWorldLocker", "no exit returns the last world-locker")
	}
	// Realize leaves its collecting loop without queueing the state it just locked only when that
	// state is already committed
	if f := c.mustFn(pkg, "worldVirtualState", "Realize"); f != nil {
		n := 0
		for _, cs := range c.calls(f, byMethod("Lock")) {
			h := loopHeaderOf(cs.Instr.Block())
			if h == nil {
				continue
			}
			body := loopBody(h)
			n++
			_, skip := pathAvoidingEdges(f, cs.Instr, func(in ssa.Instruction) bool { return !body[in.Block()] }, func(in ssa.Instruction) bool {
				cl, ok := in.(*ssa.Call)
				if !ok {
					return false
				}
				b, isB := cl.Call.Value.(*ssa.Builtin)
				return isB && b.Name() == "append"
			}, wDiffer("already committed", `\.committed$`, `^nil$`))
			c.check(!skip, "C09.commit-then-done", "Realize queues every locked, uncommitted state", cs.Pos(), "append(wsList, ws) on every path out of the loop except committed != nil", "a state that is locked and not yet committed can leave the collecting loop without being queued (for instance one that has a base but is still executing): nobody waits for its commit and its snapshot is never taken")
		}
		if n == 0 {
			c.undecided("C09.commit-then-done", "Realize", f.Pos(), "no mutex.Lock inside the collecting loop")
		}
	}
	// a handler that moves value write-locks both ends
	if f := c.mustFn("service/contract", "CommonHandler", "Prepare"); f != nil {
		m := 0
		for _, st := range fieldStores([]*ssa.Function{f}, "LockRequest", "Lock") {
			m++
			k, isK := constInt(st.Store.Val)
			c.check(isK && k == wl, "C09.lock-table", "CommonHandler.Prepare requests write locks", st.Store.Pos(), "AccountWriteLock", "a party of the transfer is requested with lock "+render(st.Store.Val)+": it is handed a read-only copy, the transfer's effect on it is lost or later transactions on it are not ordered behind this one")
		}
		if m < 2 {
			c.undecided("C09.lock-table", "CommonHandler.Prepare", f.Pos(), fmt.Sprintf("%d lock requests found, expected sender and recipient", m))
		}
	}
}

func runC09Second(c *Ctx) {
	runC09Third(c)
	nB := 0
	for _, f := range c.pkgFuncs("service/state") {
		if f.Signature.Recv() == nil || namedOf(f.Signature.Recv().Type()) != "worldVirtualState" {
			continue
		}
		for _, cs := range c.calls(f, byMethod("Signal")) {
			if strings.Contains(render(cs.Common().Args[0]), ".waiter") {
				c.violate("C09.commit-then-done", fnName(f)+" wakes all waiters", cs.Pos(), "Signal() wakes one of the goroutines waiting for this transaction; the others never resume and the block does not complete")
			}
		}
		for _, cs := range c.calls(f, byMethod("Broadcast")) {
			if strings.Contains(render(cs.Common().Args[0]), ".waiter") {
				nB++
			}
		}
	}
	c.check(nB >= 1, "C09.commit-then-done", "Commit wakes all waiters", token.NoPos, fmt.Sprintf("%d Broadcast sites", nB), "no waiter.Broadcast() in worldVirtualState")
	for _, spec := range [][2]string{{"executeTxsConcurrent", "parallel"}, {"executeTxsSequential", "sequential"}} {
		f := c.mustFn("service", "transition", spec[0])
		if f == nil {
			continue
		}
		n := 0
		for _, g := range withAnon(f) {
			exec := c.calls(g, func(cc *ssa.CallCommon) bool { return methodName(cc) == "Execute" })
			for _, up := range c.calls(g, byMethod("UpdateSystemInfo")) {
				n++
				okO := false
				for _, ex := range exec {
					if dominatesInstr(up.Instr, ex.Instr) {
						okO = true
					}
				}
				c.check(okO, "C09.system-info", spec[1]+" executor refreshes the system information before executing", up.Pos(), "UpdateSystemInfo → Execute", "UpdateSystemInfo does not precede Execute")
			}
		}
		c.check(n >= 1, "C09.system-info", spec[1]+" executor refreshes the context's system information per transaction", f.Pos(), fmt.Sprintf("%d calls", n), "the "+spec[1]+" executor never calls ctx.UpdateSystemInfo(): a transaction after a governance change runs with the values of the block start, unlike in the other executor")
	}
	// a worker goroutine gets its per-transaction values as arguments, never by capturing a
	// variable the dispatch loop goes on changing
	if f := c.mustFn("service", "transition", "executeTxsConcurrent"); f != nil {
		nGo := 0
		for _, b := range f.Blocks {
			for _, in := range b.Instrs {
				g, ok := in.(*ssa.Go)
				if !ok {
					continue
				}
				mc, ok := g.Call.Value.(*ssa.MakeClosure)
				if !ok {
					continue
				}
				nGo++
				h := loopHeaderOf(b)
				for i, bd := range mc.Bindings {
					al, isAl := bd.(*ssa.Alloc)
					if !isAl || h == nil {
						continue
					}
					body := loopBody(h)
					if body[al.Block()] {
						continue // declared inside the loop body: a fresh variable per iteration
					}
					changed := false
					for _, st := range storesTo(al) {
						if body[st.Block()] {
							changed = true
						}
					}
					name := "?"
					if fn, ok := mc.Fn.(*ssa.Function); ok && i < len(fn.FreeVars) {
						name = fn.FreeVars[i].Name()
					}
					c.check(!changed, "C09.dispatch-order", "worker does not capture the loop-carried variable "+name, g.Pos(), "passed as an argument", "the worker goroutine reads "+name+", which the dispatch loop keeps changing: the value a transaction sees depends on the schedule")
				}
			}
		}
		if nGo == 0 {
			c.undecided("C09.dispatch-order", "worker goroutine", f.Pos(), "no go statement with a closure")
		}
	}
}
