package main

import (
	"encoding/json"
	"fmt"
	"go/token"
	"os"
	"path/filepath"
	"sort"
	"strings"

	"golang.org/x/tools/go/packages"
	"golang.org/x/tools/go/ssa"
	"golang.org/x/tools/go/ssa/ssautil"
)

const modPath = "github.com/icon-project/goloop"

const (
	stDischarged = "discharged"
	stViolated   = "violated"
	stUndecided  = "undecided"
)

// Obligation is one decided instance of a rule. It is keyed by rule+construct
// (never by line number); Pos is for the human reader only.
type Obligation struct {
	Rule       string `json:"rule"`
	Construct  string `json:"construct"`
	Pos        string `json:"pos"`
	Status     string `json:"status"`
	Detail     string `json:"detail"`
	Nontrivial bool   `json:"nontrivial"`
	Known      bool   `json:"known,omitempty"`
}

type Prop struct {
	ID             string
	Pkgs           []string // package patterns relative to the module (quick tier)
	ThoroughPkgs   []string // if set, thorough tier loads these instead
	Run            func(c *Ctx)
	MinObligations int // floor confirmed by hand; fewer => undecided
	LevelText      string
	LevelNote      string
	Technique      string
	Explanation    string
	Assumptions    []string
	Mutants        []Mutant
}

var registry = map[string]*Prop{}

func register(p *Prop) { registry[p.ID] = p }

func findProp(id string) *Prop { return registry[id] }

func allProps() []*Prop {
	var ids []string
	for id := range registry {
		ids = append(ids, id)
	}
	sort.Strings(ids)
	var ps []*Prop
	for _, id := range ids {
		ps = append(ps, registry[id])
	}
	return ps
}

type Ctx struct {
	Prop      *Prop
	Tier      string
	L         *Loaded
	obs       []*Obligation
	callSites int
	loadErr   string
	Sub       bool // a sub-run inside another property: nested sub-runs are skipped
}

func (c *Ctx) pos(p token.Pos) string {
	if c.L == nil || p == token.NoPos {
		return "-"
	}
	ps := c.L.Fset.Position(p)
	f := ps.Filename
	if rel, err := filepath.Rel(c.L.Repo, f); err == nil && !strings.HasPrefix(rel, "..") {
		f = rel
	}
	return fmt.Sprintf("%s:%d", f, ps.Line)
}

// file returns the repo-relative file name of a position.
func (c *Ctx) file(p token.Pos) string {
	s := c.pos(p)
	if i := strings.LastIndex(s, ":"); i >= 0 {
		return s[:i]
	}
	return s
}

func (c *Ctx) add(status, rule, construct string, p token.Pos, detail string, nontrivial bool) *Obligation {
	o := &Obligation{Rule: rule, Construct: construct, Pos: c.pos(p), Status: status, Detail: detail, Nontrivial: nontrivial}
	c.obs = append(c.obs, o)
	return o
}

// ok records a discharged obligation decided by a path/dataflow/table argument.
func (c *Ctx) ok(rule, construct string, p token.Pos, detail string) {
	c.add(stDischarged, rule, construct, p, detail, true)
}

// okTrivial records a discharged obligation decided by existence only.
func (c *Ctx) okTrivial(rule, construct string, p token.Pos, detail string) {
	c.add(stDischarged, rule, construct, p, detail, false)
}

func (c *Ctx) violate(rule, construct string, p token.Pos, detail string) {
	c.add(stViolated, rule, construct, p, detail, true)
}

func (c *Ctx) undecided(rule, construct string, p token.Pos, detail string) {
	c.add(stUndecided, rule, construct, p, detail, false)
}

// check is ok-or-violate.
func (c *Ctx) check(cond bool, rule, construct string, p token.Pos, okDetail, badDetail string) bool {
	if cond {
		c.ok(rule, construct, p, okDetail)
	} else {
		c.violate(rule, construct, p, badDetail)
	}
	return cond
}

// ------------------------------------------------------------ known findings

type knownFinding struct {
	Kind      string `json:"kind"` // "finding" or "fixed"
	Property  string `json:"property"`
	Rule      string `json:"rule"`
	Construct string `json:"construct"`
	What      string `json:"what"`
	Commit    string `json:"commit,omitempty"`
}

type knownFindings struct{ list []knownFinding }

func loadKnownFindings(root string) *knownFindings {
	kf := &knownFindings{}
	bs, err := os.ReadFile(filepath.Join(root, "known_findings.json"))
	if err != nil {
		return kf
	}
	var doc struct {
		Entries []knownFinding `json:"entries"`
	}
	if json.Unmarshal(bs, &doc) == nil {
		kf.list = doc.Entries
	}
	return kf
}

// match returns the recorded finding that an observed violation corresponds
// to. Only kind "finding" suppresses; "fixed" entries suppress nothing.
func (k *knownFindings) match(prop string, o *Obligation) *knownFinding {
	for i := range k.list {
		f := &k.list[i]
		if f.Kind == "finding" && f.Property == prop && f.Rule == o.Rule && f.Construct == o.Construct {
			return f
		}
	}
	return nil
}

// ------------------------------------------------------------------ loading

type Loaded struct {
	Repo     string
	Fset     *token.FileSet
	Roots    []*packages.Package
	ByPath   map[string]*packages.Package
	Prog     *ssa.Program
	SSAPkgs  map[string]*ssa.Package
	NumPkgs  int
	NumFuncs int
	fnCache  map[*ssa.Function]*fnInfo
}

func (l *Loaded) rootPaths() []string {
	var r []string
	for _, p := range l.Roots {
		r = append(r, strings.TrimPrefix(p.PkgPath, modPath+"/"))
	}
	sort.Strings(r)
	return r
}

func parseOverlay(s string) (map[string][]byte, error) {
	if s == "" {
		return nil, nil
	}
	ov := map[string][]byte{}
	for _, kv := range strings.Split(s, ",") {
		i := strings.Index(kv, "=")
		if i < 0 {
			return nil, fmt.Errorf("overlay entry %q", kv)
		}
		bs, err := os.ReadFile(kv[i+1:])
		if err != nil {
			return nil, err
		}
		ov[kv[:i]] = bs
	}
	return ov, nil
}

func load(repo string, pats []string, overlay map[string][]byte) (*Loaded, error) {
	os.Unsetenv("GOWORK")
	env := append(os.Environ(), "GOFLAGS=-mod=mod", "GOPROXY=off", "GOSUMDB=off", "GOTOOLCHAIN=local", "GOWORK=off")
	var full []string
	for _, p := range pats {
		if p == "./..." {
			full = append(full, p)
		} else {
			full = append(full, "./"+strings.TrimPrefix(p, "./"))
		}
	}
	cfg := &packages.Config{
		Mode: packages.NeedName | packages.NeedFiles | packages.NeedCompiledGoFiles | packages.NeedImports |
			packages.NeedDeps | packages.NeedTypes | packages.NeedSyntax | packages.NeedTypesInfo | packages.NeedTypesSizes,
		Dir:     repo,
		Env:     env,
		Overlay: overlay,
		Tests:   false,
	}
	// NeedDeps with syntax only for roots: load roots with syntax, deps from export data.
	cfg.Mode = packages.LoadSyntax
	pkgs, err := packages.Load(cfg, full...)
	if err != nil {
		return nil, err
	}
	if len(pkgs) == 0 {
		return nil, fmt.Errorf("no packages matched %v", pats)
	}
	var errs []string
	for _, p := range pkgs {
		for _, e := range p.Errors {
			errs = append(errs, e.Error())
		}
		if p.Types == nil || p.TypesInfo == nil || len(p.Syntax) == 0 {
			errs = append(errs, p.PkgPath+": no syntax/types")
		}
	}
	if len(errs) > 0 {
		if len(errs) > 6 {
			errs = errs[:6]
		}
		return nil, fmt.Errorf("package errors: %s", strings.Join(errs, "; "))
	}
	prog, spkgs := ssautil.Packages(pkgs, ssa.InstantiateGenerics)
	L := &Loaded{Repo: repo, Fset: pkgs[0].Fset, Roots: pkgs, ByPath: map[string]*packages.Package{},
		Prog: prog, SSAPkgs: map[string]*ssa.Package{}, fnCache: map[*ssa.Function]*fnInfo{}}
	for i, p := range pkgs {
		L.ByPath[p.PkgPath] = p
		if spkgs[i] == nil {
			return nil, fmt.Errorf("no SSA package for %s", p.PkgPath)
		}
		spkgs[i].Build()
		L.SSAPkgs[p.PkgPath] = spkgs[i]
	}
	n := 0
	packages.Visit(pkgs, nil, func(*packages.Package) { n++ })
	L.NumPkgs = n
	for fn := range ssautil.AllFunctions(prog) {
		if fn.Blocks != nil && fn.Pkg != nil {
			if _, ok := L.SSAPkgs[fn.Pkg.Pkg.Path()]; ok {
				L.NumFuncs++
			}
		}
	}
	return L, nil
}

// pkg returns the loaded root package with the given module-relative path.
func (c *Ctx) pkg(rel string) *packages.Package {
	p := c.L.ByPath[modPath+"/"+rel]
	if p == nil {
		panic("package not loaded: " + rel)
	}
	return p
}

func (c *Ctx) spkg(rel string) *ssa.Package {
	p := c.L.SSAPkgs[modPath+"/"+rel]
	if p == nil {
		panic("SSA package not loaded: " + rel)
	}
	return p
}
