package main

import (
	"fmt"
	"go/token"
	"regexp"
	"strings"
	"unicode"

	"golang.org/x/tools/go/ssa"
)

// C17 — Merkle Patricia trie is a canonical map (narrow structural claim).
// C18 — trie proofs are sound and complete.
func init() {
	register(&Prop{
		ID:             "C17",
		Pkgs:           []string{"common/trie/ompt"},
		Run:            runC17,
		MinObligations: 20,
		Technique:      "static analysis: copy-on-write discipline (in-place writes only on dirty nodes or for content-preserving link realisation), kind dispatch on every collapse after delete (no extension above an extension or leaf), hash-reference replacement only for nodes that own a hash, freeze-before-share order, lock discipline on the root",
		LevelText:      "Decides on all paths of package ompt: a node is modified in place only when it is still dirty (never after it was frozen into a snapshot) — otherwise a fresh copy is returned — the only stores through a possibly shared receiver are child-link replacements on the path where the child operation reported `not dirty` (realising a hash link, content unchanged); when a delete collapses a branch or shortens below an extension, the surviving child is placed under an extension only if it is provably a branch (extension and leaf children get the key prefix merged into them), which is what makes the shape — and therefore the root hash — independent of history; ClearCache/compact replaces a node by a hash reference only if the node has its own hash (embedded short nodes are kept); a snapshot is created only after the root was frozen and freeze only moves dirty → frozen; exported trie operations take the trie mutex before touching the root.",
		LevelNote:      "Does not decide map semantics, iteration order, or hash independence from history as a whole; those are behavioural. Decides structural necessary conditions only.",
		Explanation:    "C17 rules: copy-on-write (K1/K5), shared-store (K1), canonical-collapse (K1 over type-switch alternatives), compact-keeps-embedded (K1), freeze-before-share (K2) and freeze-monotone (K1), root-lock (K6).",
		Mutants: []Mutant{
			{Name: "collapse-wraps-extension", File: "common/trie/ompt/branch.go", Old: "\t\t\tcase *extension:\n\t\t\t\treturn nn.getKeyPrepended([]byte{byte(idx)}), true, ov, nil\n\t\t\tcase *branch:\n\t\t\t\treturn &extension{", New: "\t\t\tcase *extension, *branch:\n\t\t\t\treturn &extension{", Desc: "an extension child is wrapped in another extension: root hash depends on history"},
			{Name: "compact-drops-embedded-leaf", File: "common/trie/ompt/leaf.go", Old: "\tif n.hashValue == nil {\n\t\treturn n\n\t}\n\treturn &hash{", New: "\treturn &hash{", Desc: "embedded (hash-less) leaf replaced by a nil hash reference on ClearCache"},
			{Name: "modify-frozen-branch", File: "common/trie/ompt/branch.go", Old: "\tif n.state == stateDirty {\n\t\tlock.Migrate()\n\t\treturn n\n\t}\n\treturn &branch{children: n.children, value: n.value}", New: "\tif n.state <= stateFrozen {\n\t\tlock.Migrate()\n\t\treturn n\n\t}\n\treturn &branch{children: n.children, value: n.value}", Desc: "a frozen branch (shared with a snapshot) is modified in place"},
			{Name: "snapshot-without-freeze", File: "common/trie/ompt/mpt.go", Old: "\tif m.root != nil {\n\t\tm.root.freeze()\n\t\tif debugDump {", New: "\tif m.root != nil {\n\t\tif debugDump {", Desc: "snapshot shares a dirty root with the mutable trie"},
			{Name: "ext-delete-keeps-leaf-under-ext", File: "common/trie/ompt/extension.go", Old: "\t\tcase *leaf:\n\t\t\treturn nn.getKeyPrepended(n.keys), true, old, err\n\t\t}\n\t\treturn n.getChanged", New: "\t\t}\n\t\treturn n.getChanged", Desc: "a leaf stays below an extension after delete"},
			{Name: "freeze-refreezes", File: "common/trie/ompt/leaf.go", Old: "\tif n.state != stateDirty {\n\t\treturn\n\t}\n\tlock.Migrate()\n\tif n.state == stateDirty {\n\t\tn.state = stateFrozen\n\t}", New: "\tlock.Migrate()\n\tn.state = stateFrozen", Desc: "freeze can move a hashed/flushed leaf back to frozen"},
		},
	})
	register(&Prop{
		ID:             "C18",
		Pkgs:           []string{"common/trie/ompt"},
		Run:            runC18,
		MinObligations: 20,
		Technique:      "static analysis: guard dominance on every value-yielding exit and every descent of the four prove implementations, writer/reader mirror of getProof vs prove (an element is emitted and consumed under the same `has own hash` condition), sibling agreement across node kinds",
		LevelText:      "Decides on all paths: a hash node descends only after SHA3(proof[0]) equals its own hash and the node it descends into is deserialised from that very element; leaf, branch and extension each compare proof[0] with their serialised form exactly when they own a hash, and pass the remaining proof (proof[1:] then, proof otherwise) to the child; getProof emits a node's serialised form under exactly that same condition (so genuine proofs are accepted — completeness — and embedded nodes consume nothing); a leaf yields its value only on an exact key match (and, when hashed, with exactly one proof element left), an extension descends only when its whole key is a prefix and passes the rest, a branch descends into the child selected by the next nibble with the tail and reports absence for a nil child; Prove returns what the root's prove returned.",
		LevelNote:      "SHA3 and the node deserialiser are trusted. A branch value or an embedded leaf accepts surplus trailing proof elements (observation O3); the yielded value is still the committed one, so this is not part of the claim.",
		Explanation:    "C18 rules: hash-check (K1+K5), own-hash-check (K1 with alternatives), consume-mirror (K4/K5 getProof ↔ prove), leaf-exact (K1), extension-prefix (K1), branch-select (K5), prove-door (K5).",
		Mutants: []Mutant{
			{Name: "leaf-prefix-match", File: "common/trie/ompt/leaf.go", Old: "\t_, match := compareKeys(n.keys, keys)\n\tif match {\n\t\tvalue, changed, err := m.getObject(n.value)", New: "\tcnt, _ := compareKeys(n.keys, keys)\n\tif cnt == len(n.keys) {\n\t\tvalue, changed, err := m.getObject(n.value)", Desc: "absent key extending a stored key yields that key's value"},
			{Name: "extension-always-consumes", File: "common/trie/ompt/extension.go", Old: "\tif n.hashValue != nil {\n\t\tif len(proof) < 1 || !bytes.Equal(proof[0], n.serialized) {\n\t\t\treturn n, nil, common.ErrIllegalArgument\n\t\t}\n\t\tproof = proof[1:]\n\t}\n\n\tcnt, _ := compareKeys(n.keys, keys)", New: "\tif len(proof) < 1 || !bytes.Equal(proof[0], n.serialized) {\n\t\treturn n, nil, common.ErrIllegalArgument\n\t}\n\tproof = proof[1:]\n\n\tcnt, _ := compareKeys(n.keys, keys)", Desc: "embedded extensions demand a proof element getProof never emits: genuine proofs rejected"},
			{Name: "hash-not-checked", File: "common/trie/ompt/hash.go", Old: "\tif !bytes.Equal(h.value, h2) {", New: "\tif bytes.Equal(h.value, nil) {", Desc: "any node is accepted under a hash link"},
			{Name: "branch-skips-own-check", File: "common/trie/ompt/branch.go", Old: "\t\tif len(proof) < 1 || !bytes.Equal(proof[0], n.serialized) {\n\t\t\treturn n, nil, common.ErrIllegalArgument\n\t\t}\n\t\tproof = proof[1:]\n\t}\n\n\tif len(keys) == 0 {\n\t\tif n.value != nil {", New: "\t\tif len(proof) < 1 || bytes.Equal(proof[0], nil) {\n\t\t\treturn n, nil, common.ErrIllegalArgument\n\t\t}\n\t\tproof = proof[1:]\n\t}\n\n\tif len(keys) == 0 {\n\t\tif n.value != nil {", Desc: "a cached branch does not compare the proof element with its own encoding"},
			{Name: "getproof-emits-embedded", File: "common/trie/ompt/branch.go", Old: "\tif n.hashValue != nil {\n\t\tproofs = append(proofs, n.serialized)\n\t}\n\tif len(keys) == 0 {\n\t\treturn n, proofs, nil", New: "\tproofs = append(proofs, n.serialized)\n\tif len(keys) == 0 {\n\t\treturn n, proofs, nil", Desc: "getProof emits embedded branches that prove does not consume"},
			{Name: "extension-partial-prefix", File: "common/trie/ompt/extension.go", Old: "\tcnt, _ := compareKeys(n.keys, keys)\n\tif cnt < len(n.keys) {\n\t\treturn n, nil, common.ErrNotFound\n\t}\n\tnext, obj, err := n.next.prove", New: "\tcnt, _ := compareKeys(n.keys, keys)\n\tif cnt == 0 {\n\t\treturn n, nil, common.ErrNotFound\n\t}\n\tnext, obj, err := n.next.prove", Desc: "extension descends on a partial prefix match"},
			{Name: "branch-wrong-child", File: "common/trie/ompt/branch.go", Old: "\tnchild, obj, err := child.prove(m, keys[1:], proof)", New: "\tnchild, obj, err := child.prove(m, keys, proof)", Desc: "branch does not consume its nibble"},
		},
	})
}

func exported(name string) bool { return name != "" && unicode.IsUpper(rune(name[0])) }

func runC17(c *Ctx) {
	const pkg = "common/trie/ompt"
	pf := c.pkgFuncs(pkg)
	kinds := []string{"leaf", "branch", "extension"}

	// ---- copy-on-write
	for _, k := range kinds {
		for _, n := range []string{"getChangable", "getChanged"} {
			f := c.fn(pkg, k, n)
			if f == nil {
				continue
			}
			for _, e := range exitAlts(f) {
				if render(e.Results[0]) == "$r" {
					c.requireGuard("C17.copy-on-write", k+"."+n+" reuses the node only while dirty", e.pos(), e.Guards, wEQ("state == dirty", 0, t(1, `^\$r\.[a-zA-Z.]*state$`)))
				} else {
					_, isAlloc := e.Results[0].(*ssa.Alloc)
					c.check(isAlloc, "C17.copy-on-write", k+"."+n+" otherwise returns a fresh copy", e.pos(), "new node", "returns "+render(e.Results[0]))
				}
			}
			// in-place writes inside are on the dirty arm only
			for _, st := range fieldStoresAny([]*ssa.Function{f}, k) {
				if render(st.Addr.X) == "$r" {
					c.requireAt("C17.copy-on-write", k+"."+n+" writes in place only while dirty", st.Store, wEQ("state == dirty", 0, t(1, `^\$r\.[a-zA-Z.]*state$`)))
				}
			}
		}
	}
	// ---- shared-store: set/delete store through the receiver only for content-preserving link realisation
	nShared := 0
	for _, k := range kinds {
		for _, op := range []string{"set", "delete"} {
			f := c.fn(pkg, k, op)
			if f == nil {
				continue
			}
			for _, b := range f.Blocks {
				for _, in := range b.Instrs {
					st, ok := in.(*ssa.Store)
					if !ok {
						continue
					}
					a := render(st.Addr)
					if !strings.HasPrefix(a, "&$r.") || !directlyRootedAt(st.Addr, f.Params[0]) {
						continue
					}
					nShared++
					c.requireAt("C17.shared-store", k+"."+op+" stores through the receiver ("+strings.TrimPrefix(a, "&$r.")+")", st, wFalse("child operation reported no change", `\.(set|delete)\(.*\)#1$`))
				}
			}
		}
	}
	if nShared < 2 {
		c.undecided("C17.shared-store", "receiver stores in set/delete", token.NoPos, fmt.Sprintf("expected ≥2 link-realisation stores, found %d", nShared))
	}

	// ---- canonical-collapse
	nCol := 0
	isBranchOnly := func(in ssa.Instruction, v ssa.Value) (bool, string) {
		rv := regexp.QuoteMeta(render(v))
		wB := wTrue("is a branch", "^"+rv+`\.\(\*ompt\.branch\)#1$`)
		wNotE := wFalse("not an extension", "^"+rv+`\.\(\*ompt\.extension\)#1$`)
		wNotL := wFalse("not a leaf", "^"+rv+`\.\(\*ompt\.leaf\)#1$`)
		var descs []string
		for _, alt := range altGuards(in.Block()) {
			_, b := holds(alt, wB)
			_, ne := holds(alt, wNotE)
			_, nl := holds(alt, wNotL)
			if !(b || (ne && nl)) {
				descs = append(descs, guardsString(alt))
			}
		}
		return len(descs) == 0, strings.Join(descs, " || ")
	}
	for _, k := range []string{"branch", "extension"} {
		f := c.fn(pkg, k, "delete")
		if f == nil {
			c.undecided("C17.canonical-collapse", k+".delete", token.NoPos, "not found")
			continue
		}
		for _, st := range fieldStores([]*ssa.Function{f}, "extension", "next") {
			if _, fresh := st.Addr.X.(*ssa.Alloc); !fresh {
				continue
			}
			v := unwrap(st.Store.Val)
			if _, isAl := v.(*ssa.Alloc); isAl {
				continue
			}
			nCol++
			ok, why := isBranchOnly(st.Store, st.Store.Val)
			c.check(ok, "C17.canonical-collapse", k+".delete: a child is placed under a new extension only if it is a branch", st.Store.Pos(), "guarded by the kind dispatch", "the surviving child may be an extension or a leaf and is wrapped in an extension instead of having the key merged into it: the shape (and root hash) depends on the operation history; paths: "+why)
		}
		for _, cs := range c.calls(f, byCallee("(*common/trie/ompt.extension).getChanged")) {
			_, a := callArgs(cs.Common())
			v := a[len(a)-1]
			if render(v) == "$r.next" {
				continue
			}
			nCol++
			ok, why := isBranchOnly(cs.Instr, v)
			c.check(ok, "C17.canonical-collapse", k+".delete: the shortened subtree stays under the extension only if it is a branch", cs.Pos(), "guarded by the kind dispatch", "after a delete the subtree below an extension may be an extension or a leaf and is kept below it; paths: "+why)
		}
	}
	if nCol < 2 {
		c.undecided("C17.canonical-collapse", "collapse sites", token.NoPos, fmt.Sprintf("expected ≥2, found %d", nCol))
	}

	// ---- compact-keeps-embedded
	for _, k := range kinds {
		f := c.fn(pkg, k, "compact")
		if f == nil {
			c.undecided("C17.compact-keeps-embedded", k+".compact", token.NoPos, "not found")
			continue
		}
		n := 0
		for _, e := range exitAlts(f) {
			al, ok := unwrap(e.Results[0]).(*ssa.Alloc)
			if !ok || namedOf(al.Type()) != "hash" {
				continue
			}
			n++
			c.requireGuard("C17.compact-keeps-embedded", k+".compact → hash reference", e.pos(), e.Guards, wDiffer("node owns a hash", `^\$r\.[a-zA-Z.]*hashValue$`, `^nil$`))
			flushed, okFl := c.constVal(pkg, "stateFlushed")
			if !okFl {
				c.undecided("C17.compact-keeps-embedded", "stateFlushed", token.NoPos, "constant not found")
				continue
			}
			c.requireGuard("C17.compact-keeps-embedded", k+".compact → hash reference", e.pos(), e.Guards, wGE("node is flushed (state ≥ stateFlushed)", -flushed, t(1, `^\$r\.[a-zA-Z.]*state$`)))
		}
		if n == 0 {
			c.undecided("C17.compact-keeps-embedded", k+".compact", f.Pos(), "no exit replacing the node by a hash reference")
		}
	}

	// ---- freeze
	if gs := c.mustFn(pkg, "mpt", "GetSnapshot"); gs != nil {
		fr := c.calls(gs, byMethod("freeze"))
		okF := len(fr) == 1
		if okF {
			// no way to a return round the freeze except when there is no root
			_, skip := pathAvoidingEdges(gs, gs.Blocks[0].Instrs[0], isReturn, func(in ssa.Instruction) bool { return in == ssa.Instruction(fr[0].Instr) }, wSame("no root", `^\$r\.root$`, `^nil$`))
			okF = !skip
		}
		c.check(okF, "C17.freeze-before-share", "snapshot is taken after freezing the root", gs.Pos(), "root.freeze() dominates", "a snapshot shares the root without freezing it: later writes through the mutable trie change the snapshot")
		for _, st := range fieldStores([]*ssa.Function{gs}, "mpt", "root") {
			c.check(render(st.Store.Val) == "$r.root", "C17.freeze-before-share", "snapshot shares the (frozen) root", st.Store.Pos(), "root", "snapshot root is "+render(st.Store.Val))
		}
	}
	for _, k := range kinds {
		f := c.fn(pkg, k, "freeze")
		if f == nil {
			continue
		}
		for _, st := range fieldStores([]*ssa.Function{f}, "nodeBase", "state") {
			c.requireAt("C17.freeze-monotone", k+".freeze only moves dirty → frozen", st.Store, wEQ("state == dirty", 0, t(1, `^\$r\.[a-zA-Z.]*state$`)))
		}
	}

	// ---- root-lock
	for _, f := range pf {
		if f.Signature.Recv() == nil || namedOf(f.Signature.Recv().Type()) != "mpt" || f.Parent() != nil || !exported(f.Name()) {
			continue
		}
		// every write of the root pointer happens with the trie mutex taken
		for _, st := range fieldStores([]*ssa.Function{f}, "mpt", "root") {
			if render(st.Addr.X) != "$r" {
				continue // the fresh snapshot object
			}
			locks := false
			for _, cs := range c.calls(f, byMethod("Lock", "RLock")) {
				r, a := callArgs(cs.Common())
				target := ""
				if r != nil {
					target = render(r)
				} else if len(a) > 0 {
					target = render(a[0])
				}
				if strings.HasSuffix(target, "$r.mutex") && dominatesInstr(cs.Instr, st.Store) {
					locks = true
				}
			}
			c.check(locks, "C17.root-lock", "mpt."+f.Name()+" replaces the root under the trie mutex", st.Store.Pos(), "Lock/RLock dominates", "the root pointer is written without the trie mutex")
		}
	}

	// ---- iteration order: the iterator's work list is a stack popped at the end, so a branch must
	// schedule its children from the highest nibble down (and its own value, the shortest key, first)
	if bt := c.mustFn(pkg, "branch", "traverse"); bt != nil {
		var phi *ssa.Phi
		for _, b := range bt.Blocks {
			for _, in := range b.Instrs {
				if p, ok := in.(*ssa.Phi); ok && isIntType(p.Type()) && p.Comment == "i" {
					phi = p
				}
			}
		}
		push := ""
		if phi != nil {
			for i, e := range phi.Edges {
				if !phi.Block().Dominates(phi.Block().Preds[i]) {
					if k, ok := constInt(e); ok && k == 15 {
						push += "from15"
					} else if ok && k == 0 {
						push += "from0"
					}
					continue
				}
				var walk func(v ssa.Value, d int)
				walk = func(v ssa.Value, d int) {
					switch x := v.(type) {
					case *ssa.BinOp:
						k, ok := constInt(x.Y)
						if x.X == ssa.Value(phi) && ok && ((x.Op == token.SUB && k == 1) || (x.Op == token.ADD && k == -1)) {
							push += "-1"
						} else if x.X == ssa.Value(phi) && ok && x.Op == token.ADD && k == 1 {
							push += "+1"
						} else {
							push += "?"
						}
					case *ssa.Phi:
						if d < 3 && x != phi {
							for _, ee := range x.Edges {
								walk(ee, d+1)
							}
						}
					default:
						push += "?"
					}
				}
				walk(e, 0)
			}
		}
		pop := ""
		if nx := c.mustFn(pkg, "iterator", "Next"); nx != nil {
			for _, cs := range c.calls(nx, byCallee("(*common/trie/ompt.iterator).traverse")) {
				_, a := callArgs(cs.Common())
				pop = render(a[len(a)-1])
			}
		}
		desc := push != "" && strings.HasPrefix(push, "from15") && strings.Trim(strings.TrimPrefix(push, "from15"), "-1") == "" && len(push) > 6
		asc := push != "" && strings.HasPrefix(push, "from0") && strings.Trim(strings.TrimPrefix(push, "from0"), "+1") == "" && len(push) > 5
		last := pop == "$r.stack[(len($r.stack) - 1)]"
		first := pop == "$r.stack[0]"
		c.check((desc && last) || (asc && first), "C17.iteration-order", "children are scheduled so that the lowest nibble is visited first", bt.Pos(), "push "+push+", pop "+pop, "branch.traverse schedules its children "+push+" while iterator.Next takes "+pop+": keys are enumerated in descending nibble order, not ascending byte order")
	}
	if it := c.mustFn(pkg, "iterator", "traverse"); it != nil {
		n := 0
		for _, e := range exitAlts(it) {
			if _, isC := e.Results[0].(*ssa.Const); isC {
				continue
			}
			n++
			c.requireAny("C17.filter-prefix", "iterator.traverse yields a key", e.pos(), e.Guards, "no prefix filter ∨ the item's key has the prefix ∨ the yielded key has the prefix",
				wGE("no prefix", 0, t(-1, `^len\(\$r\.prefix\)$`)),
				wTrue("item key has the prefix", `^\$r\.checkPrefix\((\$0|alloc<[^>]*>)\.k,false\)$`),
				wTrue("yielded key has the prefix", "^"+regexp.QuoteMeta("$r.checkPrefix("+render(e.Results[0])+",false)")+"$"))
		}
		if n < 3 {
			c.undecided("C17.filter-prefix", "iterator.traverse exits", it.Pos(), fmt.Sprintf("expected ≥3 yielding exits, found %d", n))
		}
	}

	// ---- key ownership: a node's key slice is either cloned or shared with another (immutable) node's
	// key slice, never a window into the caller's nibble buffer (which is pooled and reused)
	nKeys := 0
	classify := func(v ssa.Value) string {
		for d := 0; d < 8; d++ {
			switch x := v.(type) {
			case *ssa.Slice:
				v = x.X
			case *ssa.Call:
				if strings.HasSuffix(calleeName(x.Common()), "ompt.clone") {
					return "clone"
				}
				return "call " + calleeName(x.Common())
			case *ssa.Parameter:
				return "PARAM " + x.Name()
			case *ssa.UnOp:
				if fa, ok := x.X.(*ssa.FieldAddr); ok && x.Op == token.MUL && fieldName(fa.X.Type(), fa.Field) == "keys" {
					return "node keys"
				}
				return "load " + render(x)
			case *ssa.Phi:
				for _, e := range x.Edges {
					if _, isP := unsliceBase(e).(*ssa.Parameter); isP {
						return "PARAM via phi"
					}
				}
				return "phi"
			default:
				return render(v)
			}
		}
		return render(v)
	}
	for _, f := range pf {
		for _, tn := range []string{"leaf", "extension"} {
			for _, st := range fieldStores([]*ssa.Function{f}, tn, "keys") {
				verdict := classify(st.Store.Val)
				if f.Name() == "getChanged" && verdict == "PARAM keys" {
					continue // decided at the call sites below
				}
				nKeys++
				c.check(!strings.HasPrefix(verdict, "PARAM"), "C17.keys-owned", tn+".keys written in "+fnName(f), st.Store.Pos(), verdict, "the node keeps a window into the caller's key buffer ("+verdict+"): the buffer is pooled and reused, so the stored key changes later")
			}
		}
		for _, cs := range c.calls(f, byMethod("getChanged")) {
			_, a := callArgs(cs.Common())
			if len(a) < 2 {
				continue
			}
			verdict := classify(a[1])
			nKeys++
			c.check(!strings.HasPrefix(verdict, "PARAM"), "C17.keys-owned", "keys handed to getChanged in "+fnName(f), cs.Pos(), verdict, "the node keeps a window into the caller's key buffer ("+verdict+")")
		}
	}
	if nKeys < 8 {
		c.undecided("C17.keys-owned", "stores to node keys", token.NoPos, fmt.Sprintf("expected ≥8, found %d", nKeys))
	}

	// ---- freeze reaches the whole subtree
	if f := c.mustFn(pkg, "extension", "freeze"); f != nil {
		fr := c.calls(f, func(cc *ssa.CallCommon) bool { return methodName(cc) == "freeze" && render(cc.Value) == "$r.next" })
		okF := len(fr) == 1
		if okF {
			sts := fieldStores([]*ssa.Function{f}, "nodeBase", "state")
			for _, st := range sts {
				if _, by := pathAvoidingEdges(f, f.Blocks[0].Instrs[0], func(in ssa.Instruction) bool { return in == ssa.Instruction(st.Store) }, func(in ssa.Instruction) bool { return in == ssa.Instruction(fr[0].Instr) }, wSame("no subtree", `^\$r\.next$`, `^nil$`)); by {
					okF = false
				}
			}
			okF = okF && len(sts) > 0
		}
		c.check(okF, "C17.freeze-subtree", "extension.freeze freezes its subtree before itself", f.Pos(), "next.freeze() on every path to frozen", "an extension is marked frozen while the subtree below it stays dirty: a snapshot shares nodes that later writes modify in place")
	}
	if f := c.mustFn(pkg, "branch", "freeze"); f != nil {
		fr := c.calls(f, func(cc *ssa.CallCommon) bool {
			return methodName(cc) == "freeze" && strings.HasPrefix(render(cc.Value), "$r.children[")
		})
		c.check(len(fr) >= 1, "C17.freeze-subtree", "branch.freeze freezes its children", f.Pos(), "children[i].freeze()", "a branch is frozen without its children")
	}
	// ---- the copy made for a write carries every content field
	for _, k := range kinds {
		for _, n := range []string{"getChangable", "getChanged"} {
			f := c.fn(pkg, k, n)
			if f == nil {
				continue
			}
			for _, b := range f.Blocks {
				for _, in := range b.Instrs {
					al, ok := in.(*ssa.Alloc)
					if !ok || namedOf(al.Type()) != k {
						continue
					}
					got := map[string]bool{}
					for _, st := range fieldStoresAny([]*ssa.Function{f}, k) {
						if st.Addr.X == ssa.Value(al) {
							got[fieldName(st.Addr.X.Type(), st.Addr.Field)] = true
						}
					}
					var want []string
					switch k {
					case "leaf":
						want = []string{"keys", "value"}
					case "branch":
						want = []string{"children", "value"}
					case "extension":
						want = []string{"keys", "next"}
					}
					var miss []string
					for _, w := range want {
						if !got[w] {
							miss = append(miss, w)
						}
					}
					c.check(len(miss) == 0, "C17.copy-complete", k+"."+n+" copies every content field", al.Pos(), strings.Join(want, ","), "the writable copy lacks "+strings.Join(miss, ",")+": a write to a frozen node loses that part of it")
				}
			}
		}
	}
	// ---- every hashed node reaches the store: the write decision is "owns a hash", not a size test
	if f := c.mustFn(pkg, "nodeBase", "flushBaseInLock"); f != nil {
		sets := c.calls(f, byMethod("Set"))
		for _, cs := range sets {
			c.requireAt("C17.flush-hashed", "node written to the store", cs.Instr, wDiffer("owns a hash", `^\$r\.hashValue$`, `^nil$`))
			_, a := callArgs(cs.Common())
			c.check(len(a) == 2 && render(a[0]) == "$r.hashValue" && render(a[1]) == "$r.serialized", "C17.flush-hashed", "stored under its hash", cs.Pos(), "Set(hashValue, serialized)", "stores "+render(cs.Instr.Value()))
		}
		// the only conditions deciding the write are the hash and the state
		for _, cs := range sets {
			for _, alt := range altGuards(cs.Instr.Block()) {
				for _, g := range alt {
					r := render(g.Cond)
					if _, isC := g.Cond.(*ssa.Const); isC {
						continue
					}
					if !strings.Contains(r, "hashValue") && !strings.Contains(r, "state") && !strings.Contains(r, "logStatics") {
						c.violate("C17.flush-hashed", "write decided by hash and state only", cs.Pos(), "also depends on "+g.String()+": a node that owns a hash (for instance a forced-hash root shorter than 32 bytes) may never be stored")
					}
				}
			}
		}
		if len(sets) != 1 {
			c.undecided("C17.flush-hashed", "flushBaseInLock store", f.Pos(), fmt.Sprintf("%d Set calls", len(sets)))
		}
	}
	// ---- a leaf is removed only for exactly its key
	if f := c.mustFn(pkg, "leaf", "delete"); f != nil {
		n := 0
		for _, e := range exitAlts(f) {
			if !isConstBool(e.Results[1], true) {
				continue
			}
			n++
			c.requireGuard("C17.leaf-delete-exact", "leaf.delete removes the leaf", e.pos(), e.Guards, wTrue("exact key match", `^ompt\.compareKeys\((\$1\[\$2:\],\$r\.keys|\$r\.keys,\$1\[\$2:\])\)#1$`))
		}
		if n == 0 {
			c.undecided("C17.leaf-delete-exact", "leaf.delete", f.Pos(), "no removing exit")
		}
	}
	runC17Second(c)
}

// runC17Second holds the rules added for the second list of independently produced mutants.
func runC17Second(c *Ctx) {
	const pkg = "common/trie/ompt"
	// ---- a key prefix is prepended whole: the node's own keys are copied behind all of it
	for _, k := range []string{"extension", "leaf"} {
		f := c.fn(pkg, k, "getKeyPrepended")
		if f == nil {
			continue
		}
		n := 0
		for _, b := range f.Blocks {
			for _, in := range b.Instrs {
				call, ok := in.(*ssa.Call)
				if !ok {
					continue
				}
				bi, isB := call.Call.Value.(*ssa.Builtin)
				if !isB || len(call.Call.Args) != 2 || !strings.HasSuffix(render(call.Call.Args[1]), "$r.keys") {
					continue
				}
				switch bi.Name() {
				case "copy":
					n++
					sl, isSl := unwrap(call.Call.Args[0]).(*ssa.Slice)
					c.check(isSl && sl.Low != nil && render(sl.Low) == "len($0)", "C17.prepend-whole", k+".getKeyPrepended places its own keys behind the whole prefix", call.Pos(), "copy(dst[len(prefix):], keys)", "own keys are copied to "+render(call.Call.Args[0])+": a prefix of another length overlaps or leaves a gap, the node answers for a different key")
				case "append":
					n++
					c.check(strings.Contains(render(call.Call.Args[0]), "$0"), "C17.prepend-whole", k+".getKeyPrepended appends its own keys to the prefix", call.Pos(), "append(prefix…, keys…)", "own keys are appended to "+render(call.Call.Args[0]))
				}
			}
		}
		if n == 0 {
			c.undecided("C17.prepend-whole", k+".getKeyPrepended", f.Pos(), "no copy/append of the node's own keys")
		}
	}
	// ---- Delete installs whatever root the recursive delete returns (nil when the last key goes)
	if f := c.mustFn(pkg, "mpt", "Delete"); f != nil {
		dels := c.calls(f, byMethod("delete"))
		var sts []fieldStore
		for _, st := range fieldStores([]*ssa.Function{f}, "mpt", "root") {
			if render(st.Addr.X) == "$r" {
				sts = append(sts, st)
			}
		}
		if len(dels) != 1 || len(sts) == 0 {
			c.undecided("C17.delete-installs-root", "mpt.Delete", f.Pos(), fmt.Sprintf("%d delete calls, %d root stores", len(dels), len(sts)))
		} else {
			dr := regexp.QuoteMeta(render(dels[0].Instr.Value()))
			_, skip := pathAvoidingEdges(f, dels[0].Instr, isReturn, func(in ssa.Instruction) bool {
				for _, st := range sts {
					if in == ssa.Instruction(st.Store) {
						return true
					}
				}
				return false
			}, wFalse("nothing changed", "^"+dr+"#1$"), wDiffer("delete failed", "^"+dr+"#3$", "^nil$"))
			c.check(!skip, "C17.delete-installs-root", "mpt.Delete replaces the root whenever the recursive delete changed something", sts[0].Store.Pos(), "no path from delete() to return round m.root = root except !dirty / err", "a changed trie can leave Delete without the new root installed (for instance when the new root is nil after the last key is deleted): the removed entry stays readable")
			for _, st := range sts {
				c.check(render(st.Store.Val) == render(dels[0].Instr.Value())+"#0", "C17.delete-installs-root", "the installed root is the one delete returned", st.Store.Pos(), "root = delete()#0", "installs "+render(st.Store.Val))
			}
		}
	}
	// ---- branch.traverse schedules all sixteen children
	if bt := c.mustFn(pkg, "branch", "traverse"); bt != nil {
		n := 0
		for _, b := range bt.Blocks {
			for _, in := range b.Instrs {
				phi, ok := in.(*ssa.Phi)
				if !ok || !isIntType(phi.Type()) || phi.Comment != "i" {
					continue
				}
				iff, isIf := b.Instrs[len(b.Instrs)-1].(*ssa.If)
				if !isIf {
					continue
				}
				start := int64(-1)
				for i, e := range phi.Edges {
					if !b.Dominates(b.Preds[i]) {
						if k, ok := constInt(e); ok {
							start = k
						}
					}
				}
				bodyPol := true
				if lb := loopBody(b); lb != nil && !lb[b.Succs[0]] {
					bodyPol = false
				}
				p := predOfVal(iff.Cond, bodyPol)
				pr := render(phi)
				n++
				okB := false
				switch {
				case start == 15: // downwards: the body runs while i >= 0
					okB = p.Kind == "ge" && len(p.L.T) == 1 && p.L.T[pr] == 1 && p.L.K == 0
				case start == 0: // upwards: the body runs while i <= 15 (or i < len(children))
					okB = p.Kind == "ge" && p.L.T[pr] == -1 && ((len(p.L.T) == 1 && p.L.K == 15) || (len(p.L.T) == 2 && p.L.K == -1))
				}
				c.check(okB, "C17.traverse-all-children", "branch.traverse's child loop covers nibbles 0…15", iff.Pos(), "start "+fmt.Sprint(start)+", body while "+p.String(), "the child loop starts at "+fmt.Sprint(start)+" and runs while "+p.String()+": a child slot is never scheduled, its keys are missing from iteration")
			}
		}
		if n == 0 {
			if rng := rangesOverChildren(bt); !rng {
				c.undecided("C17.traverse-all-children", "branch.traverse", bt.Pos(), "child loop not found")
			}
		}
	}
	// ---- branch.delete: the single surviving child is realized before its kind decides the collapse,
	// and a branch left with only its value becomes a leaf holding that value
	if bd := c.mustFn(pkg, "branch", "delete"); bd != nil {
		n := 0
		for _, b := range bd.Blocks {
			for _, in := range b.Instrs {
				ta, ok := in.(*ssa.TypeAssert)
				if !ok {
					continue
				}
				switch namedOf(ta.AssertedType) {
				case "extension", "leaf", "branch":
				default:
					continue
				}
				n++
				x := unwrap(ta.X)
				okR := false
				if ex, isEx := x.(*ssa.Extract); isEx && ex.Index == 0 {
					if call, isC := ex.Tuple.(*ssa.Call); isC {
						if cal := call.Call.StaticCallee(); (cal != nil && cal.Name() == "realize") || (call.Call.IsInvoke() && call.Call.Method.Name() == "realize") {
							okR = true
						}
					}
				}
				c.check(okR, "C17.collapse-realized", "branch.delete inspects the kind of a realized child", ta.Pos(), "x, _ := child.realize(m); switch x.(type)", "the collapse switches on "+render(ta.X)+", which may still be a hash reference: a branch with one stored child is not collapsed and the root hash differs from the canonical trie's")
			}
		}
		if n == 0 {
			c.undecided("C17.collapse-realized", "branch.delete", bd.Pos(), "no type switch over the surviving child")
		}
		m := 0
		for _, st := range fieldStores([]*ssa.Function{bd}, "leaf", "value") {
			m++
			c.check(strings.HasSuffix(render(st.Store.Val), ".value"), "C17.collapse-keeps-value", "a branch reduced to its value becomes a leaf with that value", st.Store.Pos(), "leaf{value: br.value}", "the leaf holds "+render(st.Store.Val)+" instead of the branch's own value")
		}
		if m == 0 {
			c.undecided("C17.collapse-keeps-value", "branch.delete", bd.Pos(), "no leaf built from the branch value")
		}
	}
	// ---- leaf.set splits the leaf (new branch / extension) only where the keys really differ
	if f := c.mustFn(pkg, "leaf", "set"); f != nil {
		n := 0
		for _, e := range exitAlts(f) {
			al, isAl := unwrap(e.Results[0]).(*ssa.Alloc)
			if !isAl {
				continue
			}
			switch namedOf(al.Type()) {
			case "branch", "extension":
			default:
				continue
			}
			n++
			c.requireAny("C17.leaf-split", "leaf.set replaces the leaf by a "+namedOf(al.Type()), e.pos(), e.Guards, "keys do not match ∨ common prefix shorter than one of the keys",
				wFalse("keys do not match", `compareKeys\(.*\)#1$`),
				wGE("common prefix shorter than a key", -1, t(1, `^len\(`), t(-1, `compareKeys\(.*\)#0$`)),
				wGE("common prefix shorter than the new key", -1, t(1, `^len\(\$1\)$`), t(-1, `^\$2$`), t(-1, `compareKeys\(.*\)#0$`)))
		}
		if n == 0 {
			c.undecided("C17.leaf-split", "leaf.set", f.Pos(), "no exit building a branch or an extension")
		}
	}
	// ---- a hash reference links by its bare hash only where the caller forces hashes
	if f := c.mustFn(pkg, "hash", "getLink"); f != nil {
		bare, wrapped := 0, 0
		for _, e := range exitAlts(f) {
			r := render(e.Results[0])
			switch {
			case r == "$r.value":
				bare++
				c.requireGuard("C17.hash-link-form", "hash.getLink returns the bare hash", e.pos(), e.Guards, wTrue("caller forces hashes", `^\$0$`))
			case strings.Contains(r, "rlpEncodeBytes($r.value)"):
				wrapped++
			default:
				c.violate("C17.hash-link-form", "hash.getLink result", e.pos(), "returns "+r)
			}
		}
		if wrapped == 0 {
			c.violate("C17.hash-link-form", "hash.getLink wraps the hash as an RLP string inside a parent node", f.Pos(), "no exit returns rlpEncodeBytes(value): a parent serialises the 32 hash bytes as raw RLP, its own hash differs from every other implementation's")
		} else {
			c.ok("C17.hash-link-form", "hash.getLink wraps the hash as an RLP string inside a parent node", f.Pos(), fmt.Sprintf("%d wrapped, %d bare exits", wrapped, bare))
		}
	}
}

// rangesOverChildren reports whether the function ranges over the children array (every slot visited).
func rangesOverChildren(f *ssa.Function) bool {
	for _, b := range f.Blocks {
		if _, bound, ok := indexLoop(b); ok && bound != nil && strings.Contains(render(bound), "children") {
			return true
		}
	}
	return false
}

func runC18(c *Ctx) {
	const pkg = "common/trie/ompt"
	own := func(rule, kind string, in ssa.Instruction, what string) {
		// on every path: node has no own hash, or proof[0] equals its serialised form
		c.requireAtAny(rule, kind+".prove "+what, in, "embedded (no own hash) ∨ proof[0] == serialized",
			wSame("no own hash", `^\$r\.[a-zA-Z.]*hashValue$`, `^nil$`),
			wSame("proof[0] == serialized", `^\$2\[0\]$`, `^\$r\.[a-zA-Z.]*serialized$`))
	}
	for _, k := range []string{"leaf", "branch", "extension"} {
		pr := c.mustFn(pkg, k, "prove")
		gp := c.mustFn(pkg, k, "getProof")
		if pr == nil || gp == nil {
			continue
		}
		// ---- consume-mirror: getProof emits under hashValue != nil
		nEmit := 0
		for _, cs := range c.calls(gp, byCallee("builtin:append")) {
			_, a := callArgs(cs.Common())
			if !strings.Contains(render(a[len(a)-1]), "serialized") && !strings.Contains(render(cs.Instr.Value()), "serialized") {
				// the appended element is stored into a varargs array; look at the rendered call
				if !strings.Contains(render(cs.Instr.Value()), "append(") {
					continue
				}
			}
			nEmit++
			c.requireAt("C18.consume-mirror", k+".getProof emits its encoding only when it owns a hash", cs.Instr, wDiffer("owns a hash", `^\$r\.[a-zA-Z.]*hashValue$`, `^nil$`))
		}
		if nEmit != 1 {
			c.undecided("C18.consume-mirror", k+".getProof", gp.Pos(), fmt.Sprintf("expected one append, found %d", nEmit))
		}
		// every successful getProof exit of a hashed node passed the emit
		// prove: descents and value exits are behind the own-hash check
		desc := c.calls(pr, func(cc *ssa.CallCommon) bool { return methodName(cc) == "prove" && cc.IsInvoke() })
		for _, d := range desc {
			own("C18.own-hash-check", k, d.Instr, "descends")
			// proof handed down: proof[1:] iff hashed
			_, a := callArgs(d.Common())
			okFlow := true
			nf := 0
			for _, fl := range flowsOf(a[2], nil) {
				nf++
				r := render(fl.Src)
				_, hashed := holds(fl.Guards, wDiffer("owns a hash", `^\$r\.[a-zA-Z.]*hashValue$`, `^nil$`))
				_, embedded := holds(fl.Guards, wSame("no own hash", `^\$r\.[a-zA-Z.]*hashValue$`, `^nil$`))
				switch r {
				case "$2":
					if !embedded {
						okFlow = false
					}
				case "$2[1:]":
					if !hashed {
						okFlow = false
					}
				default:
					okFlow = false
				}
			}
			c.check(okFlow && nf == 2, "C18.consume-mirror", k+".prove consumes one element iff it owns a hash", d.Pos(), "proof[1:] when hashed, proof when embedded", "the proof handed to the child is "+render(a[2])+": elements are consumed under a different condition than getProof emits them, so genuine proofs are rejected or forged ones accepted")
		}
		for _, e := range exitAlts(pr) {
			if isNilConst(e.Results[1]) || definitelyNonNilErr(e.Results[2], e.Guards) {
				continue
			}
			if _, isCall := e.Results[1].(*ssa.Extract); isCall {
				continue // value returned by the child
			}
			// value-yielding exit of this node
			_, emb := holds(e.Guards, wSame("no own hash", `^\$r\.[a-zA-Z.]*hashValue$`, `^nil$`))
			_, eq := holds(e.Guards, wSame("proof[0] == serialized", `^\$2\[0\]$`, `^\$r\.[a-zA-Z.]*serialized$`))
			c.check(emb || eq, "C18.own-hash-check", k+".prove yields its value", e.pos(), "embedded ∨ proof[0] == serialized", "a value is yielded without comparing the proof element with the node's own encoding; guards: "+guardsString(e.Guards))
			if k == "leaf" {
				c.requireGuard("C18.leaf-exact", "leaf.prove yields only on an exact key match", e.pos(), e.Guards, wTrue("exact match", `^ompt\.compareKeys\((\$r\.keys,\$1|\$1,\$r\.keys)\)#1$`))
				if eq {
					c.requireGuard("C18.leaf-exact", "hashed leaf is the last proof element", e.pos(), e.Guards, wEQ("len(proof) == 1", -1, t(1, `^len\(\$2\)$`)))
				}
			}
			if k == "branch" {
				c.requireGuard("C18.branch-select", "branch yields its own value only at the end of the key", e.pos(), e.Guards, wEQ("len(keys) == 0", 0, t(1, `^len\(\$1\)$`)))
			}
		}
		switch k {
		case "extension":
			for _, d := range desc {
				c.requireAt("C18.extension-prefix", "extension descends only when its whole key is a prefix", d.Instr, wGE("matched ≥ len(ext keys)", 0, t(1, `^ompt\.compareKeys\((\$r\.keys,\$1|\$1,\$r\.keys)\)#0$`), t(-1, `^len\(\$r\.keys\)$`)))
				_, a := callArgs(d.Common())
				c.check((render(a[1]) == "$1[ompt.compareKeys($r.keys,$1)#0:]" || render(a[1]) == "$1[ompt.compareKeys($1,$r.keys)#0:]" || render(a[1]) == "$1[len($r.keys):]") && render(d.Common().Value) == "$r.next", "C18.extension-prefix", "extension passes the rest of the key to its subtree", d.Pos(), "next.prove(keys[cnt:])", "descends as "+render(d.Instr.Value()))
			}
			if len(desc) != 1 {
				c.undecided("C18.extension-prefix", "extension.prove descent", pr.Pos(), fmt.Sprintf("%d descents", len(desc)))
			}
		case "branch":
			for _, d := range desc {
				_, a := callArgs(d.Common())
				c.check(render(d.Common().Value) == "$r.children[$1[0]]" && render(a[1]) == "$1[1:]", "C18.branch-select", "branch descends into children[keys[0]] with keys[1:]", d.Pos(), "child by the next nibble", "descends as "+render(d.Instr.Value()))
				c.requireAt("C18.branch-select", "branch descends only into an existing child", d.Instr, wDiffer("child != nil", `^\$r\.children\[\$1\[0\]\]$`, `^nil$`))
			}
			if len(desc) != 1 {
				c.undecided("C18.branch-select", "branch.prove descent", pr.Pos(), fmt.Sprintf("%d descents", len(desc)))
			}
		case "leaf":
			c.check(len(desc) == 0, "C18.leaf-exact", "leaf is terminal", pr.Pos(), "no descent", "leaf.prove descends")
		}
	}

	// ---- hash node
	if hp := c.mustFn(pkg, "hash", "prove"); hp != nil {
		desc := c.calls(hp, func(cc *ssa.CallCommon) bool { return methodName(cc) == "prove" })
		if len(desc) != 1 {
			c.violate("C18.hash-check", "hash.prove descends once", hp.Pos(), fmt.Sprintf("%d descents", len(desc)))
		}
		for _, d := range desc {
			c.requireAt("C18.hash-check", "hash link verified before descending", d.Instr, wSame("own hash == SHA3(proof[0])", `^\$r\.value$`, `^ompt\.calcHash\(`))
			// calcHash is variadic: its single argument must be proof[0]
			for _, hc := range c.calls(hp, byCallee("common/trie/ompt.calcHash")) {
				_, ha := callArgs(hc.Common())
				okArg := false
				if al, isAl := unsliceBase(ha[0]).(*ssa.Alloc); isAl {
					for _, r := range *al.Referrers() {
						if ia, ok := r.(*ssa.IndexAddr); ok {
							for _, st := range storesTo(ia) {
								okArg = render(st.Val) == "$2[0]"
							}
						}
					}
				}
				c.check(okArg, "C18.hash-check", "the hash compared is that of proof[0]", hc.Pos(), "calcHash(proof[0])", "calcHash is applied to "+render(ha[0]))
			}
			c.requireAt("C18.hash-check", "proof not exhausted", d.Instr, wGE("len(proof) ≥ 1", -1, t(1, `^len\(\$2\)$`)))
			c.requireAt("C18.hash-check", "node decoded successfully", d.Instr, wSame("deserialize error == nil", `^ompt\.deserialize\(.*#1$`, `^nil$`))
			r := render(d.Common().Value)
			c.check(strings.HasPrefix(r, "ompt.deserialize(ompt.calcHash(") && strings.Contains(r, "),$2[0],"), "C18.hash-check", "descends into the node decoded from the verified element", d.Pos(), r, "descends into "+r)
			_, a := callArgs(d.Common())
			c.check(render(a[1]) == "$1" && render(a[2]) == "$2", "C18.hash-check", "hash node consumes nothing itself", d.Pos(), "the decoded node checks and consumes proof[0]", "passes "+render(a[2]))
		}
	}
	// ---- door
	if pv := c.mustFn(pkg, "mpt", "Prove"); pv != nil {
		for _, e := range exitAlts(pv) {
			if isNilConst(e.Results[0]) {
				continue
			}
			c.check(strings.HasPrefix(render(e.Results[0]), "$r.root.prove(") && strings.HasSuffix(render(e.Results[0]), ",$1)#1"), "C18.prove-door", "Prove returns the root's verdict", e.pos(), render(e.Results[0]), "returns "+render(e.Results[0]))
			c.check(strings.HasSuffix(render(e.Results[1]), ",$1)#2"), "C18.prove-door", "Prove returns the root's error", e.pos(), render(e.Results[1]), "error is "+render(e.Results[1]))
		}
	}

	// ---- producer side: a hashed branch emits itself on every exit that hands a proof back,
	// realised children go back into the slot they came from, and the tree is hashed first
	if gp := c.mustFn(pkg, "branch", "getProof"); gp != nil {
		app := c.calls(gp, byCallee("builtin:append"))
		if len(app) == 1 {
			for _, rs := range returnSites(gp) {
				if isNilConst(rs.Results[1]) {
					continue
				}
				tr, by := pathAvoidingEdges(gp, gp.Blocks[0].Instrs[0], func(in ssa.Instruction) bool { return in == ssa.Instruction(rs.Ret) }, func(in ssa.Instruction) bool { return in == ssa.Instruction(app[0].Instr) }, wSame("no own hash", `^\$r\.[a-zA-Z.]*hashValue$`, `^nil$`))
				c.check(!by, "C18.emit-before-exit", "branch.getProof hands a proof back only after emitting itself", rs.pos(), "append precedes", "a hashed branch returns the proof without its own encoding (path "+traceString(tr)+"): the proof for a value stored on the branch is one element short and does not verify")
			}
		}
		for _, b := range gp.Blocks {
			for _, in := range b.Instrs {
				st, ok := in.(*ssa.Store)
				if !ok || !strings.HasPrefix(render(st.Addr), "&$r.children[") {
					continue
				}
				c.check(render(st.Addr) == "&$r.children[$1[0]]", "C18.realize-slot", "branch.getProof stores the realised child", st.Pos(), "children[keys[0]]", "stores it at "+render(st.Addr)+": the child that was walked replaces a sibling, changing the tree")
			}
		}
	}
	if gp := c.mustFn(pkg, "mpt", "GetProof"); gp != nil {
		walk := c.calls(gp, byMethod("getProof"))
		hashIt := c.calls(gp, func(cc *ssa.CallCommon) bool {
			_, a := callArgs(cc)
			return methodName(cc) == "getLink" && render(cc.Value) == "$r.root" && len(a) == 1 && isConstBool(a[0], true)
		})
		okH := len(walk) == 1 && len(hashIt) >= 1
		if okH {
			okH = false
			for _, h := range hashIt {
				if dominatesInstr(h.Instr, walk[0].Instr) {
					okH = true
				}
			}
		}
		c.check(okH, "C18.hashed-first", "GetProof hashes the tree before collecting the proof", gp.Pos(), "root.getLink(true) dominates root.getProof", "the proof is collected from a tree whose nodes may not be hashed/serialised yet: GetProof fails or returns stale encodings after a write")
	}
}
