package main

import (
	"fmt"
	"go/token"
	"sort"
	"strings"

	"golang.org/x/tools/go/ssa"
)

// C01 — consensus agreement: the Tendermint rule-set is in place on every path.
func init() {
	register(&Prop{
		ID:             "C01",
		Pkgs:           []string{"consensus", "block"},
		Run:            runC01,
		MinObligations: 60,
		Technique:      "static analysis: who-may-call / who-may-write tables over the resolved program (finalization, commit step, lock state, step variable), guard dominance with path alternatives at every vote, lock, unlock, commit and proposal-adoption site, closure guards joined with the guards of the closure's creation site, must-pass-through of the lock record before the precommit",
		LevelText:      "Decides that the code has, on every path, the rule-set Tendermint's agreement proof needs: (finalize) BlockManager.Finalize is called only from commitAndEnterNewHeight, which is reached only in the commit step with a complete block; the commit step is entered only through enterCommit, whose every call site holds a non-nil +2/3 part-set id taken from the precommit set of the round it passes; (lock) lock state is written only by _resetForNewHeight, handlePrevoteMessage, enterPrecommit and applyLockWAL; a lock is taken, and a non-nil precommit sent, only behind a +2/3 prevote polka of the current round for exactly that block, and the polka and block parts are written to and synced on the lock WAL before the precommit; a lock is released only behind a polka of a round later than the locked round for another block (or a nil/unknown polka of the current round); (prevote) a validator that is locked prevotes only its locked block — every other prevote, including the one sent from the block-import callback, is under `locked block is zero`, and the proposal is prevoted only if validated (or imported without error in the same height/round before precommit); (proposal) a proposal is adopted only from the round-robin proposer (height+round mod n) of the current height and round, once; (steps) the step changes only in beginStep and only forward inside a round; (callbacks) every timer/import/propose callback takes the consensus mutex first and acts only if height, round and step are still the ones it was created in.",
		LevelNote:      "Not decided: that this rule-set implies agreement for every schedule with f < n/3 Byzantine validators — that is Tendermint's proof, a statement about all interleavings, not about the shape of the code; liveness and timing. The tally bookkeeping and +2/3 threshold rules of C04 are re-run here (rule names C01.tally/…); WAL replay is decided under C02/C03, commit-vote verification under C05.",
		Explanation:    "C01 rules: finalize-gate (K3+K1), lock-writers (K3), lock-on-polka (K1), lock-durable (K2), unlock-later-polka (K1), prevote-locked (K1 incl. closures), proposer (K1+K5), step-monotone (K1+K3), callbacks (K6+K1).",
		Mutants: []Mutant{
			{Name: "commit-keeps-own-complete-block", File: "consensus/consensus.go", Old: "\tcs.currentBlockParts.SetByPartSetID(partSetID)\n\n\tcs.notifySyncer()\n\n\tif !cs.currentBlockParts.IsComplete() {\n", New: "\tcs.notifySyncer()\n\n\tif !cs.currentBlockParts.IsComplete() {\n\t\tcs.currentBlockParts.SetByPartSetID(partSetID)\n", Desc: "a node holding a complete block of another id finalizes it instead of the precommitted one"},
			{Name: "vote-replace-decrements-copy", File: "consensus/voteset.go", Old: "\t\t\t\tvs.counters[i].count--\n\t\t\t\tif vs.counters[i].count == 0 {", New: "\t\t\t\tc.count--\n\t\t\t\tif c.count == 0 {", Desc: "an equivocating validator inflates a block's tally"},
			{Name: "unlock-on-current-round", File: "consensus/consensus.go", Old: "if cs.lockedRound < msg.Round && !cs.lockedBlockParts.IsZero()", New: "if cs.lockedRound < cs.round && !cs.lockedBlockParts.IsZero()", Desc: "an old polka releases a newer lock"},
			{Name: "unlock-without-later", File: "consensus/consensus.go", Old: "if cs.lockedRound < msg.Round && !cs.lockedBlockParts.IsZero()", New: "if cs.lockedRound <= msg.Round && !cs.lockedBlockParts.IsZero()", Desc: "a polka of the locked round itself releases the lock"},
			{Name: "lock-to-round-wal", File: "consensus/consensus.go", Old: "\t\tmsg.VoteList = prevotes.voteList()\n\t\tif err := cs.lockWAL.WriteMessage(msg); err != nil {", New: "\t\tmsg.VoteList = prevotes.voteList()\n\t\tif err := cs.roundWAL.WriteMessage(msg); err != nil {", Desc: "lock record written to the WAL that lock recovery does not read"},
			{Name: "precommit-before-sync", File: "consensus/consensus.go", Old: "\t\tif err := cs.lockWAL.Sync(); err != nil {\n\t\t\tcs.log.Errorf(\"fail to sync WAL: enterPrecommit: %+v\\n\", err)\n\t\t}\n\t\tcs.sendVote(VoteTypePrecommit, &cs.lockedBlockParts)", New: "\t\tcs.sendVote(VoteTypePrecommit, &cs.lockedBlockParts)\n\t\tif err := cs.lockWAL.Sync(); err != nil {\n\t\t\tcs.log.Errorf(\"fail to sync WAL: enterPrecommit: %+v\\n\", err)\n\t\t}", Desc: "precommit leaves before the lock is durable"},
			{Name: "prevote-proposal-while-locked", File: "consensus/consensus.go", Old: "\tif !cs.lockedBlockParts.IsZero() {\n\t\tcs.sendVote(VoteTypePrevote, &cs.lockedBlockParts)\n\t} else if cs.currentBlockParts.HasBlockData() {", New: "\tif !cs.lockedBlockParts.IsZero() && !cs.currentBlockParts.HasBlockData() {\n\t\tcs.sendVote(VoteTypePrevote, &cs.lockedBlockParts)\n\t} else if cs.currentBlockParts.HasBlockData() {", Desc: "a locked validator prevotes a new proposal"},
			{Name: "lock-without-polka", File: "consensus/consensus.go", Old: "\t} else if cs.currentBlockParts.ID().Equal(partSetID) && cs.currentBlockParts.HasBlockData() {\n\t\tcs.log.Traceln(\"enterPrecommit: update lock\")", New: "\t} else if cs.currentBlockParts.HasBlockData() {\n\t\tcs.log.Traceln(\"enterPrecommit: update lock\")", Desc: "locks and precommits the proposal although the polka is for another block"},
			{Name: "commit-on-prevotes", File: "consensus/consensus.go", Old: "\tprecommits := cs.hvs.votesFor(cs.round, VoteTypePrecommit)\n\tmsg := newVoteListMessage()\n\tmsg.VoteList = precommits.voteList()\n\tif err := cs.roundWAL.WriteMessage(msg); err != nil {", New: "\tprecommits := cs.hvs.votesFor(cs.round, VoteTypePrevote)\n\tmsg := newVoteListMessage()\n\tmsg.VoteList = precommits.voteList()\n\tif err := cs.roundWAL.WriteMessage(msg); err != nil {", Desc: "commit decided on +2/3 prevotes"},
			{Name: "commit-without-id", File: "consensus/consensus.go", Old: "\t\tpartSetID, ok := precommits.getOverTwoThirdsPartSetID()\n\t\tif partSetID != nil {\n\t\t\tcs.enterCommit(precommits, partSetID, msg.Round)", New: "\t\tpartSetID, ok := precommits.getOverTwoThirdsPartSetID()\n\t\tif ok {\n\t\t\tcs.enterCommit(precommits, partSetID, msg.Round)", Desc: "commit entered on a nil +2/3"},
			{Name: "proposer-unchecked", File: "consensus/consensus.go", Old: "\tif cs.getProposerIndex(cs.height, cs.round) != index {\n\t\t// TODO : add evict\n\t\treturn errors.Errorf(\"bad validator proposer %v\", msg.address())\n\t}\n", New: "", Desc: "any validator's proposal is adopted"},
			{Name: "proposer-not-round-robin", File: "consensus/consensus.go", Old: "\treturn int((height + int64(round)) % int64(validators.Len()))", New: "\treturn int(height % int64(validators.Len()))", Desc: "same proposer in every round of a height"},
			{Name: "stale-timer", File: "consensus/consensus.go", Old: "\t\t\tif cs.hrs != hrs || !cs.started {\n\t\t\t\treturn\n\t\t\t}\n\t\t\tcs.enterNewRound()", New: "\t\t\tif cs.hrs.height != hrs.height || !cs.started {\n\t\t\t\treturn\n\t\t\t}\n\t\t\tcs.enterNewRound()", Desc: "an old precommit timeout moves a later round on"},
			{Name: "import-cb-votes-late", File: "consensus/consensus.go", Old: "\t\t\t\t\t\tif cs.hrs.step <= stepPrevoteWait {\n\t\t\t\t\t\t\tcs.sendVote(VoteTypePrevote, &cs.currentBlockParts)\n\t\t\t\t\t\t}", New: "\t\t\t\t\t\tcs.sendVote(VoteTypePrevote, &cs.currentBlockParts)", Desc: "import callback prevotes the proposal after the validator may have locked another block"},
			{Name: "step-backwards", File: "consensus/consensus.go", Old: "\tdefault:\n\t\treturn from < to\n\t}", New: "\tdefault:\n\t\treturn from != to\n\t}", Desc: "steps may go backwards inside a round"},
			{Name: "finalize-elsewhere", File: "consensus/consensus.go", Old: "\tcs.currentBlockParts.SetByPartSetAndBlock(ps, blk)\n\tcs.syncing = false\n\tbr.Consume()", New: "\tcs.currentBlockParts.SetByPartSetAndBlock(ps, blk)\n\tcs.syncing = false\n\tbr.Consume()\n\tif cs.validators.Len() == 1 {\n\t\t_ = cs.c.BlockManager().Finalize(cs.currentBlockParts.validatedBlock)\n\t}", Desc: "a second finalization path outside the commit step"},
		},
	})
}

func runC01(c *Ctx) {
	const pk = "consensus"
	stepOf := func(name string) int64 { v, _ := c.constVal(pk, name); return v }
	stCommit, stPrevoteWait := stepOf("stepCommit"), stepOf("stepPrevoteWait")
	vtPrevote, vtPrecommit := stepOf("VoteTypePrevote"), stepOf("VoteTypePrecommit")
	fns := c.pkgFuncs(pk)
	isCS := func(fn *ssa.Function) bool {
		for f := fn; f != nil; f = f.Parent() {
			if f.Signature.Recv() != nil && strings.HasSuffix(f.Signature.Recv().Type().String(), "consensus.consensus") {
				return true
			}
		}
		return false
	}
	top := func(fn *ssa.Function) *ssa.Function {
		for fn.Parent() != nil {
			fn = fn.Parent()
		}
		return fn
	}
	// guards at an instruction incl. the guards of the enclosing closures' creation sites
	allGuards := func(in ssa.Instruction) []Guard {
		gs := guardsAt(in)
		return append(gs, enclosingGuards(in.Parent())...)
	}

	// ------------------------------------------------------------ finalize-gate
	nFin := 0
	for _, fn := range fns {
		for _, cs := range c.calls(fn, byMethod("Finalize")) {
			r, _ := callArgs(cs.Common())
			if r == nil || !strings.Contains(r.Type().String(), "BlockManager") {
				continue
			}
			nFin++
			c.check(top(fn).Name() == "commitAndEnterNewHeight" && isCS(fn), "C01.finalize-gate", "Finalize is called only from commitAndEnterNewHeight", cs.Pos(), fnName(fn), fnName(fn)+" finalizes a block outside the commit path")
		}
	}
	c.check(nFin == 2, "C01.finalize-gate", "finalization sites", token.NoPos, "direct + after forced import", fmt.Sprintf("%d Finalize sites", nFin))
	nCE := 0
	for _, fn := range fns {
		for _, cs := range c.calls(fn, byCallee("consensus).commitAndEnterNewHeight")) {
			nCE++
			name := fnName(fn) + " → commitAndEnterNewHeight"
			// complete block
			okC := false
			if _, ok := holdsAll(altGuards(cs.Instr.Block()), wTrue("block complete", `^\$r\.currentBlockParts\.IsComplete\(\)$`)); ok {
				okC = true
			}
			for _, s := range c.calls(fn, byCallee("blockPartSet).SetByPartSetAndBlock")) {
				if dominatesInstr(s.Instr, cs.Instr) {
					okC = true
				}
			}
			c.check(okC, "C01.finalize-gate", name+": only with a complete block", cs.Pos(), "IsComplete()", "commit path entered without a complete block")
			// commit step
			okS := false
			for _, alt := range [][]Guard{guardsAt(cs.Instr)} {
				lo, _, hasLo, _ := boundsOnAll(alt, "$r.hrs.step")
				if hasLo && lo >= stCommit {
					okS = true
				}
			}
			for _, s := range c.calls(fn, byCallee("consensus).resetForNewStep")) {
				_, a := callArgs(s.Common())
				if k, ok := constInt(a[0]); ok && k == stCommit && dominatesInstr(s.Instr, cs.Instr) {
					okS = true
				}
			}
			c.check(okS, "C01.finalize-gate", name+": only in the commit step", cs.Pos(), "step == stepCommit", "commit path entered outside the commit step")
		}
	}
	c.check(nCE >= 3, "C01.finalize-gate", "commit path call sites found", token.NoPos, fmt.Sprint(nCE), fmt.Sprintf("%d call sites", nCE))
	for _, fn := range fns {
		for _, cs := range c.calls(fn, byCallee("consensus).resetForNewStep")) {
			_, a := callArgs(cs.Common())
			k, isK := constInt(a[0])
			if !isK {
				c.violate("C01.finalize-gate", "step targets are constants", cs.Pos(), "resetForNewStep("+render(a[0])+")")
				continue
			}
			if k == stCommit {
				c.check(fn.Name() == "enterCommit", "C01.finalize-gate", "the commit step is entered only through enterCommit", cs.Pos(), fnName(fn), fnName(fn)+" enters the commit step directly")
			}
		}
		for _, cs := range c.calls(fn, byCallee("consensus).beginStep")) {
			_, a := callArgs(cs.Common())
			if k, isK := constInt(a[0]); isK && k == stCommit {
				c.violate("C01.finalize-gate", "the commit step is entered only through enterCommit", cs.Pos(), fnName(fn)+" begins the commit step directly")
			}
		}
	}
	nEC := 0
	for _, fn := range fns {
		for _, cs := range c.calls(fn, byCallee("consensus).enterCommit")) {
			nEC++
			name := fnName(fn) + " → enterCommit"
			_, a := callArgs(cs.Common())
			ex, _ := a[1].(*ssa.Extract)
			okID := false
			var vs ssa.Value
			if ex != nil && ex.Index == 0 {
				if cl, ok := ex.Tuple.(*ssa.Call); ok && strings.HasSuffix(calleeName(cl.Common()), "voteSet).getOverTwoThirdsPartSetID") {
					vs, _ = callArgs(cl.Common())
					okID = vs == a[0]
				}
			}
			c.check(okID, "C01.finalize-gate", name+": the id committed is the +2/3 id of the vote set passed", cs.Pos(), "getOverTwoThirdsPartSetID()#0", "commits "+render(a[1])+" with votes "+render(a[0]))
			if okID {
				nonNil := false
				for _, alt := range altGuards(cs.Instr.Block()) {
					nonNil = false
					for _, g := range alt {
						bo, ok := g.Cond.(*ssa.BinOp)
						if !ok {
							continue
						}
						ne := (bo.Op == token.NEQ && g.Pol) || (bo.Op == token.EQL && !g.Pol)
						if ne && ((bo.X == a[1] && isNilConst(bo.Y)) || (bo.Y == a[1] && isNilConst(bo.X))) {
							nonNil = true
						}
					}
					for _, g := range alt {
						p := predOf(g)
						if p.Kind == "same" && ((p.A == render(a[1]) && strings.HasSuffix(p.B, ".PartSet().ID()")) || (p.B == render(a[1]) && strings.HasSuffix(p.A, ".PartSet().ID()"))) {
							nonNil = true // equal to the id of a part set built here, which is never nil
						}
					}
					if !nonNil {
						break
					}
				}
				c.check(nonNil, "C01.finalize-gate", name+": only with a non-nil +2/3 block id", cs.Pos(), "id != nil", "commit can be entered with a nil +2/3 (more than two thirds voted nil, or no agreement)")
			}
			// the vote set is the precommit set of the round passed
			okSet := false
			why := "votes are " + render(a[0])
			switch v := a[0].(type) {
			case *ssa.Call:
				if strings.HasSuffix(calleeName(v.Common()), "heightVoteSet).votesFor") {
					_, va := callArgs(v.Common())
					k, isK := constInt(va[1])
					okSet = isK && k == vtPrecommit && render(va[0]) == render(a[2])
					why = fmt.Sprintf("votesFor(%s, %s) passed with round %s", render(va[0]), render(va[1]), render(a[2]))
				}
			case *ssa.Parameter:
				// handlePrecommitMessage(msg, precommits): checked at its caller below
				okSet = fn.Name() == "handlePrecommitMessage" && strings.HasSuffix(render(a[2]), "_HR.Round") && strings.HasPrefix(render(a[2]), "$0.")
				why = "round " + render(a[2])
			}
			c.check(okSet, "C01.finalize-gate", name+": decided on the precommits of the round committed", cs.Pos(), "votesFor(round, precommit)", "commit is decided on another vote set: "+why)
		}
	}
	c.check(nEC == 4, "C01.finalize-gate", "enterCommit call sites", token.NoPos, "4", fmt.Sprintf("%d call sites", nEC))
	if rv := c.mustFn(pk, "consensus", "ReceiveVoteMessage"); rv != nil {
		for _, cs := range c.calls(rv, byCallee("consensus).handlePrecommitMessage", "consensus).handlePrevoteMessage")) {
			_, a := callArgs(cs.Common())
			ex, _ := a[1].(*ssa.Extract)
			okV := ex != nil && ex.Index == 1 && render(a[0]) == "$0"
			if okV {
				cl, ok := ex.Tuple.(*ssa.Call)
				okV = ok && strings.HasSuffix(calleeName(cl.Common()), "heightVoteSet).add")
				if okV {
					_, aa := callArgs(cl.Common())
					okV = render(aa[1]) == "$0"
				}
			}
			c.check(okV, "C01.finalize-gate", methodName(cs.Common())+" gets the vote set the message was added to", cs.Pos(), "hvs.add(index, msg)#1", "handler called with another vote set")
			isPC := methodName(cs.Common()) == "handlePrecommitMessage"
			gs := guardsAt(cs.Instr)
			if isPC {
				_, ok := holds(gs, wNE("type ≠ prevote", -vtPrevote, t(1, `^\$0\..*Type$`)))
				c.check(ok, "C01.finalize-gate", "precommit handler only for non-prevote messages", cs.Pos(), "msg.Type != prevote", "precommit handler reached for prevotes")
			} else {
				_, ok := holds(gs, wEQ("type == prevote", -vtPrevote, t(1, `^\$0\..*Type$`)))
				c.check(ok, "C01.finalize-gate", "prevote handler only for prevotes", cs.Pos(), "msg.Type == prevote", "prevote handler reached for other votes")
			}
			c.requireAt("C01.finalize-gate", methodName(cs.Common())+" only for the current height", cs.Instr, wEQ("msg.Height == cs.height", 0, t(1, `^\$0\..*Height$`), t(-1, `^\$r\.hrs\.height$`)))
		}
	}
	if hv := c.mustFn(pk, "heightVoteSet", "add"); hv != nil {
		ok := false
		for _, cs := range c.calls(hv, byCallee("heightVoteSet).votesFor")) {
			_, a := callArgs(cs.Common())
			ok = strings.HasSuffix(render(a[0]), "Round") && strings.HasSuffix(render(a[1]), "Type") && strings.HasPrefix(render(a[0]), "$1.") && strings.HasPrefix(render(a[1]), "$1.")
		}
		c.check(ok, "C01.finalize-gate", "a vote is counted in the set of its own round and type", hv.Pos(), "votesFor(msg.Round, msg.Type)", "heightVoteSet.add files the vote elsewhere")
	}

	// the block committed is the one the quorum precommitted: enterCommit installs
	// the committed id before it looks at completeness or commits
	if ec := c.mustFn(pk, "consensus", "enterCommit"); ec != nil {
		var install ssa.Instruction
		for _, cs := range c.calls(ec, byCallee("blockPartSet).SetByPartSetID")) {
			r, a := callArgs(cs.Common())
			if strings.HasSuffix(render(r), "$r.currentBlockParts") && render(a[0]) == "$1" {
				install = cs.Instr
			}
		}
		if !c.check(install != nil, "C01.finalize-gate", "enterCommit installs the committed part-set id", ec.Pos(), "currentBlockParts.SetByPartSetID(partSetID)", "enterCommit does not switch the current block to the committed id") {
		} else {
			for _, cs := range c.calls(ec, byCallee("consensus).commitAndEnterNewHeight", "blockPartSet).IsComplete", "blockPartSet).AddPartFromBytes")) {
				c.check(dominatesInstr(install, cs.Instr), "C01.finalize-gate", "enterCommit: "+methodName(cs.Common())+" sees the committed block, on every path", cs.Pos(), "SetByPartSetID(partSetID) dominates", "the committed id is installed only on some paths: a node that already holds a complete block of another id finalizes that block instead of the one the quorum precommitted")
			}
		}
		for _, fs := range fieldStores([]*ssa.Function{ec}, "consensus", "commitRound") {
			c.check(render(fs.Store.Val) == "$2", "C01.finalize-gate", "commit round is the round of the quorum", fs.Store.Pos(), "round", "commitRound = "+render(fs.Store.Val))
		}
	}

	// the +2/3 decisions all of this rests on: tally bookkeeping and threshold form (rules of C04)
	{
		sub := &Ctx{Prop: c.Prop, Tier: c.Tier, L: c.L, Sub: true}
		runC04(sub)
		for _, o := range sub.obs {
			o2 := *o
			o2.Rule = "C01.tally/" + strings.TrimPrefix(o.Rule, "C04.")
			c.obs = append(c.obs, &o2)
		}
		c.callSites += sub.callSites
	}

	// what a node accepts as proof that others finalized: commit-vote verification, fast-sync door,
	// validator-set refresh (rules of C05)
	if !c.Sub {
		sub := &Ctx{Prop: c.Prop, Tier: c.Tier, L: c.L, Sub: true}
		runC05(sub)
		for _, o := range sub.obs {
			if strings.HasPrefix(o.Rule, "C05.consensus-door") {
				continue
			}
			o2 := *o
			o2.Rule = "C01.commit-proof/" + strings.TrimPrefix(o.Rule, "C05.")
			c.obs = append(c.obs, &o2)
		}
		c.callSites += sub.callSites
	}
	// the block manager finalizes only a child of the last finalized block
	if fz := c.mustFn("block", "manager", "Finalize"); fz != nil {
		n := 0
		for _, cs := range c.calls(fz, byCallee("manager).finalize")) {
			n++
			c.requireAt("C01.finalize-chain", "manager.Finalize hands a block on to finalize", cs.Instr, wSame("its parent is the last finalized block", `\.parent$`, `^\$r\.finalized$`))
			c.requireAt("C01.finalize-chain", "manager.Finalize hands a block on to finalize", cs.Instr, wDiffer("the block is known", `^\$r\.nmap\[`, `^nil$`))
		}
		if n != 1 {
			c.undecided("C01.finalize-chain", "manager.Finalize", fz.Pos(), fmt.Sprintf("expected one finalize call, found %d", n))
		}
	}
	// lock WAL replay: every logged polka for a block re-targets the recovered lock and its round
	if al := c.mustFn("consensus", "consensus", "applyLockWAL"); al != nil {
		n := 0
		for _, cs := range c.calls(al, byCallee("consensus.NewPartSetFromID")) {
			var src ssa.Instruction
			for _, q := range c.calls(al, byMethod("getOverTwoThirdsPartSetID")) {
				if dominatesInstr(q.Instr, cs.Instr) {
					src = q.Instr
				}
			}
			if src == nil {
				continue
			}
			n++
			base := map[string]bool{}
			for _, g := range guardsAt(src) {
				base[g.String()] = true
			}
			extra := ""
			for _, alt := range altGuards(cs.Instr.Block()) {
				for _, g := range alt {
					if base[g.String()] || strings.Contains(render(g.Cond), "getOverTwoThirdsPartSetID()") {
						continue
					}
					extra = g.String()
				}
			}
			c.check(extra == "", "C01.lock-replay", "applyLockWAL re-targets the recovered lock for every logged polka of a block", cs.Pos(), "only `ok && psid != nil`", "the recovered lock is updated only under "+extra+": a re-lock on the same block in a later round is replayed with the earlier lock round, and a stale polka from a round in between then releases the lock")
			// the lock round recorded is the polka's round
			okR := false
			for _, b := range al.Blocks {
				for _, in := range b.Instrs {
					phi, ok := in.(*ssa.Phi)
					if !ok || phi.Comment != "bpsetLockRound" {
						continue
					}
					for k, e := range phi.Edges {
						if phi.Block().Preds[k] == cs.Instr.Block() && strings.HasSuffix(render(e), ".Round") {
							okR = true
						}
					}
				}
			}
			c.check(okR, "C01.lock-replay", "the recovered lock round is the round of that polka", cs.Pos(), "bpsetLockRound = vmsg.Round", "the lock round is not taken from the polka record")
		}
		if n != 1 {
			c.undecided("C01.lock-replay", "applyLockWAL polka handling", al.Pos(), fmt.Sprintf("expected one site, found %d", n))
		}
	}

	// ------------------------------------------------------------ lock-writers
	lockWriters := map[string]bool{"_resetForNewHeight": true, "handlePrevoteMessage": true, "enterPrecommit": true, "applyLockWAL": true}
	nLW := 0
	for _, fn := range fns {
		for _, fs := range fieldStores([]*ssa.Function{fn}, "consensus", "lockedRound") {
			nLW++
			c.check(lockWriters[top(fn).Name()] && isCS(fn), "C01.lock-writers", "lockedRound is written only by the lock rules", fs.Store.Pos(), fnName(fn), fnName(fn)+" writes lockedRound")
		}
		for _, cs := range c.calls(fn, func(cc *ssa.CallCommon) bool {
			r, _ := callArgs(cc)
			if r == nil || !strings.HasSuffix(render(r), "$r.lockedBlockParts") {
				return false
			}
			n := methodName(cc)
			return n == "Zerofy" || n == "Assign" || strings.HasPrefix(n, "Set") || strings.HasPrefix(n, "Add")
		}) {
			nLW++
			c.check(lockWriters[top(fn).Name()] && isCS(fn), "C01.lock-writers", "the locked block is written only by the lock rules", cs.Pos(), fnName(fn)+": "+methodName(cs.Common()), fnName(fn)+" modifies lockedBlockParts")
		}
	}
	c.check(nLW >= 8, "C01.lock-writers", "lock write sites found", token.NoPos, fmt.Sprint(nLW), fmt.Sprintf("%d sites", nLW))

	// ------------------------------------------------------------ enterPrecommit
	polkaOK := wTrue("+2/3 prevotes agree", `^\$r\.hvs\.votesFor\(\$r\.hrs\.round,0\)\.getOverTwoThirdsPartSetID\(\)#1$`)
	polkaID := `^\$r\.hvs\.votesFor\(\$r\.hrs\.round,0\)\.getOverTwoThirdsPartSetID\(\)#0$`
	if ep := c.mustFn(pk, "consensus", "enterPrecommit"); ep != nil {
		// the polka is read from the prevote set of the current round
		okSrc := false
		for _, cs := range c.calls(ep, byCallee("heightVoteSet).votesFor")) {
			_, a := callArgs(cs.Common())
			k, isK := constInt(a[1])
			if isK && k == vtPrevote && render(a[0]) == "$r.hrs.round" {
				okSrc = true
			}
		}
		c.check(okSrc, "C01.lock-on-polka", "enterPrecommit reads the prevotes of the current round", ep.Pos(), "votesFor(cs.round, prevote)", "the polka is not taken from the current round's prevotes")
		var lockAssign ssa.Instruction
		for _, cs := range c.calls(ep, byCallee("blockPartSet).Assign")) {
			r, a := callArgs(cs.Common())
			if !strings.HasSuffix(render(r), "$r.lockedBlockParts") {
				continue
			}
			lockAssign = cs.Instr
			c.check(strings.HasSuffix(render(a[0]), "$r.currentBlockParts"), "C01.lock-on-polka", "the block locked is the current proposal", cs.Pos(), "Assign(&currentBlockParts)", "locks "+render(a[0]))
			c.requireAt("C01.lock-on-polka", "lock", cs.Instr, polkaOK)
			c.requireAt("C01.lock-on-polka", "lock", cs.Instr, wDiffer("polka for a block", polkaID, `^nil$`))
			c.requireAt("C01.lock-on-polka", "lock", cs.Instr, wSame("polka is for the block being locked", `^\$r\.currentBlockParts\.ID\(\)$`, polkaID))
			c.requireAt("C01.lock-on-polka", "lock", cs.Instr, wTrue("the block data is held", `^\$r\.currentBlockParts\.HasBlockData\(\)$`))
		}
		c.check(lockAssign != nil, "C01.lock-on-polka", "enterPrecommit can take a lock", ep.Pos(), "Assign found", "no lock assignment")
		for _, fs := range fieldStores([]*ssa.Function{ep}, "consensus", "lockedRound") {
			if k, isK := constInt(fs.Store.Val); isK {
				c.check(k == -1, "C01.lock-on-polka", "lockedRound constants", fs.Store.Pos(), "-1", fmt.Sprint(k))
				// releasing in enterPrecommit: only behind a +2/3 of the current round (nil or a block we do not hold)
				c.requireAt("C01.unlock-later-polka", "enterPrecommit releases the lock only behind a polka of the current round", fs.Store, polkaOK)
				continue
			}
			c.check(render(fs.Store.Val) == "$r.hrs.round", "C01.lock-on-polka", "the lock round is the current round", fs.Store.Pos(), "cs.round", "lockedRound = "+render(fs.Store.Val))
			c.requireAt("C01.lock-on-polka", "lock round update", fs.Store, polkaOK)
			c.requireAt("C01.lock-on-polka", "lock round update", fs.Store, wDiffer("polka for a block", polkaID, `^nil$`))
			c.requireAtAny("C01.lock-on-polka", "lock round update", fs.Store, "polka is for the locked or the newly locked block",
				wSame("locked block", `^\$r\.lockedBlockParts\.ID\(\)$`, polkaID),
				wSame("current block", `^\$r\.currentBlockParts\.ID\(\)$`, polkaID))
		}
		nPC := 0
		for _, cs := range c.calls(ep, byCallee("consensus).sendVote")) {
			_, a := callArgs(cs.Common())
			k, _ := constInt(a[0])
			c.check(k == vtPrecommit, "C01.lock-on-polka", "enterPrecommit sends precommits", cs.Pos(), "precommit", "sends vote type "+render(a[0]))
			if isNilConst(a[1]) {
				continue
			}
			nPC++
			c.check(strings.HasSuffix(render(a[1]), "$r.lockedBlockParts"), "C01.lock-on-polka", "a non-nil precommit is for the locked block", cs.Pos(), "&cs.lockedBlockParts", "precommits "+render(a[1]))
			c.requireAt("C01.lock-on-polka", "non-nil precommit", cs.Instr, polkaOK)
			c.requireAt("C01.lock-on-polka", "non-nil precommit", cs.Instr, wDiffer("polka for a block", polkaID, `^nil$`))
			// either the existing lock matches the polka, or the lock was just assigned from the matching proposal
			okM := false
			if _, ok := holdsAll(altGuards(cs.Instr.Block()), wSame("locked block = polka", `^\$r\.lockedBlockParts\.ID\(\)$`, polkaID)); ok {
				okM = true
			}
			if lockAssign != nil && dominatesInstr(lockAssign, cs.Instr) {
				okM = true
				// ---- lock-durable
				var writes, syncs []callSite
				for _, w := range c.calls(ep, byMethod("WriteMessage", "WriteMessageBytes")) {
					if dominatesInstr(lockAssign, w.Instr) || blockReaches(lockAssign.Block(), w.Instr.Block(), nil) {
						writes = append(writes, w)
					}
				}
				for _, s := range c.calls(ep, byMethod("Sync")) {
					syncs = append(syncs, s)
				}
				nLockW := 0
				for _, w := range writes {
					if _, reach := pathAvoiding(ep, lockAssign, isInstr(w.Instr), nil); !reach {
						continue
					}
					if _, reach := pathAvoiding(ep, w.Instr, isInstr(cs.Instr), nil); !reach {
						continue
					}
					r, _ := callArgs(w.Common())
					nLockW++
					c.check(render(r) == "$r.lockWAL", "C01.lock-durable", "the lock record goes to the lock WAL", w.Pos(), "cs.lockWAL", "a record of the lock (polka or block part) is written to "+render(r)+": lock recovery reads the lock WAL, so after a restart the validator has forgotten its lock")
				}
				c.check(nLockW >= 2, "C01.lock-durable", "polka and block parts are recorded", lockAssign.Pos(), fmt.Sprint(nLockW), "the lock branch does not record both the polka and the block parts")
				okSync := false
				for _, s := range syncs {
					r, _ := callArgs(s.Common())
					if (render(r) == "$r.lockWAL" || strings.HasPrefix(render(r), "$r.lockWAL.")) && dominatesInstr(s.Instr, cs.Instr) {
						okSync = true
						for _, w := range writes {
							if _, reach := pathAvoiding(ep, s.Instr, isInstr(w.Instr), nil); reach {
								if _, r2 := pathAvoiding(ep, w.Instr, isInstr(cs.Instr), nil); r2 {
									okSync = false
								}
							}
						}
					}
				}
				c.check(okSync, "C01.lock-durable", "the lock WAL is synced before the precommit leaves", cs.Pos(), "lockWAL.Sync() → sendVote", "the precommit for a newly locked block can be sent before the lock record is synced")
				// the polka recorded is the one the lock rests on
				okVL := false
				for _, fs := range fieldStoresAny([]*ssa.Function{ep}, "VoteListMessage") {
					if fieldName(fs.Addr.X.Type(), fs.Addr.Field) == "VoteList" {
						okVL = render(fs.Store.Val) == "$r.hvs.votesFor($r.hrs.round,0).voteList()"
					}
				}
				c.check(okVL, "C01.lock-durable", "the recorded votes are the polka of the current round", lockAssign.Pos(), "prevotes.voteList()", "another vote list is recorded")
			}
			c.check(okM, "C01.lock-on-polka", "non-nil precommit ⊢ the locked block is the polka's block", cs.Pos(), "ID().Equal(polka) or freshly locked from it", "a block is precommitted that the polka is not for")
		}
		c.check(nPC == 2, "C01.lock-on-polka", "non-nil precommit sites", ep.Pos(), "2", fmt.Sprint(nPC))
	}

	// ------------------------------------------------------------ unlock in handlePrevoteMessage
	if hp := c.mustFn(pk, "consensus", "handlePrevoteMessage"); hp != nil {
		var sites []ssa.Instruction
		for _, fs := range fieldStores([]*ssa.Function{hp}, "consensus", "lockedRound") {
			sites = append(sites, fs.Store)
			k, isK := constInt(fs.Store.Val)
			c.check(isK && k == -1, "C01.unlock-later-polka", "handlePrevoteMessage only releases", fs.Store.Pos(), "-1", "lockedRound = "+render(fs.Store.Val))
		}
		for _, cs := range c.calls(hp, byCallee("blockPartSet).Zerofy")) {
			r, _ := callArgs(cs.Common())
			if strings.HasSuffix(render(r), "$r.lockedBlockParts") {
				sites = append(sites, cs.Instr)
			}
		}
		c.check(len(sites) == 2, "C01.unlock-later-polka", "release sites in handlePrevoteMessage", hp.Pos(), "2", fmt.Sprint(len(sites)))
		for _, in := range sites {
			c.requireAt("C01.unlock-later-polka", "release", in, wTrue("+2/3 of the message's round agree", `^\$1\.getOverTwoThirdsPartSetID\(\)#1$`))
			c.requireAt("C01.unlock-later-polka", "release", in, wGE("polka round later than the locked round", -1, t(1, `^\$0\..*_HR\.Round$`), t(-1, `^\$r\.lockedRound$`)))
			c.requireAt("C01.unlock-later-polka", "release", in, wDiffer("polka for another block", `^\$1\.getOverTwoThirdsPartSetID\(\)#0$`, `^\$r\.lockedBlockParts\.ID\(\)$`))
		}
	}

	// ------------------------------------------------------------ prevote-locked
	nPV := 0
	for _, fn := range fns {
		if !isCS(fn) {
			continue
		}
		for _, cs := range c.calls(fn, byCallee("consensus).sendVote")) {
			_, a := callArgs(cs.Common())
			k, isK := constInt(a[0])
			if !isK || k != vtPrevote {
				if !isK {
					c.violate("C01.prevote-locked", "vote types are constants", cs.Pos(), "sendVote("+render(a[0])+", …)")
				}
				continue
			}
			nPV++
			name := fnName(fn) + ": prevote " + strings.TrimPrefix(strings.Replace(render(a[1]), "free:cs", "$r", 1), "&")
			c.check(top(fn).Name() == "enterPrevote", "C01.prevote-locked", "prevotes are sent only by enterPrevote", cs.Pos(), fnName(fn), fnName(fn)+" sends a prevote")
			gs := allGuards(cs.Instr)
			target := strings.Replace(render(a[1]), "free:cs", "$r", 1)
			if strings.HasSuffix(target, "$r.lockedBlockParts") {
				_, ok := holds(gs, wFalse("locked", `lockedBlockParts\.IsZero\(\)$`))
				c.check(ok, "C01.prevote-locked", name+" ⊢ a lock is held", cs.Pos(), "!IsZero()", "the locked block is prevoted without a lock")
				continue
			}
			_, free := holds(gs, wTrue("not locked", `lockedBlockParts\.IsZero\(\)$`))
			c.check(free, "C01.prevote-locked", name+" ⊢ no lock is held", cs.Pos(), "lockedBlockParts.IsZero()", "a validator holding a lock can prevote something other than its locked block")
			if isNilConst(a[1]) {
				if fn.Parent() != nil {
					lo, hi, _, hasHi := boundsOnAll(guardsAt(cs.Instr), "*free:cs.hrs.step")
					_ = lo
					c.check(hasHi && hi <= stPrevoteWait, "C01.prevote-locked", name+" (callback) ⊢ still before precommit", cs.Pos(), "step ≤ prevoteWait", "a late callback prevotes after the step moved on")
				}
				continue
			}
			c.check(strings.HasSuffix(target, "$r.currentBlockParts"), "C01.prevote-locked", name+": the only other block prevoted is the proposal", cs.Pos(), target, "prevotes "+target)
			if fn.Parent() == nil {
				_, val := holds(gs, wTrue("validated", `currentBlockParts\.HasValidatedBlock\(\)$`))
				c.check(val, "C01.prevote-locked", name+" ⊢ the proposal is validated", cs.Pos(), "HasValidatedBlock()", "an unvalidated proposal is prevoted")
			} else {
				own := guardsAt(cs.Instr)
				_, okErr := holds(own, wSame("import succeeded", `^\$1$|^phi\(\$1\|errors\.New\(.*\)\)$`, `^nil$`))
				_, hi, _, hasHi := boundsOnAll(own, "*free:cs.hrs.step")
				_, sameH := holds(own, wEQ("same height", 0, t(1, `^\*?free:cs\.hrs\.height$`), t(-1, `height$`)))
				_, sameR := holds(own, wEQ("same round", 0, t(1, `^\*?free:cs\.hrs\.round$`), t(-1, `round$`)))
				c.check(okErr, "C01.prevote-locked", name+" (callback) ⊢ the import succeeded", cs.Pos(), "err == nil", "the proposal is prevoted although its import failed")
				c.check(hasHi && hi <= stPrevoteWait, "C01.prevote-locked", name+" (callback) ⊢ still before precommit (no lock can have been taken since)", cs.Pos(), "step ≤ prevoteWait", "the import callback prevotes the proposal after the validator may have moved to precommit and locked another block")
				c.check(sameH && sameR, "C01.prevote-locked", name+" (callback) ⊢ same height and round as when the import started", cs.Pos(), "height/round unchanged", "the import callback votes in a later height or round: "+guardsString(own))
			}
		}
	}
	c.check(nPV >= 6, "C01.prevote-locked", "prevote sites found", token.NoPos, fmt.Sprint(nPV), fmt.Sprintf("%d prevote sites", nPV))

	// ------------------------------------------------------------ proposer
	if rp := c.mustFn(pk, "consensus", "ReceiveProposalMessage"); rp != nil {
		var adopt []ssa.Instruction
		for _, cs := range c.calls(rp, byCallee("blockPartSet).SetByPartSetID")) {
			adopt = append(adopt, cs.Instr)
			_, a := callArgs(cs.Common())
			c.check(strings.HasPrefix(render(a[0]), "$0.") && strings.HasSuffix(render(a[0]), "BlockPartSetID"), "C01.proposer", "the id adopted is the proposal's", cs.Pos(), render(a[0]), "adopts "+render(a[0]))
		}
		for _, fs := range fieldStores([]*ssa.Function{rp}, "consensus", "proposalPOLRound") {
			adopt = append(adopt, fs.Store)
		}
		c.check(len(adopt) == 2, "C01.proposer", "proposal adoption sites", rp.Pos(), "2", fmt.Sprint(len(adopt)))
		for _, in := range adopt {
			c.requireAt("C01.proposer", "adopt", in, wEQ("proposal of the current height", 0, t(1, `^\$0\..*Height$`), t(-1, `^\$r\.hrs\.height$`)))
			c.requireAt("C01.proposer", "adopt", in, wEQ("proposal of the current round", 0, t(1, `^\$0\..*Round$`), t(-1, `^\$r\.hrs\.round$`)))
			c.requireAt("C01.proposer", "adopt", in, wGE("signer is a validator", 0, t(1, `^\$r\.validators\.IndexOf\(\$0\..*address\(\)\)$`)))
			c.requireAt("C01.proposer", "adopt", in, wEQ("signer is the proposer of this height and round", 0, t(1, `^\$r\.getProposerIndex\(\$r\.hrs\.height,\$r\.hrs\.round\)$`), t(-1, `^\$r\.validators\.IndexOf\(\$0\..*address\(\)\)$`)))
			c.requireAt("C01.proposer", "adopt", in, wTrue("no proposal adopted yet in this round", `^\$r\.currentBlockParts\.IsZero\(\)$`))
			c.requireAt("C01.proposer", "adopt", in, wGE("before commit", stCommit-1, t(-1, `^\$r\.hrs\.step$`)))
		}
	}
	if gp := c.mustFn(pk, "", "getProposerIndex"); gp != nil {
		for _, e := range exitAlts(gp) {
			v := e.Results[0]
			if cv, ok := v.(*ssa.Convert); ok {
				v = cv.X
			}
			rem, ok := v.(*ssa.BinOp)
			okR := ok && rem.Op == token.REM
			if okR {
				l := linOf(rem.X)
				okR = len(l.T) == 2 && l.T["$1"] == 1 && l.T["$2"] == 1 && l.K == 0 && strings.Contains(render(rem.Y), "$0.Len()")
			}
			c.check(okR, "C01.proposer", "proposer = (height + round) mod n", e.pos(), "(h+r) % len", "proposer index is "+render(e.Results[0]))
		}
	}
	if m := c.mustFn(pk, "consensus", "getProposerIndex"); m != nil {
		for _, e := range exitAlts(m) {
			c.check(render(e.Results[0]) == "consensus.getProposerIndex($r.validators,$0,$1)", "C01.proposer", "proposer computed over the current validators", e.pos(), render(e.Results[0]), "uses "+render(e.Results[0]))
		}
	}

	// ------------------------------------------------------------ step-monotone
	nStep := 0
	for _, fn := range fns {
		for _, fs := range fieldStores([]*ssa.Function{fn}, "hrs", "step") {
			nStep++
			recov := map[string]bool{"applyRoundWAL": true, "applyLockWAL": true, "applyCommitWAL": true}
			c.check((fn.Name() == "beginStep" || recov[fn.Name()]) && isCS(fn), "C01.step-monotone", "the step is assigned only in beginStep (and restored by WAL recovery)", fs.Store.Pos(), fnName(fn), fnName(fn)+" assigns the step")
			if fn.Name() == "beginStep" {
				okT := false
				for _, b := range fn.Blocks {
					if len(b.Instrs) == 0 {
						continue
					}
					iff, ok := b.Instrs[len(b.Instrs)-1].(*ssa.If)
					if !ok || !b.Dominates(fs.Store.Block()) {
						continue
					}
					v, pol := stripNot(iff.Cond, true)
					if render(v) != "consensus.isValidTransition($r.hrs.step,$0)" {
						continue
					}
					bad := b.Succs[1]
					if !pol {
						bad = b.Succs[0]
					}
					okT = noReturnBlock(bad)
				}
				c.check(okT, "C01.step-monotone", "step assignment ⊢ transition allowed (else panic)", fs.Store.Pos(), "isValidTransition(cs.step, step)", "the step is assigned without the transition check")
				c.check(render(fs.Store.Val) == "$0", "C01.step-monotone", "beginStep sets the requested step", fs.Store.Pos(), "step", render(fs.Store.Val))
			}
		}
	}
	c.check(nStep >= 1, "C01.step-monotone", "step writer found", token.NoPos, fmt.Sprint(nStep), "no store to the step")
	if vt := c.mustFn(pk, "", "isValidTransition"); vt != nil {
		nh, nr := stepOf("stepNewHeight"), stepOf("stepNewRound")
		for _, e := range exitAlts(vt) {
			_, isNH := holds(e.Guards, wEQ("to newHeight", -nh, t(1, `^\$1$`)))
			_, isNR := holds(e.Guards, wEQ("to newRound", -nr, t(1, `^\$1$`)))
			if isNH || isNR {
				continue
			}
			bo, ok := e.Results[0].(*ssa.BinOp)
			c.check(ok && bo.Op == token.LSS && render(bo.X) == "$0" && render(bo.Y) == "$1", "C01.step-monotone", "inside a round a step may only be followed by a later step", e.pos(), "from < to", "transition rule is "+render(e.Results[0]))
		}
	}

	checkConsensusCallbacks(c, "C01.callbacks")
}

// checkConsensusCallbacks: every asynchronous callback of the consensus object
// takes the mutex first and acts only if height, round and step are still the
// ones it was created in; public entries lock before entering the state machine.
func checkConsensusCallbacks(c *Ctx, rule string) {
	const pk = "consensus"
	fns := c.pkgFuncs(pk)
	isCS := func(fn *ssa.Function) bool {
		for f := fn; f != nil; f = f.Parent() {
			if f.Signature.Recv() != nil && strings.HasSuffix(f.Signature.Recv().Type().String(), "consensus.consensus") {
				return true
			}
		}
		return false
	}
	top := func(fn *ssa.Function) *ssa.Function {
		for fn.Parent() != nil {
			fn = fn.Parent()
		}
		return fn
	}
	// ------------------------------------------------------------ callbacks
	type cbInfo struct {
		fn   *ssa.Function
		site ssa.Instruction
		via  string
	}
	var cbs []cbInfo
	for _, fn := range fns {
		if !isCS(fn) {
			continue
		}
		for _, b := range fn.Blocks {
			for _, in := range b.Instrs {
				ci, ok := in.(ssa.CallInstruction)
				if !ok {
					continue
				}
				n := calleeName(ci.Common())
				if !(strings.HasSuffix(n, "time.AfterFunc") || strings.HasSuffix(n, ".ImportBlock") || strings.HasSuffix(n, ".Propose") || strings.HasSuffix(n, ".WaitForTransaction")) {
					continue
				}
				for _, a := range ci.Common().Args {
					if mc, ok := a.(*ssa.MakeClosure); ok {
						cbs = append(cbs, cbInfo{mc.Fn.(*ssa.Function), in, n[strings.LastIndex(n, ".")+1:]})
					}
				}
			}
		}
	}
	sort.Slice(cbs, func(i, j int) bool { return cbs[i].fn.Pos() < cbs[j].fn.Pos() })
	c.check(len(cbs) >= 8, rule, "asynchronous callbacks found", token.NoPos, fmt.Sprint(len(cbs)), fmt.Sprintf("%d callbacks", len(cbs)))
	effect := func(cc *ssa.CallCommon) bool {
		n := methodName(cc)
		if strings.HasPrefix(n, "enter") || n == "sendVote" || n == "sendProposal" || n == "commitAndEnterNewHeight" || n == "Finalize" || strings.HasPrefix(n, "resetFor") || n == "SetByValidatedBlock" {
			return true
		}
		return false
	}
	for _, cb := range cbs {
		name := fmt.Sprintf("%s callback of %s", cb.via, fnName(top(cb.fn)))
		// first call takes the mutex
		var first ssa.CallInstruction
		for _, in := range cb.fn.Blocks[0].Instrs {
			if ci, ok := in.(ssa.CallInstruction); ok {
				if _, isDefer := in.(*ssa.Defer); isDefer {
					continue
				}
				first = ci
				break
			}
		}
		okLock := false
		if first != nil {
			r, _ := callArgs(first.Common())
			okLock = methodName(first.Common()) == "Lock" && r != nil && strings.HasSuffix(render(r), "free:cs.mutex")
		}
		c.check(okLock, rule, name+" takes the consensus mutex first", cb.fn.Pos(), "cs.mutex.Lock()", "the callback touches consensus state without holding the mutex")
		for _, cs := range c.calls(cb.fn, effect) {
			gs := guardsAt(cs.Instr)
			fresh := false
			// whole hrs compared, or height+round (+step bound)
			for _, g := range gs {
				r := predOf(g).String()
				if strings.Contains(r, "free:cs.hrs") && strings.Contains(r, "hrs") && (strings.HasPrefix(r, "same{") || strings.Contains(r, "== 0")) && !strings.Contains(r, ".step") {
					if strings.HasPrefix(r, "same{") && !strings.Contains(r, ".height") && !strings.Contains(r, ".round") {
						fresh = true
					}
				}
			}
			_, sameH := holds(gs, wEQ("same height", 0, t(1, `^\*?free:cs\.hrs\.height$`), t(-1, `height$`)))
			_, sameR := holds(gs, wEQ("same round", 0, t(1, `^\*?free:cs\.hrs\.round$`), t(-1, `round$`)))
			if sameH && sameR {
				fresh = true
			}
			_, started := holds(gs, wTrue("started", `^\*?free:cs\.started$`))
			c.check(fresh && started, rule, name+": "+methodName(cs.Common())+" ⊢ height/round/step unchanged and running", cs.Pos(), "cs.hrs == hrs && cs.started", "a stale callback can act on a later height, round or step: "+guardsString(gs))
		}
	}
	// public entries lock before touching the state machine
	for _, ent := range []string{"OnReceive", "ReceiveBlockResult", "Start", "Term"} {
		fn := c.mustFn(pk, "consensus", ent)
		if fn == nil {
			continue
		}
		locks := c.calls(fn, func(cc *ssa.CallCommon) bool {
			r, _ := callArgs(cc)
			return methodName(cc) == "Lock" && r != nil && strings.HasSuffix(render(r), "$r.mutex")
		})
		if !c.check(len(locks) >= 1, rule, ent+" takes the consensus mutex", fn.Pos(), "cs.mutex.Lock()", ent+" does not lock") {
			continue
		}
		for _, cs := range c.calls(fn, func(cc *ssa.CallCommon) bool {
			n := methodName(cc)
			return strings.HasPrefix(n, "Receive") || strings.HasPrefix(n, "enter") || strings.HasPrefix(n, "resetFor") || strings.HasPrefix(n, "apply")
		}) {
			r, _ := callArgs(cs.Common())
			if r == nil || !strings.HasSuffix(render(r), "$r") && render(r) != "$r" {
				continue
			}
			ok := false
			for _, l := range locks {
				if dominatesInstr(l.Instr, cs.Instr) {
					ok = true
				}
			}
			c.check(ok, rule, ent+": "+methodName(cs.Common())+" runs under the mutex", cs.Pos(), "Lock dominates", "state machine entered without the mutex")
		}
	}
}
