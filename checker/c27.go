package main

import (
	"fmt"
	"go/token"
	"regexp"
	"strings"

	"golang.org/x/tools/go/ssa"
)

// C27 — merkle accumulator works for every length.
func init() {
	register(&Prop{
		ID:             "C27",
		Pkgs:           []string{"common/trie/mta"},
		Run:            runC27,
		MinObligations: 12,
		Technique:      "static analysis: nil-contradiction (slots the code itself sets to nil are never used as method receivers without a dominating nil test), guard dominance on the index arithmetic, writer/reader table agreement of the persisted form",
		LevelText:      "Decides on all paths of package mta: root slots are explicitly set to nil on carry and on recovery, so every method call on a root slot must be dominated by a nil test of that slot (Flush, WitnessFor, Verify, addNode); WitnessFor subtracts a level's capacity 2^(level) from the index only when that level holds a tree; Flush persists one entry per slot and Recover maps empty → nil slot, 32 bytes → hash node, with the length field round-tripped; addNode increments the length exactly once per appended leaf; a branch node's lazily computed hash/serialized form is read only after Hash() ran, a branch is stored under that hash after its children flushed successfully and is marked flushed only after the store succeeded. Breaking any of these makes some length crash or yield a wrong witness.",
		LevelNote:      "Does not decide hash correctness of witnesses or database behaviour.",
		Explanation:    "C27 rules: nil-roots (K7 over every invoke on an element of Accumulator.roots), skip-consistency (K1 on the index reduction in WitnessFor), persist-pair (K4 Flush vs Recover), length-accounting (K8 in addNode). Structural necessary conditions; nothing is executed.",
		Mutants: []Mutant{
			{Name: "flush-unhashed-branch", File: "common/trie/mta/accumulator.go", Old: "\thv := n.Hash()\n\tif err := n.bucket.Set(hv, n.serialized); err != nil {", New: "\tif err := n.bucket.Set(n.hashValue, n.serialized); err != nil {", Desc: "a branch that was never hashed is stored under an empty key"},
			{Name: "flushed-before-stored", File: "common/trie/mta/accumulator.go", Old: "\thv := n.Hash()\n\tif err := n.bucket.Set(hv, n.serialized); err != nil {\n\t\treturn err\n\t}\n\tn.state = stateFlushed", New: "\thv := n.Hash()\n\tn.state = stateFlushed\n\tif err := n.bucket.Set(hv, n.serialized); err != nil {\n\t\treturn err\n\t}", Desc: "a failed store leaves the node marked flushed: it is never written"},
			{Name: "F5-flush-nil-root", File: "common/trie/mta/accumulator.go", Old: "\t\tif r == nil {\n\t\t\tcontinue\n\t\t}\n", New: "", Desc: "regression of F5 in Flush"},
			{Name: "F5-witness-nil-root", File: "common/trie/mta/accumulator.go", Old: "\t\tif a.roots[offset-1] == nil {\n\t\t\toffset -= 1\n\t\t\tcontinue\n\t\t}\n", New: "", Desc: "regression of F5 in WitnessFor"},
			{Name: "witness-subtract-empty-level", File: "common/trie/mta/accumulator.go", Old: "\t\tif a.roots[offset-1] == nil {\n\t\t\toffset -= 1\n\t\t\tcontinue\n\t\t}\n", New: "\t\tif a.roots[offset-1] == nil {\n\t\t\tidx -= int64(1) << uint(offset-1)\n\t\t\toffset -= 1\n\t\t\tcontinue\n\t\t}\n", Desc: "index reduced by the capacity of an empty level"},
			{Name: "verify-no-nil-test", File: "common/trie/mta/accumulator.go", Old: "\tif root == nil {\n\t\treturn errors.IllegalArgumentError.New(\"GivenWitnessIsNewer\")\n\t}\n\tif !bytes.Equal", New: "\tif !bytes.Equal", Desc: "Verify dereferences an empty slot"},
			{Name: "recover-empty-as-hash", File: "common/trie/mta/accumulator.go", Old: "\t\tif len(hv) == 0 {\n\t\t\ta.roots[i] = nil\n\t\t} else if len(hv) == HashSize {", New: "\t\tif len(hv) == 1 {\n\t\t\ta.roots[i] = nil\n\t\t} else if len(hv) <= HashSize {", Desc: "empty persisted slot recovered as a hash node"},
			{Name: "length-not-counted", File: "common/trie/mta/accumulator.go", Old: "\tif root == nil {\n\t\ta.roots[h] = n\n\t\ta.length += 1\n\t\treturn w", New: "\tif root == nil {\n\t\ta.roots[h] = n\n\t\treturn w", Desc: "length not incremented when the slot was empty"},
			{Name: "flush-length-lost", File: "common/trie/mta/accumulator.go", Old: "\ts.Length.Value = a.length\n", New: "", Desc: "length not persisted"},
		},
	})
}

func runC27(c *Ctx) {
	const pkg = "common/trie/mta"
	pf := c.pkgFuncs(pkg)
	runC27Lazy(c, pf)
	runC27Walk(c, pf)

	// the code itself stores nil into root slots: confirm the premise of the rule
	nNil := 0
	for _, f := range pf {
		for _, b := range f.Blocks {
			for _, in := range b.Instrs {
				if st, ok := in.(*ssa.Store); ok && isNilConst(st.Val) && strings.Contains(render(st.Addr), ".roots[") {
					nNil++
				}
			}
		}
	}
	if nNil == 0 {
		c.undecided("C27.nil-roots", "premise", token.NoPos, "no store of nil into Accumulator.roots[...] found; the rule's premise no longer holds")
	} else {
		c.okTrivial("C27.nil-roots", "premise: root slots are set to nil", token.NoPos, fmt.Sprintf("%d nil stores", nNil))
	}

	// ---- nil-roots
	n := 0
	for _, f := range pf {
		for _, cs := range c.calls(f, func(cc *ssa.CallCommon) bool { return cc.IsInvoke() }) {
			recv := cs.Common().Value
			r := render(recv)
			isSlot := strings.Contains(r, "$r.roots[")
			if !isSlot {
				// a local copy of a slot: `root := a.roots[h]`, `for _, r := range a.roots`
				if ld, ok := recv.(*ssa.UnOp); ok && ld.Op == token.MUL {
					isSlot = strings.Contains(render(ld.X), ".roots[")
				}
			}
			if !isSlot || strings.HasPrefix(r, "make(") {
				continue
			}
			n++
			c.requireAt("C27.nil-roots", fnName(f)+" calls "+methodName(cs.Common())+" on a root slot", cs.Instr,
				wDiffer("slot != nil", "^"+regexp.QuoteMeta(r)+"$", `^nil$`))
		}
	}
	if n < 4 {
		c.undecided("C27.nil-roots", "method calls on root slots", token.NoPos, fmt.Sprintf("expected ≥4 sites (addNode, Flush×2, WitnessFor, Verify), found %d", n))
	}

	// ---- skip-consistency
	if wf := c.mustFn(pkg, "Accumulator", "WitnessFor"); wf != nil {
		found := 0
		for _, b := range wf.Blocks {
			for _, in := range b.Instrs {
				bo, ok := in.(*ssa.BinOp)
				if !ok || bo.Op != token.SUB || !isIntType(bo.Type()) {
					continue
				}
				// idx - (1 << (offset-1))
				if !strings.Contains(render(bo.Y), "<<") || !strings.HasPrefix(render(bo.X), "phi(") {
					continue
				}
				found++
				c.requireAt("C27.skip-consistency", "WitnessFor reduces the index by a level's capacity", bo, wDiffer("that level is occupied", `^\$r\.roots\[`, `^nil$`))
				l := linOf(bo.Y)
				okCap := false
				for a := range l.T {
					if strings.HasPrefix(a, "(1 << ") {
						okCap = true
					}
				}
				c.check(okCap && len(l.T) == 1, "C27.skip-consistency", "level capacity is 2^(level)", bo.Pos(), render(bo.Y), "reduces by "+render(bo.Y))
			}
		}
		if found == 0 {
			c.undecided("C27.skip-consistency", "WitnessFor", wf.Pos(), "index reduction not found")
		}
		// the witness is produced from the slot whose range contains the index
		for _, cs := range c.calls(wf, byMethod("WitnessFor")) {
			c.requireAt("C27.skip-consistency", "WitnessFor descends into the level containing the index", cs.Instr, wGE("idx < capacity", -1, t(-1, `^phi\(`), t(1, `^\(1 << `)))
		}
	}

	// ---- persist-pair
	fl := c.mustFn(pkg, "Accumulator", "Flush")
	rc := c.mustFn(pkg, "Accumulator", "Recover")
	if fl != nil && rc != nil {
		// Flush: per-slot entry = hash of the slot (behind the nil test), slice sized by len(roots), length persisted
		var out *ssa.MakeSlice
		for _, b := range fl.Blocks {
			for _, in := range b.Instrs {
				if ms, ok := in.(*ssa.MakeSlice); ok && render(ms.Len) == "len($r.roots)" {
					out = ms
				}
			}
		}
		if out == nil {
			c.violate("C27.persist-pair", "Flush entry table", fl.Pos(), "no make([][]byte, len(a.roots))")
		} else {
			nst := 0
			for _, b := range fl.Blocks {
				for _, in := range b.Instrs {
					st, ok := in.(*ssa.Store)
					if !ok {
						continue
					}
					ia, ok := st.Addr.(*ssa.IndexAddr)
					if !ok || ia.X != ssa.Value(out) {
						continue
					}
					nst++
					c.check(strings.HasSuffix(render(st.Val), ".Hash()") && strings.Contains(render(st.Val), ".roots"), "C27.persist-pair", "Flush persists the slot hash", st.Pos(), render(st.Val), "persists "+render(st.Val))
				}
			}
			if nst != 1 {
				c.undecided("C27.persist-pair", "Flush", fl.Pos(), fmt.Sprintf("expected one store into the entry table, found %d", nst))
			}
		}
		okLen := false
		for _, b := range fl.Blocks {
			for _, in := range b.Instrs {
				if st, ok := in.(*ssa.Store); ok && strings.HasSuffix(render(st.Addr), ".Length.Value") && render(st.Val) == "$r.length" {
					okLen = true
				}
			}
		}
		c.check(okLen, "C27.persist-pair", "Flush persists the length", fl.Pos(), "Length = a.length", "the length is not stored into the persisted form")
		// every root's Flush error is propagated
		for _, cs := range c.calls(fl, byMethod("Flush")) {
			call := cs.Instr.Value()
			propagated := false
			for _, e := range exitAlts(fl) {
				if e.Results[0] == ssa.Value(call) {
					propagated = true
				}
			}
			c.check(propagated, "C27.persist-pair", "Flush propagates node flush errors", cs.Pos(), "returned", "the error of a root's Flush is dropped")
		}
		// Recover
		for _, st := range fieldStores([]*ssa.Function{rc}, "Accumulator", "length") {
			if isZeroConst(st.Store.Val) {
				continue
			}
			c.check(strings.HasSuffix(render(st.Store.Val), ".Length.Value"), "C27.persist-pair", "Recover restores the length", st.Store.Pos(), render(st.Store.Val), "length restored from "+render(st.Store.Val))
		}
		nSlot := 0
		for _, b := range rc.Blocks {
			for _, in := range b.Instrs {
				st, ok := in.(*ssa.Store)
				if !ok || !strings.Contains(render(st.Addr), "$r.roots[") {
					continue
				}
				nSlot++
				if isNilConst(st.Val) {
					c.requireAt("C27.persist-pair", "Recover: empty entry → empty slot", st, wEQ("len(entry) == 0", 0, t(1, `^len\(`)))
				} else {
					c.requireAt("C27.persist-pair", "Recover: 32-byte entry → hash node", st, wEQ("len(entry) == HashSize", -32, t(1, `^len\(`)))
					c.check(strings.Contains(render(st.Val), "hashNode"), "C27.persist-pair", "Recover builds a hash node", st.Pos(), render(st.Val), "recovers "+render(st.Val))
				}
			}
		}
		if nSlot != 2 {
			c.undecided("C27.persist-pair", "Recover", rc.Pos(), fmt.Sprintf("expected 2 slot stores (nil / hash node), found %d", nSlot))
		}
	}

	// ---- length-accounting
	if an := c.mustFn(pkg, "Accumulator", "addNode"); an != nil {
		incs := fieldStores([]*ssa.Function{an}, "Accumulator", "length")
		for _, st := range incs {
			l := linOf(st.Store.Val)
			c.check(l.K == 1 && len(l.T) == 1 && l.T["$r.length"] == 1, "C27.length-accounting", "addNode increments the length by one", st.Store.Pos(), "length+1", "length set to "+l.String())
		}
		isInc := func(in ssa.Instruction) bool {
			for _, st := range incs {
				if in == ssa.Instruction(st.Store) {
					return true
				}
			}
			return false
		}
		isRec := isCallTo(byCallee("(*common/trie/mta.Accumulator).addNode"))
		for _, rs := range returnSites(an) {
			rs := rs
			tr, bad := pathAvoiding(an, nil, func(in ssa.Instruction) bool { return in == ssa.Instruction(rs.Ret) }, func(in ssa.Instruction) bool { return isInc(in) || isRec(in) })
			c.check(!bad, "C27.length-accounting", "addNode exit counts the leaf", rs.pos(), "length+1 or the carry recursion on every path", "an exit is reachable without counting the appended leaf: "+traceString(tr))
		}
		// no path does both
		for _, st := range incs {
			_, both := pathAvoiding(an, st.Store, isRec, nil)
			c.check(!both, "C27.length-accounting", "addNode counts once", st.Store.Pos(), "increment and carry are exclusive", "the length is incremented and the carry recursion increments it again")
		}
		// carry: the slot is cleared and the two subtrees are (old root, new node)
		for _, cs := range c.calls(an, byCallee("(*common/trie/mta.Accumulator).addNode")) {
			_, a := callArgs(cs.Common())
			l := linOf(a[0])
			c.check(l.K == 1 && l.T["$0"] == 1, "C27.length-accounting", "carry goes one level up", cs.Pos(), "h+1", "carry to level "+l.String())
			c.requireAt("C27.nil-roots", "carry only from an occupied slot", cs.Instr, wDiffer("slot != nil", `^\$r\.roots\[\$0\]$`, `^nil$`))
		}
	}
}

// runC27Lazy: branchNode.hashValue/serialized are computed lazily by Hash();
// every other reader must have called Hash() on that node first; Flush stores
// the node under its hash, children first, and marks it flushed only after
// the store succeeded.
func runC27Lazy(c *Ctx, pf []*ssa.Function) {
	n := 0
	for _, fn := range pf {
		if fn.Signature.Recv() == nil || !strings.HasSuffix(fn.Signature.Recv().Type().String(), "mta.branchNode") || fn.Name() == "Hash" {
			continue
		}
		var hashCalls []callSite
		for _, cs := range c.calls(fn, byCallee("branchNode).Hash")) {
			r, _ := callArgs(cs.Common())
			if render(r) == "$r" {
				hashCalls = append(hashCalls, cs)
			}
		}
		for _, b := range fn.Blocks {
			for _, in := range b.Instrs {
				ld, ok := in.(*ssa.UnOp)
				if !ok || ld.Op != token.MUL {
					continue
				}
				fa, ok := ld.X.(*ssa.FieldAddr)
				if !ok || render(fa.X) != "$r" {
					continue
				}
				f := fieldName(fa.X.Type(), fa.Field)
				if f != "hashValue" && f != "serialized" {
					continue
				}
				n++
				ok2 := false
				for _, h := range hashCalls {
					if dominatesInstr(h.Instr, ld) {
						ok2 = true
					}
				}
				c.check(ok2, "C27.lazy-hash", fnName(fn)+": "+f+" is read only after Hash() computed it", ld.Pos(), "n.Hash() dominates", "branchNode."+f+" is read without a preceding n.Hash(): for a node that was never hashed it is nil, so the node is stored under an empty key / with empty content and its subtree is lost")
			}
		}
	}
	c.check(n >= 1, "C27.lazy-hash", "lazy field readers found", token.NoPos, fmt.Sprint(n), "no reader of the lazily computed fields found")
	if fl := c.mustFn("common/trie/mta", "branchNode", "Flush"); fl != nil {
		sets := c.calls(fl, byMethod("Set"))
		kids := c.calls(fl, byMethod("Flush"))
		marks := fieldStores([]*ssa.Function{fl}, "branchNode", "state")
		if len(sets) != 1 || len(kids) != 2 || len(marks) != 1 {
			c.violate("C27.lazy-hash", "branchNode.Flush structure", fl.Pos(), "expected two child flushes, one store, one state mark")
			return
		}
		_, a := callArgs(sets[0].Common())
		c.check(render(a[0]) == "$r.Hash()" && render(a[1]) == "$r.serialized", "C27.lazy-hash", "a branch is stored under its hash", sets[0].Pos(), "Set(n.Hash(), n.serialized)", "stores "+render(a[1])+" under "+render(a[0]))
		for _, k := range kids {
			ev := errValueOf(k.Instr)
			pathEdgeFilter = nilErrEdgeFilter(ev)
			tr, reach := pathAvoiding(fl, k.Instr, isInstr(sets[0].Instr), nil)
			pathEdgeFilter = nil
			c.check(dominatesInstr(k.Instr, sets[0].Instr) && !reach, "C27.lazy-hash", "children are flushed successfully before their parent is stored", k.Pos(), "child.Flush() == nil → Set", "a parent can be stored although a child failed to flush ("+traceString(tr)+")")
		}
		ev := errValueOf(sets[0].Instr)
		pathEdgeFilter = nilErrEdgeFilter(ev)
		tr, reach := pathAvoiding(fl, sets[0].Instr, isInstr(marks[0].Store), nil)
		pathEdgeFilter = nil
		c.check(dominatesInstr(sets[0].Instr, marks[0].Store) && !reach, "C27.lazy-hash", "a branch is marked flushed only after it was stored", marks[0].Store.Pos(), "Set == nil → stateFlushed", "the node is marked flushed before or despite a failed store: it will never be written ("+traceString(tr)+")")
	}
}

// runC27Walk: the witness walk and its mirror. (1) a branch goes left iff
// idx < 2^(depth-1), passes (depth-1, idx) left and (depth-1, idx-2^(depth-1))
// right, and appends the other child's hash with the side it lies on; (2) a
// hash node stops only at depth 0 and otherwise hands (depth, idx, w) unchanged
// to the node it resolves to; (3) a node constructed in a state that claims a
// cached hash carries one; (4) HashesToWitness derives level i's side from bit
// i of the index (test before the shift); (5) Verify's running hash is a fresh
// slice, never a window of the scratch buffer it is copied into.
func runC27Walk(c *Ctx, pf []*ssa.Function) {
	const pkg = "common/trie/mta"
	left, okL := c.constVal(pkg, "Left")
	right, okR := c.constVal(pkg, "Right")
	if !okL || !okR {
		c.undecided("C27.witness-walk", "Left/Right", token.NoPos, "direction constants not found")
		return
	}
	const bound = `^\(1 << \(\$0 - 1\)\)$`
	if f := c.mustFn(pkg, "branchNode", "WitnessFor"); f != nil {
		n := 0
		for _, cs := range c.calls(f, byMethod("WitnessFor")) {
			_, a := callArgs(cs.Common())
			switch render(cs.Common().Value) {
			case "$r.left":
				n++
				c.requireAt("C27.witness-walk", "branch descends left", cs.Instr, wGE("idx < 2^(depth-1)", -1, t(-1, `^\$1$`), t(1, bound)))
				c.check(render(a[0]) == "($0 - 1)" && render(a[1]) == "$1" && render(a[2]) == "$2", "C27.witness-walk", "left descent passes (depth-1, idx, w)", cs.Pos(), "unchanged index", "passes "+render(cs.Instr.Value()))
			case "$r.right":
				n++
				c.requireAt("C27.witness-walk", "branch descends right", cs.Instr, wGE("idx ≥ 2^(depth-1)", 0, t(1, `^\$1$`), t(-1, bound)))
				c.check(render(a[0]) == "($0 - 1)" && render(a[1]) == "($1 - (1 << ($0 - 1)))" && render(a[2]) == "$2", "C27.witness-walk", "right descent passes (depth-1, idx-2^(depth-1), w)", cs.Pos(), "rebased index", "passes "+render(cs.Instr.Value())+": the index is not rebased to the right subtree, so the walk below takes the wrong turns")
			default:
				c.violate("C27.witness-walk", "branch descent target", cs.Pos(), "descends into "+render(cs.Common().Value))
			}
		}
		if n != 2 {
			c.undecided("C27.witness-walk", "branchNode.WitnessFor descents", f.Pos(), fmt.Sprintf("expected 2, found %d", n))
		}
		nw := 0
		for _, b := range f.Blocks {
			for _, in := range b.Instrs {
				al, ok := in.(*ssa.Alloc)
				if !ok || namedOf(al.Type()) != "Witness" {
					continue
				}
				var dir int64 = -1
				hv := ""
				for _, st := range fieldStoresAny([]*ssa.Function{f}, "Witness") {
					if st.Addr.X != ssa.Value(al) {
						continue
					}
					switch fieldName(st.Addr.X.Type(), st.Addr.Field) {
					case "Direction":
						dir, _ = constInt(st.Store.Val)
					case "HashValue":
						hv = render(st.Store.Val)
					}
				}
				nw++
				for _, alt := range altGuards(b) {
					_, wentLeft := holds(alt, wGE("idx < bound", -1, t(-1, `^\$1$`), t(1, bound)))
					_, wentRight := holds(alt, wGE("idx ≥ bound", 0, t(1, `^\$1$`), t(-1, bound)))
					switch {
					case wentLeft:
						c.check(dir == right && hv == "$r.right.Hash()", "C27.witness-walk", "after a left descent the sibling is the right child", al.Pos(), "{Right, right.Hash()}", fmt.Sprintf("appends {%d, %s}", dir, hv))
					case wentRight:
						c.check(dir == left && hv == "$r.left.Hash()", "C27.witness-walk", "after a right descent the sibling is the left child", al.Pos(), "{Left, left.Hash()}", fmt.Sprintf("appends {%d, %s}", dir, hv))
					default:
						c.violate("C27.witness-walk", "sibling appended on a decided side", al.Pos(), "guards: "+guardsString(alt))
					}
				}
			}
		}
		if nw != 2 {
			c.undecided("C27.witness-walk", "branchNode.WitnessFor witnesses", f.Pos(), fmt.Sprintf("expected 2 sibling records, found %d", nw))
		}
	}
	if f := c.mustFn(pkg, "hashNode", "WitnessFor"); f != nil {
		n := 0
		for _, e := range exitAlts(f) {
			if !isNilConst(e.Results[2]) {
				continue
			}
			n++
			c.requireGuard("C27.witness-walk", "hash node ends the walk", e.pos(), e.Guards, wGE("depth < 1", 0, t(-1, `^\$0$`)))
			c.check(render(e.Results[1]) == "$2", "C27.witness-walk", "the walk ends with the witness collected so far", e.pos(), "w", "returns "+render(e.Results[1]))
		}
		if n == 0 {
			c.undecided("C27.witness-walk", "hashNode.WitnessFor leaf exit", f.Pos(), "not found")
		}
		ds := c.calls(f, byMethod("WitnessFor"))
		for _, cs := range ds {
			_, a := callArgs(cs.Common())
			c.check(render(a[0]) == "$0" && render(a[1]) == "$1" && render(a[2]) == "$2" && strings.HasSuffix(render(cs.Common().Value), "$r.resolve()#0"), "C27.witness-walk", "hash node hands the walk to the node it resolves to", cs.Pos(), "resolve().WitnessFor(depth, idx, w)", "delegates as "+render(cs.Instr.Value()))
		}
		if len(ds) != 1 {
			c.undecided("C27.witness-walk", "hashNode.WitnessFor delegation", f.Pos(), fmt.Sprintf("%d delegations", len(ds)))
		}
	}
	// (3) constructed nodes
	nAl := 0
	for _, f := range pf {
		for _, b := range f.Blocks {
			for _, in := range b.Instrs {
				al, ok := in.(*ssa.Alloc)
				if !ok {
					continue
				}
				tn := namedOf(al.Type())
				if tn != "branchNode" && tn != "dataNode" {
					continue
				}
				var state int64
				got := map[string]bool{}
				for _, st := range fieldStoresAny([]*ssa.Function{f}, tn) {
					if st.Addr.X != ssa.Value(al) {
						continue
					}
					fn := fieldName(st.Addr.X.Type(), st.Addr.Field)
					if fn == "state" {
						if k, ok := constInt(st.Store.Val); ok {
							state = k
						} else {
							state = 99
						}
					}
					if !isNilConst(st.Store.Val) {
						got[fn] = true
					}
				}
				nAl++
				if state == 0 {
					c.okTrivial("C27.node-state", tn+" constructed dirty in "+fnName(f), al.Pos(), "hash computed on demand")
					continue
				}
				c.check(got["hashValue"] && (tn != "branchNode" || got["serialized"]), "C27.node-state", tn+" constructed in a hashed state carries its hash", al.Pos(), "hashValue"+map[bool]string{true: "+serialized", false: ""}[tn == "branchNode"], "the node claims state "+fmt.Sprint(state)+" but has no cached hash: Hash() returns nil and every witness through it fails to verify")
			}
		}
	}
	if nAl < 3 {
		c.undecided("C27.node-state", "node constructions", token.NoPos, fmt.Sprintf("expected ≥3, found %d", nAl))
	}
	// (4) HashesToWitness
	if f := c.mustFn(pkg, "", "HashesToWitness"); f != nil {
		n := 0
		const low = `^\(phi\(\$1\|\(phi\(…\) / 2\)\) % 2\)$`
		for _, st := range fieldStores([]*ssa.Function{f}, "Witness", "Direction") {
			k, _ := constInt(st.Store.Val)
			n++
			if k == right {
				c.requireAt("C27.witness-mirror", "HashesToWitness: level i is a Right sibling", st.Store, wEQ("bit i of idx is 0", 0, t(1, low)))
			} else {
				c.requireAt("C27.witness-mirror", "HashesToWitness: level i is a Left sibling", st.Store, wNE("bit i of idx is 1", 0, t(1, low)))
			}
		}
		if n != 2 {
			c.undecided("C27.witness-mirror", "HashesToWitness direction stores", f.Pos(), fmt.Sprintf("expected 2, found %d", n))
		}
	}
	// (5) Verify
	if f := c.mustFn(pkg, "Accumulator", "Verify"); f != nil {
		n := 0
		for _, b := range f.Blocks {
			for _, in := range b.Instrs {
				phi, ok := in.(*ssa.Phi)
				if !ok || phi.Comment != "h" {
					continue
				}
				for _, e := range phi.Edges {
					n++
					switch x := e.(type) {
					case *ssa.Parameter:
						c.okTrivial("C27.verify-fold", "running hash starts from the item hash", phi.Pos(), "h")
					case *ssa.Call:
						c.check(strings.HasSuffix(calleeName(x.Common()), "crypto.SHA3Sum256"), "C27.verify-fold", "running hash is the SHA3 of the pair", x.Pos(), "fresh slice", "folded with "+calleeName(x.Common()))
					default:
						c.violate("C27.verify-fold", "running hash is a fresh slice", phi.Pos(), "h = "+render(e)+": the running hash lives in the scratch buffer and is overwritten by the next level's copy")
					}
				}
			}
		}
		if n < 2 {
			c.undecided("C27.verify-fold", "Verify running hash", f.Pos(), "phi for h not found")
		}
	}
}
