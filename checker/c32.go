package main

import (
	"fmt"
	"go/token"
	"strings"

	"golang.org/x/tools/go/ssa"
)

// C32 — peer identity is bound to a key over the session secret.
func init() {
	register(&Prop{
		ID:             "C32",
		Pkgs:           []string{"network", "common/crypto"},
		Run:            runC32,
		MinObligations: 15,
		Technique:      "static analysis: guard dominance of every identity assignment by the verification result, argument provenance of signed/verified content (this peer's session secret), who-may-write on Peer.id and secureKey.extra, sibling agreement of the two signature handlers",
		LevelText:      "Decides on all paths of package network: Peer.id is written only by setID; every setID call is dominated by VerifySignature's error being nil and assigns exactly the id that call returned; the content signed (Signature) and verified (VerifySignature) at all four handshake sites is the `extra` session secret of the handler's own peer, which is written only by the HKDF derivation; VerifySignature can return a nil error only behind signature.Verify(SHA3(content), parsedKey) = true and derives the id from that same parsed key; the handshake proceeds (nextOnPeer) only behind a successful verification or an empty error in the response being sent, and the failure arm always fills that error.",
		LevelNote:      "ECDSA and SHA3 are trusted; that both ends derive the same `extra` is C31's HKDF clause.",
		Explanation:    "C32 rules: id-after-proof (K1 + K5 on every setID; K3 on Peer.id), session-binding (K5 on the content argument at the 4 sites; K3 on secureKey.extra), verify (K1+K5 inside VerifySignature and Signature), proceed-after-proof (K1 on nextOnPeer in the two signature handlers, sibling agreement).",
		Mutants: []Mutant{
			{Name: "F8-setid-before-check", File: "network/authenticator.go", Old: "\tif err == nil {\n\t\tp.setID(id)\n\t}\n", New: "\tp.setID(id)\n", Desc: "regression of F8"},
			{Name: "verify-result-ignored", File: "network/authenticator.go", Old: "\tif !s.Verify(h, pubKey) {\n\t\terr = ErrInvalidSignature\n\t}", New: "\tif !s.Verify(h, pubKey) {\n\t\ta.logger.Debugln(\"invalid signature\")\n\t}", Desc: "invalid signature only logged"},
			{Name: "verify-wrong-content", File: "network/authenticator.go", Old: "id, err := a.VerifySignature(rm.PublicKey, rm.Signature, p.secureKey.extra)\n\tif err != nil {\n\t\terr := fmt.Errorf(\"handleSignatureResponse", New: "id, err := a.VerifySignature(rm.PublicKey, rm.Signature, rm.PublicKey)\n\tif err != nil {\n\t\terr := fmt.Errorf(\"handleSignatureResponse", Desc: "response verified over attacker-chosen content instead of the session secret"},
			{Name: "sign-static-content", File: "network/authenticator.go", Old: "\tm := &SignatureRequest{\n\t\tPublicKey: a.wallet.PublicKey(),\n\t\tSignature: a.Signature(p.secureKey.extra),", New: "\tm := &SignatureRequest{\n\t\tPublicKey: a.wallet.PublicKey(),\n\t\tSignature: a.Signature(a.wallet.PublicKey()),", Desc: "request signs a session-independent value (replayable)"},
			{Name: "id-from-packet", File: "network/authenticator.go", Old: "\tp.setID(id)\n\tif !p.ID().Equal(pkt.src) {", New: "\t_ = id\n\tp.setID(pkt.src)\n\tif !p.ID().Equal(pkt.src) {", Desc: "identity taken from the packet source instead of the proven key"},
			{Name: "hash-of-key", File: "network/authenticator.go", Old: "\th := crypto.SHA3Sum256(content)\n\tif !s.Verify(h, pubKey) {", New: "\th := crypto.SHA3Sum256(publicKey)\n\tif !s.Verify(h, pubKey) {", Desc: "verifies a signature over the public key, not over the content"},
			{Name: "proceed-on-failure", File: "network/authenticator.go", Old: "\tif m.Error != \"\" {\n\t\terr := fmt.Errorf(\"handleSignatureRequest error[%v]\", m.Error)\n\t\ta.logger.Infoln(\"handleSignatureRequest\", p.ConnString(), \"Error\", err)\n\t\tp.CloseByError(err)\n\t\treturn\n\t}\n", New: "\tif m.Error != \"\" {\n\t\terr := fmt.Errorf(\"handleSignatureRequest error[%v]\", m.Error)\n\t\ta.logger.Infoln(\"handleSignatureRequest\", p.ConnString(), \"Error\", err)\n\t}\n", Desc: "handshake continues after a failed verification"},
		},
	})
}

func runC32(c *Ctx) {
	const pkg = "network"
	pf := c.pkgFuncs(pkg)

	// ---- who writes Peer.id
	for _, st := range fieldStores(pf, "Peer", "id") {
		// frozen exception: the pseudo-peer that represents this node itself is
		// created with the transport's own id (nt.PeerID()), not a remote identity
		if st.Fn.Name() == "NewManager" && render(st.Store.Val) == "$1.PeerID()" {
			c.ok("C32.id-after-proof", "writer of Peer.id: "+fnName(st.Fn), st.Store.Pos(), "own pseudo-peer initialised with the transport's own id")
			continue
		}
		c.check(st.Fn.Name() == "setID", "C32.id-after-proof", "writer of Peer.id: "+fnName(st.Fn), st.Store.Pos(), "setID", "Peer.id written outside setID")
	}
	// ---- every setID call
	n := 0
	for _, f := range pf {
		for _, cs := range c.calls(f, byCallee("(*network.Peer).setID")) {
			n++
			name := "setID in " + fnName(f)
			_, a := callArgs(cs.Common())
			ex, ok := unwrap(a[0]).(*ssa.Extract)
			var vcall *ssa.Call
			if ok && ex.Index == 0 {
				vcall, _ = ex.Tuple.(*ssa.Call)
			}
			if vcall == nil || calleeName(vcall.Common()) != "(*network.Authenticator).VerifySignature" {
				c.violate("C32.id-after-proof", name+" assigns the proven id", cs.Pos(), "the id assigned is "+render(a[0])+", not the id returned by VerifySignature")
				continue
			}
			c.ok("C32.id-after-proof", name+" assigns the proven id", cs.Pos(), "id = VerifySignature(...)#0")
			// dominated by that same call's error == nil
			okDom := true
			wit := ""
			for _, gs := range altGuards(cs.Instr.Block()) {
				found := false
				for _, g := range gs {
					b, isB := g.Cond.(*ssa.BinOp)
					if !isB {
						continue
					}
					p := predOf(g)
					if p.Kind != "same" || !p.Pol {
						continue
					}
					for _, op := range []ssa.Value{b.X, b.Y} {
						if e2, ok := op.(*ssa.Extract); ok && e2.Index == 1 && e2.Tuple == ssa.Value(vcall) {
							found = true
							wit = p.String()
						}
					}
				}
				if !found {
					okDom = false
				}
			}
			c.check(okDom, "C32.id-after-proof", name+" ⊢ verification succeeded", cs.Pos(), "established by "+wit, "setID is reachable without the error of that VerifySignature call being nil: an unproven identity is assigned")
		}
	}
	if n < 2 {
		c.undecided("C32.id-after-proof", "setID call sites", token.NoPos, fmt.Sprintf("expected ≥2, found %d", n))
	}

	// ---- session-binding
	nb := 0
	for _, f := range pf {
		for _, cs := range c.calls(f, byCallee("(*network.Authenticator).Signature", "(*network.Authenticator).VerifySignature")) {
			nb++
			_, a := callArgs(cs.Common())
			content := a[len(a)-1]
			// the handler's peer parameter
			peer := ""
			for i, p := range f.Params {
				if namedOf(p.Type()) == "Peer" {
					peer = fmt.Sprintf("$%d", i-1)
				}
			}
			want := peer + ".secureKey.extra"
			c.check(peer != "" && render(content) == want, "C32.session-binding", methodName(cs.Common())+" content in "+fnName(f), cs.Pos(), "this peer's session secret", "content is "+render(content)+", expected "+want)
		}
	}
	if nb < 4 {
		c.undecided("C32.session-binding", "sign/verify sites", token.NoPos, fmt.Sprintf("expected 4, found %d", nb))
	}
	for _, st := range fieldStores(pf, "secureKey", "extra") {
		c.check(st.Fn.Name() == "hkdf", "C32.session-binding", "writer of secureKey.extra: "+fnName(st.Fn), st.Store.Pos(), "hkdf", "session secret written outside the key derivation")
	}
	// a fresh key per connection: secureKey is assigned only from newSecureKey
	for _, st := range fieldStores(pf, "Peer", "secureKey") {
		c.check(strings.HasPrefix(render(st.Store.Val), "network.newSecureKey("), "C32.session-binding", "Peer.secureKey in "+fnName(st.Fn), st.Store.Pos(), "fresh ephemeral key", "secureKey set to "+render(st.Store.Val))
	}

	// ---- the session secret exists before anything is signed over it: a failed
	// key setup ends the handshake for every suite
	if ap := c.mustFn(pkg, "Authenticator", "applySecureConn"); ap != nil {
		ns := 0
		for _, e := range successAlts(ap) {
			ns++
			c.requireGuard("C32.session-binding", "applySecureConn succeeds ⊢ key setup succeeded", e.pos(), e.Guards, wSame("setup() == nil", `\.secureKey\.setup\(`, `^nil$`))
		}
		if ns == 0 {
			c.undecided("C32.session-binding", "applySecureConn", ap.Pos(), "no success exit")
		}
	}
	if su := c.mustFn(pkg, "secureKey", "setup"); su != nil {
		for _, e := range successAlts(su) {
			r := render(e.Results[0])
			if strings.HasSuffix(r, ".hkdf($3)") {
				c.requireGuard("C32.session-binding", "secret derived only from a valid peer key", e.pos(), e.Guards, wSame("setPeerPublicKey() == nil", `\.setPeerPublicKey\(`, `^nil$`))
			} else {
				c.violate("C32.session-binding", "secureKey.setup success without deriving the secret", e.pos(), "setup can succeed without running the key derivation: the session secret stays empty and signatures are not bound to the session")
			}
		}
	}
	// ---- an identity object never changes after it was handed out
	for _, st := range fieldStores(pf, "peerID", "Address") {
		_, fresh := st.Addr.X.(*ssa.Alloc)
		c.check(fresh, "C32.id-after-proof", "peerID.Address is set only on a fresh object ("+fnName(st.Fn)+")", st.Store.Pos(), "composite literal", "an existing peerID object is re-addressed: every peer holding that pointer silently takes another identity")
	}

	// ---- verify
	if vs := c.mustFn(pkg, "Authenticator", "VerifySignature"); vs != nil {
		ns := 0
		for _, e := range successAlts(vs) {
			ns++
			c.requireGuard("C32.verify", "VerifySignature success", e.pos(), e.Guards, wTrue("signature.Verify(SHA3(content), key)", `^crypto\.ParseSignature\(\$1\)#0\.Verify\(crypto\.SHA3Sum256\(\$2\),crypto\.ParsePublicKey\(\$0\)#0\)$`))
			c.check(render(e.Results[0]) == "network.NewPeerIDFromPublicKey(crypto.ParsePublicKey($0)#0)", "C32.verify", "id derives from the verified key", e.pos(), "NewPeerIDFromPublicKey(parsed key)", "id is "+render(e.Results[0]))
		}
		if ns == 0 {
			c.undecided("C32.verify", "VerifySignature", vs.Pos(), "no success exit")
		}
	}
	if sg := c.mustFn(pkg, "Authenticator", "Signature"); sg != nil {
		for _, rs := range returnSites(sg) {
			c.check(render(rs.Results[0]) == "$r.wallet.Sign(crypto.SHA3Sum256($0))#0", "C32.verify", "Signature signs SHA3(content)", rs.pos(), "wallet.Sign(SHA3(content))", "returns "+render(rs.Results[0]))
		}
	}

	// ---- proceed-after-proof
	for _, hn := range []string{"handleSignatureRequest", "handleSignatureResponse"} {
		f := c.mustFn(pkg, "Authenticator", hn)
		if f == nil {
			continue
		}
		nx := c.calls(f, byMethod("nextOnPeer"))
		if len(nx) != 1 {
			c.violate("C32.proceed-after-proof", hn, f.Pos(), fmt.Sprintf("expected one nextOnPeer, found %d", len(nx)))
			continue
		}
		c.requireAtAny("C32.proceed-after-proof", hn+" proceeds", nx[0].Instr, "verification succeeded ∨ no error in the response being sent",
			wSame("VerifySignature error == nil", `\.VerifySignature\(.*#1$`, `^nil$`),
			wSame("response error empty", `^phi\(.*\.Error$|\.Error$`, `^""$`),
			wEQ("response error empty (length form)", 0, t(1, `^len\(.*\.Error\)$`)))
		if hn == "handleSignatureRequest" {
			// the response sent on the failure arm carries an error
			for _, b := range f.Blocks {
				for _, in := range b.Instrs {
					al, ok := in.(*ssa.Alloc)
					if !ok || namedOf(al.Type()) != "SignatureResponse" {
						continue
					}
					gs := guardsAt(al)
					if _, failing := holds(gs, wDiffer("verification failed", `\.VerifySignature\(.*#1$`, `^nil$`)); !failing {
						continue
					}
					set := false
					for _, st := range fieldStoresAny([]*ssa.Function{f}, "SignatureResponse") {
						if st.Addr.X == ssa.Value(al) && fieldName(st.Addr.X.Type(), st.Addr.Field) == "Error" && render(st.Store.Val) != `""` {
							set = true
						}
					}
					c.check(set, "C32.proceed-after-proof", "failure response carries an error", al.Pos(), "Error set", "the response built after a failed verification has no error, so the handshake proceeds")
				}
			}
		}
	}
	runC32Extra(c)
}

// runC32Extra: the signed session secret really is HKDF output of this
// session's fresh key agreement, and only well-formed signatures parse.
func runC32Extra(c *Ctx) {
	const pkg = "network"
	if f := c.mustFn(pkg, "secureKey", "hkdf"); f != nil {
		var buf ssa.Value
		for _, cs := range c.calls(f, byCallee("io.ReadFull")) {
			_, a := callArgs(cs.Common())
			buf = unsliceBase(a[1])
		}
		if buf == nil {
			c.undecided("C32.session-secret", "hkdf output buffer", f.Pos(), "io.ReadFull(kdf, b) not found")
		} else {
			filled := false
			for _, cs := range c.calls(f, byCallee("builtin:copy")) {
				_, a := callArgs(cs.Common())
				dst, src := unsliceBase(a[0]), unsliceBase(a[1])
				if dst == buf {
					c.violate("C32.session-secret", "HKDF output is only read", cs.Pos(), "copy writes into the HKDF output buffer ("+render(a[0])+" ← "+render(a[1])+"): the derived secret it should have filled stays zero")
				}
				if render(a[0]) == "$r.extra" || strings.HasPrefix(render(a[0]), "$r.extra[") {
					ok := src == buf
					filled = filled || ok
					c.check(ok, "C32.session-secret", "the session secret (extra) is filled from the HKDF output", cs.Pos(), render(a[1]), "extra is filled from "+render(a[1]))
				}
			}
			c.check(filled, "C32.session-secret", "extra receives HKDF output", f.Pos(), "copy(k.extra, b[n:n+len])", "no copy from the HKDF output into k.extra: the secret that peers sign is the same (all zero) in every session, so a captured signature replays")
		}
	}
	// a fresh ephemeral key per connection
	if f := c.mustFn(pkg, "", "newSecureKey"); f != nil {
		n := 0
		for _, st := range fieldStores([]*ssa.Function{f}, "secureKey", "PrivateKey") {
			n++
			ex, ok := st.Store.Val.(*ssa.Extract)
			fresh := false
			if ok && ex.Index == 0 {
				if call, ok := ex.Tuple.(*ssa.Call); ok && calleeName(call.Common()) == "crypto/ecdsa.GenerateKey" {
					fresh = true
				}
			}
			c.check(fresh, "C32.session-secret", "every secureKey gets a newly generated ephemeral key", st.Store.Pos(), "ecdsa.GenerateKey(...)", "the key is "+render(st.Store.Val)+": an ephemeral key shared between connections makes the session secret repeat between sessions of the same two nodes")
		}
		for _, e := range exitAlts(f) {
			_, isAl := unwrap(e.Results[0]).(*ssa.Alloc)
			c.check(isAl, "C32.session-secret", "newSecureKey returns a new object", e.pos(), "fresh", "returns "+render(e.Results[0]))
		}
		if n == 0 {
			c.undecided("C32.session-secret", "newSecureKey", f.Pos(), "no store to PrivateKey")
		}
	}
	// TLS: every presented certificate is pinned to the peer's session key
	if f := c.mustFn(pkg, "secureKey", "verifyCertificate"); f != nil {
		var acc ssa.Value
		for _, cs := range c.calls(f, byCallee("builtin:append")) {
			_, a := callArgs(cs.Common())
			if strings.Contains(a[0].Type().String(), "x509.Certificate") {
				acc = a[0]
			}
		}
		n := 0
		for _, b := range f.Blocks {
			for _, in := range b.Instrs {
				fa, ok := in.(*ssa.FieldAddr)
				if !ok || fieldName(fa.X.Type(), fa.Field) != "PublicKey" {
					continue
				}
				ld, ok := fa.X.(*ssa.UnOp)
				if !ok {
					continue
				}
				ia, ok := ld.X.(*ssa.IndexAddr)
				if !ok {
					continue
				}
				n++
				idx, _ := ia.Index.(*ssa.BinOp)
				okAll := acc != nil && ia.X == acc
				if okAll && idx != nil {
					phi, isPhi := idx.X.(*ssa.Phi)
					okAll = isPhi && idx.Op == token.ADD
					if okAll {
						start := false
						for i, e := range phi.Edges {
							if !phi.Block().Dominates(phi.Block().Preds[i]) {
								k, ok := constInt(e)
								start = ok && k == -1
							}
						}
						okAll = start
					}
				} else {
					okAll = false
				}
				c.check(okAll, "C32.tls-pin", "the certificate pin runs over every parsed certificate", fa.Pos(), "range certs", "the pinned list is "+render(ia.X)+"["+render(ia.Index)+"]: some presented certificate (the leaf) is not compared with the peer's session key")
			}
		}
		if n == 0 {
			c.undecided("C32.tls-pin", "verifyCertificate", f.Pos(), "no certificate key comparison found")
		}
	}
	// malformed signatures do not parse
	if f := c.mustFn("common/crypto", "", "parseSignature"); f != nil {
		rawV, ok1 := c.constVal("common/crypto", "SignatureLenRawWithV")
		raw, ok2 := c.constVal("common/crypto", "SignatureLenRaw")
		n := 0
		for _, e := range successAlts(f) {
			if isNilConst(e.Results[0]) {
				continue
			}
			n++
			if !ok1 || !ok2 {
				c.undecided("C32.signature-format", "signature length constants", e.pos(), "not found")
				continue
			}
			c.requireAny("C32.signature-format", "parseSignature accepts", e.pos(), e.Guards, "len(sig) is exactly the [R|S] or [R|S|V] length",
				wEQ("len == 65", -rawV, t(1, `^len\(\$0\)$`)), wEQ("len == 64", -raw, t(1, `^len\(\$0\)$`)))
		}
		if n < 2 {
			c.undecided("C32.signature-format", "parseSignature", f.Pos(), fmt.Sprintf("expected 2 accepting exits, found %d", n))
		}
	}
}
