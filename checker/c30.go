package main

import (
	"fmt"
	"go/token"
	"sort"
	"strings"

	"golang.org/x/tools/go/ssa"
)

// C30 — P2P packet framing round-trips and detects corruption.
func init() {
	register(&Prop{
		ID:             "C30",
		Pkgs:           []string{"network"},
		Run:            runC30,
		MinObligations: 20,
		Technique:      "static analysis: byte-layout table agreement (offset, width, field) between the header/footer writers and readers by straight-line slice-offset tracking, hash-scope agreement, guard dominance of acceptance by the checksum comparison, bound agreement between the reader's size limit and the writer's, read-loop shape",
		LevelText:      "Decides: headerToBytes and setHeader (footerToBytes and setFooter) place every field at the same absolute offset with the same width, contiguous and summing to the declared header/footer sizes; the checksum covers the same two ranges on both sides (header bytes, payload[:lengthOfPayload]) and what WriteTo emits is exactly header, payload[:length], footer, ext[:len] while ReadFrom reads header size, length, footer size, ext len in that order; ReadFrom can return a nil error only behind `computed hash == footer hash`; the payload buffer is allocated only after the length was checked against DefaultPacketPayloadMax, and the reader's limit is exactly the writer's (inclusive maximum), so everything a writer can emit is accepted; the chunk-insensitive read loop re-reads into b[rn:] until rn ≥ n and fails on any error.",
		LevelNote:      "FNV hashing and bufio are trusted. This is an integrity check against transit corruption, not authentication.",
		Explanation:    "C30 rules: layout (K4 via slice-offset tracking), hash-scope (K5), wire-order (K2), check-before-accept (K1), bounded-alloc and bound-agreement (K11/K4), read-loop (K1).",
		Mutants: []Mutant{
			{Name: "hash-error-overwritten", File: "network/packet.go", Old: "\tif p.extendInfo.len() > 0 {\n\t\tp.ext, tn, err = p._read(r, int(p.extendInfo.len()))\n\t\tif n += int64(tn); err != nil {\n\t\t\treturn\n\t\t}\n\t}\n\n\th, err := p._hash(false)\n\tif err != nil {\n\t\treturn\n\t}\n\tif h.Sum64() != p.hashOfPacket {\n\t\terr = fmt.Errorf(\"invalid hashOfPacket %v expected:%#x\", p, h.Sum64())\n\t\treturn\n\t}\n\treturn", New: "\th, err := p._hash(false)\n\tif err != nil {\n\t\treturn\n\t}\n\tif h.Sum64() != p.hashOfPacket {\n\t\terr = fmt.Errorf(\"invalid hashOfPacket %v expected:%#x\", p, h.Sum64())\n\t}\n\tif p.extendInfo.len() > 0 {\n\t\tp.ext, tn, err = p._read(r, int(p.extendInfo.len()))\n\t\tif n += int64(tn); err != nil {\n\t\t\treturn\n\t\t}\n\t}\n\treturn", Desc: "checksum verdict overwritten by the extension read"},
			{Name: "reader-rejects-max-payload", File: "network/packet.go", Old: "if p.lengthOfPayload > DefaultPacketPayloadMax {", New: "if p.lengthOfPayload >= DefaultPacketPayloadMax {", Desc: "a maximum-size packet the writer emits is rejected by the reader"},
			{Name: "ttl-dest-swapped-on-read", File: "network/packet.go", Old: "\tp.dest = tb[0]\n\ttb = tb[1:]\n\tp.ttl = tb[0]\n\ttb = tb[1:]\n\tp.lengthOfPayload", New: "\tp.ttl = tb[0]\n\ttb = tb[1:]\n\tp.dest = tb[0]\n\ttb = tb[1:]\n\tp.lengthOfPayload", Desc: "reader swaps dest and ttl"},
			{Name: "hash-skips-payload", File: "network/packet.go", Old: "\tif _, err := h.Write(p.payload[:p.lengthOfPayload]); err != nil {\n\t\treturn nil, err\n\t}\n", New: "", Desc: "payload not covered by the checksum"},
			{Name: "no-length-bound", File: "network/packet.go", Old: "\tif p.lengthOfPayload > DefaultPacketPayloadMax {\n\t\treturn b[packetHeaderSize:], fmt.Errorf(\"invalid lengthOfPayload\")\n\t}\n", New: "", Desc: "attacker-chosen 4 GiB allocation"},
			{Name: "footer-ext-offset", File: "network/packet.go", Old: "\tp.hashOfPacket = binary.BigEndian.Uint64(tb[:8])\n\ttb = tb[8:]\n\tp.extendInfo = newPacketExtendInfoFrom(tb[:2])", New: "\tp.hashOfPacket = binary.BigEndian.Uint64(tb[:8])\n\tp.extendInfo = newPacketExtendInfoFrom(tb[:2])", Desc: "extension info decoded from the hash bytes"},
			{Name: "read-loop-single-read", File: "network/packet.go", Old: "\t\tif rn >= n {\n\t\t\tbreak\n\t\t}", New: "\t\tif rn > 0 {\n\t\t\tbreak\n\t\t}", Desc: "a short read returns a partially filled buffer"},
			{Name: "write-full-payload-slice", File: "network/packet.go", Old: "\ttn, err = w.Write(p.payload[:p.lengthOfPayload])", New: "\ttn, err = w.Write(p.payload)", Desc: "writer emits bytes beyond lengthOfPayload"},
		},
	})
}

// absSlice resolves a chain of reslicings with constant bounds to an absolute
// (base, lo, hi) on the underlying buffer.
func absSlice(v ssa.Value) (base ssa.Value, lo, hi int64, ok bool) {
	s, isSl := v.(*ssa.Slice)
	if !isSl {
		return v, 0, -1, true
	}
	b0, lo0, _, ok0 := absSlice(s.X)
	if !ok0 {
		return nil, 0, 0, false
	}
	l, h := int64(0), int64(-1)
	if s.Low != nil {
		k, isK := constInt(s.Low)
		if !isK {
			return nil, 0, 0, false
		}
		l = k
	}
	if s.High != nil {
		k, isK := constInt(s.High)
		if !isK {
			return nil, 0, 0, false
		}
		h = lo0 + k
	}
	return b0, lo0 + l, h, true
}

type layoutEntry struct {
	off, width int64
}

func (l layoutEntry) String() string { return fmt.Sprintf("[%d:+%d]", l.off, l.width) }

func fieldOfRender(r string) string {
	// "$r.protocol.Uint16()" -> protocol ; "$r.src.Bytes()" -> src ; "$r.dest" -> dest
	r = strings.TrimPrefix(r, "$r.")
	if i := strings.IndexAny(r, ".("); i >= 0 {
		r = r[:i]
	}
	return r
}

// writerLayout extracts field -> (offset,width) from a *ToBytes function.
func writerLayout(c *Ctx, f *ssa.Function) (map[string]layoutEntry, bool) {
	out := map[string]layoutEntry{}
	ok := true
	for _, b := range f.Blocks {
		for _, in := range b.Instrs {
			switch x := in.(type) {
			case *ssa.Call:
				n := calleeName(x.Common())
				var width int64
				switch {
				case strings.HasSuffix(n, ".PutUint16"):
					width = 2
				case strings.HasSuffix(n, ".PutUint32"):
					width = 4
				case strings.HasSuffix(n, ".PutUint64"):
					width = 8
				case n == "builtin:copy":
					width = -1
				default:
					continue
				}
				_, a := callArgs(x.Common())
				_, lo, hi, okS := absSlice(a[0])
				if !okS {
					ok = false
					continue
				}
				if width == -1 {
					if hi < 0 {
						continue // not a bounded field copy
					}
					width = hi - lo
				}
				fld := fieldOfRender(render(unwrap(a[1])))
				if strings.HasPrefix(render(unwrap(a[1])), "$r.") {
					out[fld] = layoutEntry{lo, width}
				}
			case *ssa.Store:
				ia, isIA := x.Addr.(*ssa.IndexAddr)
				if !isIA {
					continue
				}
				k, isK := constInt(ia.Index)
				_, lo, _, okS := absSlice(ia.X)
				if !isK || !okS || !strings.HasPrefix(render(x.Val), "$r.") {
					continue
				}
				out[fieldOfRender(render(x.Val))] = layoutEntry{lo + k, 1}
			}
		}
	}
	return out, ok
}

// readerLayout extracts field -> (offset,width) from a set* function.
func readerLayout(c *Ctx, f *ssa.Function) map[string]layoutEntry {
	out := map[string]layoutEntry{}
	for _, st := range fieldStoresAny([]*ssa.Function{f}, "Packet") {
		if render(st.Addr.X) != "$r" {
			continue
		}
		fld := fieldName(st.Addr.X.Type(), st.Addr.Field)
		v := unwrap(st.Store.Val)
		switch x := v.(type) {
		case *ssa.Call:
			n := calleeName(x.Common())
			_, a := callArgs(x.Common())
			if len(a) == 0 {
				continue
			}
			_, lo, hi, okS := absSlice(a[len(a)-1])
			if !okS {
				continue
			}
			switch {
			case strings.HasSuffix(n, ".Uint16"):
				out[fld] = layoutEntry{lo, 2}
			case strings.HasSuffix(n, ".Uint32"):
				out[fld] = layoutEntry{lo, 4}
			case strings.HasSuffix(n, ".Uint64"):
				out[fld] = layoutEntry{lo, 8}
			default:
				if hi >= 0 {
					out[fld] = layoutEntry{lo, hi - lo}
				}
			}
		case *ssa.UnOp:
			if ia, ok := x.X.(*ssa.IndexAddr); ok {
				k, isK := constInt(ia.Index)
				_, lo, _, okS := absSlice(ia.X)
				if isK && okS {
					out[fld] = layoutEntry{lo + k, 1}
				}
			}
		}
	}
	return out
}

func runC30(c *Ctx) {
	const pkg = "network"
	hsz, _ := c.constVal(pkg, "packetHeaderSize")
	fsz, _ := c.constVal(pkg, "packetFooterSize")
	maxPayload, okMax := c.constVal(pkg, "DefaultPacketPayloadMax")
	if hsz == 0 || fsz == 0 || !okMax {
		c.undecided("anchor", "packet size constants", token.NoPos, "packetHeaderSize / packetFooterSize / DefaultPacketPayloadMax not found")
		return
	}
	for _, pair := range []struct {
		w, r string
		size int64
		skip map[string]bool
	}{
		{"headerToBytes", "setHeader", hsz, map[string]bool{"header": true}},
		{"footerToBytes", "setFooter", fsz, map[string]bool{"footer": true}},
	} {
		wf := c.mustFn(pkg, "Packet", pair.w)
		rf := c.mustFn(pkg, "Packet", pair.r)
		if wf == nil || rf == nil {
			continue
		}
		wl, okW := writerLayout(c, wf)
		rl := readerLayout(c, rf)
		for k := range pair.skip {
			delete(rl, k)
			delete(wl, k)
		}
		if !okW || len(wl) == 0 || len(rl) == 0 {
			c.undecided("C30.layout", pair.w+"/"+pair.r, wf.Pos(), fmt.Sprintf("layout could not be read off (writer %d fields, reader %d fields)", len(wl), len(rl)))
			continue
		}
		var fields []string
		seen := map[string]bool{}
		for k := range wl {
			fields = append(fields, k)
			seen[k] = true
		}
		for k := range rl {
			if !seen[k] {
				fields = append(fields, k)
			}
		}
		sort.Strings(fields)
		var total int64
		type iv struct{ lo, hi int64 }
		var ivs []iv
		for _, f := range fields {
			w, inW := wl[f]
			r, inR := rl[f]
			c.check(inW && inR && w == r, "C30.layout", pair.w+"/"+pair.r+": field "+f, wf.Pos(), w.String(), fmt.Sprintf("writer puts %s at %v (present=%v), reader takes it from %v (present=%v)", f, w, inW, r, inR))
			if inW {
				total += w.width
				ivs = append(ivs, iv{w.off, w.off + w.width})
			}
		}
		sort.Slice(ivs, func(i, j int) bool { return ivs[i].lo < ivs[j].lo })
		contig := len(ivs) > 0 && ivs[0].lo == 0
		for i := 1; i < len(ivs); i++ {
			if ivs[i].lo != ivs[i-1].hi {
				contig = false
			}
		}
		c.check(contig && total == pair.size, "C30.layout", pair.w+": fields tile the declared size", wf.Pos(), fmt.Sprintf("%d bytes", total), fmt.Sprintf("fields cover %d bytes, declared size %d, contiguous=%v", total, pair.size, contig))
	}

	// ---- hash-scope
	if hf := c.mustFn(pkg, "Packet", "_hash"); hf != nil {
		var args []string
		for _, cs := range c.calls(hf, byMethod("Write")) {
			_, a := callArgs(cs.Common())
			args = append(args, render(a[0]))
		}
		okScope := len(args) == 2 && (args[0] == "$r.headerToBytes($0)" || args[0] == "$r.headerToBytes(false)" || args[0] == "$r.headerToBytes(true)") && args[1] == "$r.payload[:$r.lengthOfPayload]"
		c.check(okScope, "C30.hash-scope", "checksum covers header bytes and payload[:length]", hf.Pos(), strings.Join(args, " ; "), "checksum covers "+strings.Join(args, " ; "))
	}
	// ---- wire-order
	if wt := c.mustFn(pkg, "Packet", "WriteTo"); wt != nil {
		var args []string
		var calls []callSite
		for _, cs := range c.calls(wt, byMethod("Write")) {
			_, a := callArgs(cs.Common())
			args = append(args, render(a[0]))
			calls = append(calls, cs)
		}
		want := []string{"$r.headerToBytes(false)", "$r.payload[:$r.lengthOfPayload]", "$r.footerToBytes(false)", "$r.ext[:$r.extendInfo.len()]"}
		okOrd := len(args) == 4
		for i := range want {
			if i < len(args) && args[i] != want[i] {
				okOrd = false
			}
			if i > 0 && i < len(calls) && !dominatesInstr(calls[i-1].Instr, calls[i].Instr) {
				okOrd = false
			}
		}
		c.check(okOrd, "C30.wire-order", "WriteTo emits header, payload[:length], footer, ext[:len]", wt.Pos(), strings.Join(args, " ; "), "WriteTo emits "+strings.Join(args, " ; "))
		uh := c.calls(wt, byMethod("updateHash"))
		c.check(len(uh) == 1 && len(calls) > 0 && dominatesInstr(uh[0].Instr, calls[0].Instr), "C30.wire-order", "checksum is computed before the packet is written", wt.Pos(), "updateHash first", "the footer may carry a stale checksum")
	}
	rfn := c.mustFn(pkg, "Packet", "ReadFrom")
	if rfn == nil {
		return
	}
	{
		var sizes []string
		var calls []callSite
		for _, cs := range c.calls(rfn, byCallee("(*network.Packet)._read")) {
			_, a := callArgs(cs.Common())
			sizes = append(sizes, render(a[1]))
			calls = append(calls, cs)
		}
		want := []string{fmt.Sprint(hsz), "$r.lengthOfPayload", fmt.Sprint(fsz), "$r.extendInfo.len()"}
		okOrd := len(sizes) == 4
		for i := range want {
			if i < len(sizes) && sizes[i] != want[i] {
				okOrd = false
			}
			if i > 0 && i < len(calls) && !dominatesInstr(calls[i-1].Instr, calls[i].Instr) {
				okOrd = false
			}
		}
		c.check(okOrd, "C30.wire-order", "ReadFrom reads header, payload(length), footer, ext(len) in that order", rfn.Pos(), strings.Join(sizes, " ; "), "ReadFrom reads "+strings.Join(sizes, " ; "))
		// ---- bounded-alloc: the payload read is behind a successful setHeader
		if len(calls) >= 2 {
			c.requireAt("C30.bounded-alloc", "payload buffer allocated only after the header was accepted", calls[1].Instr, wSame("setHeader error == nil", `^\$r\.setHeader\(.*#1$`, `^nil$`))
		}
	}
	// ---- check-before-accept
	n := 0
	for _, e := range successAlts(rfn) {
		n++
		c.requireGuard("C30.check-before-accept", "ReadFrom accepts ⊢ computed checksum == footer checksum", e.pos(), e.Guards, wEQ("Sum64() == hashOfPacket", 0, t(1, `\.Sum64\(\)$`), t(-1, `^\$r\.hashOfPacket$`)))
		c.requireGuard("C30.check-before-accept", "ReadFrom accepts ⊢ footer parsed", e.pos(), e.Guards, wSame("setFooter error == nil", `^\$r\.setFooter\(.*#1$`, `^nil$`))
	}
	if n == 0 {
		c.undecided("C30.check-before-accept", "ReadFrom", rfn.Pos(), "no accepting exit")
	}
	// ---- bound agreement
	if sh := c.mustFn(pkg, "Packet", "setHeader"); sh != nil {
		for _, e := range successAlts(sh) {
			found := false
			for _, g := range e.Guards {
				p := predOf(g)
				if p.Kind == "ge" && len(p.L.T) == 1 && p.L.T["$r.lengthOfPayload"] == -1 {
					found = true
					c.check(p.L.K == maxPayload, "C30.bound-agreement", "reader accepts exactly up to DefaultPacketPayloadMax", e.pos(), fmt.Sprintf("length ≤ %d", maxPayload), fmt.Sprintf("reader accepts length ≤ %d but writers emit up to %d: a maximum-size packet does not round-trip", p.L.K, maxPayload))
				}
			}
			c.check(found, "C30.bounded-alloc", "setHeader bounds the payload length", e.pos(), "length ≤ max", "setHeader accepts any 32-bit payload length: the reader allocates what the sender says")
		}
	}
	if np := c.mustFn(pkg, "", "NewPacket"); np != nil {
		okW := false
		for _, b := range np.Blocks {
			for _, in := range b.Instrs {
				if bo, ok := in.(*ssa.BinOp); ok {
					p := predOfVal(bo, false) // the not-truncated arm
					if p.Kind == "ge" && p.L.T["len($2)"] == -1 && p.L.K == maxPayload {
						okW = true
					}
				}
			}
		}
		c.check(okW, "C30.bound-agreement", "writer keeps payloads up to DefaultPacketPayloadMax inclusive", np.Pos(), "truncates only above the maximum", "NewPacket's truncation bound differs from the reader's limit")
	}
	// ---- read-loop
	if rd := c.mustFn(pkg, "Packet", "_read"); rd != nil {
		for _, e := range successAlts(rd) {
			if _, zero := holds(e.Guards, wEQ("n == 0", 0, t(1, `^\$1$`))); zero {
				continue
			}
			c.requireAny("C30.read-loop", "_read succeeds only with the whole buffer filled", e.pos(), e.Guards, "rn ≥ n",
				wGE("rn ≥ n", 0, t(1, `\.Read\(.*#0$`), t(1, `^phi\(`), t(-1, `^\$1$`)),
				wGE("rn ≥ n (loop condition form)", 0, t(1, `^phi\(`), t(-1, `^\$1$`)))
		}
		for _, cs := range c.calls(rd, byMethod("Read")) {
			_, a := callArgs(cs.Common())
			sl, ok := a[0].(*ssa.Slice)
			okArg := false
			if ok && sl.High == nil && sl.Low != nil {
				if _, isPhi := sl.Low.(*ssa.Phi); isPhi {
					okArg = true
				}
			}
			c.check(okArg, "C30.read-loop", "_read continues where the previous chunk ended", cs.Pos(), "Read(b[rn:])", "reads into "+render(a[0]))
		}
	}
	runC30Stream(c)
}

// runC30Stream: the stream wrappers and the extension descriptor.
func runC30Stream(c *Ctx) {
	const pkg = "network"
	// ---- extension descriptor: hint and length tile the 16 bits, packer and accessors agree
	maxLen, ok1 := c.constVal(pkg, "packetExtendMaxLen")
	maxHint, ok2 := c.constVal(pkg, "packetExtendMaxHint")
	var shifts []int64
	for _, fn := range []*ssa.Function{c.mustFn(pkg, "", "newPacketExtendInfo"), c.mustFn(pkg, "packetExtendInfo", "hint")} {
		if fn == nil {
			continue
		}
		for _, b := range fn.Blocks {
			for _, in := range b.Instrs {
				if bo, ok := in.(*ssa.BinOp); ok && (bo.Op == token.SHL || bo.Op == token.SHR) {
					if k, ok := constInt(bo.Y); ok {
						shifts = append(shifts, k)
					}
				}
			}
		}
	}
	okExt := ok1 && ok2 && len(shifts) == 2 && shifts[0] == shifts[1] && maxLen == (1<<uint(shifts[0]))-1 && maxHint == (1<<uint(16-shifts[0]))-1
	c.check(okExt, "C30.ext-descriptor", "extension descriptor: length mask, hint mask and shift tile 16 bits", token.NoPos, fmt.Sprintf("shift %v, len mask %#x, hint mask %#x", shifts, maxLen, maxHint), fmt.Sprintf("shift %v, length mask %#x, hint mask %#x do not tile the 16-bit descriptor: extension lengths with the lost bits are written or read short", shifts, maxLen, maxHint))
	for _, nm := range []string{"len", "hint"} {
		if f := c.mustFn(pkg, "packetExtendInfo", nm); f != nil {
			n := 0
			for _, b := range f.Blocks {
				for _, in := range b.Instrs {
					if bo, ok := in.(*ssa.BinOp); ok && bo.Op == token.AND {
						k, _ := constInt(bo.Y)
						want := maxLen
						if nm == "hint" {
							want = maxHint
						}
						n++
						c.check(k == want, "C30.ext-descriptor", "packetExtendInfo."+nm+" masks with its field mask", bo.Pos(), fmt.Sprintf("%#x", k), fmt.Sprintf("masks with %#x", k))
					}
				}
			}
			if n != 1 {
				c.undecided("C30.ext-descriptor", "packetExtendInfo."+nm, f.Pos(), fmt.Sprintf("%d masks", n))
			}
		}
	}
	// ---- every packet read is its own object
	if f := c.mustFn(pkg, "PacketReader", "ReadPacket"); f != nil {
		n := 0
		for _, e := range successAlts(f) {
			n++
			_, fresh := unwrap(e.Results[0]).(*ssa.Alloc)
			c.check(fresh, "C30.fresh-packet", "ReadPacket returns a packet of its own", e.pos(), "new Packet per call", "returns "+render(e.Results[0])+": packets read earlier are overwritten by later ones")
		}
		if n == 0 {
			c.undecided("C30.fresh-packet", "ReadPacket", f.Pos(), "no successful exit")
		}
	}
	// ---- a written packet is handed to the stream before WritePacket reports success
	if f := c.mustFn(pkg, "PacketWriter", "WritePacket"); f != nil {
		n := 0
		for _, e := range exitAlts(f) {
			r := render(e.Results[0])
			if strings.HasSuffix(r, ".Flush()") {
				n++
				continue
			}
			if !isNilConst(e.Results[0]) {
				continue
			}
			n++
			c.requireGuard("C30.flush", "WritePacket succeeds without flushing", e.pos(), e.Guards, wGE("nothing is buffered", 0, t(-1, `\.Buffered\(\)$`)))
		}
		if n < 2 {
			c.undecided("C30.flush", "WritePacket exits", f.Pos(), fmt.Sprintf("%d", n))
		}
	}
	// ---- Reset switches the buffered wrapper to the new stream as well
	for _, tn := range [][2]string{{"PacketReader", "rd"}, {"PacketWriter", "wr"}} {
		f := c.mustFn(pkg, tn[0], "Reset")
		if f == nil {
			continue
		}
		sts := fieldStores([]*ssa.Function{f}, tn[0], tn[1])
		rs := c.calls(f, func(cc *ssa.CallCommon) bool {
			return methodName(cc) == "Reset" && strings.HasPrefix(calleeName(cc), "(*bufio.")
		})
		okR := len(sts) == 1 && len(rs) == 1
		if okR {
			_, a := callArgs(rs[0].Common())
			arg := render(a[len(a)-1])
			okR = (arg == "$0" || arg == "$r."+tn[1]) && render(sts[0].Store.Val) == "$0"
			if arg == "$r."+tn[1] {
				okR = okR && dominatesInstr(sts[0].Store, rs[0].Instr)
			}
			if _, by := pathAvoiding(f, f.Blocks[0].Instrs[0], isReturn, func(in ssa.Instruction) bool { return in == ssa.Instruction(rs[0].Instr) }); by {
				okR = false
			}
		}
		c.check(okR, "C30.reset", tn[0]+".Reset re-targets the buffered wrapper", f.Pos(), "bufio Reset(new stream)", "after Reset the buffered wrapper still reads/writes the previous stream (and keeps its buffered bytes)")
	}
}
