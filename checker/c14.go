package main

import (
	"fmt"
	"go/token"
	"go/types"
	"sort"
	"strings"

	"golang.org/x/tools/go/ssa"
)

// C14 — world state snapshots are isolated and the state hash is canonical.
func init() {
	register(&Prop{
		ID:             "C14",
		Pkgs:           []string{"service/state", "icon/iiss"},
		Run:            runC14,
		MinObligations: 40,
		Technique:      "static analysis: effect summaries (which methods mutate their receiver in place), pairing of every mutation with the dirty mark on all paths, aliasing discipline between state and snapshot for in-place-mutated reference fields, field-set agreement of GetSnapshot/Reset, pairing of trie knowledge (lastAccounts) with every trie change, flush-before-snapshot order",
		LevelText:      "Decides on all paths of package service/state: every accountStateImpl method that changes snapshot-visible state (a field store, or a call that by its computed effect summary mutates a field in place, or a Set/Delete on the account store) reaches markDirty() before returning, so a stale cached snapshot is never handed out; reference fields that some method mutates in place (deposits, object cache, contracts) are never shared between a state and a snapshot — GetSnapshot and Reset both store a copy produced by a call, not the other side's value; GetSnapshot and Reset cover the same field set; in the world state every change of what the account trie holds for an account is mirrored in lastAccounts (Reset: set or delete per account on every iteration; flush: recorded before the trie Set/Delete), empty accounts are deleted and non-empty ones set, the account cache is flushed before a world snapshot is taken or the cache cleared, and the world snapshot/Reset pairs cover the same components.",
		LevelNote:      "Does not decide that the state hash is independent of access order (a trie property, C17) nor the behaviour of callee packages (trie, contract store). Effect summaries look 3 calls deep inside the package and treat interface calls by a name table (Set, Delete, Reset, …).",
		Explanation:    "C14 rules: dirty (K8 with effect summaries), no-alias (K5/K3 on reference fields mutated in place), snapshot-reset-symmetry (K4), last-accounts (K8 loop no-bypass + K2), flush-empty (K1), flush-first (K2), world-symmetry (K4), lock (K6 on the two account maps).",
		Mutants: []Mutant{
			{Name: "reset-aliases-deposits", File: "service/state/account.go", Old: "s.deposits = snapshot.deposits.Clone()", New: "s.deposits = snapshot.deposits", Desc: "state shares deposit objects with the snapshot it was reset to"},
			{Name: "snapshot-aliases-objcache", File: "service/state/account.go", Old: "objCache:      s.objCache.Clone(),", New: "objCache:      s.objCache,", Desc: "snapshot shares the object cache map with the live state"},
			{Name: "reset-skips-lastaccounts", File: "service/state/worldstate.go", Old: "\t\t\tif err := as.Reset(value); err != nil {\n\t\t\t\treturn err\n\t\t\t}\n\t\t\tws.lastAccounts[ids] = value\n", New: "\t\t\tif err := as.Reset(value); err != nil {\n\t\t\t\treturn err\n\t\t\t}\n", Desc: "trie knowledge not updated on Reset: an account emptied later is never deleted"},
			{Name: "setblock-no-dirty", File: "service/state/account.go", Old: "\t\ts.state = s.state ^ ASBlocked\n\t\ts.markDirty()", New: "\t\ts.state = s.state ^ ASBlocked", Desc: "blocking a contract does not invalidate the cached snapshot"},
			{Name: "deposit-no-dirty", File: "service/state/account.go", Old: "\tamount, fee, err := s.deposits.WithdrawDeposit(dc, id, value)\n\tif err != nil {\n\t\treturn nil, nil, err\n\t}\n\ts.markDirty()", New: "\tamount, fee, err := s.deposits.WithdrawDeposit(dc, id, value)\n\tif err != nil {\n\t\treturn nil, nil, err\n\t}", Desc: "withdrawing a deposit does not invalidate the cached snapshot"},
			{Name: "setvalue-no-dirty", File: "service/state/account.go", Old: "\tif old, err := s.store.Set(k, v); err == nil {\n\t\ts.markDirty()\n\t\treturn old, nil", New: "\tif old, err := s.store.Set(k, v); err == nil {\n\t\treturn old, nil", Desc: "storage write does not invalidate the cached snapshot"},
			{Name: "reset-forgets-state", File: "service/state/account.go", Old: "\ts.state = snapshot.state\n", New: "", Desc: "Reset does not restore the account state flags"},
			{Name: "flush-keeps-empty", File: "service/state/worldstate.go", Old: "\t\tif s.IsEmpty() {\n\t\t\tif _, err := ws.accounts.Delete(key); err != nil {", New: "\t\tif s.IsEmpty() && len(key) == 0 {\n\t\t\tif _, err := ws.accounts.Delete(key); err != nil {", Desc: "an emptied account stays in the trie as an empty entry: hash differs from never-touched"},
			{Name: "snapshot-without-flush", File: "service/state/worldstate.go", Old: "\tws.flushAccountCacheInLock()\n\n\treturn &worldSnapshotImpl{", New: "\treturn &worldSnapshotImpl{", Desc: "world snapshot taken without flushing modified accounts"},
			{Name: "world-reset-skips-btp", File: "service/state/worldstate.go", Old: "\tws.btp.Reset(snapshot.GetBTPSnapshot())\n\treturn nil", New: "\treturn nil", Desc: "BTP state survives a Reset"},
		},
	})
}

// ---- effect summaries

type effects struct {
	c     *Ctx
	memo  map[*ssa.Function]int // 0 unknown, 1 computing, 2 pure, 3 mutates
	depth int
}

var ifaceMutators = map[string]bool{"Set": true, "Delete": true, "Reset": true, "Add": true, "Put": true, "Remove": true, "Clear": true, "Flush": false, "ClearCache": false}

// mutatesRecv: does fn change memory reachable from its receiver (param 0)?
func (e *effects) mutatesRecv(fn *ssa.Function, depth int) bool {
	if fn == nil || fn.Blocks == nil || len(fn.Params) == 0 {
		return false
	}
	switch e.memo[fn] {
	case 1:
		return false
	case 2:
		return false
	case 3:
		return true
	}
	e.memo[fn] = 1
	recv := ssa.Value(fn.Params[0])
	fromRecv := func(v ssa.Value) bool { return derivesFrom(v, func(x ssa.Value) bool { return x == recv }, 10) }
	res := false
	for _, b := range fn.Blocks {
		for _, in := range b.Instrs {
			switch x := in.(type) {
			case *ssa.Store:
				if _, isAlloc := x.Addr.(*ssa.Alloc); !isAlloc && fromRecv(x.Addr) {
					res = true
				}
			case *ssa.MapUpdate:
				if fromRecv(x.Map) {
					res = true
				}
			case ssa.CallInstruction:
				cc := x.Common()
				r, _ := callArgs(cc)
				if r == nil || !fromRecv(r) {
					continue
				}
				if cc.IsInvoke() {
					if ifaceMutators[cc.Method.Name()] {
						res = true
					}
					continue
				}
				if callee, ok := cc.Value.(*ssa.Function); ok && depth > 0 {
					if e.mutatesRecv(callee, depth-1) {
						res = true
					}
				}
			}
		}
	}
	if res {
		e.memo[fn] = 3
	} else {
		e.memo[fn] = 2
	}
	return res
}

func runC14(c *Ctx) {
	runC14Second(c)
	// Reset to a snapshot restores exactly that snapshot (rule of C16, whose runC16Extra needs only service/state)
	if !c.Sub {
		sub := &Ctx{Prop: c.Prop, Tier: c.Tier, L: c.L, Sub: true}
		func() {
			// runC16Extra goes on to packages C14 does not load; the rules wanted here come first
			defer func() { _ = recover() }()
			runC16Extra(sub)
		}()
		for _, o := range sub.obs {
			if strings.HasPrefix(o.Rule, "C16.snapshot-reset-agree") {
				o2 := *o
				o2.Rule = "C14.reset-agree/" + strings.TrimPrefix(o.Rule, "C16.")
				c.obs = append(c.obs, &o2)
			}
		}
		c.callSites += sub.callSites
	}
	runC14Extra(c)
	const pkg = "service/state"
	pf := c.pkgFuncs(pkg)
	eff := &effects{c: c, memo: map[*ssa.Function]int{}}

	isAcctMethod := func(f *ssa.Function) bool {
		return f.Signature.Recv() != nil && namedOf(f.Signature.Recv().Type()) == "accountStateImpl" && f.Parent() == nil
	}
	exempt := map[string]string{
		"markDirty":           "is the dirty mark",
		"GetSnapshot":         "sets the cached snapshot itself",
		"Reset":               "sets the cached snapshot itself",
		"Clear":               "zeroes the whole state including the cached snapshot",
		"attachCacheForStore": "cache plumbing, no logical change",
		"ClearCache":          "cache plumbing, no logical change",
	}
	notVisible := map[string]bool{"last": true, "key": true, "useCache": true}

	// ---- dirty
	nMut := 0
	inPlace := map[string]bool{} // accountData reference fields mutated in place by some method
	for _, f := range pf {
		if !isAcctMethod(f) {
			continue
		}
		if _, ex := exempt[f.Name()]; ex {
			continue
		}
		recv := ssa.Value(f.Params[0])
		fromRecv := func(v ssa.Value) bool { return derivesFrom(v, func(x ssa.Value) bool { return x == recv }, 10) }
		dirty := isCallTo(byCallee("(*service/state.accountStateImpl).markDirty"))
		type mut struct {
			in   ssa.Instruction
			what string
			errV ssa.Value
		}
		var muts []mut
		for _, b := range f.Blocks {
			for _, in := range b.Instrs {
				switch x := in.(type) {
				case *ssa.Store:
					if _, isAlloc := x.Addr.(*ssa.Alloc); isAlloc || !fromRecv(x.Addr) {
						continue
					}
					a := strings.TrimPrefix(render(x.Addr), "&")
					top := strings.TrimPrefix(a, "$r.")
					top = strings.TrimPrefix(top, "accountData.")
					if i := strings.IndexAny(top, ".["); i >= 0 {
						if !notVisible[top[:i]] {
							inPlaceField(top[:i], inPlace)
						}
						top = top[:i]
					}
					if notVisible[top] || top == "store" {
						// the store pointer (and its mirror in accountData) is plumbing: an
						// attached empty trie is not a logical change (GetSnapshot maps it to nil)
						continue
					}
					muts = append(muts, mut{in, "store to " + a, nil})
				case *ssa.Call:
					cc := x.Common()
					r, _ := callArgs(cc)
					if r == nil || !fromRecv(r) || r == recv {
						continue
					}
					mutating := false
					if cc.IsInvoke() {
						mutating = ifaceMutators[cc.Method.Name()] && cc.Method.Name() != "Reset"
					} else if callee, ok := cc.Value.(*ssa.Function); ok {
						mutating = eff.mutatesRecv(callee, 3)
					}
					if !mutating {
						continue
					}
					rr := strings.TrimPrefix(strings.TrimPrefix(render(r), "&"), "$r.")
					rr = strings.TrimPrefix(rr, "accountData.")
					if i := strings.IndexAny(rr, ".["); i >= 0 {
						rr = rr[:i]
					}
					inPlaceField(rr, inPlace)
					var errV ssa.Value
					res := cc.Signature().Results()
					for i := 0; i < res.Len(); i++ {
						if types.TypeString(res.At(i).Type(), nil) == "error" {
							if res.Len() == 1 {
								errV = x
							} else {
								for _, ref := range *x.Referrers() {
									if ex, ok := ref.(*ssa.Extract); ok && ex.Index == i {
										errV = ex
									}
								}
							}
						}
					}
					muts = append(muts, mut{in, "call " + methodName(cc) + " on " + rr, errV})
				}
			}
		}
		for _, m := range muts {
			nMut++
			name := f.Name() + ": " + m.what
			// every path from the mutation to an exit passes markDirty, or markDirty dominates it
			dominated := false
			for _, d := range c.calls(f, byCallee("(*service/state.accountStateImpl).markDirty")) {
				if dominatesInstr(d.Instr, m.in) {
					dominated = true
				}
			}
			if dominated {
				c.ok("C14.dirty", name, m.in.Pos(), "markDirty() dominates the mutation")
				continue
			}
			tr, bad := pathAvoidingBlocks(f, m.in, isReturn, dirty, func(b *ssa.BasicBlock) bool {
				// not obliged: paths on which the mutating call reported an error, or a
				// Delete removed nothing (empty old value) — nothing changed there.
				call, isCall := m.in.(*ssa.Call)
				isDelete := isCall && methodName(call.Common()) == "Delete"
				for _, alt := range altGuards(b) {
					excused := false
					if isDelete {
						if _, none := holds(alt, wGE("nothing was stored under the key", 0, t(-1, `^len\(.*\.Delete\(.*\)#0\)$`))); none {
							excused = true
						}
					}
					if m.errV != nil {
						for _, g := range alt {
							if bo, ok := g.Cond.(*ssa.BinOp); ok {
								p := predOf(g)
								if p.Kind == "same" && !p.Pol && (bo.X == m.errV || bo.Y == m.errV) {
									excused = true
								}
							}
						}
					}
					if !excused {
						return false
					}
				}
				return true
			})
			c.check(!bad, "C14.dirty", name, m.in.Pos(), "every path to an exit passes markDirty()", "the account changes and the method can return without markDirty(): GetSnapshot keeps returning the stale cached snapshot ("+traceString(tr)+")")
		}
	}
	if nMut < 20 {
		c.undecided("C14.dirty", "mutations", token.NoPos, fmt.Sprintf("expected ≥20 mutation sites in accountStateImpl methods, found %d", nMut))
	}

	// ---- snapshot literal and Reset
	gs := c.mustFn(pkg, "accountStateImpl", "GetSnapshot")
	rs := c.mustFn(pkg, "accountStateImpl", "Reset")
	if gs != nil && rs != nil {
		snapFields := map[string]ssa.Value{}
		for _, st := range fieldStoresAny([]*ssa.Function{gs}, "accountData") {
			if strings.Contains(render(st.Addr), "alloc<*state.accountSnapshotImpl>") {
				snapFields[fieldName(st.Addr.X.Type(), st.Addr.Field)] = st.Store.Val
			}
		}
		resetFields := map[string]ssa.Value{}
		for _, st := range fieldStoresAny([]*ssa.Function{rs}, "accountData") {
			if strings.HasPrefix(render(st.Addr), "&$r.") {
				resetFields[fieldName(st.Addr.X.Type(), st.Addr.Field)] = st.Store.Val
			}
		}
		var a, b []string
		for k := range snapFields {
			if k != "database" {
				a = append(a, k)
			}
		}
		for k := range resetFields {
			b = append(b, k)
		}
		sort.Strings(a)
		sort.Strings(b)
		c.check(strings.Join(a, ",") == strings.Join(b, ",") && len(a) >= 10, "C14.snapshot-reset-symmetry", "account GetSnapshot / Reset field sets", gs.Pos(), strings.Join(a, ","), "GetSnapshot captures {"+strings.Join(a, ",")+"} but Reset restores {"+strings.Join(b, ",")+"}")
		// each restored field comes from the same field of the snapshot
		for _, k := range b {
			v := render(resetFields[k])
			okSrc := strings.Contains(v, "accountSnapshotImpl)#0."+k) || strings.Contains(v, "accountSnapshotImpl)#0.accountData."+k) || strings.Contains(v, ".accountData."+k) || k == "store"
			c.check(okSrc, "C14.snapshot-reset-symmetry", "Reset restores "+k+" from snapshot."+k, rs.Pos(), v, "Reset sets "+k+" from "+v)
		}
		// ---- no-alias
		var ip []string
		for f := range inPlace {
			ip = append(ip, f)
		}
		sort.Strings(ip)
		nAlias := 0
		for _, f := range ip {
			for side, m := range map[string]map[string]ssa.Value{"GetSnapshot": snapFields, "Reset": resetFields} {
				v, ok := m[f]
				if !ok {
					continue
				}
				switch v.Type().Underlying().(type) {
				case *types.Pointer, *types.Slice, *types.Map:
				default:
					continue // value types are copied by assignment
				}
				nAlias++
				_, isCall := v.(*ssa.Call)
				c.check(isCall, "C14.no-alias", side+": "+f+" is copied, not shared", v.Pos(), render(v), "field "+f+" is mutated in place by account methods, and "+side+" stores "+render(v)+" without copying: a taken snapshot changes when the state changes (or vice versa)")
			}
		}
		if nAlias < 6 {
			c.undecided("C14.no-alias", "in-place mutated reference fields", gs.Pos(), fmt.Sprintf("expected ≥3 fields × 2 sides, found %d checks (%v)", nAlias, ip))
		}
		// GetSnapshot caches and returns the cache when clean
		for _, e := range exitAlts(gs) {
			if render(e.Results[0]) == "$r.last" {
				fresh := false
				for _, st := range fieldStores([]*ssa.Function{gs}, "accountStateImpl", "last") {
					if dominatesInstr(st.Store, e.Ret) {
						fresh = true
					}
				}
				if fresh {
					c.ok("C14.dirty", "fresh snapshot built and cached", e.pos(), "store to last dominates the return")
					continue
				}
				c.requireGuard("C14.dirty", "cached snapshot returned only when clean", e.pos(), e.Guards, wDiffer("last != nil", `^\$r\.last$`, `^nil$`))
			}
		}
		// Reset short-cut only for the identical snapshot
		for _, e := range successAlts(rs) {
			if _, ok := holds(e.Guards, wSame("same snapshot", `^\$r\.last$`, `accountSnapshotImpl\)#0$`)); ok {
				c.ok("C14.snapshot-reset-symmetry", "Reset short-cut", e.pos(), "only when the state is clean at that very snapshot")
			}
		}
	}
	// markDirty clears the cache
	if md := c.mustFn(pkg, "accountStateImpl", "markDirty"); md != nil {
		okMd := false
		for _, st := range fieldStores([]*ssa.Function{md}, "accountStateImpl", "last") {
			okMd = isNilConst(st.Store.Val)
		}
		c.check(okMd, "C14.dirty", "markDirty drops the cached snapshot", md.Pos(), "last = nil", "markDirty does not clear the cached snapshot")
	}
	for _, st := range fieldStores(pf, "accountStateImpl", "last") {
		n := st.Fn.Name()
		c.check(n == "markDirty" || n == "GetSnapshot" || n == "Reset" || n == "Clear" || n == "newAccountState", "C14.dirty", "writer of accountStateImpl.last: "+fnName(st.Fn), st.Store.Pos(), "expected writer", "unexpected writer of the snapshot cache")
	}

	// ---- world state
	wr := c.mustFn(pkg, "worldStateImpl", "Reset")
	fl := c.mustFn(pkg, "worldStateImpl", "flushAccountCacheInLock")
	wg := c.mustFn(pkg, "worldStateImpl", "GetSnapshot")
	cc := c.mustFn(pkg, "worldStateImpl", "ClearCache")
	if wr == nil || fl == nil || wg == nil || cc == nil {
		return
	}
	isLastUpd := func(in ssa.Instruction) bool {
		switch x := in.(type) {
		case *ssa.MapUpdate:
			return render(x.Map) == "$r.lastAccounts"
		case *ssa.Call:
			if calleeName(x.Common()) == "builtin:delete" {
				return render(x.Call.Args[0]) == "$r.lastAccounts"
			}
		}
		return false
	}
	// Reset: per account, lastAccounts updated on every iteration
	{
		var hdr *ssa.BasicBlock
		for _, b := range wr.Blocks {
			for _, in := range b.Instrs {
				if nx, ok := in.(*ssa.Next); ok && strings.Contains(render(nx.Iter), "$r.mutableAccounts") {
					hdr = b
				}
			}
		}
		if hdr == nil {
			c.undecided("C14.last-accounts", "worldState.Reset account loop", wr.Pos(), "range over mutableAccounts not found")
		} else {
			last := hdr.Instrs[len(hdr.Instrs)-1]
			tr, bad := pathAvoiding(wr, last, func(in ssa.Instruction) bool { return in == hdr.Instrs[0] }, isLastUpd)
			c.check(!bad, "C14.last-accounts", "Reset mirrors the trie entry of every cached account", wr.Pos(), "lastAccounts set or deleted on every iteration", "an account is reset without updating lastAccounts: a later flush misjudges whether the trie holds it ("+traceString(tr)+")")
			for _, b := range wr.Blocks {
				for _, in := range b.Instrs {
					if mu, ok := in.(*ssa.MapUpdate); ok && render(mu.Map) == "$r.lastAccounts" {
						c.check(strings.Contains(render(mu.Value), ".getAccountSnapshotWithKey("), "C14.last-accounts", "Reset records the trie's snapshot", mu.Pos(), render(mu.Value), "records "+render(mu.Value))
						c.requireAt("C14.last-accounts", "Reset: set when the trie holds the account", mu, wDiffer("value != nil", `getAccountSnapshotWithKey\(`, `^nil$`))
					}
					if cl, ok := in.(*ssa.Call); ok && calleeName(cl.Common()) == "builtin:delete" && render(cl.Call.Args[0]) == "$r.lastAccounts" {
						c.requireAt("C14.last-accounts", "Reset: deleted when the trie does not hold the account", cl, wSame("value == nil", `getAccountSnapshotWithKey\(`, `^nil$`))
					}
				}
			}
			// account state follows: Clear when absent, Reset(value) when present
			for _, cs := range c.calls(wr, byMethod("Clear")) {
				c.requireAt("C14.last-accounts", "Reset: absent account is cleared", cs.Instr, wSame("value == nil", `getAccountSnapshotWithKey\(`, `^nil$`))
			}
		}
		// accounts trie reset first
		ar := c.calls(wr, func(cc *ssa.CallCommon) bool {
			r, _ := callArgs(cc)
			return methodName(cc) == "Reset" && r != nil && render(r) == "$r.accounts"
		})
		c.check(len(ar) == 1, "C14.world-symmetry", "Reset resets the account trie", wr.Pos(), "accounts.Reset(snapshot.accounts)", "account trie not reset exactly once")
	}
	// flush
	{
		var setC, delC callSite
		for _, cs := range c.calls(fl, func(cc *ssa.CallCommon) bool {
			r, _ := callArgs(cc)
			return r != nil && render(r) == "$r.accounts"
		}) {
			switch methodName(cs.Common()) {
			case "Set":
				setC = cs
			case "Delete":
				delC = cs
			}
		}
		if setC.Instr == nil || delC.Instr == nil {
			c.violate("C14.flush-empty", "flush writes the trie", fl.Pos(), "accounts.Set / accounts.Delete not both present")
		} else {
			c.requireAt("C14.flush-empty", "empty account is deleted from the trie", delC.Instr, wTrue("snapshot is empty", `\.GetSnapshot\(\)\.IsEmpty\(\)$`))
			c.requireAt("C14.flush-empty", "non-empty account is stored", setC.Instr, wFalse("snapshot not empty", `\.GetSnapshot\(\)\.IsEmpty\(\)$`))
			_, sa := callArgs(setC.Common())
			c.check(strings.HasSuffix(render(sa[1]), ".GetSnapshot()"), "C14.flush-empty", "the stored object is the account's snapshot", setC.Pos(), render(sa[1]), "stores "+render(sa[1]))
			for _, w := range []callSite{setC, delC} {
				okRec := false
				for _, b := range fl.Blocks {
					for _, in := range b.Instrs {
						if mu, ok := in.(*ssa.MapUpdate); ok && render(mu.Map) == "$r.lastAccounts" && strings.HasSuffix(render(mu.Value), ".GetSnapshot()") && dominatesInstr(mu, w.Instr) {
							okRec = true
						}
					}
				}
				c.check(okRec, "C14.last-accounts", "flush records the snapshot before accounts."+methodName(w.Common()), w.Pos(), "lastAccounts[ids] = s dominates", "the trie is changed without recording the snapshot in lastAccounts")
			}
			// skip conditions: unchanged, or never-existed and empty
			h := loopHeaderOf(setC.Instr.Block())
			if h != nil {
				for _, p := range h.Preds {
					if !h.Dominates(p) || p == setC.Instr.Block() || p == delC.Instr.Block() {
						continue
					}
					if blockReaches(setC.Instr.Block(), p, h) || blockReaches(delC.Instr.Block(), p, h) {
						continue
					}
					okSkip := false
					for _, alt := range altGuards(p) {
						_ = alt
					}
					gsP := guardsOnEdge(p, h)
					_, same := holds(gsP, wSame("unchanged since recorded", `^\$r\.lastAccounts\[`, `\.GetSnapshot\(\)$`))
					_, emp := holds(gsP, wTrue("empty", `\.GetSnapshot\(\)\.IsEmpty\(\)$`))
					_, none := holds(gsP, wSame("never existed", `^\$r\.lastAccounts\[`, `^nil$`))
					okSkip = same || (emp && none)
					c.check(okSkip, "C14.flush-empty", "flush skips an account only if unchanged or never-existed-and-empty", p.Instrs[0].Pos(), guardsString(gsP), "an account is skipped under "+guardsString(gsP))
				}
			}
		}
	}
	// flush-first
	for _, f := range []*ssa.Function{wg, cc} {
		fc := c.calls(f, byCallee("(*service/state.worldStateImpl).flushAccountCacheInLock"))
		if len(fc) == 0 {
			c.violate("C14.flush-first", f.Name()+" flushes the account cache", f.Pos(), "modified accounts are not flushed into the trie first")
			continue
		}
		for _, cs := range c.calls(f, func(cc *ssa.CallCommon) bool {
			r, _ := callArgs(cc)
			return r != nil && render(r) == "$r.accounts"
		}) {
			c.check(dominatesInstr(fc[0].Instr, cs.Instr), "C14.flush-first", f.Name()+": flush before accounts."+methodName(cs.Common()), cs.Pos(), "flush dominates", "the account trie is read/cleared before the cache is flushed")
		}
		for _, st := range fieldStoresAny([]*ssa.Function{f}, "worldStateImpl") {
			c.check(dominatesInstr(fc[0].Instr, st.Store), "C14.flush-first", f.Name()+": flush before dropping "+fieldName(st.Addr.X.Type(), st.Addr.Field), st.Store.Pos(), "flush dominates", "cached accounts are dropped before being flushed")
		}
	}
	// world-symmetry
	{
		snap := map[string]string{}
		for _, st := range fieldStoresAny([]*ssa.Function{wg}, "worldSnapshotImpl") {
			snap[fieldName(st.Addr.X.Type(), st.Addr.Field)] = render(st.Store.Val)
		}
		for _, comp := range []string{"accounts", "validators", "extension", "btp"} {
			c.check(strings.HasPrefix(snap[comp], "$r."+comp) && strings.HasSuffix(snap[comp], ".GetSnapshot()"), "C14.world-symmetry", "world snapshot captures "+comp, wg.Pos(), snap[comp], "snapshot."+comp+" = "+snap[comp])
			n := 0
			for _, cs := range c.calls(wr, byMethod("Reset")) {
				r, _ := callArgs(cs.Common())
				if r != nil && strings.TrimPrefix(render(r), "&") == "$r."+comp {
					n++
				}
			}
			c.check(n == 1, "C14.world-symmetry", "world Reset restores "+comp, wr.Pos(), "reset once", fmt.Sprintf("component %s is reset %d times by worldState.Reset", comp, n))
		}
		c.check(snap["database"] == "$r.database", "C14.world-symmetry", "world snapshot database", wg.Pos(), "same database", snap["database"])
	}
	// lock
	for _, f := range pf {
		if f.Signature.Recv() == nil || namedOf(f.Signature.Recv().Type()) != "worldStateImpl" || f.Parent() != nil {
			continue
		}
		touches := false
		for _, b := range f.Blocks {
			for _, in := range b.Instrs {
				if fa, ok := in.(*ssa.FieldAddr); ok && render(fa.X) == "$r" {
					n := fieldName(fa.X.Type(), fa.Field)
					if n == "mutableAccounts" || n == "lastAccounts" {
						touches = true
					}
				}
			}
		}
		if !touches {
			continue
		}
		locks := len(c.calls(f, func(cc *ssa.CallCommon) bool {
			r, _ := callArgs(cc)
			return methodName(cc) == "Lock" && r != nil && strings.HasSuffix(render(r), "$r.mutex")
		})) > 0
		if locks || strings.HasSuffix(f.Name(), "InLock") {
			c.okTrivial("C14.lock", f.Name()+" holds the world-state mutex", f.Pos(), "locks or is an *InLock helper")
			if strings.HasSuffix(f.Name(), "InLock") {
				for _, g := range pf {
					for _, cs := range c.calls(g, byCallee("(*service/state.worldStateImpl)."+f.Name())) {
						gl := len(c.calls(g, byMethod("Lock"))) > 0
						c.check(gl, "C14.lock", g.Name()+" calls "+f.Name()+" with the mutex held", cs.Pos(), "caller locks", "caller does not hold the mutex")
					}
				}
			}
			continue
		}
		c.violate("C14.lock", f.Name()+" touches the account maps without the mutex", f.Pos(), "unsynchronised access to mutableAccounts/lastAccounts")
	}
}

func inPlaceField(f string, set map[string]bool) {
	switch f {
	case "", "last", "key", "useCache", "store":
		return
	}
	set[f] = true
}

// pathAvoidingBlocks is pathAvoiding with an additional block filter: blocks
// for which skip returns true are not entered.
func pathAvoidingBlocks(fn *ssa.Function, from ssa.Instruction, target, avoid func(ssa.Instruction) bool, skip func(*ssa.BasicBlock) bool) ([]*ssa.BasicBlock, bool) {
	return pathAvoiding(fn, from, target, func(in ssa.Instruction) bool {
		if avoid(in) {
			return true
		}
		b := in.Block()
		if len(b.Instrs) > 0 && b.Instrs[0] == in && b != from.Block() && skip(b) {
			return true
		}
		return false
	})
}

// runC14Extra: rules added after independently produced mutants were missed.
func runC14Extra(c *Ctx) {
	const pk = "service/state"
	// (1) Equal compares every field that is part of the account's content
	if fn := c.mustFn(pk, "accountSnapshotImpl", "Equal"); fn != nil {
		read := map[string]bool{}
		for _, b := range fn.Blocks {
			for _, in := range b.Instrs {
				fa, ok := in.(*ssa.FieldAddr)
				if !ok {
					continue
				}
				if strings.HasPrefix(render(fa), "&$r.") {
					read[fieldName(fa.X.Type(), fa.Field)] = true
				}
			}
		}
		// content fields of accountData (database and the object cache are not content) plus objGraph
		for _, f := range []string{"version", "balance", "isContract", "state", "contractOwner", "apiInfo", "curContract", "nextContract", "store", "deposits", "objGraph"} {
			c.check(read[f], "C14.equal-covers", "accountSnapshot.Equal compares "+f, fn.Pos(), "read", "Equal ignores the "+f+" of an account: the trie treats a change of only that field as no change, so the hash and the stored snapshot stay stale")
		}
	}
	// (2) an empty storage trie is recorded as `no storage`
	if fn := c.mustFn(pk, "accountStateImpl", "GetSnapshot"); fn != nil {
		n := 0
		for _, fs := range fieldStoresAny([]*ssa.Function{fn}, "accountData") {
			if fieldName(fs.Addr.X.Type(), fs.Addr.Field) != "store" {
				continue
			}
			for _, fl := range flowsOf(fs.Store.Val, nil) {
				if isNilConst(fl.Src) {
					continue
				}
				n++
				gs := append(append([]Guard{}, fl.Guards...), guardsAt(fs.Store)...)
				_, okE := holds(gs, wFalse("not empty", `\.Empty\(\)$`))
				c.check(okE, "C14.canonical-empty", "a storage snapshot is recorded only if it is not empty", fs.Store.Pos(), "store.Empty() → nil", "an emptied storage trie is kept in the snapshot: an account whose storage was written and deleted again differs from a never-touched one, so the state hash depends on history")
			}
		}
		c.check(n >= 1, "C14.canonical-empty", "GetSnapshot records the storage", fn.Pos(), fmt.Sprint(n), "no storage snapshot recorded")
	}
	// (3) Reset to a snapshot without storage clears both views of the storage
	if fn := c.mustFn(pk, "accountStateImpl", "Reset"); fn != nil {
		var a, b []*ssa.Store
		for _, blk := range fn.Blocks {
			for _, in := range blk.Instrs {
				st, ok := in.(*ssa.Store)
				if !ok || !isNilConst(st.Val) {
					continue
				}
				fa, ok := st.Addr.(*ssa.FieldAddr)
				if !ok || fieldName(fa.X.Type(), fa.Field) != "store" {
					continue
				}
				if namedOf(fa.X.Type()) == "accountStateImpl" {
					a = append(a, st)
				} else if namedOf(fa.X.Type()) == "accountData" {
					b = append(b, st)
				}
			}
		}
		ok := len(a) == 1 && len(b) == 1 && a[0].Block() == b[0].Block()
		c.check(ok, "C14.reset-complete", "Reset to a snapshot without storage drops the mutable and the read view of the storage together", fn.Pos(), "s.store = nil; s.accountData.store = nil", "only one of the two storage references is cleared: after Reset, reads still see values written after the snapshot")
	}
	// (4) world Reset: the account trie is reset before the cached accounts are re-synchronised from it
	if fn := c.mustFn(pk, "worldStateImpl", "Reset"); fn != nil {
		var trieReset ssa.Instruction
		for _, cs := range c.calls(fn, byMethod("Reset")) {
			r, _ := callArgs(cs.Common())
			if strings.HasSuffix(render(r), "$r.accounts") {
				trieReset = cs.Instr
			}
		}
		if !c.check(trieReset != nil, "C14.reset-complete", "world Reset resets the account trie", fn.Pos(), "ws.accounts.Reset(snapshot.accounts)", "the account trie is not reset") {
		} else {
			for _, cs := range c.calls(fn, byCallee("worldStateImpl).getAccountSnapshotWithKey")) {
				c.check(dominatesInstr(trieReset, cs.Instr), "C14.reset-complete", "cached accounts are re-read from the trie after it was reset", cs.Pos(), "accounts.Reset → lookups", "the cached accounts are re-synchronised from the account trie before it is reset to the target snapshot: they keep the state from after the snapshot")
			}
		}
	}
	// (5) Flush writes every part of the account on every path
	if fn := c.mustFn(pk, "accountSnapshotImpl", "Flush"); fn != nil {
		type part struct{ field, method string }
		for _, p := range []part{{"apiInfo", "Flush"}, {"curContract", "flush"}, {"nextContract", "flush"}, {"objGraph", "flush"}, {"store", "Flush"}} {
			var call ssa.Instruction
			for _, cs := range c.calls(fn, byMethod(p.method)) {
				r, _ := callArgs(cs.Common())
				if strings.Contains(render(r), "$r."+p.field) || strings.Contains(render(r), "."+p.field) {
					call = cs.Instr
				}
			}
			if !c.check(call != nil, "C14.flush-complete", "Flush writes the account's "+p.field, fn.Pos(), "found", "the "+p.field+" of an account is never flushed") {
				continue
			}
			for _, e := range successAlts(fn) {
				tr, reach := pathAvoidingEdges(fn, nil, isInstr(e.Ret), isInstr(call),
					wSame(p.field+" absent", `\.`+p.field+`$`, `^nil`),
					wFalse("not a flushable snapshot", `\.`+p.field+`\.\(.*\)#1$`))
				c.check(!reach, "C14.flush-complete", "Flush succeeds only after writing the "+p.field+" (when present)", e.pos(), "no bypass", "Flush can return success without writing the "+p.field+" although it is present: after a reload the hash is right but the data is unreadable ("+traceString(tr)+")")
			}
		}
	}
	// (6) the cache flush visits every cached account
	if fn := c.mustFn(pk, "worldStateImpl", "flushAccountCacheInLock"); fn != nil {
		var hdr *ssa.BasicBlock
		for _, cs := range c.calls(fn, byMethod("GetSnapshot")) {
			hdr = loopHeaderOf(cs.Instr.Block())
		}
		if hdr == nil {
			c.violate("C14.flush-complete", "the account cache is flushed in a loop over the cached accounts", fn.Pos(), "no loop found")
		} else {
			body := loopBody(hdr)
			early := false
			for _, b := range fn.Blocks {
				if !body[b] || b == hdr {
					continue
				}
				for _, sc := range b.Succs {
					if !body[sc] {
						early = true
						c.violate("C14.flush-complete", "flushing the account cache visits every cached account", b.Instrs[len(b.Instrs)-1].Pos(), "the flush loop is left from inside its body (return/break): accounts later in the (random) map order are not written, so the state hash depends on access order")
					}
				}
			}
			if early {
				return
			}
			c.ok("C14.flush-complete", "flushing the account cache visits every cached account", fn.Pos(), "no return inside the loop")
		}
	}
}

// runC14Second: rules added for the second list of independent mutants.
// (1) Reset records the snapshot it restored as the cached one; (2) ClearCache
// drops both per-account caches together (an account object that survives
// without its recorded trie entry is flushed as `unchanged`); (3) a read of an
// account's snapshot consults the cached mutable account before the trie.
// runC14Third: emptiness covers every field an account can carry without a contract; Clear
// produces the same object a fresh account starts as.
func runC14Third(c *Ctx) {
	const pkg = "service/state"
	if f := c.mustFn(pkg, "accountData", "IsEmpty"); f != nil {
		read := map[string]bool{}
		for _, b := range f.Blocks {
			for _, in := range b.Instrs {
				if fa, ok := in.(*ssa.FieldAddr); ok && namedOf(fa.X.Type()) == "accountData" {
					read[faName(fa)] = true
				}
			}
		}
		for _, fld := range []string{"balance", "store", "isContract", "state"} {
			c.check(read[fld], "C14.canonical-empty", "IsEmpty examines "+fld, f.Pos(), "read", "IsEmpty does not look at "+fld+": an account whose only content is that field is treated as absent and never reaches the trie, while it stays observable through the cache")
		}
	}
	// GetSnapshot takes the object graph from objCache, not from the field: a decoded graph must be
	// registered there, or the next snapshot of a loaded contract account silently loses it
	if f := c.mustFn(pkg, "accountSnapshotImpl", "RLPDecodeSelf"); f != nil {
		n := 0
		for _, cs := range c.calls(f, byMethod("Decode")) {
			_, a := callArgs(cs.Common())
			isG := false
			for _, x := range a {
				if strings.HasSuffix(render(x), "$r.objGraph") || strings.HasSuffix(render(x), "$r.accountData.objGraph") {
					isG = true
				}
			}
			if !isG {
				continue
			}
			n++
			_, skip := pathAvoiding(f, cs.Instr, func(in ssa.Instruction) bool {
				r, ok := in.(*ssa.Return)
				return ok && len(r.Results) == 1 && isNilConst(r.Results[0])
			}, func(in ssa.Instruction) bool {
				cl, ok := in.(*ssa.Call)
				if !ok || methodName(cl.Common()) != "Set" {
					return false
				}
				r, _ := callArgs(cl.Common())
				return r != nil && strings.HasSuffix(render(r), "objCache")
			})
			c.check(!skip, "C14.cache-pair", "a decoded object graph is registered in objCache before RLPDecodeSelf succeeds", cs.Pos(), "objCache.Set on every path to return nil", "RLPDecodeSelf can succeed with a decoded object graph that is not in objCache: GetSnapshot rebuilds the graph from the cache, so a loaded contract account loses its object graph (and its hash changes) as soon as it is touched")
		}
		if n == 0 {
			c.undecided("C14.cache-pair", "RLPDecodeSelf", f.Pos(), "no Decode(&s.objGraph)")
		}
	}
	if f := c.mustFn(pkg, "accountStateImpl", "Clear"); f != nil {
		av, okV := c.constVal(pkg, "AccountVersion")
		n := 0
		for _, st := range fieldStores([]*ssa.Function{f}, "accountData", "version") {
			n++
			k, isK := constInt(st.Store.Val)
			c.check(okV && isK && k == av, "C14.canonical-empty", "Clear gives the account the current version", st.Store.Pos(), "version = AccountVersion", "version = "+render(st.Store.Val))
		}
		if n == 0 {
			c.violate("C14.canonical-empty", "Clear gives the account the current version", f.Pos(), "Clear leaves the version unset: an account re-created after a rollback is encoded with another version than a fresh one, the state hash depends on the rollback history")
		}
	}
}

func runC14Second(c *Ctx) {
	runC14Third(c)
	const pkg = "service/state"
	if f := c.mustFn(pkg, "accountStateImpl", "Reset"); f != nil {
		lastStores := fieldStores([]*ssa.Function{f}, "accountStateImpl", "last")
		okL := false
		for _, st := range lastStores {
			if strings.Contains(render(st.Store.Val), "$0.(*state.accountSnapshotImpl)") {
				okL = true
				// every exit that restored fields passed it: from the first field restore, no way to an exit round the store
				for _, fs := range fieldStoresAny([]*ssa.Function{f}, "accountData") {
					if dominatesInstr(st.Store, fs.Store) {
						continue
					}
					if _, by := pathAvoiding(f, fs.Store, isReturn, func(in ssa.Instruction) bool { return in == ssa.Instruction(st.Store) }); by {
						okL = false
					}
				}
			}
		}
		c.check(okL, "C14.reset-records-last", "account Reset records the restored snapshot as its cached snapshot", f.Pos(), "s.last = snapshot", "Reset restores the fields but keeps the previously cached snapshot: the next GetSnapshot of the (clean) account hands out the stale one and the state hash is that of another history")
	}
	if f := c.mustFn(pkg, "worldStateImpl", "ClearCache"); f != nil {
		got := map[string]bool{}
		for _, nm := range []string{"mutableAccounts", "lastAccounts"} {
			for _, st := range fieldStores([]*ssa.Function{f}, "worldStateImpl", nm) {
				if _, fresh := st.Store.Val.(*ssa.MakeMap); fresh {
					got[nm] = true
				}
			}
		}
		c.check(got["mutableAccounts"] == got["lastAccounts"] && got["lastAccounts"], "C14.cache-pair", "ClearCache drops the account objects and their recorded trie entries together", f.Pos(), "both maps replaced", fmt.Sprintf("ClearCache replaces mutableAccounts=%v lastAccounts=%v: a cached account without its recorded entry is taken for unchanged at the next flush", got["mutableAccounts"], got["lastAccounts"]))
	}
	// an empty value is a deletion: nothing of length 0 is ever stored (an account that only ever
	// saw empty values must stay indistinguishable from an untouched one)
	if f := c.mustFn(pkg, "accountStateImpl", "SetValue"); f != nil {
		n := 0
		for _, cs := range c.calls(f, byMethod("Set")) {
			if !strings.HasSuffix(render(cs.Common().Value), ".store") {
				continue
			}
			n++
			c.requireAt("C14.canonical-empty", "SetValue stores a value", cs.Instr, wGE("len(v) ≥ 1", -1, t(1, `^len\(\$1\)$`)))
		}
		for _, st := range fieldStores([]*ssa.Function{f}, "accountStateImpl", "store") {
			c.requireAt("C14.canonical-empty", "SetValue creates the storage trie", st.Store, wGE("len(v) ≥ 1", -1, t(1, `^len\(\$1\)$`)))
		}
		if n == 0 {
			c.undecided("C14.canonical-empty", "SetValue", f.Pos(), "store.Set not found")
		}
	}
	if f := c.mustFn(pkg, "worldStateImpl", "GetAccountSnapshot"); f != nil {
		n := 0
		for _, cs := range c.calls(f, byMethod("getAccountSnapshotWithKey")) {
			n++
			c.requireAt("C14.cache-first", "GetAccountSnapshot reads the trie", cs.Instr, wFalse("no cached mutable account for the id", `^\$r\.mutableAccounts\[.*\]#1$`))
		}
		if n == 0 {
			// a direct trie read without the helper
			for _, cs := range c.calls(f, byMethod("Get")) {
				if strings.Contains(render(cs.Common().Value), ".accounts") {
					n++
					c.requireAt("C14.cache-first", "GetAccountSnapshot reads the trie", cs.Instr, wFalse("no cached mutable account for the id", `^\$r\.mutableAccounts\[.*\]#1$`))
				}
			}
		}
		if n == 0 {
			c.undecided("C14.cache-first", "GetAccountSnapshot", f.Pos(), "trie read not found")
		}
	}
}
