package main

import (
	"fmt"
	"go/token"
	"strings"

	"golang.org/x/tools/go/ssa"
)

// C15 — transaction fees and transfers conserve ICX.
func init() {
	register(&Prop{
		ID:             "C15",
		Pkgs:           []string{"service/transaction", "service/contract", "service"},
		Run:            runC15,
		MinObligations: 20,
		Technique:      "static analysis: guard dominance of every debit (balance ≥ amount on the same values), ordering of debit/credit reads and writes, value identity between the steps charged and the steps reported, must-pass-through of the balance re-read after a rollback, accumulation dataflow of the treasury credit",
		LevelText:      "Decides on all paths: every `SetBalance(bal − amount)` in the transfer handler and the fee charge is reachable only where `bal ≥ amount` was established on those very values (or the amount was just zeroed); a plain transfer rejects negative values, debits and credits the same amount, writes the debit before it reads the recipient's balance (so a self-transfer nets to zero), and every successful exit has credited; the steps charged to the payer are the very value reported as steps used (after the minimum-charge clamp), possibly minus redeemed steps, multiplied by the price reported; every zeroing of the fee co-occurs with zeroing the price or both step counts; after any world-state rollback the payer's balance is read again before it is compared or written; the treasury credit is the sum over both receipt slices of the receipts' own fee and is added to the treasury's current balance.",
		LevelNote:      "Arithmetic totals, fee sharing (deposits) internals and step accounting inside the call context are not decided.",
		Explanation:    "C15 rules: debit-guard (K1 on SSA-identical operands, with the zeroed-fee exception), transfer-pair (K2/K5/K8), charged-equals-reported (K5 value identity across the clamp), fee-zeroing (K8 co-occurrence via loop phis), reread-after-reset (K2 path search), treasury (K5).",
		Mutants: []Mutant{
			{Name: "self-transfer-mints", File: "service/contract/transferhandler.go", Old: "\tas1.SetBalance(new(big.Int).Sub(bal1, h.Value))\n\n\tas2 := cc.GetAccountState(h.To.ID())\n\tif as2.IsContract() != h.To.IsContract() {\n\t\treturn scoreresult.InvalidParameterError.Errorf(\n\t\t\t\"InvalidAddress(%s)\", h.To.String()), nil, nil\n\t}\n\tbal2 := as2.GetBalance()\n", New: "\tas2 := cc.GetAccountState(h.To.ID())\n\tif as2.IsContract() != h.To.IsContract() {\n\t\treturn scoreresult.InvalidParameterError.Errorf(\n\t\t\t\"InvalidAddress(%s)\", h.To.String()), nil, nil\n\t}\n\tbal2 := as2.GetBalance()\n\tas1.SetBalance(new(big.Int).Sub(bal1, h.Value))\n", Desc: "recipient balance read before the debit is written: from == to gains the value"},
			{Name: "charge-unclamped-steps", File: "service/transaction/transactionhandler.go", Old: "\tstepUsed := cc.StepUsed()\n", New: "\tstepUsed := cc.StepUsed()\n\tstepToPay := stepUsed\n", Desc: "steps charged taken before the minimum clamp (second edit in the same mutant below)"},
			{Name: "transfer-negative-allowed", File: "service/contract/transferhandler.go", Old: "\tif h.Value.Sign() == -1 {", New: "\tif h.Value.Sign() == -1 && h.From.IsContract() {", Desc: "negative transfer from an EOA moves funds backwards"},
			{Name: "transfer-balance-check-weak", File: "service/contract/transferhandler.go", Old: "\tif bal1.Cmp(h.Value) < 0 {", New: "\tif bal1.Sign() < 0 {", Desc: "transfer does not check the balance against the value"},
			{Name: "credit-other-amount", File: "service/contract/transferhandler.go", Old: "as2.SetBalance(new(big.Int).Add(bal2, h.Value))", New: "as2.SetBalance(new(big.Int).Add(bal2, bal1))", Desc: "credit differs from the debit"},
			{Name: "stale-balance-after-rollback", File: "service/transaction/transactionhandler.go", Old: "\t\t\tctx.Reset(wcs)\n\t\t\tbal = as.GetBalance()\n\t\t\tif redeemed != nil {\n\t\t\t\tcc.ClearRedeemLogs()\n\t\t\t\tlogger.TSystemf(\"STEP rollback value=%d\", stepUsed)\n\t\t\t\tstepToPay = stepUsed\n\t\t\t}\n\t\t\tfee.Mul(stepToPay, stepPrice)", New: "\t\t\tctx.Reset(wcs)\n\t\t\tif redeemed != nil {\n\t\t\t\tbal = as.GetBalance()\n\t\t\t\tcc.ClearRedeemLogs()\n\t\t\t\tlogger.TSystemf(\"STEP rollback value=%d\", stepUsed)\n\t\t\t\tstepToPay = stepUsed\n\t\t\t}\n\t\t\tfee.Mul(stepToPay, stepPrice)", Desc: "balance not re-read after the rollback: the stale post-execution balance is written back"},
			{Name: "fee-zero-price-kept", File: "service/transaction/transactionhandler.go", Old: "\t\t\tstepPrice = new(big.Int)\n\t\t\tfee.SetInt64(0)", New: "\t\t\tfee.SetInt64(0)", Desc: "fee zeroed but the receipt still reports the price: treasury is credited a fee nobody paid"},
			{Name: "treasury-forgets-patch-receipts", File: "service/transition.go", Old: "for _, receipts := range [][]txresult.Receipt{patchReceipts, normalReceipts} {", New: "for _, receipts := range [][]txresult.Receipt{normalReceipts} {", Desc: "fees of patch transactions never reach the treasury"},
		},
	})
	// the second half of the two-site mutant
	p := findProp("C15")
	for i := range p.Mutants {
		if p.Mutants[i].Name == "charge-unclamped-steps" {
			p.Mutants[i].File = "service/transaction/transactionhandler.go"
			p.Mutants[i].Old = "\tstepUsed := cc.StepUsed()\n\tif isPatch {\n\t\tstepPrice = new(big.Int)\n\t\tlogger.TSystem(\"TRANSACTION reset stepPrice=0 msg=\\\"patch tx\\\"\")\n\t}\n\tminSteps := big.NewInt(cc.StepsFor(state.StepTypeDefault, 1))\n\tif stepUsed.Cmp(minSteps) == -1 {\n\t\told := stepUsed\n\t\tstepUsed = minSteps\n\t\tlogger.TSystemf(\"STEP reset value=%d old=%d msg=\\\"sustain minimum\\\"\",\n\t\t\tminSteps, old)\n\t}\n\n\tstepToPay := stepUsed\n"
			p.Mutants[i].New = "\tstepUsed := cc.StepUsed()\n\tstepToPay := stepUsed\n\tif isPatch {\n\t\tstepPrice = new(big.Int)\n\t\tlogger.TSystem(\"TRANSACTION reset stepPrice=0 msg=\\\"patch tx\\\"\")\n\t}\n\tminSteps := big.NewInt(cc.StepsFor(state.StepTypeDefault, 1))\n\tif stepUsed.Cmp(minSteps) == -1 {\n\t\told := stepUsed\n\t\tstepUsed = minSteps\n\t\tlogger.TSystemf(\"STEP reset value=%d old=%d msg=\\\"sustain minimum\\\"\",\n\t\t\tminSteps, old)\n\t}\n\n"
			p.Mutants[i].Desc = "steps charged are taken before the minimum-charge clamp: receipt reports more than was paid"
		}
	}
}

// subCall recognises new(big.Int).Sub(a, b) (or Add) and returns a, b.
func bigBin(v ssa.Value, name string) (a, b ssa.Value, ok bool) {
	call, isCall := v.(*ssa.Call)
	if !isCall || calleeName(call.Common()) != "(*math/big.Int)."+name {
		return nil, nil, false
	}
	_, args := callArgs(call.Common())
	if len(args) != 2 {
		return nil, nil, false
	}
	return args[0], args[1], true
}

// geGuardOn: a guard that establishes x >= y on these very SSA values.
func geGuardOn(gs []Guard, x, y ssa.Value) (string, bool) {
	for _, g := range gs {
		bo, ok := g.Cond.(*ssa.BinOp)
		if !ok {
			continue
		}
		var cmp *ssa.Call
		if c1, ok := bo.X.(*ssa.Call); ok && methodName(c1.Common()) == "Cmp" {
			cmp = c1
		} else if c2, ok := bo.Y.(*ssa.Call); ok && methodName(c2.Common()) == "Cmp" {
			cmp = c2
		}
		if cmp == nil {
			continue
		}
		r, a := callArgs(cmp.Common())
		p := predOf(g)
		if p.Kind != "ge" || len(p.L.T) != 2 {
			continue
		}
		if sameOperand(r, x) && sameOperand(a[0], y) && p.L.T[bigAtom(x)] == 1 && p.L.K <= 0 {
			return p.String(), true
		}
		if sameOperand(r, y) && sameOperand(a[0], x) && p.L.T[bigAtom(x)] == 1 && p.L.K <= 0 {
			return p.String(), true
		}
	}
	return "", false
}

// sameOperand: identical SSA value, or two address expressions of the same
// field path (a field address has no SSA identity across uses).
func sameOperand(a, b ssa.Value) bool {
	if a == b {
		return true
	}
	isPath := func(v ssa.Value) bool {
		if u, ok := v.(*ssa.UnOp); ok && u.Op == token.MUL {
			v = u.X
		}
		_, ok := v.(*ssa.FieldAddr)
		return ok
	}
	return isPath(a) && isPath(b) && render(a) == render(b)
}

func runC15(c *Ctx) {
	runC15Extra(c)
	// ---- transfer handler
	if th := c.mustFn("service/contract", "TransferHandler", "DoExecuteSync"); th != nil {
		var debit, credit callSite
		for _, cs := range c.calls(th, byMethod("SetBalance")) {
			_, a := callArgs(cs.Common())
			if _, _, ok := bigBin(a[0], "Sub"); ok {
				debit = cs
			}
			if _, _, ok := bigBin(a[0], "Add"); ok {
				credit = cs
			}
		}
		if debit.Instr == nil || credit.Instr == nil {
			c.violate("C15.transfer-pair", "transfer debit/credit", th.Pos(), "SetBalance(bal − v) and SetBalance(bal + v) not both found")
		} else {
			_, da := callArgs(debit.Common())
			_, ca := callArgs(credit.Common())
			db, dv, _ := bigBin(da[0], "Sub")
			cb, cv, _ := bigBin(ca[0], "Add")
			dr, _ := callArgs(debit.Common())
			cr, _ := callArgs(credit.Common())
			if wit, ok := geGuardOn(guardsAt(debit.Instr), db, dv); ok {
				c.ok("C15.debit-guard", "transfer debit ⊢ balance ≥ value", debit.Pos(), "established by "+wit)
			} else {
				c.violate("C15.debit-guard", "transfer debit ⊢ balance ≥ value", debit.Pos(), "no guard `balance.Cmp(value) ≥ 0` on the values being subtracted; guards: "+guardsString(guardsAt(debit.Instr)))
			}
			c.check(render(dv) == render(cv) && strings.HasSuffix(render(dv), ".Value"), "C15.transfer-pair", "debit and credit use the carried value", credit.Pos(), render(dv), "debit "+render(dv)+" vs credit "+render(cv))
			c.check(render(db) == render(dr)+".GetBalance()" && render(cb) == render(cr)+".GetBalance()", "C15.transfer-pair", "each side updates its own balance", debit.Pos(), "own balance", "debit base "+render(db)+" on "+render(dr)+"; credit base "+render(cb)+" on "+render(cr))
			c.check(strings.Contains(render(dr), "From.ID()") && strings.Contains(render(cr), "To.ID()"), "C15.transfer-pair", "debit sender, credit recipient", debit.Pos(), "From / To", "debit "+render(dr)+", credit "+render(cr))
			c.requireAt("C15.transfer-pair", "value is not negative", debit.Instr, wGE("value ≥ 0", 0, t(1, `^\$r\.[A-Za-z.]*Value$`)))
			// order: the debit is written before the recipient's balance is read
			if rd, ok := cb.(*ssa.Call); ok {
				c.check(dominatesInstr(debit.Instr, rd), "C15.transfer-pair", "debit written before the recipient balance is read", rd.Pos(), "so a self-transfer nets to zero", "the recipient balance is read before the debit is written: when sender and recipient are the same account the credit overwrites the debit and the account gains the value")
			}
			for _, e := range successAlts(th) {
				_, skip := pathAvoiding(th, debit.Instr, func(in ssa.Instruction) bool { return in == ssa.Instruction(e.Ret) }, func(in ssa.Instruction) bool { return in == ssa.Instruction(credit.Instr) })
				c.check(dominatesInstr(debit.Instr, e.Ret) && !skip, "C15.transfer-pair", "successful transfer debited and credited", e.pos(), "both on every path", "a successful exit is reachable without both balance updates")
			}
		}
	}

	// ---- fee charge
	ex := c.mustFn("service/transaction", "transactionHandler", "Execute")
	if ex == nil {
		return
	}
	var charge callSite
	for _, cs := range c.calls(ex, byMethod("SetBalance")) {
		_, a := callArgs(cs.Common())
		if _, _, ok := bigBin(a[0], "Sub"); ok {
			charge = cs
		}
	}
	if charge.Instr == nil {
		c.violate("C15.debit-guard", "fee charge", ex.Pos(), "SetBalance(bal − fee) not found")
		return
	}
	_, cha := callArgs(charge.Common())
	bal, fee, _ := bigBin(cha[0], "Sub")
	// fee must be one in-place big.Int
	feeAlloc := unwrap(fee)
	// entry edges of the charge block
	{
		b := charge.Instr.Block()
		for len(b.Preds) == 1 {
			// straight-line or conditionally skipped charge (`if fee != 0 { charge }`): classify the edges into the join above it
			b = b.Preds[0]
		}
		nOK := 0
		for _, p := range b.Preds {
			if b.Dominates(p) {
				continue
			}
			gs := guardsOnEdge(p, b)
			if wit, ok := geGuardOn(gs, bal, fee); ok {
				nOK++
				c.ok("C15.debit-guard", "fee charge ⊢ balance ≥ fee (loop exit)", p.Instrs[len(p.Instrs)-1].Pos(), "established by "+wit)
				continue
			}
			zeroed := false
			for _, in := range p.Instrs {
				if call, ok := in.(*ssa.Call); ok && calleeName(call.Common()) == "(*math/big.Int).SetInt64" {
					r, a := callArgs(call.Common())
					if k, isK := constInt(a[0]); isK && k == 0 && unwrap(r) == feeAlloc {
						zeroed = true
					}
				}
			}
			c.check(zeroed, "C15.debit-guard", "fee charge ⊢ fee was zeroed (break edge)", p.Instrs[len(p.Instrs)-1].Pos(), "fee.SetInt64(0) on this edge", "the charge is reachable on an edge where neither balance ≥ fee was established nor the fee was zeroed; guards: "+guardsString(gs))
			if zeroed {
				nOK++
			}
		}
		if nOK == 0 {
			c.undecided("C15.debit-guard", "fee charge", charge.Pos(), "no entry edge of the charge could be classified")
		}
	}
	okBal := true
	for _, fl := range flowsOf(bal, nil) {
		r := render(fl.Src)
		if !(strings.HasSuffix(r, ".GetBalance()") && strings.Contains(r, "$r.from.ID()")) {
			okBal = false
		}
	}
	c.check(okBal, "C15.debit-guard", "fee is charged to the sender's current balance", charge.Pos(), "GetBalance() of the from account", "charged against "+render(bal))

	// ---- charged-equals-reported
	var setResult, initMul *ssa.Call
	for _, cs := range c.calls(ex, byMethod("SetResult")) {
		setResult, _ = cs.Instr.(*ssa.Call)
	}
	for _, b := range ex.Blocks {
		for _, in := range b.Instrs {
			if call, ok := in.(*ssa.Call); ok && calleeName(call.Common()) == "(*math/big.Int).Mul" && ssa.Value(call) == feeAlloc {
				initMul = call
			}
		}
	}
	if setResult == nil || initMul == nil {
		c.undecided("C15.charged-equals-reported", "fee computation", ex.Pos(), "fee = new(big.Int).Mul(steps, price) or receipt.SetResult not found")
	} else {
		_, ma := callArgs(initMul.Common())
		_, ra := callArgs(setResult.Common())
		// U: the clamped step count = the value that reaches SetResult when nothing else intervenes
		var clamp *ssa.Phi
		for _, b := range ex.Blocks {
			for _, in := range b.Instrs {
				if phi, ok := in.(*ssa.Phi); ok && len(phi.Edges) == 2 {
					r := render(phi)
					if strings.Contains(r, ".StepUsed()") && strings.Contains(r, "big.NewInt(") && !strings.Contains(r, "phi(phi") {
						clamp = phi
					}
				}
			}
		}
		if clamp == nil {
			c.undecided("C15.charged-equals-reported", "minimum-charge clamp", ex.Pos(), "phi(cc.StepUsed(), minSteps) not found")
		} else {
			expand := func(v ssa.Value) []ssa.Value {
				var out []ssa.Value
				seen := map[ssa.Value]bool{}
				var rec func(v ssa.Value)
				rec = func(v ssa.Value) {
					if seen[v] {
						return
					}
					seen[v] = true
					if p, ok := v.(*ssa.Phi); ok && p != clamp {
						for _, e := range p.Edges {
							rec(e)
						}
						return
					}
					out = append(out, v)
				}
				rec(v)
				return out
			}
			isZeroBig := func(v ssa.Value) bool {
				_, ok := v.(*ssa.Alloc)
				return ok && strings.Contains(v.Type().String(), "big.Int")
			}
			okPay := true
			for _, s := range expand(ma[0]) {
				if s == ssa.Value(clamp) || isZeroBig(s) {
					continue
				}
				if a, _, ok := bigBin(s, "Sub"); ok {
					for _, s2 := range expand(a) {
						if s2 != ssa.Value(clamp) && !isZeroBig(s2) {
							okPay = false
						}
					}
					continue
				}
				okPay = false
			}
			c.check(okPay, "C15.charged-equals-reported", "steps charged = steps reported (− redeemed)", initMul.Pos(), "both are the clamped step count", "the step count the fee is computed from ("+render(ma[0])+") is not the clamped step count reported in the receipt: the payer is charged for different steps than the result reports")
			okUsed := true
			for _, s := range expand(ra[1]) {
				if s != ssa.Value(clamp) && !isZeroBig(s) {
					okUsed = false
				}
			}
			c.check(okUsed, "C15.charged-equals-reported", "receipt reports the clamped step count", setResult.Pos(), "clamped", "receipt steps are "+render(ra[1]))
			// price: same sources on both sides
			okPrice := true
			for _, s := range append(expand(ma[1]), expand(ra[2])...) {
				if !(strings.HasSuffix(render(s), ".StepPrice()") || isZeroBig(s)) {
					okPrice = false
				}
			}
			c.check(okPrice, "C15.charged-equals-reported", "price charged = price reported", setResult.Pos(), "ctx.StepPrice() or zero", "price sources differ: "+render(ma[1])+" vs "+render(ra[2]))
		}
		// ---- fee-zeroing: every fee.SetInt64(0) zeroes the price or both step counts on the same edge
		header := loopHeaderOf(charge.Instr.Block())
		_ = header
		for _, b := range ex.Blocks {
			for _, in := range b.Instrs {
				call, ok := in.(*ssa.Call)
				if !ok || calleeName(call.Common()) != "(*math/big.Int).SetInt64" {
					continue
				}
				r, _ := callArgs(call.Common())
				if unwrap(r) != feeAlloc {
					continue
				}
				// which phis receive a fresh zero big.Int from this block (directly or via its single successor chain)?
				zeroed := map[string]bool{}
				for _, bb := range ex.Blocks {
					for _, i2 := range bb.Instrs {
						phi, ok := i2.(*ssa.Phi)
						if !ok {
							continue
						}
						for k, e := range phi.Edges {
							if al, isAl := e.(*ssa.Alloc); isAl && strings.Contains(al.Type().String(), "big.Int") && (al.Block() == b) {
								_ = k
								// classify the phi by where it flows
								if flowsInto(phi, ra[2]) || flowsInto(phi, ma[1]) {
									zeroed["price"] = true
								}
								if flowsInto(phi, ra[1]) {
									zeroed["used"] = true
								}
								if flowsIntoAny(phi, c, ex, "AddPayment") {
									zeroed["toPay"] = true
								}
							}
						}
					}
				}
				okZ := zeroed["price"] || (zeroed["used"] && zeroed["toPay"])
				c.check(okZ, "C15.fee-zeroing", "fee zeroed together with the price or with both step counts", call.Pos(), fmt.Sprintf("%v", zeroed), fmt.Sprintf("fee.SetInt64(0) without zeroing the reported price or steps (zeroed: %v): the receipt reports a fee that was not charged", zeroed))
			}
		}
	}

	// ---- reread-after-reset
	for _, rs := range c.calls(ex, byMethod("Reset")) {
		_, a := callArgs(rs.Common())
		if len(a) != 1 || render(a[0]) != "$1" {
			continue
		}
		isUse := func(in ssa.Instruction) bool {
			if in == ssa.Instruction(charge.Instr) {
				return true
			}
			if call, ok := in.(*ssa.Call); ok && methodName(call.Common()) == "Cmp" {
				r, _ := callArgs(call.Common())
				return strings.Contains(render(r), ".GetBalance()")
			}
			return false
		}
		isRead := isCallTo(byMethod("GetBalance"))
		tr, bad := pathAvoiding(ex, rs.Instr, isUse, isRead)
		c.check(!bad, "C15.reread-after-reset", "balance re-read after the rollback", rs.Pos(), "GetBalance on every path to the next use", "after ctx.Reset(wcs) the payer balance is compared/written without being read again: the pre-rollback balance is written back ("+traceString(tr)+")")
	}

	// ---- treasury
	if de := c.mustFn("service", "transition", "doExecute"); de != nil {
		var credit callSite
		for _, cs := range c.calls(de, byMethod("SetBalance")) {
			credit = cs
		}
		if credit.Instr == nil {
			c.violate("C15.treasury", "treasury credit", de.Pos(), "no SetBalance in doExecute")
		} else {
			_, a := callArgs(credit.Common())
			tb, gf, ok := bigBin(a[0], "Add")
			r, _ := callArgs(credit.Common())
			c.check(ok && strings.Contains(render(r), ".Treasury().ID()") && render(tb) == render(r)+".GetBalance()", "C15.treasury", "treasury credited on top of its current balance", credit.Pos(), "Add(treasury balance, gathered fee)", "credit is "+render(a[0]))
			// gathered fee accumulates r.Fee()/FeeByEOA() over both slices
			nAcc := 0
			for _, cs := range c.calls(de, byCallee("(*math/big.Int).Add")) {
				rr, aa := callArgs(cs.Common())
				if unwrap(rr) == unwrap(gf) && unwrap(aa[0]) == unwrap(gf) {
					nAcc++
					src := render(aa[1])
					okSrc := true
					for _, fl := range flowsOf(aa[1], nil) {
						fs := render(fl.Src)
						if !(strings.HasSuffix(fs, ".Fee()") || strings.HasSuffix(fs, ".FeeByEOA()")) {
							okSrc = false
						}
					}
					c.check(okSrc, "C15.treasury", "gathered fee accumulates the receipts' own fee", cs.Pos(), src, "accumulates "+src)
				}
			}
			c.check(nAcc >= 1, "C15.treasury", "gathered fee is accumulated", credit.Pos(), "in the receipt loop", "the treasury amount is not accumulated from the receipts")
			// both slices are walked
			okBoth := false
			for _, b := range de.Blocks {
				for _, in := range b.Instrs {
					if al, ok := in.(*ssa.Alloc); ok && strings.Contains(al.Type().String(), "[2][]") && strings.Contains(al.Type().String(), "Receipt") {
						okBoth = true
					}
				}
			}
			c.check(okBoth, "C15.treasury", "fees of patch and normal receipts are gathered", credit.Pos(), "both slices", "the fee loop does not range over both receipt slices")
		}
	}
	_ = token.NoPos
}

// flowsInto: does value v reach target through phis?
func flowsInto(v ssa.Value, target ssa.Value) bool {
	seen := map[ssa.Value]bool{}
	var rec func(t ssa.Value) bool
	rec = func(t ssa.Value) bool {
		if t == v {
			return true
		}
		if seen[t] {
			return false
		}
		seen[t] = true
		if p, ok := t.(*ssa.Phi); ok {
			for _, e := range p.Edges {
				if rec(e) {
					return true
				}
			}
		}
		return false
	}
	return rec(target)
}

func flowsIntoAny(v ssa.Value, c *Ctx, fn *ssa.Function, method string) bool {
	for _, cs := range c.calls(fn, byMethod(method)) {
		_, a := callArgs(cs.Common())
		for _, x := range a {
			if flowsInto(v, x) {
				return true
			}
		}
	}
	return false
}

// runC15Extra: rules added after independently produced mutants were missed.
func runC15Extra(c *Ctx) {
	mutators := map[string]bool{"Add": true, "Sub": true, "Mul": true, "Div": true, "Quo": true, "Rem": true, "Mod": true, "Neg": true, "Set": true, "SetInt64": true, "SetUint64": true, "SetBytes": true, "SetString": true, "Abs": true, "Lsh": true, "Rsh": true, "Exp": true, "And": true, "Or": true, "Xor": true, "Not": true, "SetBit": true}
	// (1) a balance obtained from an account is shared with its snapshots: it is never updated in place
	nSites := 0
	for _, pk := range []string{"service/contract", "service/transaction", "service"} {
		if c.L.SSAPkgs[modPath+"/"+pk] == nil {
			continue
		}
		for _, fn := range c.pkgFuncs(pk) {
			for _, b := range fn.Blocks {
				for _, in := range b.Instrs {
					cl, ok := in.(*ssa.Call)
					if !ok || !strings.HasPrefix(calleeName(cl.Common()), "(*math/big.Int).") || !mutators[methodName(cl.Common())] {
						continue
					}
					r, _ := callArgs(cl.Common())
					shared := false
					for _, fl := range flowsOf(r, nil) {
						if src, isCall := fl.Src.(*ssa.Call); isCall && methodName(src.Common()) == "GetBalance" {
							shared = true
						}
					}
					nSites++
					if shared {
						c.violate("C15.no-alias", "balances are replaced, never updated in place", cl.Pos(), fnName(fn)+" calls "+methodName(cl.Common())+" on the *big.Int returned by GetBalance(): that object is shared with every snapshot taken so far, so a rollback restores the already-changed value")
					}
				}
			}
		}
	}
	c.check(nSites >= 20, "C15.no-alias", "big.Int update sites scanned", token.NoPos, fmt.Sprint(nSites), fmt.Sprintf("only %d sites", nSites))
	// (3) steps used never exceed the limit of the frame
	if fn := c.fn("service/contract", "callFrame", "deductSteps"); fn != nil {
		n := 0
		for _, e := range exitAlts(fn) {
			if !isConstBool(e.Results[0], false) {
				continue
			}
			n++
			okC := false
			for _, cs := range c.calls(fn, byCallee("(*math/big.Int).Set")) {
				r, a := callArgs(cs.Common())
				if strings.HasSuffix(render(r), "$r.stepUsed") && strings.HasSuffix(render(a[0]), "$r.stepLimit") && dominatesInstr(cs.Instr, e.Ret) {
					okC = true
				}
			}
			c.check(okC, "C15.charged-equals-reported", "an overrun clamps the steps used to the step limit", e.pos(), "stepUsed.Set(stepLimit)", "deductSteps reports an overrun without clamping stepUsed to the limit: the transaction is charged and reports more steps than its stepLimit")
		}
		c.check(n >= 1, "C15.charged-equals-reported", "deductSteps has an overrun exit", fn.Pos(), fmt.Sprint(n), "no overrun exit")
	} else if c.L.SSAPkgs[modPath+"/service/contract"] != nil {
		c.undecided("anchor", "service/contract.callFrame.deductSteps", token.NoPos, "anchor function not found")
	}
	// (4) the handler gets the transaction's value whenever there is one
	if fn := c.fn("service/transaction", "transactionV3", "GetHandler"); fn != nil {
		for _, cs := range c.calls(fn, byCallee("transaction.NewHandler")) {
			_, a := callArgs(cs.Common())
			if len(a) < 5 {
				continue
			}
			okV := true
			n := 0
			for _, fl := range flowsOf(a[4], nil) {
				n++
				src := render(fl.Src)
				if strings.Contains(src, "$r.transactionV3Data.Value") {
					continue
				}
				// the substitute (zero) only when there is no value
				if _, none := holds(fl.Guards, wSame("no value", `^\$r\.transactionV3Data\.Value$`, `^nil`)); !none {
					okV = false
				}
			}
			c.check(okV && n >= 1, "C15.transfer-pair", "the handler receives the transaction's value whenever it carries one", cs.Pos(), "value = tx.Value (zero only if absent)", "a transaction that carries a value can be executed with value 0 (e.g. depending on its dataType): it succeeds without moving the ICX")
		}
	}
	// (5) the fee is only ever steps × price, or zero
	if ex := c.fn("service/transaction", "transactionHandler", "Execute"); ex != nil {
		var fee ssa.Value
		for _, cs := range c.calls(ex, byMethod("SetBalance")) {
			_, a := callArgs(cs.Common())
			if _, y, ok := bigBin(a[0], "Sub"); ok {
				fee = unwrap(y)
			}
		}
		if fee != nil {
			n := 0
			for _, b := range ex.Blocks {
				for _, in := range b.Instrs {
					cl, ok := in.(*ssa.Call)
					if !ok || !strings.HasPrefix(calleeName(cl.Common()), "(*math/big.Int).") || !mutators[methodName(cl.Common())] {
						continue
					}
					r, a := callArgs(cl.Common())
					if unwrap(r) != fee {
						continue
					}
					n++
					okW := false
					switch methodName(cl.Common()) {
					case "Mul":
						okW = true
					case "SetInt64":
						k, isK := constInt(a[0])
						okW = isK && k == 0
					}
					c.check(okW, "C15.charged-equals-reported", "the fee is only ever steps × price, or zero", cl.Pos(), methodName(cl.Common()), "the fee is overwritten by "+methodName(cl.Common())+"("+render(a[0])+"): the amount charged no longer equals the steps and price reported in the receipt")
				}
			}
			c.check(n >= 2, "C15.charged-equals-reported", "fee update sites", ex.Pos(), fmt.Sprint(n), fmt.Sprintf("%d sites", n))
		}
	}
}
