package main

import (
	"fmt"
	"go/token"
	"sort"
	"strings"

	"golang.org/x/tools/go/ssa"
)

// C19 — layered database writes are all-or-nothing.
func init() {
	register(&Prop{
		ID:             "C19",
		Pkgs:           []string{"common/db"},
		Run:            runC19,
		MinObligations: 18,
		Technique:      "static analysis: guard dominance of every call on the underlying store (never before commit), path-sensitive overlay-first rule for reads, tombstone table agreement between Delete and Flush, loop placement of the pending-list mutations (commit bookkeeping only after all writes succeeded), lock discipline",
		LevelText:      "Decides on all paths of common/db/layer_db.go: the underlying bucket is written only in pass-through mode (overlay map nil) or inside Flush(write=true); a read consults the underlying store only when the key has no overlay entry (a tombstone is an entry); Delete records a nil-valued entry and Flush maps nil → Delete, non-nil → Set of the recorded key/value in list order; Set records a private copy of the value; the pending list, the per-bucket overlay maps and the flushed flag are changed only after the write loop, never inside it, so a failing commit keeps everything needed for a retry and a discard touches nothing underneath; every bucket method runs under the bucket lock.",
		LevelNote:      "Atomicity of the underlying database itself (a crash in the middle of Flush) is outside the layer and not decided.",
		Explanation:    "C19 rules: no-early-write (K1), overlay-first (K1 over path alternatives), tombstone (K4), set-copies (K5), commit-bookkeeping (K10: placement relative to the write loop), lock (K6).",
		Mutants: []Mutant{
			{Name: "get-ignores-tombstone", File: "common/db/layer_db.go", Old: "\t\tif element, ok := bk.data[string(key)]; ok {\n\t\t\treturn element.Value.(*layerBucketItem).value, nil\n\t\t}\n\t}\n\treturn bk.real.Get(key)", New: "\t\tif element, ok := bk.data[string(key)]; ok {\n\t\t\tif v := element.Value.(*layerBucketItem).value; v != nil {\n\t\t\t\treturn v, nil\n\t\t\t}\n\t\t}\n\t}\n\treturn bk.real.Get(key)", Desc: "a key deleted in the layer is read from the underlying store"},
			{Name: "flush-consumes-list", File: "common/db/layer_db.go", Old: "\t\tfor element := ldb.list.Front() ; element != nil ; element = element.Next() {\n\t\t\titem := element.Value.(*layerBucketItem)\n", New: "\t\tfor element := ldb.list.Front() ; element != nil ; element = ldb.list.Front() {\n\t\t\titem := ldb.list.Remove(element).(*layerBucketItem)\n", Desc: "pending entries are dropped before their write is known to have succeeded"},
			{Name: "delete-writes-through", File: "common/db/layer_db.go", Old: "\t\t\titem := &layerBucketItem{bk, string(key), nil }\n\t\t\tbk.data[item.key] = bk.list.PushBack(item)\n\t\t}\n\t\treturn nil", New: "\t\t\titem := &layerBucketItem{bk, string(key), nil }\n\t\t\tbk.data[item.key] = bk.list.PushBack(item)\n\t\t}\n\t\treturn bk.real.Delete(key)", Desc: "layered delete also deletes underneath before commit"},
			{Name: "discard-writes", File: "common/db/layer_db.go", Old: "\tif write {\n\t\tfor element := ldb.list.Front()", New: "\tif write || ldb.list.Len() > 0 {\n\t\tfor element := ldb.list.Front()", Desc: "discard applies pending writes"},
			{Name: "set-keeps-callers-slice", File: "common/db/layer_db.go", Old: "\t\titem := &layerBucketItem{bk, string(key), v2 }", New: "\t\titem := &layerBucketItem{bk, string(key), value }", Desc: "layer keeps the caller's slice: later caller writes change the pending value"},
			{Name: "tombstone-as-set", File: "common/db/layer_db.go", Old: "\t\t\tif item.value != nil {\n\t\t\t\tif err := item.bk.real.Set(", New: "\t\t\tif item.value != nil || len(item.key) > 0 {\n\t\t\t\tif err := item.bk.real.Set(", Desc: "commit writes tombstones as empty values instead of deleting"},
			{Name: "flushed-before-writes", File: "common/db/layer_db.go", Old: "\tif write {\n\t\tfor element := ldb.list.Front()", New: "\tldb.flushed = write\n\tif write {\n\t\tfor element := ldb.list.Front()", Desc: "layer switches to pass-through before the writes succeeded"},
		},
	})
}

func runC19(c *Ctx) {
	const pkg = "common/db"
	bucketFns := map[string]*ssa.Function{}
	for _, n := range []string{"Get", "Has", "Set", "Delete"} {
		if f := c.mustFn(pkg, "layerBucket", n); f != nil {
			bucketFns[n] = f
		}
	}
	fl := c.mustFn(pkg, "layerDB", "Flush")
	if len(bucketFns) != 4 || fl == nil {
		return
	}
	isReal := func(cc *ssa.CallCommon) bool {
		r, _ := callArgs(cc)
		return cc.IsInvoke() && r != nil && strings.HasSuffix(render(r), ".real")
	}

	// ---- no-early-write
	for _, n := range []string{"Set", "Delete", "Get", "Has"} {
		f := bucketFns[n]
		for _, cs := range c.calls(f, isReal) {
			m := methodName(cs.Common())
			if m == "Set" || m == "Delete" {
				c.requireAt("C19.no-early-write", "layerBucket."+n+" writes underneath", cs.Instr, wSame("pass-through mode (overlay map is nil)", `^\$r\.data$`, `^nil$`))
				c.check(m == n, "C19.no-early-write", "layerBucket."+n+" forwards the same operation", cs.Pos(), m, n+" forwards to "+m)
			} else {
				// overlay-first
				c.requireAtAny("C19.overlay-first", "layerBucket."+n+" reads underneath", cs.Instr, "no overlay ∨ key has no overlay entry",
					wSame("pass-through mode", `^\$r\.data$`, `^nil$`), wFalse("key not in the overlay", `^\$r\.data\[.*\]#1$`))
				c.check(m == n, "C19.overlay-first", "layerBucket."+n+" forwards the same operation", cs.Pos(), m, n+" forwards to "+m)
			}
		}
	}
	// reads answered from the overlay return the entry's value / its non-nil-ness
	if f := bucketFns["Get"]; f != nil {
		n := 0
		for _, e := range exitAlts(f) {
			if strings.HasSuffix(render(e.Results[0]), ".real.Get($0)#0") {
				continue
			}
			n++
			c.check(strings.HasSuffix(render(e.Results[0]), ".(*db.layerBucketItem).value"), "C19.overlay-first", "Get answers from the overlay entry", e.pos(), "entry value (nil for a tombstone)", "returns "+render(e.Results[0]))
		}
		if n == 0 {
			c.violate("C19.overlay-first", "Get answers from the overlay entry", f.Pos(), "Get never answers from the overlay")
		}
	}

	// ---- tombstone
	if f := bucketFns["Delete"]; f != nil {
		nTomb := 0
		for _, b := range f.Blocks {
			for _, in := range b.Instrs {
				if st, ok := in.(*ssa.Store); ok {
					a := render(st.Addr)
					if strings.HasSuffix(a, ".value") {
						nTomb++
						c.check(isNilConst(st.Val), "C19.tombstone", "Delete records a nil value", st.Pos(), "nil", "Delete records "+render(st.Val))
						c.requireAt("C19.tombstone", "Delete records only in layered mode", st, wDiffer("overlay active", `^\$r\.data$`, `^nil$`))
					}
				}
			}
		}
		if nTomb < 2 {
			c.undecided("C19.tombstone", "Delete tombstone stores", f.Pos(), fmt.Sprintf("expected 2 (existing entry, new entry), found %d", nTomb))
		}
	}
	var writeLoop *ssa.BasicBlock
	// a write underneath sits in Flush itself, or in a function only Flush calls (the application of
	// one entry moved into a helper): `outer` is the instruction in Flush, `cs` the write itself
	type realWrite struct {
		cs    callSite
		in    *ssa.Function
		outer ssa.CallInstruction
	}
	var writes []realWrite
	for _, cs := range c.calls(fl, isReal) {
		writes = append(writes, realWrite{cs, fl, cs.Instr})
	}
	for g, site := range c.localHelpers(fl, false) {
		for _, cs := range c.calls(g, isReal) {
			writes = append(writes, realWrite{cs, g, site})
		}
	}
	sort.Slice(writes, func(i, j int) bool { return writes[i].cs.Pos() < writes[j].cs.Pos() })
	for _, w := range writes {
		cs := w.cs
		m := methodName(cs.Common())
		c.requireAt("C19.no-early-write", "Flush writes underneath only on commit", w.outer, wTrue("write", `^\$0$`))
		c.requireAt("C19.no-early-write", "Flush writes only while still layered", w.outer, wFalse("not yet flushed", `\.flushed$`))
		_, a := callArgs(cs.Common())
		if m == "Delete" {
			c.requireAt("C19.tombstone", "Flush deletes exactly the tombstones", cs.Instr, wSame("entry value == nil", `\.value$`, `^nil$`))
		} else if m == "Set" {
			c.requireAt("C19.tombstone", "Flush sets exactly the valued entries", cs.Instr, wDiffer("entry value != nil", `\.value$`, `^nil$`))
			c.check(strings.HasSuffix(render(a[1]), ".value"), "C19.tombstone", "Flush writes the recorded value", cs.Pos(), render(a[1]), "writes "+render(a[1]))
		}
		c.check(strings.HasSuffix(render(a[0]), ".key"), "C19.tombstone", "Flush "+m+" uses the recorded key", cs.Pos(), render(a[0]), "key is "+render(a[0]))
		r, _ := callArgs(cs.Common())
		c.check(strings.Contains(render(r), ".bk.real"), "C19.tombstone", "Flush "+m+" targets the entry's own bucket", cs.Pos(), render(r), "target is "+render(r))
		if h := loopHeaderOf(w.outer.Block()); h != nil {
			writeLoop = h
		}
		// errors abort the commit
		propagated := false
		for _, e := range exitAlts(w.in) {
			if e.Results[len(e.Results)-1] == ssa.Value(cs.Instr.Value()) {
				propagated = true
			}
		}
		if w.in != fl && propagated {
			propagated = false
			for _, e := range exitAlts(fl) {
				if e.Results[0] == w.outer.Value() {
					propagated = true
				}
			}
		}
		c.check(propagated, "C19.commit-bookkeeping", "Flush aborts on a failed "+m, cs.Pos(), "error returned", "a failed write underneath is ignored and the commit reports success")
	}
	if writeLoop == nil {
		c.undecided("C19.commit-bookkeeping", "Flush write loop", fl.Pos(), "loop over the pending list not found")
	} else {
		inLoop := func(b *ssa.BasicBlock) bool {
			return writeLoop.Dominates(b) && blockReaches(b, writeLoop, nil) && b != writeLoop || b == writeLoop
		}
		// the loop walks the list without consuming it
		for _, b := range fl.Blocks {
			for _, in := range b.Instrs {
				ci, ok := in.(ssa.CallInstruction)
				if ok {
					n := calleeName(ci.Common())
					if strings.HasPrefix(n, "(*container/list.List).") || strings.HasPrefix(n, "(*common/db.layerBucketItems).") {
						m := methodName(ci.Common())
						mut := m == "Remove" || m == "Init" || m == "PushBack" || m == "PushFront" || m == "MoveToBack" || m == "MoveToFront"
						if mut {
							c.check(!inLoop(b) && writeLoop.Dominates(b) || !writeLoop.Dominates(b) && !blockReaches(b, writeLoop, nil), "C19.commit-bookkeeping", "pending list "+m+" outside the write loop", in.Pos(), "after all writes", "the pending list is modified while writes are still being applied: a failed write leaves a commit that cannot be retried")
						}
					}
				}
				if st, ok := in.(*ssa.Store); ok {
					a := render(st.Addr)
					if strings.HasSuffix(a, ".flushed") || strings.HasSuffix(a, ".data") {
						after := !inLoop(b) && (writeLoop.Dominates(b) || !blockReaches(b, writeLoop, nil))
						reachLoop := blockReaches(b, writeLoop, nil)
						c.check(after && !reachLoop, "C19.commit-bookkeeping", "store to "+strings.TrimPrefix(a, "&")+" only after the write loop", st.Pos(), "after all writes", "layer state is switched before/while the writes are applied")
					}
				}
			}
		}
		// iteration: element = element.Next() from Front()
		okIter := false
		for _, b := range fl.Blocks {
			for _, in := range b.Instrs {
				if phi, ok := in.(*ssa.Phi); ok && b == writeLoop {
					r := render(phi)
					if strings.Contains(r, ".Front()") && strings.Contains(r, ".Next()") {
						okIter = true
					}
				}
			}
		}
		c.check(okIter, "C19.commit-bookkeeping", "Flush applies the entries in list order", writeLoop.Instrs[0].Pos(), "Front(); Next()", "the write loop does not walk the pending list from Front() by Next()")
	}
	// flushed = write
	for _, st := range fieldStores([]*ssa.Function{fl}, "layerDB", "flushed") {
		c.check(render(st.Store.Val) == "$0", "C19.commit-bookkeeping", "flushed records the mode", st.Store.Pos(), "flushed = write", "flushed = "+render(st.Store.Val))
	}

	// ---- set-copies
	if f := bucketFns["Set"]; f != nil {
		val := ssa.Value(f.Params[2])
		n := 0
		for _, b := range f.Blocks {
			for _, in := range b.Instrs {
				st, ok := in.(*ssa.Store)
				if !ok || !strings.HasSuffix(render(st.Addr), ".value") {
					continue
				}
				n++
				ms, isMs := st.Val.(*ssa.MakeSlice)
				copied := false
				if isMs {
					for _, cs := range c.calls(f, byCallee("builtin:copy")) {
						_, a := callArgs(cs.Common())
						if a[0] == ssa.Value(ms) && a[1] == val && dominatesInstr(cs.Instr, st) {
							copied = true
						}
					}
				}
				c.check(copied && render(ms.Len) == "len($1)", "C19.set-copies", "Set records a private copy of the value", st.Pos(), "make+copy", "Set records "+render(st.Val)+": the pending value aliases the caller's slice")
			}
		}
		if n < 2 {
			c.undecided("C19.set-copies", "Set value stores", f.Pos(), fmt.Sprintf("expected 2, found %d", n))
		}
	}

	// ---- lock
	for n, f := range bucketFns {
		lk := c.calls(f, func(cc *ssa.CallCommon) bool {
			r, _ := callArgs(cc)
			return methodName(cc) == "Lock" && r != nil && render(r) == "&$r.lock"
		})
		okL := len(lk) == 1 && lk[0].Instr.Block() == f.Blocks[0]
		c.check(okL, "C19.lock", "layerBucket."+n+" runs under the bucket lock", f.Pos(), "Lock at entry", "bucket method does not take bk.lock at entry")
	}
	// ---- after a flush the layer is empty again: list reset on both modes, every handle switched
	initCalls := c.calls(fl, func(cc *ssa.CallCommon) bool { return methodName(cc) == "Init" })
	if len(initCalls) == 0 {
		c.violate("C19.flush-reset", "Flush clears the pending list", fl.Pos(), "no Init() of the pending list")
	}
	for _, rs := range returnSites(fl) {
		if !isNilConst(rs.Results[0]) {
			continue
		}
		tr, by := pathAvoidingEdges(fl, fl.Blocks[0].Instrs[0], func(in ssa.Instruction) bool { return in == ssa.Instruction(rs.Ret) }, func(in ssa.Instruction) bool {
			for _, ic := range initCalls {
				if in == ssa.Instruction(ic.Instr) {
					return true
				}
			}
			return false
		}, wTrue("already committed", `^\$r\.flushed$`))
		c.check(!by, "C19.flush-reset", "Flush succeeds only after clearing the pending list", rs.pos(), "list.Init() on every path (commit and discard)", "a flush returns success with the pending list intact (path "+traceString(tr)+"): discarded writes are replayed by the next commit")
	}
	nData := 0
	for _, st := range fieldStores([]*ssa.Function{fl}, "layerBucket", "data") {
		nData++
		_, isMap := st.Store.Val.(*ssa.MakeMap)
		for _, alt := range altGuards(st.Store.Block()) {
			_, wr := holds(alt, wTrue("commit", `^\$0$`))
			_, dis := holds(alt, wFalse("discard", `^\$0$`))
			switch {
			case wr:
				c.check(isNilConst(st.Store.Val), "C19.flush-reset", "commit switches every handle to pass-through", st.Store.Pos(), "data = nil", "after a commit the bucket handles keep buffering (data = "+render(st.Store.Val)+") although later flushes are no-ops: later writes never reach the store")
			case dis:
				c.check(isMap, "C19.flush-reset", "discard gives every handle an empty layer", st.Store.Pos(), "data = make(map)", "after a discard data = "+render(st.Store.Val))
			default:
				c.violate("C19.flush-reset", "bucket handle reset is decided by the flush mode", st.Store.Pos(), "guards: "+guardsString(alt))
			}
		}
	}
	if nData < 2 {
		c.undecided("C19.flush-reset", "bucket handle resets", fl.Pos(), fmt.Sprintf("expected 2 stores to layerBucket.data, found %d", nData))
	}
	// ---- one handle per bucket, and none after the commit
	if gb := c.mustFn(pkg, "layerDB", "GetBucket"); gb != nil {
		n := 0
		for _, e := range exitAlts(gb) {
			v := e.Results[0]
			if mi, ok := v.(*ssa.MakeInterface); ok {
				v = mi.X
			}
			al, ok := v.(*ssa.Alloc)
			if !ok || namedOf(al.Type()) != "layerBucket" {
				continue
			}
			n++
			c.requireGuard("C19.bucket-handles", "GetBucket wraps a bucket in a layer", e.pos(), e.Guards, wFalse("not committed yet", `^\$r\.flushed$`))
			reg := false
			for _, b := range gb.Blocks {
				for _, in := range b.Instrs {
					if mu, ok := in.(*ssa.MapUpdate); ok && mu.Value == ssa.Value(al) && render(mu.Map) == "$r.buckets" && (render(mu.Key) == "string($0)" || render(mu.Key) == "$0") && dominatesInstr(mu, e.Ret) {
						reg = true
					}
				}
			}
			c.check(reg, "C19.bucket-handles", "the new layer bucket is registered under its id", e.pos(), "buckets[string(id)] = bk", "the layer bucket is handed out without being registered: a second GetBucket creates another layer for the same bucket and Flush does not reach this one")
		}
		if n == 0 {
			c.undecided("C19.bucket-handles", "GetBucket", gb.Pos(), "no exit handing out a new layer bucket")
		}
	}
	_ = token.NoPos
}
