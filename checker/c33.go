package main

import (
	"fmt"
	"go/token"
	"strings"

	"golang.org/x/tools/go/ssa"
)

// C33 — flooded messages are delivered once and only from authorized origins.
func init() {
	register(&Prop{
		ID:             "C33",
		Pkgs:           []string{"network"},
		Run:            runC33,
		MinObligations: 10,
		Technique:      "static analysis: guard dominance (path alternatives) of the application callback in the packet dispatcher, definition check of the classification flags, atomicity (single write-lock hold) of the duplicate filter's test-and-insert",
		LevelText:      "Decides on all paths: the application callback in PeerToPeer.onPacket runs only if (a) the packet is not a one-hop packet from someone other than its source peer, (b) it is not an originator broadcast from a peer whose *resolved* role lacks the validator (root) flag, (c) the source is not this node, and (d) it is one-hop or PacketPool.Put accepted it; the flags are defined from ttl/dest/src exactly as the property states; PacketPool.Put performs the membership test and the insert inside one exclusive-lock hold, returns false on a hit without inserting, and inserts under the packet's checksum on a miss — so concurrent relays of one flooded packet yield exactly one `true`.",
		LevelNote:      "Collision resistance of the 64-bit packet checksum and eviction of old buckets bound the `at most once` guarantee in time; not decided.",
		Explanation:    "C33 rules: dispatch-guards (K1 with alternatives), flag-definitions (K5), atomic-put (K6 + K2), role-source (K5: resolved role, not the claimed one).",
		Mutants: []Mutant{
			{Name: "put-check-then-lock", File: "network/pool.go", Old: "func (p *PacketPool) Put(pkt *Packet) bool {\n\tdefer p.mtx.Unlock()\n\tp.mtx.Lock()\n\n\tif p._contains(pkt) {\n\t\treturn false\n\t}", New: "func (p *PacketPool) Put(pkt *Packet) bool {\n\tif p.Contains(pkt) {\n\t\treturn false\n\t}\n\tdefer p.mtx.Unlock()\n\tp.mtx.Lock()\n", Desc: "membership test outside the exclusive lock: two relays both insert"},
			{Name: "claimed-role", File: "network/p2p.go", Old: "if isBroadcast && isSourcePeer && !p.HasRole(p2pRoleRoot) {", New: "if isBroadcast && isSourcePeer && !p.HasRecvRole(p2pRoleRoot) {", Desc: "origin authorised by the role the peer claims, not the resolved one"},
			{Name: "onehop-src-unchecked", File: "network/p2p.go", Old: "\t\tif isOneHop && !isSourcePeer {", New: "\t\tif isOneHop && !isSourcePeer && pkt.ttl > 1 {", Desc: "one-hop packets accepted from a relay"},
			{Name: "broadcast-flag-ttl", File: "network/p2p.go", Old: "isBroadcast := pkt.dest == p2pDestAny && pkt.ttl == 0", New: "isBroadcast := pkt.dest == p2pDestAny && pkt.ttl != 0", Desc: "originator check applied to the wrong packets"},
			{Name: "deliver-duplicates", File: "network/p2p.go", Old: "if isOneHop || p2p.packetPool.Put(pkt) {", New: "if isOneHop || p2p.packetPool.Put(pkt) || pkt.forceSend {", Desc: "duplicates delivered under an extra condition"},
			{Name: "put-returns-true-on-hit", File: "network/pool.go", Old: "\tif p._contains(pkt) {\n\t\treturn false\n\t}\n\tm := p.buckets[p.cur]", New: "\tif p._contains(pkt) {\n\t\treturn p.cur == 0\n\t}\n\tm := p.buckets[p.cur]", Desc: "a known packet is reported as new"},
		},
	})
}

func runC33(c *Ctx) {
	const pkg = "network"
	op := c.mustFn(pkg, "PeerToPeer", "onPacket")
	if op != nil {
		// the application callback: dynamic call of a value loaded from onPacketCbFuncs
		var cb ssa.CallInstruction
		for _, b := range op.Blocks {
			for _, in := range b.Instrs {
				if ci, ok := in.(*ssa.Call); ok && strings.Contains(render(ci.Common().Value), ".onPacketCbFuncs[") {
					cb = ci
				}
			}
		}
		if cb == nil {
			c.violate("C33.dispatch-guards", "application callback", op.Pos(), "callback dispatch through onPacketCbFuncs not found")
		} else {
			oneHop, bcast := c33Flags(c, op)
			sameSrc := wSame("peer is the source", `^\$1\.ID\(\)$`, `^\$0\.src$`)
			diffSrc := wDiffer("peer is not the source (relayed)", `^\$1\.ID\(\)$`, `^\$0\.src$`)
			notSelf := wDiffer("src ≠ self", `^\$r\.ID\(\)$`, `^\$0\.src$`)
			role := wTrue("resolved root role", `^\$1\.HasRole\(`)
			put := wTrue("first sight", `^\$r\.packetPool\.Put\(\$0\)$`)
			alts := altGuards(cb.Block())
			flag := func(gs []Guard, phi ssa.Value, pol bool) bool {
				if phi == nil {
					return false
				}
				for _, g := range gs {
					if g.Cond == phi && g.Pol == pol {
						return true
					}
				}
				return false
			}
			okA, okB, okC, okD := true, true, true, true
			bad := ""
			for _, gs := range alts {
				_, s := holds(gs, sameSrc)
				_, d := holds(gs, diffSrc)
				_, r := holds(gs, role)
				_, p := holds(gs, put)
				_, ns := holds(gs, notSelf)
				if !(flag(gs, oneHop, false) || s) {
					okA, bad = false, guardsString(gs)
				}
				if !(flag(gs, bcast, false) || d || r) {
					okB, bad = false, guardsString(gs)
				}
				if !ns {
					okC, bad = false, guardsString(gs)
				}
				if !(flag(gs, oneHop, true) || p) {
					okD, bad = false, guardsString(gs)
				}
			}
			if len(alts) == 0 {
				okA, okB, okC, okD = false, false, false, false
			}
			ev := fmt.Sprintf("%d path alternatives", len(alts))
			c.check(okA, "C33.dispatch-guards", "callback ⊢ one-hop packets only from their source peer", cb.Pos(), ev, "a path delivers a one-hop packet relayed by another peer: "+bad)
			c.check(okB, "C33.dispatch-guards", "callback ⊢ originator broadcasts only from validators", cb.Pos(), ev, "a path delivers an originator broadcast without the resolved root role: "+bad)
			c.check(okC, "C33.dispatch-guards", "callback ⊢ packet does not claim this node as source", cb.Pos(), ev, "a path delivers a packet whose source is this node: "+bad)
			c.check(okD, "C33.dispatch-guards", "callback ⊢ one-hop or not seen before", cb.Pos(), ev, "a path delivers a flooded packet without the duplicate filter accepting it: "+bad)
			// callback gets this packet and peer
			_, a := callArgs(cb.Common())
			c.check(len(a) == 2 && render(a[0]) == "$0" && render(a[1]) == "$1", "C33.dispatch-guards", "callback receives the checked packet and peer", cb.Pos(), "cb(pkt, p)", "callback arguments differ")
		}
		// role-source: the role consulted is the resolved one
		nRole := 0
		for _, cs := range c.calls(op, byMethod("HasRole", "HasRecvRole", "EqualsRole")) {
			nRole++
			c.check(methodName(cs.Common()) == "HasRole", "C33.role-source", "origin authorised by the resolved role", cs.Pos(), "p.HasRole(root)", "the dispatcher consults "+methodName(cs.Common())+": a role the remote peer merely claims")
			_, a := callArgs(cs.Common())
			if k, ok := constInt(a[0]); ok {
				root, _ := c.constVal(pkg, "p2pRoleRoot")
				c.check(k == root, "C33.role-source", "required role is root (validator)", cs.Pos(), "p2pRoleRoot", fmt.Sprintf("role %d", k))
			}
		}
		if nRole == 0 {
			c.violate("C33.role-source", "origin authorisation", op.Pos(), "no role check in the dispatcher")
		}
		oneHop, bcast := c33Flags(c, op)
		c.check(oneHop != nil, "C33.flag-definitions", "one-hop ⇔ ttl ≠ 0 ∨ dest == peer", op.Pos(), "as stated", "the one-hop classification is not `ttl != 0 || dest == peer`")
		c.check(bcast != nil, "C33.flag-definitions", "broadcast ⇔ dest == any ∧ ttl == 0", op.Pos(), "as stated", "the broadcast classification is not `dest == any && ttl == 0`")
	}

	// ---- atomic-put
	if put := c.mustFn(pkg, "PacketPool", "Put"); put != nil {
		locks := c.calls(put, func(cc *ssa.CallCommon) bool {
			r, _ := callArgs(cc)
			return methodName(cc) == "Lock" && r != nil && strings.HasSuffix(render(r), "$r.mtx")
		})
		tests := c.calls(put, byMethod("_contains", "Contains", "contains"))
		var ins *ssa.MapUpdate
		for _, b := range put.Blocks {
			for _, in := range b.Instrs {
				if mu, ok := in.(*ssa.MapUpdate); ok {
					ins = mu
				}
			}
		}
		if len(locks) != 1 || len(tests) != 1 || ins == nil {
			c.violate("C33.atomic-put", "PacketPool.Put structure", put.Pos(), fmt.Sprintf("expected one exclusive Lock, one membership test and one insert (found %d, %d, insert=%v)", len(locks), len(tests), ins != nil))
		} else {
			c.check(dominatesInstr(locks[0].Instr, tests[0].Instr) && dominatesInstr(tests[0].Instr, ins), "C33.atomic-put", "membership test and insert inside one exclusive-lock hold", tests[0].Pos(), "Lock → test → insert", "the membership test is not made under the same exclusive lock as the insert: concurrent relays of one packet both succeed")
			c.check(methodName(tests[0].Common()) == "_contains", "C33.atomic-put", "the test used under the lock does not lock again", tests[0].Pos(), "_contains", "Put calls the locking "+methodName(tests[0].Common()))
			// no unlock between lock and insert (only deferred)
			for _, u := range c.calls(put, byMethod("Unlock", "RUnlock")) {
				_, isDefer := u.Instr.(*ssa.Defer)
				c.check(isDefer, "C33.atomic-put", "lock held until return", u.Pos(), "deferred Unlock", "the lock is released before the insert")
			}
			c.requireAt("C33.atomic-put", "insert only on a miss", ins, wFalse("not contained", `^\$r\._contains\(\$0\)$`))
			c.check(render(ins.Key) == "$0.hashOfPacket" && render(ins.Value) == "$0", "C33.atomic-put", "inserted under the packet's checksum", ins.Pos(), "buckets[cur][hash] = pkt", "inserts "+render(ins.Key)+" → "+render(ins.Value))
			for _, e := range exitAlts(put) {
				_, hit := holds(e.Guards, wTrue("contained", `^\$r\._contains\(\$0\)$`))
				if hit {
					c.check(isConstBool(e.Results[0], false), "C33.atomic-put", "a known packet is reported as duplicate", e.pos(), "false", "Put returns "+render(e.Results[0])+" for a packet it already holds")
				} else {
					c.check(isConstBool(e.Results[0], true), "C33.atomic-put", "a new packet is reported as new", e.pos(), "true", "Put returns "+render(e.Results[0])+" after inserting")
				}
			}
		}
		// the membership test compares the checksum in every bucket
		if ct := c.fn(pkg, "PacketPool", "_contains"); ct != nil {
			okLookup := false
			for _, b := range ct.Blocks {
				for _, in := range b.Instrs {
					if lk, ok := in.(*ssa.Lookup); ok && render(lk.Index) == "$0.hashOfPacket" {
						okLookup = true
					}
				}
			}
			c.check(okLookup, "C33.atomic-put", "membership keyed by the packet checksum", ct.Pos(), "buckets[i][pkt.hashOfPacket]", "membership is not keyed by hashOfPacket")
		}
	}
	_ = token.NoPos
}

// c33Flags finds the classification flags by their definition:
// oneHop = ttl != 0 || dest == peer ; bcast = dest == any && ttl == 0.
func c33Flags(c *Ctx, op *ssa.Function) (oneHop, bcast ssa.Value) {
	dAny, _ := c.constVal("network", "p2pDestAny")
	dPeer := destPeer(c)
	for _, b := range op.Blocks {
		for _, in := range b.Instrs {
			phi, ok := in.(*ssa.Phi)
			if !ok || len(phi.Edges) != 2 {
				continue
			}
			for i, e := range phi.Edges {
				other := phi.Edges[1-i]
				eg := edgeGuard(phi.Block().Preds[i], phi.Block())
				if isConstBool(e, true) {
					_, ttlNZ := holds(eg, wNE("ttl ≠ 0", 0, t(1, `^\$0\.ttl$`)))
					p := predOfVal(other, true)
					if ttlNZ && p.Kind == "eq" && p.L.T["$0.dest"] == 1 && len(p.L.T) == 1 && p.L.K == -dPeer {
						oneHop = phi
					}
				}
				if isConstBool(e, false) {
					_, destNotAny := holds(eg, wNE("dest ≠ any", -dAny, t(1, `^\$0\.dest$`)))
					p := predOfVal(other, true)
					if destNotAny && p.Kind == "eq" && p.L.T["$0.ttl"] == 1 && len(p.L.T) == 1 && p.L.K == 0 {
						bcast = phi
					}
				}
			}
		}
	}
	return
}

func destPeer(c *Ctx) int64 {
	v, _ := c.constVal("network", "p2pDestPeer")
	return v
}
