package main

import (
	"fmt"
	"go/constant"
	"go/token"
	"strings"

	"golang.org/x/tools/go/ssa"
)

// C33 — flooded messages are delivered once and only from authorized origins.
func init() {
	register(&Prop{
		ID:             "C33",
		Pkgs:           []string{"network"},
		Run:            runC33,
		MinObligations: 10,
		Technique:      "static analysis: path-sensitive analysis over a finite boolean domain — the dispatcher's tests (ttl == 0, dest == peer/any, sender is source, source is self, resolved root role, duplicate filter accepted) are classified into atoms and reachability of the application callback is decided on the CFG for every truth assignment; atomicity (single write-lock hold) of the duplicate filter's test-and-insert; ring-scan shape; role bookkeeping rules",
		LevelText:      "Decides on all paths: the application callback in PeerToPeer.onPacket runs only if (a) the packet is not a one-hop packet from someone other than its source peer, (b) it is not an originator broadcast from a peer whose *resolved* role lacks the validator (root) flag, (c) the source is not this node, and (d) it is one-hop or PacketPool.Put accepted it; one-hop means ttl ≠ 0 or dest == peer and originator broadcast means dest == any with ttl == 0, stated directly over the packet fields (so the result does not depend on how the code names, spells or nests its tests); PacketPool.Put performs the membership test and the insert inside one exclusive-lock hold, returns false on a hit without inserting, and inserts under the packet's checksum on a miss — so concurrent relays of one flooded packet yield exactly one `true`.",
		LevelNote:      "Collision resistance of the 64-bit packet checksum and eviction of old buckets bound the `at most once` guarantee in time; not decided.",
		Explanation:    "C33 rules: dispatch-guards (K1 with alternatives), flag-definitions (K5), atomic-put (K6 + K2), role-source (K5: resolved role, not the claimed one).",
		Mutants: []Mutant{
			{Name: "put-check-then-lock", File: "network/pool.go", Old: "func (p *PacketPool) Put(pkt *Packet) bool {\n\tdefer p.mtx.Unlock()\n\tp.mtx.Lock()\n\n\tif p._contains(pkt) {\n\t\treturn false\n\t}", New: "func (p *PacketPool) Put(pkt *Packet) bool {\n\tif p.Contains(pkt) {\n\t\treturn false\n\t}\n\tdefer p.mtx.Unlock()\n\tp.mtx.Lock()\n", Desc: "membership test outside the exclusive lock: two relays both insert"},
			{Name: "claimed-role", File: "network/p2p.go", Old: "if isBroadcast && isSourcePeer && !p.HasRole(p2pRoleRoot) {", New: "if isBroadcast && isSourcePeer && !p.HasRecvRole(p2pRoleRoot) {", Desc: "origin authorised by the role the peer claims, not the resolved one"},
			{Name: "onehop-src-unchecked", File: "network/p2p.go", Old: "\t\tif isOneHop && !isSourcePeer {", New: "\t\tif isOneHop && !isSourcePeer && pkt.ttl > 1 {", Desc: "one-hop packets accepted from a relay"},
			{Name: "broadcast-flag-ttl", File: "network/p2p.go", Old: "isBroadcast := pkt.dest == p2pDestAny && pkt.ttl == 0", New: "isBroadcast := pkt.dest == p2pDestAny && pkt.ttl != 0", Desc: "originator check applied to the wrong packets"},
			{Name: "deliver-duplicates", File: "network/p2p.go", Old: "if isOneHop || p2p.packetPool.Put(pkt) {", New: "if isOneHop || p2p.packetPool.Put(pkt) || pkt.forceSend {", Desc: "duplicates delivered under an extra condition"},
			{Name: "put-returns-true-on-hit", File: "network/pool.go", Old: "\tif p._contains(pkt) {\n\t\treturn false\n\t}\n\tm := p.buckets[p.cur]", New: "\tif p._contains(pkt) {\n\t\treturn p.cur == 0\n\t}\n\tm := p.buckets[p.cur]", Desc: "a known packet is reported as new"},
		},
	})
}

func runC33(c *Ctx) {
	runC33Extra(c)
	const pkg = "network"
	op := c.mustFn(pkg, "PeerToPeer", "onPacket")
	if op != nil {
		// the application callback: dynamic call of a value loaded from onPacketCbFuncs
		var cb ssa.CallInstruction
		for _, b := range op.Blocks {
			for _, in := range b.Instrs {
				if ci, ok := in.(*ssa.Call); ok && strings.Contains(render(ci.Common().Value), ".onPacketCbFuncs[") {
					cb = ci
				}
			}
		}
		if cb == nil {
			c.violate("C33.dispatch-guards", "application callback", op.Pos(), "callback dispatch through onPacketCbFuncs not found")
		} else {
			// decided over the atoms the dispatcher tests, for every truth assignment under which the
			// callback is reachable (independent of how the tests are spelled, ordered or named)
			peerDest, anyDest := destPeer(c), func() int64 { v, _ := c.constVal(pkg, "p2pDestAny"); return v }()
			rootRole, _ := c.constVal(pkg, "p2pRoleRoot")
			sim := &boolSim{fn: op, atoms: func(v ssa.Value) (string, bool, bool) {
				switch x := v.(type) {
				case *ssa.BinOp:
					if x.Op != token.EQL && x.Op != token.NEQ {
						return "", false, false
					}
					l, r := x.X, x.Y
					if _, isK := l.(*ssa.Const); isK {
						l, r = r, l
					}
					k, isK := constInt(r)
					if !isK {
						return "", false, false
					}
					pol := x.Op == token.EQL
					switch render(l) {
					case "$0.ttl":
						if k == 0 {
							return "ttl0", pol, true
						}
					case "$0.dest":
						if k == peerDest {
							return "destPeer", pol, true
						}
						if k == anyDest {
							return "destAny", pol, true
						}
					}
				case *ssa.Call:
					switch r := render(x); {
					case r == "$1.ID().Equal($0.src)" || r == "$0.src.Equal($1.ID())":
						return "fromSource", true, true
					case r == "$r.ID().Equal($0.src)" || r == "$0.src.Equal($r.ID())":
						return "selfSource", true, true
					case r == fmt.Sprintf("$1.HasRole(%d)", rootRole) || r == fmt.Sprintf("$1.Role().Has(%d)", rootRole):
						return "rootRole", true, true
					case r == "$r.packetPool.Put($0)":
						return "firstSight", true, true
					}
				}
				return "", false, false
			}}
			okA, okB, okC, okD := true, true, true, true
			bad := ""
			nReach := 0
			forAllAssignments([]string{"ttl0", "destPeer", "destAny", "fromSource", "selfSource", "rootRole", "firstSight"}, func(env map[string]bool) {
				if env["destPeer"] && env["destAny"] {
					return // one destination byte
				}
				if !sim.reachable(cb, env) {
					return
				}
				nReach++
				oneHop := !env["ttl0"] || env["destPeer"]
				desc := fmt.Sprintf("ttl==0:%v dest==peer:%v dest==any:%v from its source:%v src==self:%v root role:%v first sight:%v", env["ttl0"], env["destPeer"], env["destAny"], env["fromSource"], env["selfSource"], env["rootRole"], env["firstSight"])
				if oneHop && !env["fromSource"] {
					okA, bad = false, desc
				}
				if env["destAny"] && env["ttl0"] && env["fromSource"] && !env["rootRole"] {
					okB, bad = false, desc
				}
				if env["selfSource"] {
					okC, bad = false, desc
				}
				if !oneHop && !env["firstSight"] {
					okD, bad = false, desc
				}
			})
			if nReach == 0 {
				okA, okB, okC, okD = false, false, false, false
				bad = "the callback is not reachable under any assignment (atoms not recognised)"
			}
			ev := fmt.Sprintf("%d of 96 assignments deliver", nReach)
			c.check(okA, "C33.dispatch-guards", "callback ⊢ one-hop packets only from their source peer", cb.Pos(), ev, "a path delivers a one-hop packet relayed by another peer: "+bad)
			c.check(okB, "C33.dispatch-guards", "callback ⊢ originator broadcasts only from validators", cb.Pos(), ev, "a path delivers an originator broadcast without the resolved root role: "+bad)
			c.check(okC, "C33.dispatch-guards", "callback ⊢ packet does not claim this node as source", cb.Pos(), ev, "a path delivers a packet whose source is this node: "+bad)
			c.check(okD, "C33.dispatch-guards", "callback ⊢ one-hop or not seen before", cb.Pos(), ev, "a path delivers a flooded packet without the duplicate filter accepting it: "+bad)
			// callback gets this packet and peer
			_, a := callArgs(cb.Common())
			c.check(len(a) == 2 && render(a[0]) == "$0" && render(a[1]) == "$1", "C33.dispatch-guards", "callback receives the checked packet and peer", cb.Pos(), "cb(pkt, p)", "callback arguments differ")
		}
		// role-source: the role consulted is the resolved one
		nRole := 0
		for _, cs := range c.calls(op, byMethod("HasRole", "HasRecvRole", "EqualsRole", "Has")) {
			if methodName(cs.Common()) == "Has" {
				r, _ := callArgs(cs.Common())
				rr := render(r)
				if rr != "$1.Role()" && rr != "$1.RecvRole()" {
					continue
				}
				nRole++
				c.check(rr == "$1.Role()", "C33.role-source", "origin authorised by the resolved role", cs.Pos(), "p.Role().Has(root)", "the dispatcher consults "+rr+": a role the remote peer merely claims")
				_, a := callArgs(cs.Common())
				if k, ok := constInt(a[0]); ok {
					root, _ := c.constVal(pkg, "p2pRoleRoot")
					c.check(k == root, "C33.role-source", "required role is root (validator)", cs.Pos(), "p2pRoleRoot", fmt.Sprintf("role %d", k))
				}
				continue
			}
			nRole++
			c.check(methodName(cs.Common()) == "HasRole", "C33.role-source", "origin authorised by the resolved role", cs.Pos(), "p.HasRole(root)", "the dispatcher consults "+methodName(cs.Common())+": a role the remote peer merely claims")
			_, a := callArgs(cs.Common())
			if k, ok := constInt(a[0]); ok {
				root, _ := c.constVal(pkg, "p2pRoleRoot")
				c.check(k == root, "C33.role-source", "required role is root (validator)", cs.Pos(), "p2pRoleRoot", fmt.Sprintf("role %d", k))
			}
		}
		if nRole == 0 {
			c.violate("C33.role-source", "origin authorisation", op.Pos(), "no role check in the dispatcher")
		}
	}

	// ---- atomic-put
	if put := c.mustFn(pkg, "PacketPool", "Put"); put != nil {
		locks := c.calls(put, func(cc *ssa.CallCommon) bool {
			r, _ := callArgs(cc)
			return methodName(cc) == "Lock" && r != nil && strings.HasSuffix(render(r), "$r.mtx")
		})
		tests := c.calls(put, byMethod("_contains", "Contains", "contains"))
		var ins *ssa.MapUpdate
		for _, b := range put.Blocks {
			for _, in := range b.Instrs {
				if mu, ok := in.(*ssa.MapUpdate); ok {
					ins = mu
				}
			}
		}
		if len(locks) != 1 || len(tests) != 1 || ins == nil {
			c.violate("C33.atomic-put", "PacketPool.Put structure", put.Pos(), fmt.Sprintf("expected one exclusive Lock, one membership test and one insert (found %d, %d, insert=%v)", len(locks), len(tests), ins != nil))
		} else {
			c.check(dominatesInstr(locks[0].Instr, tests[0].Instr) && dominatesInstr(tests[0].Instr, ins), "C33.atomic-put", "membership test and insert inside one exclusive-lock hold", tests[0].Pos(), "Lock → test → insert", "the membership test is not made under the same exclusive lock as the insert: concurrent relays of one packet both succeed")
			c.check(methodName(tests[0].Common()) == "_contains", "C33.atomic-put", "the test used under the lock does not lock again", tests[0].Pos(), "_contains", "Put calls the locking "+methodName(tests[0].Common()))
			// no unlock between lock and insert (only deferred)
			for _, u := range c.calls(put, byMethod("Unlock", "RUnlock")) {
				_, isDefer := u.Instr.(*ssa.Defer)
				c.check(isDefer, "C33.atomic-put", "lock held until return", u.Pos(), "deferred Unlock", "the lock is released before the insert")
			}
			c.requireAt("C33.atomic-put", "insert only on a miss", ins, wFalse("not contained", `^\$r\._contains\(\$0\)$`))
			c.check(render(ins.Key) == "$0.hashOfPacket" && render(ins.Value) == "$0", "C33.atomic-put", "inserted under the packet's checksum", ins.Pos(), "buckets[cur][hash] = pkt", "inserts "+render(ins.Key)+" → "+render(ins.Value))
			for _, e := range exitAlts(put) {
				_, hit := holds(e.Guards, wTrue("contained", `^\$r\._contains\(\$0\)$`))
				if hit {
					c.check(isConstBool(e.Results[0], false), "C33.atomic-put", "a known packet is reported as duplicate", e.pos(), "false", "Put returns "+render(e.Results[0])+" for a packet it already holds")
				} else {
					c.check(isConstBool(e.Results[0], true), "C33.atomic-put", "a new packet is reported as new", e.pos(), "true", "Put returns "+render(e.Results[0])+" after inserting")
				}
			}
		}
		// the membership test compares the checksum in every bucket
		if ct := c.fn(pkg, "PacketPool", "_contains"); ct != nil {
			okLookup := false
			for _, b := range ct.Blocks {
				for _, in := range b.Instrs {
					if lk, ok := in.(*ssa.Lookup); ok && render(lk.Index) == "$0.hashOfPacket" {
						okLookup = true
					}
				}
			}
			c.check(okLookup, "C33.atomic-put", "membership keyed by the packet checksum", ct.Pos(), "buckets[i][pkt.hashOfPacket]", "membership is not keyed by hashOfPacket")
		}
	}
	_ = token.NoPos
}

// c33Flags finds the classification flags by their definition:
// oneHop = ttl != 0 || dest == peer ; bcast = dest == any && ttl == 0.
func c33Flags(c *Ctx, op *ssa.Function) (oneHop, bcast ssa.Value) {
	dAny, _ := c.constVal("network", "p2pDestAny")
	dPeer := destPeer(c)
	for _, b := range op.Blocks {
		for _, in := range b.Instrs {
			phi, ok := in.(*ssa.Phi)
			if !ok || len(phi.Edges) != 2 {
				continue
			}
			for i, e := range phi.Edges {
				other := phi.Edges[1-i]
				eg := edgeGuard(phi.Block().Preds[i], phi.Block())
				if isConstBool(e, true) {
					_, ttlNZ := holds(eg, wNE("ttl ≠ 0", 0, t(1, `^\$0\.ttl$`)))
					p := predOfVal(other, true)
					if ttlNZ && p.Kind == "eq" && p.L.T["$0.dest"] == 1 && len(p.L.T) == 1 && p.L.K == -dPeer {
						oneHop = phi
					}
				}
				if isConstBool(e, false) {
					_, destNotAny := holds(eg, wNE("dest ≠ any", -dAny, t(1, `^\$0\.dest$`)))
					p := predOfVal(other, true)
					if destNotAny && p.Kind == "eq" && p.L.T["$0.ttl"] == 1 && len(p.L.T) == 1 && p.L.K == 0 {
						bcast = phi
					}
				}
			}
		}
	}
	return
}

func destPeer(c *Ctx) int64 {
	v, _ := c.constVal("network", "p2pDestPeer")
	return v
}

// runC33Extra: the dedup ring is scanned over all buckets (wrap to the last
// bucket, stop early only at an unallocated one); a role flag is granted or
// stripped by the allowed set of that very role; an update of an allowed set
// both grants and revokes; and a resolved role that differs from the stored
// one is stored (downgrades included).
func runC33Extra(c *Ctx) {
	const pkg = "network"
	// (1) ring scan
	if f := c.mustFn(pkg, "PacketPool", "_contains"); f != nil {
		var cur *ssa.Phi
		for _, b := range f.Blocks {
			for _, in := range b.Instrs {
				if p, ok := in.(*ssa.Phi); ok && p.Comment == "cur" && loopHeaderOf(b) == b {
					cur = p
				}
			}
		}
		okWrap := false
		desc := "scan cursor not recognised"
		if cur != nil {
			type nv struct {
				l  Lin
				gs []Guard
			}
			var next func(v ssa.Value, gs []Guard, d int) []nv
			next = func(v ssa.Value, gs []Guard, d int) []nv {
				if d > 4 {
					return []nv{{linOf(v), gs}}
				}
				switch x := v.(type) {
				case *ssa.BinOp:
					if k, ok := constInt(x.Y); ok && (x.Op == token.SUB || x.Op == token.ADD) {
						if x.Op == token.SUB {
							k = -k
						}
						var out []nv
						for _, n := range next(x.X, gs, d+1) {
							l := n.l.add(Lin{T: map[string]int64{}, K: k}, 1)
							out = append(out, nv{l, n.gs})
						}
						return out
					}
				case *ssa.Phi:
					if x != cur {
						var out []nv
						for i, e := range x.Edges {
							eg := append(append([]Guard{}, gs...), guardsOnEdge(x.Block().Preds[i], x.Block())...)
							out = append(out, next(e, eg, d+1)...)
						}
						return out
					}
				}
				return []nv{{linOf(v), gs}}
			}
			for i, e := range cur.Edges {
				if !cur.Block().Dominates(cur.Block().Preds[i]) {
					continue
				}
				vals := next(e, nil, 0)
				good := 0
				var forms []string
				curAtom := render(cur)
				for _, n := range vals {
					forms = append(forms, n.l.String())
					_, atZero := holds(n.gs, wGE("cursor < 1", 0, t(-1, `^phi\(`)))
					_, above := holds(n.gs, wGE("cursor ≥ 1", -1, t(1, `^phi\(`)))
					switch {
					case len(n.l.T) == 1 && n.l.T[curAtom] == 1 && n.l.K == -1 && above:
						good++
					case len(n.l.T) == 1 && n.l.T["$r.numOfBucket"] == 1 && n.l.K == -1 && atZero:
						good++
					}
				}
				desc = strings.Join(forms, " | ")
				okWrap = good == 2 && len(vals) == 2
			}
		}
		c.check(okWrap, "C33.ring-scan", "the duplicate scan steps back one bucket and wraps from bucket 0 to the last bucket", f.Pos(), desc, "the scan cursor's step is "+desc+": after the ring wrapped some bucket is never consulted and a duplicate stored there is delivered again")
		n := 0
		for _, e := range exitAlts(f) {
			if !isConstBool(e.Results[0], false) {
				continue
			}
			if cur == nil {
				continue
			}
			h := cur.Block()
			body := loopBody(h)
			normal := false
			for _, sc := range h.Succs {
				if !body[sc] && (sc == e.Ret.Block() || (e.Pred != nil && sc == e.Pred)) {
					normal = true
				}
			}
			if normal || !h.Dominates(e.Ret.Block()) {
				continue // after the loop: every bucket was consulted
			}
			n++
			c.requireGuard("C33.ring-scan", "the scan gives up early only at an unallocated bucket", e.pos(), e.Guards, wSame("bucket == nil", `^\$r\.buckets\[`, `^nil$`))
		}
		if n == 0 {
			c.okTrivial("C33.ring-scan", "no early negative exit", f.Pos(), "scan runs to the end")
		}
	}
	// (2) role flag ↔ allowed set of the same role
	if f := c.mustFn(pkg, "PeerToPeer", "resolveRole"); f != nil {
		root, _ := c.constVal(pkg, "p2pRoleRoot")
		seed, _ := c.constVal(pkg, "p2pRoleSeed")
		n := 0
		for _, cs := range c.calls(f, byMethod("SetFlag", "UnSetFlag")) {
			_, a := callArgs(cs.Common())
			k, ok := constInt(a[len(a)-1])
			if !ok {
				continue
			}
			want := map[int64]string{root: "allowedRoots", seed: "allowedSeeds"}[k]
			other := map[int64]string{root: "allowedSeeds", seed: "allowedRoots"}[k]
			n++
			bad := ""
			found := false
			for _, alt := range [][]Guard{guardsAt(cs.Instr)} {
				for _, g := range alt {
					r := render(g.Cond)
					if !strings.Contains(r, ".Contains($1)") {
						continue
					}
					if strings.Contains(r, "."+want+".Contains($1)") {
						found = true
					}
					if strings.Contains(r, "."+other+".Contains($1)") {
						bad = r
					}
				}
			}
			c.check(found && bad == "", "C33.role-by-own-set", fmt.Sprintf("resolveRole: %s(%d) is decided by membership in %s", methodName(cs.Common()), k, want), cs.Pos(), want+".Contains(id)", fmt.Sprintf("the role flag %d is granted/stripped by %s (membership in %s decisive: %v): a peer authorised for the other role keeps a role it is not authorised for, and its broadcasts are accepted", k, bad, want, found))
		}
		if n < 6 {
			c.undecided("C33.role-by-own-set", "resolveRole flag updates", f.Pos(), fmt.Sprintf("expected 6, found %d", n))
		}
	}
	// (3) allowed-set update: grant and revoke
	if f := c.mustFn(pkg, "PeerToPeer", "onAllowedPeerIDSetUpdate"); f != nil {
		nPred := 0
		for _, an := range f.AnonFuncs {
			if an.Signature.Results().Len() != 1 || len(c.calls(an, byMethod("HasRole"))) == 0 {
				continue
			}
			nPred++
			eval := func(v ssa.Value, h, s bool) (bool, bool) { return false, false }
			eval = func(v ssa.Value, h, s bool) (bool, bool) {
				switch x := v.(type) {
				case *ssa.Const:
					if x.Value != nil && x.Value.Kind() == constant.Bool {
						return constant.BoolVal(x.Value), true
					}
				case *ssa.Call:
					switch methodName(x.Common()) {
					case "HasRole":
						return h, true
					case "Contains":
						return s, true
					}
				case *ssa.UnOp:
					if x.Op == token.NOT {
						b, ok := eval(x.X, h, s)
						return !b, ok
					}
				case *ssa.BinOp:
					a, ok1 := eval(x.X, h, s)
					b, ok2 := eval(x.Y, h, s)
					if ok1 && ok2 {
						switch x.Op {
						case token.NEQ, token.XOR:
							return a != b, true
						case token.EQL:
							return a == b, true
						case token.AND:
							return a && b, true
						case token.OR:
							return a || b, true
						}
					}
				}
				return false, false
			}
			table := ""
			okT := true
			for _, asg := range [][2]bool{{true, false}, {false, true}, {true, true}, {false, false}} {
				res, decided := false, false
				for _, e := range exitAlts(an) {
					consistent := true
					for _, g := range e.Guards {
						b, ok := eval(g.Cond, asg[0], asg[1])
						if !ok || b != g.Pol {
							consistent = false
						}
					}
					if !consistent {
						continue
					}
					if b, ok := eval(e.Results[0], asg[0], asg[1]); ok {
						res, decided = b, true
					}
				}
				want := asg[0] != asg[1]
				table += fmt.Sprintf("(has=%v,allowed=%v)→%v ", asg[0], asg[1], res)
				if !decided || res != want {
					okT = false
				}
			}
			c.check(okT, "C33.set-update", "an allowed-set update selects the peers that must gain the role and those that must lose it", an.Pos(), "HasRole(r) != allowed.Contains(id)", "the selection is "+table+": a peer removed from the allowed set keeps the role (or one added never gets it), so broadcasts of a revoked validator are still accepted")
		}
		if nPred != 1 {
			c.undecided("C33.set-update", "onAllowedPeerIDSetUpdate predicate", f.Pos(), fmt.Sprintf("expected one selecting closure, found %d", nPred))
		}
		for _, an := range f.AnonFuncs {
			for _, cs := range c.calls(an, byMethod("removeRole")) {
				c.requireAt("C33.set-update", "the role is removed from a peer that has it", cs.Instr, wTrue("HasRole(r)", `\.HasRole\(`))
			}
			for _, cs := range c.calls(an, byMethod("addRole")) {
				c.requireAt("C33.set-update", "the role is added to a peer that lacks it", cs.Instr, wFalse("HasRole(r)", `\.HasRole\(`))
			}
		}
	}
	// (4) a resolved role that differs is stored
	nUpd := 0
	for _, f := range c.pkgFuncs(pkg) {
		rs := c.calls(f, byCallee("PeerToPeer).resolveRole"))
		if len(rs) != 1 || f.Name() == "resolveRole" {
			continue
		}
		sets := c.calls(f, func(cc *ssa.CallCommon) bool {
			_, a := callArgs(cc)
			return methodName(cc) == "setRole" && len(a) == 1 && a[0] == rs[0].Instr.Value()
		})
		if len(sets) == 0 {
			continue
		}
		nUpd++
		for _, st := range sets {
			alts := [][]Guard{guardsAt(st.Instr)}
			okG := true
			why := ""
			for _, alt := range alts {
				for _, g := range alt {
					r := render(g.Cond)
					if strings.Contains(r, "Role(") && !(strings.Contains(r, ".EqualsRole(") && !g.Pol) {
						okG = false
						why = g.String()
					}
				}
			}
			c.check(okG, "C33.role-update", fnName(f)+" stores the resolved role whenever it differs from the stored one", st.Pos(), "skipped only if EqualsRole(resolved)", "the update is conditioned on "+why+": a subset test never applies a downgrade, so a peer keeps a role it no longer resolves to")
			_, skip := pathAvoidingEdges(f, rs[0].Instr, isReturn, func(in ssa.Instruction) bool { return in == ssa.Instruction(st.Instr) }, wTrue("role unchanged", `\.EqualsRole\(`))
			c.check(!skip, "C33.role-update", fnName(f)+" cannot finish without storing a changed role", st.Pos(), "no bypass", "a path from resolveRole to the end skips the store although the role differs")
		}
	}
	if nUpd < 3 {
		c.undecided("C33.role-update", "resolveRole→setRole sites", token.NoPos, fmt.Sprintf("expected 3 (setRole, handleQuery, handleQueryResult), found %d", nUpd))
	}
}
