package main

import (
	"go/token"
	"go/types"
	"sort"
	"strings"

	"golang.org/x/tools/go/ssa"
)

var phiDepth int

// pathEdgeFilter, when set, makes pathAvoiding ignore the CFG edges for which
// it returns true (used through pathAvoidingEdges only).
var pathEdgeFilter func(from, to *ssa.BasicBlock) bool

// pathAvoidingEdges is pathAvoiding that additionally never takes an edge on
// which one of the given wants is established (e.g. "the frame is read-only").
func pathAvoidingEdges(fn *ssa.Function, from ssa.Instruction, target, avoid func(ssa.Instruction) bool, excused ...Want) ([]*ssa.BasicBlock, bool) {
	pathEdgeFilter = func(p, s *ssa.BasicBlock) bool {
		eg := edgeGuard(p, s)
		for _, w := range excused {
			if _, ok := holds(eg, w); ok {
				return true
			}
		}
		return false
	}
	defer func() { pathEdgeFilter = nil }()
	return pathAvoiding(fn, from, target, avoid)
}

// counterIncrements recognises a loop counter: a header phi whose incoming
// values are one start value (satisfying start, from outside the loop) and
// otherwise `phi + 1`, possibly merged through further phis (for.post with
// several `continue` paths). It returns the increment instructions.
func counterIncrements(phi *ssa.Phi, start func(ssa.Value) bool) ([]*ssa.BinOp, bool) {
	var incs []*ssa.BinOp
	nStart := 0
	seen := map[*ssa.Phi]bool{phi: true}
	var walk func(v ssa.Value) bool
	walk = func(v ssa.Value) bool {
		switch x := v.(type) {
		case *ssa.BinOp:
			if x.Op == token.ADD && x.X == ssa.Value(phi) {
				if k, ok := constInt(x.Y); ok && k == 1 {
					incs = append(incs, x)
					return true
				}
			}
			return false
		case *ssa.Phi:
			if seen[x] {
				return true
			}
			seen[x] = true
			for _, e := range x.Edges {
				if !walk(e) {
					return false
				}
			}
			return true
		}
		return false
	}
	for i, e := range phi.Edges {
		pred := phi.Block().Preds[i]
		if !phi.Block().Dominates(pred) { // entry edge
			if !start(e) {
				return nil, false
			}
			nStart++
			continue
		}
		if !walk(e) {
			return nil, false
		}
	}
	return incs, nStart == 1 && len(incs) > 0
}

// fieldStoresAny finds every store to any field of struct type typeName.
func fieldStoresAny(fns []*ssa.Function, typeName string) []fieldStore {
	var out []fieldStore
	for _, fn := range fns {
		for _, b := range fn.Blocks {
			for _, in := range b.Instrs {
				st, ok := in.(*ssa.Store)
				if !ok {
					continue
				}
				fa, ok := st.Addr.(*ssa.FieldAddr)
				if ok && namedOf(fa.X.Type()) == typeName {
					out = append(out, fieldStore{fn, st, fa})
				}
			}
		}
	}
	return out
}

// contradictoryR: P and ¬P over conditions with the same rendering. Only for
// functions that do not write the memory the conditions read in between.
func contradictoryR(gs []Guard) bool {
	seen := map[string]bool{}
	for _, g := range gs {
		p := predOf(g)
		k := p.Kind + "|" + p.A + "|" + p.B + "|" + p.L.String()
		pol := p.Pol
		if p.Kind == "eq" {
			k = "eqne|" + p.L.String()
			pol = true
		} else if p.Kind == "ne" {
			k = "eqne|" + p.L.String()
			pol = false
		} else if p.Kind == "ge" {
			continue
		}
		if prev, ok := seen[k]; ok && prev != pol {
			return true
		}
		seen[k] = pol
	}
	return false
}

// spilledParam: the alloc is a local that only ever holds one parameter
// (single store of a *ssa.Parameter in the entry block, no other store in the
// function). Closures that capture it may read it; they are not inspected, so
// this is applied only when no nested function stores through the variable.
func spilledParam(al *ssa.Alloc) *ssa.Parameter {
	if al.Referrers() == nil {
		return nil
	}
	var p *ssa.Parameter
	n := 0
	for _, r := range *al.Referrers() {
		if st, ok := r.(*ssa.Store); ok && st.Addr == ssa.Value(al) {
			n++
			if pp, ok := st.Val.(*ssa.Parameter); ok && st.Block() == al.Parent().Blocks[0] {
				p = pp
			}
		}
	}
	if n != 1 || p == nil {
		return nil
	}
	// nested closures must not assign the variable
	for _, anon := range al.Parent().AnonFuncs {
		for _, fv := range anon.FreeVars {
			if fv.Referrers() == nil {
				continue
			}
			for _, r := range *fv.Referrers() {
				if st, ok := r.(*ssa.Store); ok && st.Addr == ssa.Value(fv) && fv.Name() == p.Name() {
					return nil
				}
			}
		}
	}
	return p
}

// directlyRootedAt: the address is a chain of field/index addresses and
// pointer loads starting at root, without any call in between.
func directlyRootedAt(addr ssa.Value, root ssa.Value) bool {
	for i := 0; i < 16; i++ {
		if addr == root {
			return true
		}
		switch x := addr.(type) {
		case *ssa.FieldAddr:
			addr = x.X
		case *ssa.IndexAddr:
			addr = x.X
		case *ssa.UnOp:
			if x.Op != token.MUL {
				return false
			}
			if al, ok := x.X.(*ssa.Alloc); ok {
				if p := spilledParam(al); p != nil {
					addr = p
					continue
				}
			}
			addr = x.X
		default:
			return false
		}
	}
	return false
}

func isZeroConst(v ssa.Value) bool {
	k, ok := constInt(v)
	return ok && k == 0
}

// indexLoop recognises the two ways Go code walks indices 0 … bound−1 and
// returns the SSA value that is the index inside the body and the bound:
//
//	for i := range s / for i, x := range s   (header phi starts at −1, index = phi+1, cond phi+1 < len)
//	for i := 0; i < n; i++                    (header phi starts at 0, index = phi, cond phi < n or n > phi)
//
// ok is false for anything else (other start, other step, other comparison).
func indexLoop(h *ssa.BasicBlock) (idx ssa.Value, bound ssa.Value, ok bool) {
	if h == nil || len(h.Instrs) == 0 {
		return nil, nil, false
	}
	iff, isIf := h.Instrs[len(h.Instrs)-1].(*ssa.If)
	if !isIf {
		return nil, nil, false
	}
	cmp, isCmp := iff.Cond.(*ssa.BinOp)
	if !isCmp {
		return nil, nil, false
	}
	var lhs, rhs ssa.Value
	switch cmp.Op {
	case token.LSS:
		lhs, rhs = cmp.X, cmp.Y
	case token.GTR:
		lhs, rhs = cmp.Y, cmp.X
	default:
		return nil, nil, false
	}
	// the true edge must stay in the loop
	body := loopBody(h)
	if len(h.Succs) != 2 || !body[h.Succs[0]] {
		return nil, nil, false
	}
	if bo, isBo := lhs.(*ssa.BinOp); isBo && bo.Op == token.ADD {
		if phi, isPhi := bo.X.(*ssa.Phi); isPhi && phi.Block() == h {
			if k, isK := constInt(bo.Y); isK && k == 1 {
				if _, isCtr := counterIncrements(phi, func(v ssa.Value) bool { k, ok := constInt(v); return ok && k == -1 }); isCtr {
					return bo, rhs, true
				}
			}
		}
	}
	if phi, isPhi := lhs.(*ssa.Phi); isPhi && phi.Block() == h {
		if _, isCtr := counterIncrements(phi, isZeroConst); isCtr {
			return phi, rhs, true
		}
	}
	return nil, nil, false
}

// pathToExit is pathAvoiding towards one exit alternative: when the alternative
// is one incoming edge of a merged return (single-exit style `err = f(); if err
// == nil { err = g() }; return err`), only paths arriving over that edge count.
func pathToExit(fn *ssa.Function, from ssa.Instruction, e exitAlt, avoid func(ssa.Instruction) bool) ([]*ssa.BasicBlock, bool) {
	old := pathEdgeFilter
	pathEdgeFilter = func(p, s *ssa.BasicBlock) bool {
		if old != nil && old(p, s) {
			return true
		}
		return e.Pred != nil && s == e.Ret.Block() && p != e.Pred
	}
	defer func() { pathEdgeFilter = old }()
	return pathAvoiding(fn, from, func(in ssa.Instruction) bool { return in == ssa.Instruction(e.Ret) }, avoid)
}

// dominatingHeader: the nearest loop header that dominates b — also for blocks
// that leave the loop (return inside the body), which loopHeaderOf excludes.
func dominatingHeader(b *ssa.BasicBlock) *ssa.BasicBlock {
	for h := b; h != nil; h = h.Idom() {
		for _, p := range h.Preds {
			if h.Dominates(p) {
				return h
			}
		}
	}
	return nil
}

// faName is the name of the field a FieldAddr selects.
func faName(fa *ssa.FieldAddr) string { return fieldName(fa.X.Type(), fa.Field) }

// localHelpers returns the unexported functions of fn's package that fn calls statically and that
// nothing else in the package calls or takes as a value (a block of fn's code moved into a helper).
// With sameRecv, only methods on fn's own receiver are returned, so that `$r` reads the same in both.
func (c *Ctx) localHelpers(fn *ssa.Function, sameRecv bool) map[*ssa.Function]ssa.CallInstruction {
	out := map[*ssa.Function]ssa.CallInstruction{}
	if fn.Pkg == nil {
		return out
	}
	cand := map[*ssa.Function]ssa.CallInstruction{}
	for _, b := range fn.Blocks {
		for _, in := range b.Instrs {
			ci, ok := in.(ssa.CallInstruction)
			if !ok {
				continue
			}
			g := ci.Common().StaticCallee()
			if g == nil || g == fn || g.Pkg != fn.Pkg || g.Parent() != nil || exported(g.Name()) || len(g.Blocks) == 0 {
				continue
			}
			if sameRecv {
				if g.Signature.Recv() == nil || fn.Signature.Recv() == nil || !types.Identical(g.Signature.Recv().Type(), fn.Signature.Recv().Type()) {
					continue
				}
			}
			if _, dup := cand[g]; dup {
				cand[g] = nil // called twice from fn
				continue
			}
			cand[g] = ci
		}
	}
	if len(cand) == 0 {
		return out
	}
	// any other use in the package disqualifies
	for _, f := range c.allPkgFuncs(fn.Pkg) {
		for _, b := range f.Blocks {
			for _, in := range b.Instrs {
				for _, op := range in.Operands(nil) {
					g, ok := (*op).(*ssa.Function)
					if !ok {
						continue
					}
					if site, isCand := cand[g]; isCand {
						if ci, isCall := in.(ssa.CallInstruction); isCall && site != nil && ci == site {
							continue
						}
						cand[g] = nil
					}
				}
			}
		}
	}
	for g, site := range cand {
		if site != nil {
			out[g] = site
		}
	}
	return out
}

// allPkgFuncs: every source function (with closures) of an SSA package.
func (c *Ctx) allPkgFuncs(p *ssa.Package) []*ssa.Function {
	return c.pkgFuncs(strings.TrimPrefix(p.Pkg.Path(), modPath+"/"))
}

// callsWithHelpers is calls over fn and its same-receiver local helpers.
func (c *Ctx) callsWithHelpers(fn *ssa.Function, match func(cc *ssa.CallCommon) bool) []callSite {
	out := c.calls(fn, match)
	hs := c.localHelpers(fn, true)
	var keys []*ssa.Function
	for g := range hs {
		keys = append(keys, g)
	}
	sort.Slice(keys, func(i, j int) bool { return keys[i].Pos() < keys[j].Pos() })
	for _, g := range keys {
		out = append(out, c.calls(g, match)...)
	}
	return out
}
