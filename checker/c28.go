package main

import (
	"fmt"
	"go/constant"
	"go/token"
	"go/types"
	"strings"

	"golang.org/x/tools/go/ssa"
)

// C28 — hexary block-hash accumulator is deterministic, provable and rewindable.
func init() {
	register(&Prop{
		ID:             "C28",
		Pkgs:           []string{"icon/merkle/hexary"},
		Run:            runC28,
		MinObligations: 30,
		Technique:      "static analysis: pairing (every temporary carry added to a root is removed on every path), aliasing provenance (values leaving the accumulator are copies or fresh hashes, never windows into a root's buffer; rebuilt roots own their bytes), slice-length algebra over the rewind path (the rebuilt roots are the last `level` entries of the proof on every path), table agreement of the arity constants, guard dominance of proof acceptance and of node persistence",
		LevelText:      "Decides the structural conditions of the three clauses: (determinism) GetMerkleHeader and Finalize undo every temporary carry they push into a root on every path, including error exits, and the header they return holds a fresh hash or a copy — never a slice aliasing a root's buffer that later additions overwrite; add() persists a full node and takes its hash before clearing it, and the length grows only after the add succeeded; (rewind) on every path through SetLen the proof is trimmed or extended at the front to exactly `level` entries, root i is rebuilt from entry len−1−i, from a private copy, with d%16 children and d/=16, with one arity (16 = 2^4) in node, accumulator and tree; (proofs) MerkleTree.Add accepts only if every supplied node hashes to the hash stored in its parent and the leaf equals the supplied hash, and stores proof nodes only after all of that passed; too short proofs are rejected.",
		LevelNote:      "Not decided: equality of headers across rewind for all sequences (a value relation), and collision resistance of SHA3-256.",
		Explanation:    "C28 rules: carry-restore (K6 pairing), no-alias (K5), rewind-shape (K11 length algebra + K5), arity (K4), verify (K1), add-carry (K8 order).",
		Mutants: []Mutant{
			{Name: "rewind-drop-one", File: "icon/merkle/hexary/accumulator.go", Old: "\t} else {\n\t\tover := len(proof) - lvl\n\t\tproof = proof[over:]\n\t}", New: "\t} else if len(proof) > lvl {\n\t\tproof = proof[1:]\n\t}", Desc: "deep rewinds rebuild roots from the wrong levels"},
			{Name: "header-aliases-root", File: "icon/merkle/hexary/accumulator.go", Old: "\t\tif i == len(ba.data.Roots)-1 && r.Len() == 1 {\n\t\t\tcarry = r.GetCopy(0)\n\t\t} else {\n\t\t\thash := r.Hash()", New: "\t\tif i == len(ba.data.Roots)-1 && r.Len() == 1 {\n\t\t\tcarry = r.Get(0)\n\t\t} else {\n\t\t\thash := r.Hash()", Desc: "finalized header shares memory with the live root"},
			{Name: "rewind-shares-cache", File: "icon/merkle/hexary/accumulator.go", Old: "\t\tcopied := append([]byte(nil), proof[len(proof)-1-i]...)\n\t\troots[i], err = newNodeFromBytes(copied)", New: "\t\troots[i], err = newNodeFromBytes(proof[len(proof)-1-i])", Desc: "rebuilt roots share bytes with cached tree nodes"},
			{Name: "carry-not-removed", File: "icon/merkle/hexary/accumulator.go", Old: "\t\t\tcarry = r.Hash()\n\t\t}\n\t\tif restore {\n\t\t\tr.RemoveBack()\n\t\t}", New: "\t\t\tcarry = r.Hash()\n\t\t}\n\t\tif restore && i > 0 {\n\t\t\tr.RemoveBack()\n\t\t}", Desc: "reading the header changes the accumulator"},
			{Name: "rewind-digit", File: "icon/merkle/hexary/accumulator.go", Old: "\t\troots[i].SetLen(int(d%16))\n\t\td = d/16", New: "\t\troots[i].SetLen(int(d%16))\n\t\td = d/8", Desc: "wrong arity when splitting the length"},
			{Name: "clear-before-hash", File: "icon/merkle/hexary/accumulator.go", Old: "\t\thash := rb.Hash()\n\t\trb.Clear()\n", New: "\t\trb.Clear()\n\t\thash := rb.Hash()\n", Desc: "carry taken from the cleared node (nil)"},
			{Name: "len-before-add", File: "icon/merkle/hexary/accumulator.go", Old: "\tif err := ba.add(0, hash); err != nil {\n\t\treturn err\n\t}\n\tba.data.Len++", New: "\tba.data.Len++\n\tif err := ba.add(0, hash); err != nil {\n\t\treturn err\n\t}", Desc: "length grows although the add failed"},
			{Name: "proof-node-unchecked", File: "icon/merkle/hexary/merkletree.go", Old: "\t\t\tif !bytes.Equal(br.Hash(), curHash) {", New: "\t\t\tif i > omit && !bytes.Equal(br.Hash(), curHash) {", Desc: "first supplied proof node is not checked against its parent"},
			{Name: "leaf-unchecked", File: "icon/merkle/hexary/merkletree.go", Old: "\tif !bytes.Equal(br.Get(int(key&0xf)), hash) {\n\t\treturn errors.Wrapf(ErrVerify, \"bad final hash\")\n\t}\n", New: "", Desc: "any hash accepted for a key"},
			{Name: "store-before-verify", File: "icon/merkle/hexary/merkletree.go", Old: "\t\t\tproofBr[i-omit] = br\n\t\t\tif !bytes.Equal(br.Hash(), curHash) {", New: "\t\t\tproofBr[i-omit] = br\n\t\t\t_ = sa.bdb.Put(br)\n\t\t\tif !bytes.Equal(br.Hash(), curHash) {", Desc: "unverified proof nodes are stored"},
			{Name: "short-proof", File: "icon/merkle/hexary/merkletree.go", Old: "\tif len(proof) < minLen {", New: "\tif len(proof) < minLen-1 {", Desc: "too short proofs accepted"},
		},
	})
}

type backPath struct {
	guards []Guard
	first  *ssa.BasicBlock // predecessor of the target through which the path arrives
}

// backPaths enumerates the acyclic paths from `from` to `to` (walking
// predecessors), skipping blocks for which skip holds.
func backPaths(from, to *ssa.BasicBlock, skip func(*ssa.BasicBlock) bool) []backPath {
	var out []backPath
	var walk func(b *ssa.BasicBlock, acc []Guard, first *ssa.BasicBlock, seen map[*ssa.BasicBlock]bool)
	walk = func(b *ssa.BasicBlock, acc []Guard, first *ssa.BasicBlock, seen map[*ssa.BasicBlock]bool) {
		if len(out) > 64 {
			return
		}
		if b == from {
			out = append(out, backPath{acc, first})
			return
		}
		for _, p := range b.Preds {
			if seen[p] || (skip != nil && skip(p)) {
				continue
			}
			s2 := map[*ssa.BasicBlock]bool{p: true}
			for k := range seen {
				s2[k] = true
			}
			f := first
			if b == to {
				f = p
			}
			walk(p, append(append([]Guard{}, acc...), edgeGuard(p, b)...), f, s2)
		}
	}
	walk(to, nil, nil, map[*ssa.BasicBlock]bool{to: true})
	return out
}

// noReturnBlock: the block calls a function that never returns (log.Panicf and friends, builtin panic).
func noReturnBlock(b *ssa.BasicBlock) bool {
	for _, in := range b.Instrs {
		switch x := in.(type) {
		case *ssa.Panic:
			return true
		case *ssa.Call:
			if mn := methodName(x.Common()); strings.HasPrefix(mn, "Panic") || strings.HasPrefix(mn, "Fatal") {
				return true
			}
			n := render(x.Call.Value)
			if strings.Contains(n, "log.Panic") || strings.Contains(n, "log.Fatal") || strings.HasSuffix(n, "global:Panicf") || strings.HasSuffix(n, "global:Panicln") || strings.HasSuffix(n, "global:Fatalf") {
				return true
			}
			if g, ok := loadOf(x.Call.Value).(*ssa.Global); ok && g.Pkg != nil && strings.HasSuffix(g.Pkg.Pkg.Path(), "common/log") && (strings.HasPrefix(g.Name(), "Panic") || strings.HasPrefix(g.Name(), "Fatal")) {
				return true
			}
		}
	}
	return false
}

// sliceLen: the length of a slice value as a linear form.
func sliceLen(v ssa.Value, d int) Lin {
	if d > 8 {
		return Lin{T: map[string]int64{"len(" + render(v) + ")": 1}}
	}
	switch x := v.(type) {
	case *ssa.Const:
		if x.IsNil() {
			return newLin()
		}
	case *ssa.Slice:
		var base Lin
		if al, ok := x.X.(*ssa.Alloc); ok {
			if arr, ok := al.Type().Underlying().(*types.Pointer).Elem().Underlying().(*types.Array); ok {
				base = newLin()
				base.K = arr.Len()
			}
		}
		if base.T == nil {
			base = sliceLen(x.X, d+1)
		}
		hi := base
		if x.High != nil {
			hi = linOf(x.High)
		}
		if x.Low != nil {
			return hi.add(linOf(x.Low), -1)
		}
		return hi
	case *ssa.Call:
		if b, ok := x.Call.Value.(*ssa.Builtin); ok && b.Name() == "append" && len(x.Call.Args) == 2 {
			return sliceLen(x.Call.Args[0], d+1).add(sliceLen(x.Call.Args[1], d+1), 1)
		}
	}
	return Lin{T: map[string]int64{"len(" + render(v) + ")": 1}}
}

func linIsZero(l Lin) bool {
	if l.K != 0 {
		return false
	}
	for _, c := range l.T {
		if c != 0 {
			return false
		}
	}
	return true
}

func linEqualUpToSign(a, b Lin) bool {
	return linIsZero(a.add(b, -1)) || linIsZero(a.add(b, 1))
}

func runC28(c *Ctx) {
	runC28Extra(c)
	runC28Second(c)
	const pk = "icon/merkle/hexary"
	maxCh, _ := c.constVal(pk, "maxChildren")
	bitsPer := int64(0)
	for v := maxCh; v > 1; v >>= 1 {
		bitsPer++
	}
	c.check(maxCh > 1 && (1<<uint(bitsPer)) == maxCh, "C28.arity", "node arity is a power of two", token.NoPos, fmt.Sprintf("%d = 2^%d", maxCh, bitsPer), "maxChildren is not a power of two")

	// ------------------------------------------------------------ carry-restore + no-alias
	for _, name := range []string{"GetMerkleHeader", "Finalize"} {
		fn := c.mustFn(pk, "accumulator", name)
		if fn == nil {
			continue
		}
		adds := c.calls(fn, byCallee("node).Add"))
		rems := c.calls(fn, byCallee("node).RemoveBack"))
		if len(adds) != 1 || len(rems) < 1 {
			c.violate("C28.carry-restore", name+" structure", fn.Pos(), "expected one temporary Add and at least one RemoveBack")
			continue
		}
		ra, _ := callArgs(adds[0].Common())
		isRem := func(in ssa.Instruction) bool {
			for _, r := range rems {
				if r.Instr == in {
					return true
				}
			}
			return false
		}
		for _, rm := range rems {
			rr, _ := callArgs(rm.Common())
			c.check(ra == rr || render(ra) == render(rr), "C28.carry-restore", name+": the carry is removed from the root it was pushed into", rm.Pos(), "same root", "RemoveBack on another node")
		}
		// from the Add, every way to the next iteration or out of the function passes RemoveBack
		h := loopHeaderOf(adds[0].Instr.Block())
		target := func(in ssa.Instruction) bool {
			if isReturn(in) {
				return true
			}
			return h != nil && in == h.Instrs[0]
		}
		tr, reach := pathAvoiding(fn, adds[0].Instr, target, isRem)
		c.check(!reach, "C28.carry-restore", name+": every pushed carry is removed again on every path", adds[0].Pos(), "Add … RemoveBack", name+" can leave the loop iteration or return with the temporary carry still inside the root: the accumulator state (and every later header) is changed by reading it ("+traceString(tr)+")")
		// and RemoveBack only when something was pushed in this iteration, and only once
		for _, rm := range rems {
			if h == nil {
				break
			}
			tr3, r3 := pathAvoiding(fn, h.Instrs[len(h.Instrs)-1], isInstr(rm.Instr), isInstr(adds[0].Instr))
			c.check(!r3, "C28.carry-restore", name+": nothing is removed unless a carry was pushed in this iteration", rm.Pos(), "restore flag", "RemoveBack without a preceding Add in the same iteration ("+traceString(tr3)+")")
			tr4, r4 := pathAvoiding(fn, rm.Instr, isRem, func(in ssa.Instruction) bool { return in == adds[0].Instr })
			c.check(!r4, "C28.carry-restore", name+": a pushed carry is removed once", rm.Pos(), "one RemoveBack per Add", "two RemoveBack calls can follow one Add ("+traceString(tr4)+")")
		}
		// header root hash provenance
		for _, fs := range fieldStores([]*ssa.Function{fn}, "MerkleHeader", "RootHash") {
			okP := true
			bad := ""
			n := 0
			for _, f := range flowsOf(fs.Store.Val, nil) {
				n++
				if isNilConst(f.Src) {
					continue
				}
				cl, ok := f.Src.(*ssa.Call)
				if !ok {
					okP, bad = false, render(f.Src)
					continue
				}
				cn := calleeName(cl.Common())
				if !(strings.HasSuffix(cn, "node).Hash") || strings.HasSuffix(cn, "node).GetCopy")) {
					okP, bad = false, cn
				}
			}
			c.check(okP && n > 0, "C28.no-alias", name+": the header's root hash is a fresh hash or a copy", fs.Store.Pos(), "node.Hash() / node.GetCopy()", "the header returned holds "+bad+": a window into a root's buffer that later additions overwrite, so a header already handed out changes")
		}
		// no state writes in GetMerkleHeader
		if name == "GetMerkleHeader" {
			n := 0
			for _, cs := range c.calls(fn, byMethod("Set", "Delete", "Put")) {
				n++
				c.violate("C28.carry-restore", "GetMerkleHeader does not write", cs.Pos(), "calls "+methodName(cs.Common()))
			}
			for _, fs := range fieldStoresAny([]*ssa.Function{fn}, "accumulatorData") {
				n++
				c.violate("C28.carry-restore", "GetMerkleHeader does not write", fs.Store.Pos(), "assigns accumulator data")
			}
			c.check(n == 0, "C28.carry-restore", "GetMerkleHeader is read-only apart from the paired carry", fn.Pos(), "no writes", "writes found")
		}
		// Finalize persists the node it hashed
		if name == "Finalize" {
			for _, cs := range c.calls(fn, byMethod("Set")) {
				_, a := callArgs(cs.Common())
				r1 := strings.TrimSuffix(render(a[0]), ".Hash()")
				r2 := strings.TrimSuffix(render(a[1]), ".Bytes()")
				c.check(r1 == r2 && r1 != render(a[0]), "C28.add-carry", "Finalize stores a node under its own hash", cs.Pos(), "Set(r.Hash(), r.Bytes())", "stores "+render(a[1])+" under "+render(a[0]))
			}
		}
	}
	if gc := c.mustFn(pk, "node", "GetCopy"); gc != nil {
		for _, e := range exitAlts(gc) {
			var bases []ssa.Value
			appendBases(e.Results[0], map[ssa.Value]bool{}, &bases)
			fresh := len(bases) > 0
			for _, b := range bases {
				if k, ok := b.(*ssa.Const); !ok || !k.IsNil() {
					if _, ok := b.(*ssa.MakeSlice); !ok {
						fresh = false
					}
				}
			}
			c.check(fresh, "C28.no-alias", "GetCopy returns a private copy", e.pos(), "append(nil, …)", "GetCopy returns storage shared with the node")
		}
	}

	// ------------------------------------------------------------ rewind shape
	if sl := c.mustFn(pk, "accumulator", "SetLen"); sl != nil {
		var rootsMk *ssa.MakeSlice
		for _, b := range sl.Blocks {
			for _, in := range b.Instrs {
				if mk, ok := in.(*ssa.MakeSlice); ok && strings.Contains(mk.Type().String(), "node") {
					rootsMk = mk
				}
			}
		}
		news := c.calls(sl, byCallee("hexary.newNodeFromBytes"))
		if rootsMk == nil || len(news) != 1 {
			c.violate("C28.rewind-shape", "SetLen structure", sl.Pos(), "expected make([]*node, lvl) and one newNodeFromBytes")
		} else {
			lvl := linOf(rootsMk.Len)
			// level = LevelFromLen(l) (+1 for exact powers)
			okLvl := true
			for _, f := range flowsOf(rootsMk.Len, nil) {
				l := linOf(f.Src)
				if !(len(l.T) == 1 && l.T["hexary.LevelFromLen($0)"] == 1 && (l.K == 0 || l.K == 1)) {
					okLvl = false
				}
				if l.K == 1 {
					_, p16 := holds(f.Guards, wTrue("exact power", `^hexary\.powerOf16\(\$0\)$`))
					okLvl = okLvl && p16
				}
			}
			c.check(okLvl, "C28.rewind-shape", "number of rebuilt roots = level of the new length (+1 at exact powers of 16)", rootsMk.Pos(), "LevelFromLen(l) [+1]", "the number of roots is "+render(rootsMk.Len))
			// the element used for root i
			_, a := callArgs(news[0].Common())
			var bases []ssa.Value
			appendBases(a[0], map[ssa.Value]bool{}, &bases)
			_, isAppend := a[0].(*ssa.Call)
			private := isAppend && len(bases) == 1 && isNilConst(bases[0])
			c.check(private, "C28.no-alias", "rebuilt roots own their bytes", news[0].Pos(), "append([]byte(nil), proof[..]...)", "a rebuilt root shares its byte slice with the proof/cached tree node it came from: truncating and extending the root corrupts the stored tree")
			var elem *ssa.IndexAddr
			if isAppend {
				cl := a[0].(*ssa.Call)
				if len(cl.Call.Args) == 2 {
					elem, _ = loadOf(cl.Call.Args[1]).(*ssa.IndexAddr)
				}
			} else {
				elem, _ = loadOf(a[0]).(*ssa.IndexAddr)
			}
			if elem == nil {
				c.violate("C28.rewind-shape", "root i is taken from the proof", news[0].Pos(), "source "+render(a[0]))
			} else {
				proofV := elem.X
				h := loopHeaderOf(news[0].Instr.Block())
				// index = len(proof')-1-i  or lvl-1-i
				idx := linOf(elem.Index)
				okIdx := false
				if li, _, isLoop := indexLoop(h); isLoop {
					iLin := linOf(li)
					want1 := Lin{T: map[string]int64{"len(" + render(proofV) + ")": 1}, K: -1}.add(iLin, -1)
					want2 := lvl.add(Lin{T: map[string]int64{}, K: -1}, 1).add(iLin, -1)
					okIdx = linIsZero(idx.add(want1, -1)) || linIsZero(idx.add(want2, -1))
				}
				c.check(okIdx, "C28.rewind-shape", "root i is entry len−1−i of the adjusted proof (lowest level first)", elem.Pos(), idx.String(), "root i is taken from index "+idx.String())
				// on every path the adjusted proof has exactly lvl entries and only its front was changed
				phi, _ := proofV.(*ssa.Phi)
				if phi == nil {
					c.violate("C28.rewind-shape", "proof adjusted to the level count", elem.Pos(), "the proof is not adjusted before use")
				} else {
					from := phi.Block().Idom()
					paths := backPaths(from, phi.Block(), noReturnBlock)
					c.check(len(paths) >= 2, "C28.rewind-shape", "proof adjustment paths found", phi.Pos(), fmt.Sprint(len(paths)), "no paths")
					var orig ssa.Value
					for _, p := range paths {
						var ev ssa.Value
						for i, pr := range phi.Block().Preds {
							if pr == p.first {
								ev = phi.Edges[i]
							}
						}
						if ev == nil {
							continue
						}
						gs := append(append([]Guard{}, p.guards...), guardsAtBlock(from)...)
						diff := sliceLen(ev, 0).add(lvl, -1)
						okLen := linIsZero(diff)
						if !okLen {
							geP, geN := false, false
							for _, g := range gs {
								pd := predOf(g)
								if pd.Kind == "eq" && linEqualUpToSign(pd.L, diff) {
									okLen = true
								}
								if pd.Kind == "ge" && linIsZero(pd.L.add(diff, -1)) {
									geP = true
								}
								if pd.Kind == "ge" && linIsZero(pd.L.add(diff, 1)) {
									geN = true
								}
							}
							okLen = okLen || (geP && geN)
						}
						c.check(okLen, "C28.rewind-shape", "on this path the adjusted proof has exactly `level` entries", ev.Pos(), "len(proof') == lvl", "a path through SetLen uses a proof whose length is not provably the level count (len − lvl = "+diff.String()+" under "+guardsString(p.guards)+"): roots are rebuilt from the wrong tree levels")
						// only the front changes: front trim or front prepend of the original proof
						okTail := false
						switch x := ev.(type) {
						case *ssa.Slice:
							okTail = x.High == nil
							if orig == nil {
								orig = x.X
							}
							okTail = okTail && x.X == orig
						case *ssa.Call:
							if b, ok := x.Call.Value.(*ssa.Builtin); ok && b.Name() == "append" && len(x.Call.Args) == 2 {
								if orig == nil {
									orig = x.Call.Args[1]
								}
								okTail = x.Call.Args[1] == orig
								// what is prepended is the finalized root
								var bs []ssa.Value
								appendBases(x.Call.Args[0], map[ssa.Value]bool{}, &bs)
								okTail = okTail && len(bs) == 1 && isNilConst(bs[0])
							}
						default:
							okTail = ev == orig
						}
						c.check(okTail, "C28.rewind-shape", "the adjustment keeps the tail of the proof (lowest levels)", ev.Pos(), "front trim / front prepend", "the proof is cut or extended at the wrong end: "+render(ev))
					}
					if orig != nil {
						c.check(strings.HasSuffix(render(orig), ".Prove(($0 - 1),0)#0"), "C28.rewind-shape", "the proof used is the full proof of the last kept leaf", orig.Pos(), "Prove(l-1, 0)", "proof is "+render(orig))
					}
				}
				// digits
				sets := c.calls(sl, byCallee("node).SetLen"))
				okDig := len(sets) == 1
				if okDig {
					_, sa := callArgs(sets[0].Common())
					v := sa[0]
					if cv, ok := v.(*ssa.Convert); ok {
						v = cv.X
					}
					rem, ok := v.(*ssa.BinOp)
					okDig = ok && rem.Op == token.REM
					if okDig {
						k, _ := constInt(rem.Y)
						dphi, isPhi := rem.X.(*ssa.Phi)
						okDig = k == maxCh && isPhi
						if okDig {
							for _, e := range dphi.Edges {
								if render(e) == "$0" {
									continue
								}
								q, ok := e.(*ssa.BinOp)
								kk := int64(0)
								if ok {
									kk, _ = constInt(q.Y)
								}
								if !ok || q.Op != token.QUO || q.X != ssa.Value(dphi) || kk != maxCh {
									okDig = false
								}
							}
						}
					}
				}
				c.check(okDig, "C28.arity", "root i holds digit i of the length in base 16", sl.Pos(), "SetLen(d%16); d /= 16, d0 = l", "the length is split with another base than the node arity")
			}
		}
		// guards: cannot grow; full rewind clears
		for _, cs := range c.calls(sl, byCallee("accumulator).Finalize")) {
			c.requireAt("C28.rewind-shape", "rewind only to a shorter or equal length", cs.Instr, wGE("l ≤ Len", 0, t(1, `^\$r\.data\.Len$`), t(-1, `^\$0$`)))
		}
	}

	// arity constants elsewhere
	for _, spec := range []struct{ recv, fn string }{{"merkleTree", "Prove"}, {"merkleTree", "Add"}, {"", "powerOf16"}} {
		fn := c.mustFn(pk, spec.recv, spec.fn)
		if fn == nil {
			continue
		}
		n := 0
		for _, b := range fn.Blocks {
			for _, in := range b.Instrs {
				bo, ok := in.(*ssa.BinOp)
				if !ok {
					continue
				}
				k, isK := constInt(bo.Y)
				switch bo.Op {
				case token.AND:
					if isK {
						n++
						c.check(k == maxCh-1, "C28.arity", spec.fn+": child index mask = arity−1", bo.Pos(), fmt.Sprintf("& %#x", k), fmt.Sprintf("mask %#x ≠ %#x", k, maxCh-1))
					}
				case token.MUL:
					if isK && strings.Contains(render(bo.X), "level") {
						n++
						c.check(k == bitsPer, "C28.arity", spec.fn+": bits per level = log2(arity)", bo.Pos(), fmt.Sprintf("* %d", k), fmt.Sprintf("%d bits per level ≠ %d", k, bitsPer))
					}
				case token.SHR:
					if isK {
						n++
						c.check(k == bitsPer, "C28.arity", spec.fn+": shift per level = log2(arity)", bo.Pos(), fmt.Sprintf(">> %d", k), fmt.Sprintf("shift %d ≠ %d", k, bitsPer))
					}
				}
			}
		}
		c.check(n >= 1, "C28.arity", spec.fn+" uses the arity", fn.Pos(), fmt.Sprint(n), "no arity-dependent operation found")
	}
	if fn := c.mustFn(pk, "node", "Full"); fn != nil {
		hl, _ := c.constVal(pk, "hashLen")
		for _, e := range exitAlts(fn) {
			bo, ok := e.Results[0].(*ssa.BinOp)
			k := int64(0)
			if ok {
				k, _ = constInt(bo.Y)
			}
			c.check(ok && bo.Op == token.EQL && k == hl*maxCh, "C28.arity", "a node is full at arity children", e.pos(), fmt.Sprintf("len == %d", k), "Full differs from len == hashLen*maxChildren")
		}
	}

	// ------------------------------------------------------------ add-carry
	if ad := c.mustFn(pk, "accumulator", "add"); ad != nil {
		clr := c.calls(ad, byCallee("node).Clear"))
		rec := c.calls(ad, byCallee("accumulator).add"))
		sets := c.calls(ad, byMethod("Set"))
		if len(clr) != 1 || len(rec) != 1 || len(sets) != 1 {
			c.violate("C28.add-carry", "add structure", ad.Pos(), "expected persist, clear, carry")
		} else {
			_, a := callArgs(rec[0].Common())
			hv, _ := a[1].(*ssa.Call)
			okH := hv != nil && strings.HasSuffix(calleeName(hv.Common()), "node).Hash") && dominatesInstr(hv, clr[0].Instr)
			c.check(okH, "C28.add-carry", "the carry is the full node's hash taken before it is cleared", rec[0].Pos(), "hash := rb.Hash(); rb.Clear(); add(i+1, hash)", "the carried hash is taken after Clear (nil) or is not the node's hash")
			li := linOf(a[0])
			c.check(len(li.T) == 1 && li.T["$0"] == 1 && li.K == 1, "C28.add-carry", "the carry goes to the next level", rec[0].Pos(), "i+1", "carry goes to level "+li.String())
			c.check(dominatesInstr(sets[0].Instr, clr[0].Instr), "C28.add-carry", "a full node is persisted before it is cleared", sets[0].Pos(), "Set → Clear", "node cleared before it is stored")
			ev := errValueOf(sets[0].Instr)
			pathEdgeFilter = nilErrEdgeFilter(ev)
			tr, reach := pathAvoiding(ad, sets[0].Instr, isInstr(clr[0].Instr), nil)
			pathEdgeFilter = nil
			c.check(!reach, "C28.add-carry", "a node whose store failed is not cleared", clr[0].Pos(), "error edge never reaches Clear", "Clear after a failed store ("+traceString(tr)+")")
			_, sa := callArgs(sets[0].Common())
			r1 := strings.TrimSuffix(render(sa[0]), ".Hash()")
			r2 := strings.TrimSuffix(render(sa[1]), ".Bytes()")
			c.check(r1 == r2 && r1 != render(sa[0]), "C28.add-carry", "a full node is stored under its own hash", sets[0].Pos(), "Set(rb.Hash(), rb.Bytes())", "stores "+render(sa[1])+" under "+render(sa[0]))
			c.requireAt("C28.add-carry", "carry only when the node is full", clr[0].Instr, wTrue("full", `\.Full\(\)$`))
		}
	}
	if ad := c.mustFn(pk, "accumulator", "Add"); ad != nil {
		inner := c.calls(ad, byCallee("accumulator).add"))
		stores := fieldStores([]*ssa.Function{ad}, "accumulatorData", "Len")
		if len(inner) != 1 || len(stores) != 1 {
			c.violate("C28.add-carry", "Add structure", ad.Pos(), "expected add(0, hash) and Len++")
		} else {
			_, a := callArgs(inner[0].Common())
			c.check(isZeroConst(a[0]) && render(a[1]) == "$0", "C28.add-carry", "a leaf enters at level 0", inner[0].Pos(), "add(0, hash)", "enters at "+render(a[0]))
			ev := errValueOf(inner[0].Instr)
			pathEdgeFilter = nilErrEdgeFilter(ev)
			tr, reach := pathAvoiding(ad, inner[0].Instr, isInstr(stores[0].Store), nil)
			pathEdgeFilter = nil
			c.check(dominatesInstr(inner[0].Instr, stores[0].Store) && !reach, "C28.add-carry", "the length grows only after the hash was added", stores[0].Store.Pos(), "add ok → Len++", "Len is incremented before or despite a failed add ("+traceString(tr)+")")
			l := linOf(stores[0].Store.Val)
			c.check(len(l.T) == 1 && l.K == 1, "C28.add-carry", "the length grows by one", stores[0].Store.Pos(), "Len+1", "Len becomes "+l.String())
		}
	}

	// ------------------------------------------------------------ verify
	if va := c.mustFn(pk, "merkleTree", "Add"); va != nil {
		puts := c.calls(va, byCallee("nodeDB).Put"))
		news := c.calls(va, byCallee("hexary.newNodeFromBytes"))
		var eqNode, eqLeaf []*ssa.Call
		for _, cs := range c.calls(va, byCallee("bytes.Equal", "bytes.Compare")) {
			cl := cs.Instr.(*ssa.Call)
			_, a := callArgs(cl.Common())
			if render(a[1]) == "$1" || render(a[0]) == "$1" {
				eqLeaf = append(eqLeaf, cl)
			} else {
				eqNode = append(eqNode, cl)
			}
		}
		if len(puts) != 1 || len(news) != 1 || len(eqNode) != 1 || len(eqLeaf) != 1 {
			c.violate("C28.verify", "MerkleTree.Add structure", va.Pos(), fmt.Sprintf("expected node check, leaf check, store (found %d/%d/%d/%d)", len(news), len(eqNode), len(eqLeaf), len(puts)))
		} else {
			// node check: the node built from proof[j] hashes to the hash stored in its parent
			_, a := callArgs(eqNode[0].Common())
			x, y := render(a[0]), render(a[1])
			okN := (strings.HasSuffix(x, ".Hash()") && strings.Contains(x, "newNodeFromBytes(") && strings.Contains(y, ".Get(")) || (strings.HasSuffix(y, ".Hash()") && strings.Contains(y, "newNodeFromBytes(") && strings.Contains(x, ".Get("))
			c.check(okN, "C28.verify", "a supplied node must hash to the hash its parent holds for that child", eqNode[0].Pos(), "Equal(node.Hash(), parent.Get(k))", "compares "+x+" with "+y)
			h := loopHeaderOf(news[0].Instr.Block())
			if h != nil {
				// from building the node, the loop cannot continue (or end successfully) unless the check held
				pathEdgeFilter = func(p, s *ssa.BasicBlock) bool {
					for _, g := range edgeGuard(p, s) {
						if g.Cond == ssa.Value(eqNode[0]) && g.Pol {
							return true
						}
					}
					return false
				}
				tr, reach := pathAvoiding(va, news[0].Instr, func(in ssa.Instruction) bool {
					if in == h.Instrs[0] {
						return true
					}
					if r, ok := in.(*ssa.Return); ok {
						return !definitelyNonNilErr(r.Results[0], guardsAtBlock(r.Block()))
					}
					return false
				}, nil)
				pathEdgeFilter = nil
				c.check(!reach, "C28.verify", "no supplied node is accepted unchecked", news[0].Pos(), "hash check on every path", "a proof node can be taken over without its hash being compared with the parent's entry ("+traceString(tr)+")")
			} else {
				c.violate("C28.verify", "proof nodes checked in the level loop", news[0].Pos(), "not in a loop")
			}
			// leaf check
			_, la := callArgs(eqLeaf[0].Common())
			lx := render(la[0])
			if lx == "$1" {
				lx = render(la[1])
			}
			c.check(strings.Contains(lx, ".Get(") && strings.Contains(lx, "($0 & "), "C28.verify", "the leaf compared is the entry of the key's last digit", eqLeaf[0].Pos(), lx, "leaf compared is "+lx)
			for _, e := range successAlts(va) {
				_, okL := holds(e.Guards, wSame("leaf matches", `^\$1$`, `\.Get\(\(\$0 & 15\)\)$`))
				c.check(okL, "C28.verify", "accepted only if the leaf equals the supplied hash", e.pos(), "bytes.Equal(leaf, hash)", "Add can succeed without the leaf comparison having held: "+guardsString(e.Guards))
			}
			// store only after everything passed
			c.requireAt("C28.verify", "proof nodes are stored only after the whole proof verified", puts[0].Instr, wSame("leaf matches", `^\$1$`, `\.Get\(\(\$0 & 15\)\)$`))
			for _, cs := range c.calls(va, byMethod("Set")) {
				c.violate("C28.verify", "Add stores only through the verified path", cs.Pos(), "direct Set")
			}
			// short proofs
			c.requireAt("C28.verify", "too short proofs are rejected", news[0].Instr, wGE("len(proof) ≥ minLen", 0, t(1, `^len\(\$2\)$`), t(-1, `minProofLenForKey\(\$0\)$`)))
		}
	}
}

// runC28Extra: digit arithmetic of the base-16 counter uses one radix
// (mask = loop bound = 2^shift − 1); the memoised node hash is dropped by
// every mutation of the node's bytes; the "single entry" test of the top root
// looks at the root after the pending carry was added; the accumulator record
// is written after the last change to it; the minimum proof length is clamped
// to the tree's level.
func runC28Extra(c *Ctx) {
	const pkg = "icon/merkle/hexary"
	// (1) powerOf16
	if f := c.mustFn(pkg, "", "powerOf16"); f != nil {
		var bound, mask, shift int64 = -1, -1, -1
		var endsOne bool
		for _, b := range f.Blocks {
			for _, in := range b.Instrs {
				bo, ok := in.(*ssa.BinOp)
				if !ok {
					continue
				}
				k, isK := constInt(bo.Y)
				if !isK {
					continue
				}
				switch bo.Op {
				case token.GTR: // continue while n > k
					bound = k
				case token.GEQ:
					bound = k - 1
				case token.LEQ: // leave when n <= k
					bound = k
				case token.LSS:
					bound = k - 1
				case token.AND:
					mask = k
				case token.SHR:
					shift = k
				case token.EQL:
					if k == 1 {
						endsOne = true
					}
				}
			}
		}
		okR := shift > 0 && mask == (1<<uint(shift))-1 && bound == mask && shift == 4 && endsOne
		c.check(okR, "C28.radix", "powerOf16: loop bound, digit mask and shift describe one base-16 digit", f.Pos(), fmt.Sprintf("n > %#x, n & %#x, n >> %d, ends at 1", bound, mask, shift), fmt.Sprintf("loop bound %#x, digit mask %#x, shift %d do not describe the same radix: exact powers of 16 are misclassified and a rewind to such a length loses the roots", bound, mask, shift))
	}
	// (2) memo invalidation
	nMut := 0
	for _, f := range c.pkgFuncs(pkg) {
		if f.Signature.Recv() == nil || namedOf(f.Signature.Recv().Type()) != "node" {
			continue
		}
		for _, st := range fieldStores([]*ssa.Function{f}, "node", "bytes") {
			nMut++
			_, stale := pathAvoiding(f, st.Store, isReturn, func(in ssa.Instruction) bool {
				s2, ok := in.(*ssa.Store)
				if !ok {
					return false
				}
				fa, ok := s2.Addr.(*ssa.FieldAddr)
				return ok && namedOf(fa.X.Type()) == "node" && fieldName(fa.X.Type(), fa.Field) == "_hash"
			})
			if stale {
				// accepted when the reset precedes the mutation in the same function on every path
				reset := false
				for _, h := range fieldStores([]*ssa.Function{f}, "node", "_hash") {
					if isNilConst(h.Store.Val) && dominatesInstr(h.Store, st.Store) {
						reset = true
					}
				}
				stale = !reset
			}
			c.check(!stale, "C28.memo", fnName(f)+" drops the memoised hash when it changes the node's bytes", st.Store.Pos(), "_hash = nil", "the node's bytes change while the memoised hash survives: a header computed after the next Add is that of the shorter sequence")
		}
	}
	if nMut < 4 {
		c.undecided("C28.memo", "mutations of node.bytes", token.NoPos, fmt.Sprintf("expected ≥4, found %d", nMut))
	}
	// a node enters the cache only after it reached the store (Put returns early for cached nodes)
	if f := c.mustFn(pkg, "nodeDB", "Put"); f != nil {
		n := 0
		for _, cs := range c.calls(f, byMethod("Put")) {
			r, _ := callArgs(cs.Common())
			if r == nil || !strings.HasSuffix(render(r), ".nodeCache") && !strings.Contains(render(cs.Instr.Value()), "nodeCache") {
				continue
			}
			n++
			c.requireAt("C28.store-then-cache", "nodeDB.Put caches the node", cs.Instr, wSame("the bucket write succeeded", `\.bk\.Set\(`, `^nil$`))
		}
		if n != 1 {
			c.undecided("C28.store-then-cache", "nodeDB.Put", f.Pos(), fmt.Sprintf("expected one cache insertion, found %d", n))
		}
	}
	// (3) single-entry test after the carry; (4) record written last
	for _, nm := range []string{"GetMerkleHeader", "Finalize"} {
		f := c.fn(pkg, "accumulator", nm)
		if f == nil {
			continue
		}
		for _, ln := range c.calls(f, byCallee("node).Len")) {
			r, _ := callArgs(ln.Common())
			for _, ad := range c.calls(f, byCallee("node).Add")) {
				r2, _ := callArgs(ad.Common())
				if render(r) != render(r2) {
					continue
				}
				h := loopHeaderOf(ln.Instr.Block())
				_, later := pathAvoiding(f, ln.Instr, func(in ssa.Instruction) bool { return in == ssa.Instruction(ad.Instr) }, func(in ssa.Instruction) bool {
					return h != nil && in == h.Instrs[0]
				})
				c.check(!later, "C28.header-carry", nm+": the root's length is read after the pending carry was added", ln.Pos(), "Add(carry) precedes Len()", "the single-entry test reads the root's length before the carry of the lower roots is added to it: for lengths 16^k < n < 2·16^k the header is that of the first 16^k hashes only")
			}
		}
	}
	nSet := 0
	for _, f := range c.pkgFuncs(pkg) {
		if f.Signature.Recv() == nil || namedOf(f.Signature.Recv().Type()) != "accumulator" {
			continue
		}
		for _, cs := range c.calls(f, byMethod("Set")) {
			_, a := callArgs(cs.Common())
			if len(a) != 2 || render(a[1]) != "&$r.data" {
				continue
			}
			nSet++
			late := ""
			for _, b := range f.Blocks {
				for _, in := range b.Instrs {
					st, ok := in.(*ssa.Store)
					if !ok || !strings.HasPrefix(render(st.Addr), "&$r.data") {
						continue
					}
					if _, after := pathAvoiding(f, cs.Instr, func(x ssa.Instruction) bool { return x == ssa.Instruction(st) }, nil); after {
						late = c.pos(st.Pos())
					}
				}
			}
			c.check(late == "", "C28.persist-last", fnName(f)+" writes the accumulator record after the last change to it", cs.Pos(), "no later store to ba.data", "ba.data is still modified at "+late+" after the record was written: the stored record is not the state the object is in, and a re-opened accumulator continues from another sequence")
		}
	}
	if nSet < 2 {
		c.undecided("C28.persist-last", "accumulator record writes", token.NoPos, fmt.Sprintf("expected ≥2 (Add, SetLen), found %d", nSet))
	}
	// (5) clamp
	if f := c.mustFn(pkg, "merkleTree", "minProofLenForKey"); f != nil {
		n := 0
		for _, e := range exitAlts(f) {
			for _, fl := range flowsOf(e.Results[0], nil) {
				n++
				if render(fl.Src) == "$r.level" {
					c.ok("C28.proof-len", "minimum proof length: the tree level", e.pos(), "level")
					continue
				}
				gs := append(append([]Guard{}, e.Guards...), fl.Guards...)
				// want level − src ≥ 0 as a linear form over the same atoms the guards use
				target := Lin{T: map[string]int64{"$r.level": 1}}.add(linOf(fl.Src), -1)
				okB := false
				for _, g := range gs {
					p := predOf(g)
					if p.Kind != "ge" || len(p.L.T) != len(target.T) {
						continue
					}
					same := true
					for a, co := range target.T {
						if p.L.T[a] != co {
							same = false
						}
					}
					if same && p.L.K <= target.K {
						okB = true
					}
				}
				c.check(okB, "C28.proof-len", "minimum proof length is clamped to the tree level", e.pos(), "min(formula, level)", "the minimum proof length "+render(fl.Src)+" is returned without the clamp to the level (guards: "+guardsString(gs)+"): for key 0 the formula gives 15 and the genuine proof of the first hash is rejected as too short")
			}
		}
		if n < 2 {
			c.undecided("C28.proof-len", "minProofLenForKey", f.Pos(), fmt.Sprintf("expected 2 flows, found %d", n))
		}
	}
}

// runC28Second: rules added for the second list of independent mutants.
// runC28Third: the default record key is substituted before the accumulator captures it; the
// tree level is computed from the largest index (len-1), not from the count.
func runC28Third(c *Ctx) {
	const pkg = "icon/merkle/hexary"
	if f := c.mustFn(pkg, "", "NewAccumulator"); f != nil {
		def := ""
		if o, ok := c.pkg(pkg).Types.Scope().Lookup("defaultAccumulatorKey").(*types.Const); ok {
			def = constant.StringVal(o.Val())
		}
		n := 0
		for _, st := range fieldStores([]*ssa.Function{f}, "accumulator", "accumulatorDataKey") {
			n++
			src := unwrap(st.Store.Val)
			has := false
			if phi, isPhi := src.(*ssa.Phi); isPhi {
				for _, e := range phi.Edges {
					if k, isK := e.(*ssa.Const); isK && k.Value != nil && k.Value.Kind() == constant.String && constant.StringVal(k.Value) == def {
						has = true
					}
				}
			}
			c.check(def != "" && has, "C28.record-key", "the accumulator keeps the key with the default already substituted", st.Store.Pos(), "key = given ∨ default", "the accumulator keeps "+render(src)+": with an empty key the record is written under another key than the one it is loaded from, a reopened accumulator starts empty")
		}
		if n == 0 {
			c.undecided("C28.record-key", "NewAccumulator", f.Pos(), "no store of the record key")
		}
	}
	// merkleTree.Add stores every verified proof node: the store runs over the whole list
	if f := c.mustFn(pkg, "merkleTree", "Add"); f != nil {
		n := 0
		for _, cs := range c.calls(f, byMethod("Put")) {
			n++
			_, a := callArgs(cs.Common())
			okL := false
			detail := "Put(" + render(a[0]) + ") outside a loop over the proof nodes"
			if h := loopHeaderOf(cs.Instr.Block()); h != nil {
				if idx, bound, isLoop := indexLoop(h); isLoop && bound != nil {
					if ld, isLd := unwrap(a[0]).(*ssa.UnOp); isLd && ld.Op == token.MUL {
						if ia, isIA := ld.X.(*ssa.IndexAddr); isIA && ia.Index == idx && render(bound) == "len("+render(ia.X)+")" {
							if ms, isMS := ia.X.(*ssa.MakeSlice); isMS && render(ms.Len) == "len($2)" {
								okL = true
							}
							detail = "loop over " + render(ia.X)
						}
					}
				}
			}
			c.check(okL, "C28.add-stores-proof", "merkleTree.Add stores every verified proof node", cs.Pos(), "for i := range nodes { Put(nodes[i]) } over one node per proof element", detail+": an upper branch of a multi-node proof is verified but not stored, and the next key under it cannot be resolved")
		}
		if n == 0 {
			c.undecided("C28.add-stores-proof", "merkleTree.Add", f.Pos(), "no Put call")
		}
	}
	if f := c.mustFn(pkg, "", "LevelFromLen"); f != nil {
		for _, cs := range c.calls(f, func(cc *ssa.CallCommon) bool {
			cal := cc.StaticCallee()
			return cal != nil && cal.Name() == "Len64"
		}) {
			_, a := callArgs(cs.Common())
			bo, isB := unwrap(a[0]).(*ssa.BinOp)
			okM := false
			if isB {
				k, isK := constInt(bo.Y)
				okM = isK && ((bo.Op == token.SUB && k == 1) || (bo.Op == token.ADD && k == -1))
			}
			c.check(okM, "C28.level-of-len", "the level is the hex-digit count of the largest index (len-1)", cs.Pos(), render(a[0]), "the level is computed from "+render(a[0])+": a tree of exactly 16^k leaves gets one level too many and none of its leaves is provable")
		}
	}
}

func runC28Second(c *Ctx) {
	runC28Third(c)
	const pkg = "icon/merkle/hexary"
	// (1) the single-entry shortcut applies to the top root only, in both places that fold the roots
	for _, nm := range []string{"GetMerkleHeader", "Finalize"} {
		f := c.fn(pkg, "accumulator", nm)
		if f == nil {
			continue
		}
		n := 0
		for _, cs := range c.calls(f, byCallee("node).GetCopy")) {
			n++
			li, _, isLoop := indexLoop(loopHeaderOf(cs.Instr.Block()))
			if !isLoop {
				c.undecided("C28.top-root-only", nm+" shortcut", cs.Pos(), "not in an index loop over the roots")
				continue
			}
			// i − len(Roots) + 1 == 0
			target := linOf(li).add(Lin{T: map[string]int64{"len($r.data.Roots)": 1}, K: -1}, -1)
			okTop := false
			for _, alt := range altGuards(cs.Instr.Block()) {
				okAlt := false
				for _, g := range alt {
					p := predOf(g)
					if p.Kind == "eq" && (sameTerms(p.L, target) && p.L.K == target.K || sameTerms(p.L, target.scale(-1)) && p.L.K == -target.K) {
						okAlt = true
					}
				}
				okTop = okAlt
				if !okAlt {
					break
				}
			}
			c.check(okTop, "C28.top-root-only", nm+": a root is taken over unhashed only if it is the top root", cs.Pos(), "i == len(roots)−1", "the single-entry shortcut is not restricted to the top root: a lower root with one entry is carried up unhashed and the header differs from the other fold")
			c.requireAt("C28.top-root-only", nm+": the root taken over has exactly one entry", cs.Instr, wEQ("Len() == 1", -1, t(1, `\.Len\(\)$`)))
		}
		if n != 1 {
			c.undecided("C28.top-root-only", nm, f.Pos(), fmt.Sprintf("%d GetCopy sites", n))
		}
	}
	// (2) the empty node has no hash (an empty lower root contributes no carry)
	if f := c.mustFn(pkg, "node", "Hash"); f != nil {
		n := 0
		for _, e := range exitAlts(f) {
			if isNilConst(e.Results[0]) {
				continue
			}
			n++
			c.requireGuard("C28.empty-hash", "node.Hash returns a hash", e.pos(), e.Guards, wFalse("node is not empty", `^\$r\.Empty\(\)$`))
		}
		if n == 0 {
			c.undecided("C28.empty-hash", "node.Hash", f.Pos(), "no hashing exit")
		}
	}
	// (3) rewinding folds through Finalize (which stores the partial nodes the rewind needs) and
	// a rewind to zero drops the roots
	if f := c.mustFn(pkg, "accumulator", "SetLen"); f != nil {
		c.check(len(c.calls(f, byCallee("accumulator).Finalize"))) == 1 && len(c.calls(f, byCallee("accumulator).GetMerkleHeader"))) == 0, "C28.rewind-shape", "SetLen takes its header from Finalize", f.Pos(), "Finalize()", "SetLen does not fold through Finalize: the partially filled nodes a rewind has to read back are never stored")
		n := 0
		for _, e := range exitAlts(f) {
			if !isNilConst(e.Results[0]) {
				continue
			}
			if _, zero := holds(e.Guards, wEQ("l == 0", 0, t(1, `^\$0$`))); !zero {
				continue
			}
			n++
			reset := false
			for _, b := range f.Blocks {
				for _, in := range b.Instrs {
					st, ok := in.(*ssa.Store)
					if !ok || !dominatesInstr(st, e.Ret) {
						continue
					}
					r := render(st.Addr)
					if r == "&$r.data" || r == "&$r.data.Roots" {
						if _, z := holdsAll(altGuards(b), wEQ("l == 0", 0, t(1, `^\$0$`))); z {
							reset = true
						}
					}
				}
			}
			c.check(reset, "C28.rewind-shape", "a rewind to length 0 drops the roots", e.pos(), "data = {0, nil}", "SetLen(0) keeps the old roots: the header of the empty accumulator, and of everything added afterwards, is wrong")
		}
		if n == 0 {
			c.undecided("C28.rewind-shape", "SetLen(0) exit", f.Pos(), "not found")
		}
	}
	// (4) a failed store of a full node fails the Add
	if f := c.mustFn(pkg, "accumulator", "add"); f != nil {
		for _, cs := range c.calls(f, byMethod("Set")) {
			ev := errValueOf(cs.Instr)
			if ev == nil {
				c.violate("C28.add-carry", "add checks the result of storing a full node", cs.Pos(), "the error of the bucket write is discarded")
				continue
			}
			for _, e := range successAlts(f) {
				pathEdgeFilter = nilErrEdgeFilter(ev)
				tr, reach := pathToExit(f, cs.Instr, e, nil)
				pathEdgeFilter = nil
				c.check(!reach, "C28.add-carry", "a failed store of a full node fails the Add", e.pos(), "error edge never reaches success", "add can succeed although the full node was not stored ("+traceString(tr)+"): Len grows while the header commits to a node that is missing")
			}
		}
	}
}
