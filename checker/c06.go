package main

import (
	"fmt"
	"go/token"
	"go/types"
	"sort"
	"strings"

	"golang.org/x/tools/go/ssa"
)

// C06 — double-sign evidence is accepted only for genuine conflicts.
func init() {
	register(&Prop{
		ID:             "C06",
		Pkgs:           []string{"consensus", "service", "service/contract", "service/transaction"},
		Run:            runC06,
		MinObligations: 30,
		Technique:      "static analysis: operand provenance of every comparison (receiver vs other), guard dominance on true/success exits, sibling agreement of the two IsConflictWith implementations",
		LevelText:      "Decides that each IsConflictWith implementation compares receiver-derived with other-derived operands for every required attribute (network id through matchNID, type, height, round, signer, hash inequality), that a true result is only reachable behind all of them, that matchNID is exactly a==0 ∨ b==0 ∨ a==b, and that each of the four acceptance doors (tx PreValidate, DSR handler, dsrManager.Add, consensus dsmLog) accepts only behind IsConflictWith(data[0], data[1]) = true on signature-verified messages. These are all-path facts, so they hold for every input pair.",
		LevelNote:      "Does not decide ECDSA recovery, the codec, or that the compared fields are the signed contents (hash() covers that by construction of signedBase). Trusts go/ssa.",
		Explanation:    "C06 rules: symmetric (K5 provenance of both operands of every comparison in both IsConflictWith implementations), attributes (K1 on the true exits + K4 sibling attribute sets), matchnid (K1), acceptance (K1 at 4 doors + K5 that the pair is data[0]/data[1] of one decoded report), verified-construction (K1: DoubleSignData objects exist only behind verify()==nil), wrap-nil (K12: no error wrapper applied to a provably nil error on a rejection path). Decides structure on all paths; no message is decoded or executed.",
		Mutants: []Mutant{
			{Name: "F2-nid-from-receiver", File: "consensus/doublesigndata.go", Old: "nid2, _ := v2.msg.NID()", New: "nid2, _ := v.msg.NID()", Desc: "regression of F2"},
			{Name: "F10-wrap-nil", File: "service/contract/dsrhandler.go", Old: "InvalidParameterError.New(\"DoubleSignDataDoesntConflict\")", New: "InvalidParameterError.Wrap(err, \"DoubleSignDataDoesntConflict\")", Desc: "regression of F10"},
			{Name: "vote-drop-type", File: "consensus/doublesigndata.go", Old: "if (v2.msg.Type != v.msg.Type) ||\n\t\tv2.msg.Height", New: "if v2.msg.Height", Desc: "prevote and precommit of the same round conflict"},
			{Name: "proposal-round-self", File: "consensus/doublesigndata.go", Old: "d.msg.Round != d2.msg.Round", New: "d.msg.Round != d.msg.Round", Desc: "proposal round compared with itself"},
			{Name: "hash-equal", File: "consensus/doublesigndata.go", Old: "return !bytes.Equal(d.msg.hash(), d2.msg.hash())", New: "return bytes.Equal(d.msg.hash(), d2.msg.hash())", Desc: "identical proposals conflict"},
			{Name: "matchnid-and", File: "consensus/doublesigndata.go", Old: "if nid1 == 0 || nid2 == 0 {", New: "if nid1 == 0 || nid2 != 0 {", Desc: "matchNID accepts any non-zero second id"},
			{Name: "signer-dropped", File: "consensus/doublesigndata.go", Old: "v2.msg.Round != v.msg.Round ||\n\t\t!bytes.Equal(v2.Signer(), v.Signer()) {", New: "v2.msg.Round != v.msg.Round {", Desc: "votes of different signers conflict"},
			{Name: "prevalidate-or", File: "service/transaction/doublesignreport.go", Old: "if !data[0].IsConflictWith(data[1]) || dsc.AddressOf", New: "if !data[0].IsConflictWith(data[1]) && dsc.AddressOf", Desc: "PreValidate accepts non-conflicting data from a known signer"},
			{Name: "manager-self-conflict", File: "service/dsrmanager.go", Old: "if !data[0].IsConflictWith(data[1]) {", New: "if !data[0].IsConflictWith(data[0]) {", Desc: "manager checks data[0] against itself"},
			{Name: "unverified-ds", File: "consensus/doublesigndata.go", Old: "func newDoubleSignDataWithVoteMessage(msg *VoteMessage) (module.DoubleSignData, error) {\n\tif err := msg.verify(); err != nil {\n\t\treturn nil, err\n\t}\n", New: "func newDoubleSignDataWithVoteMessage(msg *VoteMessage) (module.DoubleSignData, error) {\n", Desc: "vote evidence constructed without verifying the signature"},
			{Name: "dsmlog-no-check", File: "consensus/dsmlog.go", Old: "\t\tif dsv1.IsConflictWith(&dsv2) {\n\t\t\treturn []module.DoubleSignData{&dsv1, &dsv2}\n\t\t}\n\t}\n\tc.putVoteMessage(msg)", New: "\t\tif !omsg.EqualExceptSigs(msg) {\n\t\t\treturn []module.DoubleSignData{&dsv1, &dsv2}\n\t\t}\n\t}\n\tc.putVoteMessage(msg)", Desc: "vote log reports without IsConflictWith"},
		},
	})
}

func runC06(c *Ctx) {
	// ---- every IsConflictWith implementation in consensus
	var impls []*ssa.Function
	for _, f := range c.pkgFuncs("consensus") {
		if f.Name() == "IsConflictWith" && f.Signature.Recv() != nil && f.Signature.Params().Len() == 1 &&
			strings.HasSuffix(types.TypeString(f.Signature.Params().At(0).Type(), nil), "module.DoubleSignData") {
			impls = append(impls, f)
		}
	}
	if len(impls) < 2 {
		c.undecided("C06.symmetric", "IsConflictWith implementations", token.NoPos, fmt.Sprintf("expected ≥2 implementations in consensus, found %d", len(impls)))
		return
	}
	attrSets := map[string][]string{}
	for _, f := range impls {
		name := namedOf(f.Signature.Recv().Type()) + ".IsConflictWith"
		recv := ssa.Value(f.Params[0])
		// other = the checked type assertion of param 0
		var other ssa.Value
		for _, b := range f.Blocks {
			for _, in := range b.Instrs {
				if ex, ok := in.(*ssa.Extract); ok && ex.Index == 0 {
					if ta, ok := ex.Tuple.(*ssa.TypeAssert); ok && ta.X == ssa.Value(f.Params[1]) {
						other = ex
					}
				}
			}
		}
		if other == nil {
			c.undecided("C06.symmetric", name, f.Pos(), "no checked type assertion of the other evidence")
			continue
		}
		fromRecv := func(v ssa.Value) bool { return derivesFrom(v, func(x ssa.Value) bool { return x == recv }, 12) }
		fromOther := func(v ssa.Value) bool { return derivesFrom(v, func(x ssa.Value) bool { return x == other }, 12) }
		attrs := map[string]bool{}
		checkPair := func(x, y ssa.Value, pos token.Pos, what string) {
			xr, xo, yr, yo := fromRecv(x), fromOther(x), fromRecv(y), fromOther(y)
			attr := attrOf(x, recv, other)
			if a2 := attrOf(y, recv, other); a2 != attr {
				c.violate("C06.symmetric", name+" "+what, pos, fmt.Sprintf("compares different attributes: %s vs %s", render(x), render(y)))
				return
			}
			attrs[attr] = true
			good := (xr && !xo && yo && !yr) || (xo && !xr && yr && !yo)
			c.check(good, "C06.symmetric", name+" "+attr, pos,
				"one operand from the receiver, one from the other evidence",
				fmt.Sprintf("operands %s and %s do not come one from the receiver and one from the other evidence", render(x), render(y)))
		}
		for _, b := range f.Blocks {
			for _, in := range b.Instrs {
				switch x := in.(type) {
				case *ssa.BinOp:
					if x.Op != token.EQL && x.Op != token.NEQ {
						continue
					}
					if isNilConst(x.X) || isNilConst(x.Y) {
						continue
					}
					if _, k := x.X.(*ssa.Const); k {
						continue
					}
					if _, k := x.Y.(*ssa.Const); k {
						continue
					}
					checkPair(x.X, x.Y, x.Pos(), "comparison")
				case *ssa.Call:
					n := calleeName(x.Common())
					if n == "bytes.Equal" || n == "consensus.matchNID" {
						_, a := callArgs(x.Common())
						checkPair(a[0], a[1], x.Pos(), methodName(x.Common()))
					}
				}
			}
		}
		var as []string
		for a := range attrs {
			as = append(as, a)
		}
		sort.Strings(as)
		attrSets[name] = as

		// true exits are behind every required predicate
		for _, rs := range boolSites(f, 0, true) {
			gs := rs.guards()
			if !isConstBool(rs.Results[0], true) {
				v, pol := stripNot(rs.Results[0], true)
				gs = append(gs, Guard{v, pol, rs.Ret.Block()})
			}
			site := name + " true-exit"
			c.requireGuard("C06.attributes", site, rs.pos(), gs, wTrue("matchNID(nid, nid')", `^consensus\.matchNID\(`))
			c.requireGuard("C06.attributes", site, rs.pos(), gs, wEQ("Height = Height'", 0, t(1, `^\$r\.msg\..*Height$`), t(-1, `#0\.msg\..*Height$`)))
			c.requireGuard("C06.attributes", site, rs.pos(), gs, wEQ("Round = Round'", 0, t(1, `^\$r\.msg\..*Round$`), t(-1, `#0\.msg\..*Round$`)))
			c.requireGuard("C06.attributes", site, rs.pos(), gs, wSame("Signer = Signer'", `^\$r\.Signer\(\)$`, `#0\.Signer\(\)$`))
			c.requireGuard("C06.attributes", site, rs.pos(), gs, wDiffer("hash ≠ hash'", `^\$r\.msg\..*hash\(\)$`, `#0\.msg\..*hash\(\)$`))
			if strings.HasPrefix(name, "dsVote") {
				c.requireGuard("C06.attributes", site, rs.pos(), gs, wEQ("Type = Type'", 0, t(1, `^\$r\.msg\..*Type$`), t(-1, `#0\.msg\..*Type$`)))
			}
			c.requireGuard("C06.attributes", site, rs.pos(), gs, wTrue("other has the same evidence kind", `^\$0\.\(\*consensus\.ds[A-Za-z]+\)#1$`))
		}
	}
	// sibling agreement of attribute sets (vote additionally compares Type)
	{
		var names []string
		for n := range attrSets {
			names = append(names, n)
		}
		sort.Strings(names)
		for _, n := range names {
			want := "Height,NID,Round,Signer,hash"
			if strings.HasPrefix(n, "dsVote") {
				want = "Height,NID,Round,Signer,Type,hash"
			}
			got := strings.Join(attrSets[n], ",")
			c.check(got == want, "C06.attributes", n+" attribute set", token.NoPos, "compares {"+got+"}", "compares {"+got+"}, required {"+want+"}")
		}
	}

	// ---- matchNID ≡ a==0 ∨ b==0 ∨ a==b
	if m := c.mustFn("consensus", "", "matchNID"); m != nil {
		for _, rs := range boolSites(m, 0, true) {
			var alts [][]Guard
			if rs.Pred != nil {
				alts = [][]Guard{rs.guards()}
			} else {
				alts = altGuards(rs.Ret.Block())
			}
			okAll := true
			for _, gs := range alts {
				if !isConstBool(rs.Results[0], true) {
					v, pol := stripNot(rs.Results[0], true)
					gs = append(append([]Guard{}, gs...), Guard{v, pol, rs.Ret.Block()})
				}
				_, a := holds(gs, wEQ("a==0", 0, t(1, `^\$0$`)))
				_, b := holds(gs, wEQ("b==0", 0, t(1, `^\$1$`)))
				_, e := holds(gs, wEQ("a==b", 0, t(1, `^\$0$`), t(-1, `^\$1$`)))
				if !a && !b && !e {
					okAll = false
				}
			}
			c.check(okAll, "C06.matchnid", "matchNID true-exit", rs.pos(), "a==0 ∨ b==0 ∨ a==b", "matchNID can return true without a==0, b==0 or a==b")
		}
		for _, rs := range boolSites(m, 0, false) {
			gs := rs.guards()
			if !isConstBool(rs.Results[0], false) {
				v, pol := stripNot(rs.Results[0], false)
				gs = append(gs, Guard{v, pol, rs.Ret.Block()})
			}
			c.requireGuard("C06.matchnid", "matchNID false-exit", rs.pos(), gs, wNE("a≠b", 0, t(1, `^\$0$`), t(-1, `^\$1$`)))
			c.requireGuard("C06.matchnid", "matchNID false-exit", rs.pos(), gs, wNE("a≠0", 0, t(1, `^\$0$`)))
			c.requireGuard("C06.matchnid", "matchNID false-exit", rs.pos(), gs, wNE("b≠0", 0, t(1, `^\$1$`)))
		}
	}

	// ---- verified construction
	for _, n := range []string{"newDoubleSignDataWithVoteMessage", "newDoubleSignDataWithProposalMessage"} {
		if f := c.mustFn("consensus", "", n); f != nil {
			for _, rs := range successSites(f) {
				c.requireGuard("C06.verified-construction", n, rs.pos(), rs.guards(), wSame("verify() == nil", `^\$0\..*verify\(\)$`, `^nil$`))
			}
		}
	}
	if dec := c.mustFn("consensus", "", "DecodeDoubleSignData"); dec != nil {
		for _, rs := range successSites(dec) {
			r := render(rs.Results[0])
			okSrc := strings.HasPrefix(r, "consensus.newDoubleSignDataWithVoteMessage(") || strings.HasPrefix(r, "consensus.newDoubleSignDataWithProposalMessage(")
			c.check(okSrc, "C06.verified-construction", "DecodeDoubleSignData result", rs.pos(), "built by a verifying constructor", "returns evidence not built by a verifying constructor: "+r)
			c.requireGuard("C06.verified-construction", "DecodeDoubleSignData", rs.pos(), rs.guards(), wSame("decode error == nil", `UnmarshalFromBytes\(.*#1$`, `^nil$`))
			c.requireGuard("C06.verified-construction", "DecodeDoubleSignData", rs.pos(), rs.guards(), wSame("constructor error == nil", `newDoubleSignDataWith.*#1$`, `^nil$`))
		}
	}
	// dsVote/dsProposal composite literals outside the constructors: only in dsmLog (messages already verified by the consensus receive path)
	for _, f := range c.pkgFuncs("consensus") {
		for _, b := range f.Blocks {
			for _, in := range b.Instrs {
				al, ok := in.(*ssa.Alloc)
				if !ok {
					continue
				}
				tn := namedOf(al.Type())
				if tn != "dsVote" && tn != "dsProposal" {
					continue
				}
				fn := f.Name()
				okSite := strings.HasPrefix(fn, "newDoubleSignDataWith") || strings.HasPrefix(fn, "LogAndCheck")
				if !okSite && !exported(fn) {
					// an unexported helper all of whose callers are the allowed functions (a block
					// extracted from them) belongs to them
					callers, allOK := 0, true
					for _, g := range c.pkgFuncs("consensus") {
						for _, cs := range c.calls(g, func(cc *ssa.CallCommon) bool { return cc.StaticCallee() == f }) {
							_ = cs
							callers++
							gn := g.Name()
							for p := g; p.Parent() != nil; p = p.Parent() {
								gn = p.Parent().Name()
							}
							if !(strings.HasPrefix(gn, "newDoubleSignDataWith") || strings.HasPrefix(gn, "LogAndCheck")) {
								allOK = false
							}
						}
					}
					okSite = callers > 0 && allOK
				}
				c.check(okSite, "C06.verified-construction", tn+" literal in "+fnName(f), al.Pos(), "constructor or dsmLog", "evidence object built outside the verifying constructors and dsmLog")
			}
		}
	}

	// ---- acceptance doors
	type door struct{ pkg, recv, name string }
	for _, d := range []door{
		{"service/transaction", "doubleSignReportTx", "PreValidate"},
		{"service/contract", "DSRHandler", "DoExecuteSync"},
		{"service", "dsrManager", "Add"},
	} {
		f := c.mustFn(d.pkg, d.recv, d.name)
		if f == nil {
			continue
		}
		name := d.recv + "." + d.name
		calls := c.calls(f, byMethod("IsConflictWith"))
		if len(calls) != 1 {
			c.violate("C06.acceptance", name, f.Pos(), fmt.Sprintf("expected exactly one IsConflictWith call, found %d", len(calls)))
			continue
		}
		recv, args := callArgs(calls[0].Common())
		r0, r1 := render(recv), render(args[0])
		pair := strings.Replace(r0, "[0]", "[?]", 1) == strings.Replace(r1, "[1]", "[?]", 1) && strings.Contains(r0, "[0]") && strings.Contains(r1, "[1]")
		c.check(pair, "C06.acceptance", name+" pair", calls[0].Pos(), "element 0 checked against element 1 of the same decoded pair", "IsConflictWith is applied to "+r0+" and "+r1)
		ns := 0
		for _, rs := range successSites(f) {
			ns++
			c.requireGuard("C06.acceptance", name+" success", rs.pos(), rs.guards(), wTrue("IsConflictWith(data[0], data[1])", `\.IsConflictWith\(`))
		}
		if ns == 0 {
			c.undecided("C06.acceptance", name, f.Pos(), "no success exit found")
		}
	}
	for _, n := range []string{"LogAndCheckVoteMessage", "LogAndCheckProposalMessage"} {
		f := c.mustFn("consensus", "dsmLog", n)
		if f == nil {
			continue
		}
		for _, rs := range returnSites(f) {
			if isNilConst(rs.Results[0]) {
				continue
			}
			c.requireGuard("C06.acceptance", "dsmLog."+n+" reports", rs.pos(), rs.guards(), wTrue("IsConflictWith(old, new)", `\.IsConflictWith\(`))
		}
		// the pair checked is (stored message, new message)
		for _, cs := range c.calls(f, byMethod("IsConflictWith")) {
			recv, args := callArgs(cs.Common())
			storesOf := func(v ssa.Value) string {
				// v is &alloc(dsX); find the store into its msg field
				al, ok := unwrap(v).(*ssa.Alloc)
				if !ok {
					return render(v)
				}
				for _, r := range *al.Referrers() {
					if fa, ok := r.(*ssa.FieldAddr); ok {
						for _, st := range storesTo(fa) {
							return render(st.Val)
						}
					}
				}
				return "?"
			}
			a, b := storesOf(recv), storesOf(args[0])
			c.check(a != b && (a == "$0" || b == "$0") && (strings.Contains(a, ".get") || strings.Contains(b, ".get")), "C06.acceptance", "dsmLog."+n+" pair", cs.Pos(), "stored message vs new message", "IsConflictWith applied to "+a+" and "+b)
		}
	}

	// ---- wrap-nil sweep on the packages of this property
	for _, p := range []string{"service/contract", "service/transaction", "service", "consensus"} {
		c.sweepWrapNil("C06.wrap-nil", p, func(f *ssa.Function) bool {
			file := c.file(f.Pos())
			return strings.Contains(file, "dsr") || strings.Contains(file, "doublesign")
		})
	}
}

// attrOf names the attribute an operand reads: last field or method of the
// access path rooted at the receiver or at the other evidence.
func attrOf(v ssa.Value, recv, other ssa.Value) string {
	r := render(v)
	r = strings.TrimSuffix(r, "#0")
	if i := strings.LastIndex(r, "."); i >= 0 {
		r = r[i+1:]
	}
	r = strings.TrimSuffix(r, "()")
	return r
}

// sweepWrapNil (K12): an error wrapper that returns nil for a nil argument is
// applied to an error that is provably nil at that point, and the result is
// returned: the author meant to fail and the function succeeds instead.
func (c *Ctx) sweepWrapNil(rule, pkgRel string, filter func(*ssa.Function) bool) {
	n := 0
	for _, f := range c.pkgFuncs(pkgRel) {
		if filter != nil && !filter(f) {
			continue
		}
		for _, cs := range c.calls(f, byMethod("Wrap", "Wrapf", "WithStack", "Wrapc", "Wrapcf", "WithCode", "AttachTo")) {
			call, ok := cs.Instr.(*ssa.Call)
			if !ok {
				continue
			}
			_, args := callArgs(cs.Common())
			var errArg ssa.Value
			for _, a := range args {
				if types.TypeString(a.Type(), nil) == "error" {
					errArg = a
					break
				}
			}
			if errArg == nil {
				continue
			}
			n++
			isNil := isNilConst(errArg)
			if !isNil {
				for _, g := range guardsAt(call) {
					p := predOf(g)
					if p.Kind == "same" && p.Pol && (p.A == "nil" || p.B == "nil") {
						if b, ok := g.Cond.(*ssa.BinOp); ok && (sameValue(b.X, errArg) || sameValue(b.Y, errArg)) {
							isNil = true
						}
					}
				}
			}
			if isNil {
				c.violate(rule, "wrap of nil error in "+fnName(f), cs.Pos(), "the wrapped error is provably nil here, so the wrapper returns nil instead of an error")
			}
		}
	}
	c.ok(rule, "wrapper calls scanned in "+pkgRel, token.NoPos, fmt.Sprintf("%d wrapper call sites, none applied to a provably nil error", n))
}
