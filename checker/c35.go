package main

import (
	"fmt"
	"go/token"
	"strings"

	"golang.org/x/tools/go/ssa"
)

// C35 — rewards never exceed the term's reward budget (share-shape clauses).
func init() {
	delete(notApplicable, "C35")
	register(&Prop{
		ID:             "C35",
		Pkgs:           []string{"icon/iiss/calculator"},
		Run:            runC35,
		MinObligations: 25,
		Technique:      "static analysis: operand provenance of every reward share (budget × part / whole with part and whole read from the same object, floor division), sibling agreement of the loop that sums the whole with the loop that hands out the parts, agreement of the accumulation weights on the voter side and the P-Rep side, once-per-voter structure of the payout loops",
		LevelText:      "Decides the shape every reward has, which the budget bound and the proportionality clause rest on: (1) a voter's reward from a P-Rep is Mul(its accumulated votes for that P-Rep, that P-Rep's voter reward) followed by big.Int.Div (floor) by that same P-Rep's accumulated votes — the P-Rep object is the one looked up under the key of the accumulated amount — summed into a fresh accumulator; (2) a P-Rep's reward is Mul(total P-Rep reward, its accumulated power) floor-divided by the total accumulated power, the voter reward is that amount minus the commission taken from the same amount, and the wage is the per-P-Rep share total/electedCount (floor); (3) the loop that hands out P-Rep shares and the loop that sums the total accumulated power range over the same prefix of the ranking (stop at electedPRepCount), so the parts handed out are parts of the whole that was summed, and the whole passed to each share is that sum; (4) votes are accumulated with the same weight on both sides: amount × period into the voter's per-P-Rep total and into the P-Rep's total, with period = offsetLimit − offset for events and the term period for the initial state; (5) every voter is paid once: the bonding loop skips accounts that have a delegation (paid in the delegation loop), the event loop skips accounts already calculated, both earlier loops mark accounts with events as calculated, and `has a delegation` is decided on the same snapshot the delegation loop iterated.",
		LevelNote:      "Not decided: the inequality Σ rewards ≤ fund itself (a statement about sums of floor divisions over all voting histories — it follows from these shapes by arithmetic that is not performed here), commission rates ≤ 100 %, and the conversion of the monthly fund to the term (fundToPeriodIScore).",
		Explanation:    "C35 rules: voter-share (K5), prep-share (K5), same-set (K4 sibling loops), same-weight (K4), once-per-voter (K1/K2).",
		Mutants: []Mutant{
			{Name: "skip-test-on-other-snapshot", File: "icon/iiss/calculator/iiss4.go", Old: "\t\td, err := base.GetDelegating(addr)\n", New: "\t\td, err := r.Temp().GetDelegating(addr)\n", Desc: "an account that undelegates everything inside the term is paid in both loops"},
			{Name: "voter-share-other-total", File: "icon/iiss/calculator/voter.go", Old: "\t\t\tr.Div(r, prep.AccumulatedVoted())", New: "\t\t\tr.Div(r, av)", Desc: "share divided by the voter's own votes: every voter gets the whole voter reward"},
			{Name: "voter-share-prep-reward", File: "icon/iiss/calculator/voter.go", Old: "\t\t\tr := new(big.Int).Mul(av, prep.VoterReward())", New: "\t\t\tr := new(big.Int).Mul(av, prep.GetReward())", Desc: "voters share the P-Rep's own commission+wage instead of the voter reward"},
			{Name: "voter-share-ceil", File: "icon/iiss/calculator/voter.go", Old: "\t\t\tr.Div(r, prep.AccumulatedVoted())", New: "\t\t\tr.Add(r, prep.AccumulatedVoted())\n\t\t\tr.Div(r, prep.AccumulatedVoted())", Desc: "rounding up: the sum of the shares can exceed the voter reward"},
			{Name: "prep-share-voted", File: "icon/iiss/calculator/prep.go", Old: "\tprepReward := new(big.Int).Mul(totalPRepReward, p.accumulatedPower)", New: "\tprepReward := new(big.Int).Mul(totalPRepReward, p.accumulatedVoted)", Desc: "numerator is not a part of the summed whole"},
			{Name: "voter-reward-not-reduced", File: "icon/iiss/calculator/prep.go", Old: "\tp.voterReward = new(big.Int).Sub(prepReward, commission)", New: "\tp.voterReward = new(big.Int).Set(prepReward)", Desc: "commission is paid twice"},
			{Name: "share-beyond-elected", File: "icon/iiss/calculator/prep.go", Old: "\tfor i, prep := range p.rank {\n\t\tif i >= p.electedPRepCount {\n\t\t\tbreak\n\t\t}\n\t\tif !prep.IsRewardable(p.electedPRepCount) {", New: "\tfor i, prep := range p.rank {\n\t\tif i > p.electedPRepCount {\n\t\t\tbreak\n\t\t}\n\t\tif !prep.IsRewardable(p.electedPRepCount) {", Desc: "one more P-Rep gets a share than was counted in the total"},
			{Name: "event-weight-differs", File: "icon/iiss/calculator/iiss4.go", Old: "\t\t\tfor _, event := range events {\n\t\t\t\tvoter.ApplyEvent(event, r.pi.OffsetLimit()-event.Offset())\n\t\t\t}\n\t\t\tr.ve.SetCalculated(addr)\n\t\t}\n\n\t\tiscore := voter.CalculateReward(r.pi)\n\t\tif err = r.UpdateIScore(voter.Owner(), iscore, RTVoter); err != nil {\n\t\t\treturn err\n\t\t}\n\t}\n\n\tprefix = icreward.BondingKey.Build()", New: "\t\t\tfor _, event := range events {\n\t\t\t\tvoter.ApplyEvent(event, r.pi.OffsetLimit()-event.Offset()+1)\n\t\t\t}\n\t\t\tr.ve.SetCalculated(addr)\n\t\t}\n\n\t\tiscore := voter.CalculateReward(r.pi)\n\t\tif err = r.UpdateIScore(voter.Owner(), iscore, RTVoter); err != nil {\n\t\t\treturn err\n\t\t}\n\t}\n\n\tprefix = icreward.BondingKey.Build()", Desc: "voter side weighs an event one block longer than the P-Rep side"},
			{Name: "bonder-paid-twice", File: "icon/iiss/calculator/iiss4.go", Old: "\t\tif d != nil && !d.IsEmpty() {\n\t\t\tcontinue\n\t\t}\n", New: "\t\tif d != nil && !d.IsEmpty() && b.IsEmpty() {\n\t\t\tcontinue\n\t\t}\n", Desc: "an account with delegation and bond is paid in both loops"},
			{Name: "events-paid-twice", File: "icon/iiss/calculator/iiss4.go", Old: "\t\tif r.ve.IsCalculated(key) {\n\t\t\tcontinue\n\t\t}\n", New: "", Desc: "accounts with events are paid again in the event loop"},
			{Name: "wage-not-split", File: "icon/iiss/calculator/prep.go", Old: "\tminWagePerPRep := new(big.Int).Div(minWage, big.NewInt(int64(p.electedPRepCount)))", New: "\tminWagePerPRep := new(big.Int).Set(minWage)", Desc: "every P-Rep gets the whole wage fund"},
		},
	})
}

// bigMulDiv recognises  x := new(big.Int).Mul(a, b); x.Div(x, c)  at a use of x
// and returns a, b, c (the Div call must be on the Mul result itself).
func bigMulDiv(fn *ssa.Function, v ssa.Value) (a, b, c ssa.Value, div *ssa.Call, ok bool) {
	mul, isCall := v.(*ssa.Call)
	// the quotient taken into a fresh big.Int: new(big.Int).Div(new(big.Int).Mul(a, b), c)
	if isCall && calleeName(mul.Common()) == "(*math/big.Int).Div" {
		r, da := callArgs(mul.Common())
		if _, fresh := r.(*ssa.Alloc); fresh && len(da) == 2 {
			if m, isM := da[0].(*ssa.Call); isM && calleeName(m.Common()) == "(*math/big.Int).Mul" {
				_, ma := callArgs(m.Common())
				// neither the product nor the quotient is updated in place anywhere else
				for _, blk := range fn.Blocks {
					for _, in := range blk.Instrs {
						cl, isC := in.(*ssa.Call)
						if !isC || cl == mul || cl == m || !strings.HasPrefix(calleeName(cl.Common()), "(*math/big.Int).") {
							continue
						}
						if rr, _ := callArgs(cl.Common()); rr == ssa.Value(mul) || rr == ssa.Value(m) {
							return nil, nil, nil, nil, false
						}
					}
				}
				return ma[0], ma[1], da[1], mul, true
			}
		}
	}
	if !isCall || calleeName(mul.Common()) != "(*math/big.Int).Mul" {
		return
	}
	_, ma := callArgs(mul.Common())
	for _, blk := range fn.Blocks {
		for _, in := range blk.Instrs {
			cl, isC := in.(*ssa.Call)
			if !isC {
				continue
			}
			cn := calleeName(cl.Common())
			if !strings.HasPrefix(cn, "(*math/big.Int).") {
				continue
			}
			r, da := callArgs(cl.Common())
			if r != ssa.Value(mul) && !(len(da) > 0 && da[0] == ssa.Value(mul) && r == ssa.Value(mul)) {
				continue
			}
			if cn == "(*math/big.Int).Div" && len(da) == 2 && da[0] == ssa.Value(mul) {
				if div != nil {
					return nil, nil, nil, nil, false
				}
				div = cl
				c = da[1]
			} else if r == ssa.Value(mul) {
				// any other in-place update of the product (Add for rounding up, Quo, …)
				return nil, nil, nil, nil, false
			}
		}
	}
	if div == nil {
		return
	}
	return ma[0], ma[1], c, div, true
}

func runC35(c *Ctx) {
	const pk = "icon/iiss/calculator"
	// ------------------------------------------------------------ voter-share
	if fn := c.mustFn(pk, "Voter", "CalculateReward"); fn != nil {
		var acc ssa.Value
		for _, e := range exitAlts(fn) {
			acc = e.Results[0]
		}
		al, adds, why := bigAccumulator(fn, acc)
		if !c.check(al != nil && len(adds) == 1, "C35.voter-share", "the voter's reward is the sum of its per-P-Rep shares", fn.Pos(), "iScore := new(big.Int); iScore.Add(iScore, r)", "the result is not a private accumulator of the shares: "+why) {
			return
		}
		_, aa := callArgs(adds[0].Common())
		x, y, z, div, ok := bigMulDiv(fn, aa[1])
		if !c.check(ok, "C35.voter-share", "a share is Mul(part, budget) floor-divided by the whole", adds[0].Pos(), "r := Mul(..); r.Div(r, ..)", "the summand is not a product divided once with big.Int.Div (floor); rounding up or an extra update lets the shares exceed the P-Rep's voter reward") {
			return
		}
		c.check(dominatesInstr(div, adds[0]), "C35.voter-share", "the share is divided before it is added", adds[0].Pos(), "Div → Add", "the undivided product is added")
		// part = range value of accumulatedVotes, prep = GetPRep(range key)
		var part, budget ssa.Value = x, y
		if _, isCall := x.(*ssa.Call); isCall {
			part, budget = y, x
		}
		ex, _ := part.(*ssa.Extract)
		okPart := ex != nil && ex.Index == 2
		var key ssa.Value
		if okPart {
			nx, isNext := ex.Tuple.(*ssa.Next)
			okPart = isNext
			if isNext {
				rg, _ := nx.Iter.(*ssa.Range)
				okPart = rg != nil && render(rg.X) == "$r.accumulatedVotes"
				for _, ref := range *nx.Referrers() {
					if k, ok := ref.(*ssa.Extract); ok && k.Index == 1 {
						key = k
					}
				}
			}
		}
		c.check(okPart, "C35.voter-share", "the part is the voter's accumulated votes for that P-Rep", adds[0].Pos(), "av of range v.accumulatedVotes", "numerator part is "+render(part))
		bc, _ := budget.(*ssa.Call)
		zc, _ := z.(*ssa.Call)
		okObj := bc != nil && zc != nil && strings.HasSuffix(calleeName(bc.Common()), "PRep).VoterReward") && strings.HasSuffix(calleeName(zc.Common()), "PRep).AccumulatedVoted")
		var prep ssa.Value
		if okObj {
			prep = bc.Call.Args[0]
			okObj = zc.Call.Args[0] == prep
		}
		c.check(okObj, "C35.voter-share", "budget and whole are the voter reward and the accumulated votes of one and the same P-Rep", div.Pos(), "prep.VoterReward() / prep.AccumulatedVoted()", fmt.Sprintf("share is %s × %s / %s: budget and whole must come from the same P-Rep object", render(part), render(budget), render(z)))
		if okObj {
			gp, _ := prep.(*ssa.Call)
			okKey := gp != nil && strings.HasSuffix(calleeName(gp.Common()), "PRepInfo).GetPRep") && key != nil && gp.Call.Args[1] == key
			c.check(okKey, "C35.voter-share", "the P-Rep is the one the accumulated votes were cast for", div.Pos(), "pInfo.GetPRep(k) for the same k", "the P-Rep object is looked up under another key than the votes")
		}
	}

	// ------------------------------------------------------------ prep-share
	if fn := c.mustFn(pk, "PRep", "CalculateReward"); fn != nil {
		var vr, cm *ssa.Store
		for _, fs := range fieldStores([]*ssa.Function{fn}, "PRep", "voterReward") {
			vr = fs.Store
		}
		for _, fs := range fieldStores([]*ssa.Function{fn}, "PRep", "commission") {
			cm = fs.Store
		}
		if vr == nil || cm == nil {
			c.violate("C35.prep-share", "PRep.CalculateReward structure", fn.Pos(), "expected stores of commission and voterReward")
		} else {
			x, y, ok := bigBin(vr.Val, "Sub")
			okSub := ok && y == cm.Val
			if ok && !okSub {
				// the commission read back from the field it was just stored to (same function, store dominates)
				if ld, isLd := y.(*ssa.UnOp); isLd {
					if fa, isFa := ld.X.(*ssa.FieldAddr); isFa && fieldName(fa.X.Type(), fa.Field) == "commission" && render(fa.X) == "$r" && dominatesInstr(cm, ld) {
						okSub = true
					}
				}
			}
			c.check(okSub, "C35.prep-share", "voter reward = P-Rep reward − commission", vr.Pos(), "Sub(prepReward, commission)", "voterReward is "+render(vr.Val)+": the commission is not taken out of the amount shared by the voters")
			if okSub {
				a, b, w, _, okMD := bigMulDiv(fn, x)
				okShape := okMD && render(a) == "$0" && render(b) == "$r.accumulatedPower" && render(w) == "$1"
				if okMD && render(b) == "$0" {
					okShape = render(a) == "$r.accumulatedPower" && render(w) == "$1"
				}
				c.check(okShape, "C35.prep-share", "P-Rep reward = total × own accumulated power / total accumulated power (floor)", x.Pos(), "Mul(total, p.accumulatedPower).Div(totalAccumulatedPower)", "P-Rep share is not total × accumulatedPower / totalAccumulatedPower with one floor division")
				// commission is taken from that same amount
				cc, _ := cm.Val.(*ssa.Call)
				okC := cc != nil && methodName(cc.Common()) == "MulBigInt"
				if okC {
					r, ca := callArgs(cc.Common())
					okC = ca[0] == x && strings.HasSuffix(render(r), "$r.commissionRate")
				}
				c.check(okC, "C35.prep-share", "commission = commission rate × the P-Rep's reward", cm.Pos(), "commissionRate.MulBigInt(prepReward)", "commission is computed from "+render(cm.Val))
			}
		}
		for _, fs := range fieldStores([]*ssa.Function{fn}, "PRep", "wage") {
			c.check(render(fs.Store.Val) == "$3", "C35.prep-share", "wage is the per-P-Rep wage passed in", fs.Store.Pos(), "minWage", "wage = "+render(fs.Store.Val))
		}
	}
	if fn := c.mustFn(pk, "PRep", "GetReward"); fn != nil {
		for _, e := range exitAlts(fn) {
			x, y, ok := bigBin(e.Results[0], "Add")
			c.check(ok && ((render(x) == "$r.commission" && render(y) == "$r.wage") || (render(y) == "$r.commission" && render(x) == "$r.wage")), "C35.prep-share", "a P-Rep is paid commission + wage (the voter reward goes to the voters only)", e.pos(), "commission + wage", "GetReward is "+render(e.Results[0]))
		}
	}

	// ------------------------------------------------------------ same-set
	loopGuard := func(fn *ssa.Function, in ssa.Instruction) (string, bool) {
		// the instruction is inside a range over p.rank, reachable only while i < electedPRepCount
		h := loopHeaderOf(in.Block())
		if h == nil {
			return "not in a loop", false
		}
		okRange := false
		for _, b := range fn.Blocks {
			for _, x := range b.Instrs {
				if ia, ok := x.(*ssa.IndexAddr); ok && render(ia.X) == "$r.rank" && loopHeaderOf(b) == h {
					okRange = true
				}
			}
		}
		if !okRange {
			return "the loop does not range over p.rank", false
		}
		// i < electedPRepCount for the loop's index i (range or counted form), established by a
		// dominating guard or by the loop condition itself
		if li, _, ok := indexLoop(h); ok {
			target := Lin{T: map[string]int64{"$r.electedPRepCount": 1}}.add(linOf(li), -1)
			target.K--
			if wit, ok := impliedLin(guardsAt(in), target); ok {
				return wit, true
			}
		}
		for _, g := range guardsAt(in) {
			p := predOf(g)
			if p.Kind == "ge" && len(p.L.T) == 2 && p.L.T["$r.electedPRepCount"] == 1 && p.L.K == -2 {
				// electedPRepCount - (phi) - 2 >= 0  with i = phi+1  ⇔ i < electedPRepCount
				return p.String(), true
			}
		}
		return "not guarded by i < electedPRepCount: " + guardsString(guardsAt(in)), false
	}
	var sumAdd, shareCall ssa.Instruction
	if fn := c.mustFn(pk, "PRepInfo", "UpdateTotalAccumulatedPower"); fn != nil {
		var st *ssa.Store
		for _, fs := range fieldStores([]*ssa.Function{fn}, "PRepInfo", "totalAccumulatedPower") {
			st = fs.Store
		}
		if st == nil {
			c.violate("C35.same-set", "the whole is stored", fn.Pos(), "no store to totalAccumulatedPower")
		} else {
			al, adds, why := bigAccumulator(fn, st.Val)
			if c.check(al != nil && len(adds) == 1, "C35.same-set", "the whole is the sum of the accumulated powers", st.Pos(), "fresh accumulator", "totalAccumulatedPower is not a private sum: "+why) {
				sumAdd = adds[0]
				_, a := callArgs(adds[0].Common())
				c.check(strings.HasSuffix(render(a[1]), ".AccumulatedPower()") || strings.HasSuffix(render(a[1]), ".accumulatedPower"), "C35.same-set", "each summand is a P-Rep's accumulated power", adds[0].Pos(), render(a[1]), "sums "+render(a[1]))
				why, ok := loopGuard(fn, adds[0])
				c.check(ok, "C35.same-set", "the whole is summed over the elected prefix of the ranking", adds[0].Pos(), why, "the sum loop: "+why)
			}
		}
	}
	if fn := c.mustFn(pk, "PRepInfo", "CalculateReward"); fn != nil {
		calls := c.calls(fn, byCallee("PRep).CalculateReward"))
		if len(calls) != 1 {
			c.violate("C35.same-set", "shares are handed out in one loop", fn.Pos(), fmt.Sprintf("%d share calls", len(calls)))
		} else {
			shareCall = calls[0].Instr
			why, ok := loopGuard(fn, shareCall)
			c.check(ok, "C35.same-set", "shares are handed out over the same elected prefix of the ranking that was summed", calls[0].Pos(), why, "the share loop: "+why+" — a P-Rep outside the summed set would receive a part of a whole it was not counted in")
			_, a := callArgs(calls[0].Common())
			c.check(render(a[1]) == "$r.totalAccumulatedPower", "C35.same-set", "the whole passed to each share is the stored sum", calls[0].Pos(), "p.totalAccumulatedPower", "whole is "+render(a[1]))
			c.check(strings.HasPrefix(render(a[0]), "calculator.fundToPeriodIScore($0,"), "C35.same-set", "the budget shared is the P-Rep fund of the term", calls[0].Pos(), render(a[0]), "budget is "+render(a[0]))
			// wage per P-Rep
			okW := false
			if x, y, ok := bigBin(a[3], "Div"); ok {
				okW = strings.HasPrefix(render(x), "calculator.fundToPeriodIScore($1,") && strings.Contains(render(y), "$r.electedPRepCount")
			}
			c.check(okW, "C35.same-set", "the wage fund is split over the elected P-Reps (floor)", calls[0].Pos(), "Div(wageFund, electedPRepCount)", "per-P-Rep wage is "+render(a[3]))
			// receiver is the ranked element of this iteration
			r, _ := callArgs(calls[0].Common())
			ld, _ := loadOf(r).(*ssa.IndexAddr)
			c.check(ld != nil && render(ld.X) == "$r.rank", "C35.same-set", "the share goes to the P-Rep of this iteration", calls[0].Pos(), "rank[i]", "receiver "+render(r))
		}
	}
	_ = sumAdd

	// ------------------------------------------------------------ same-weight
	if fn := c.mustFn(pk, "Voter", "applyVoting"); fn != nil {
		n := 0
		for _, b := range fn.Blocks {
			for _, in := range b.Instrs {
				mu, ok := in.(*ssa.MapUpdate)
				if !ok {
					continue
				}
				n++
				okK := strings.Contains(render(mu.Key), "ToKey($0.To())")
				v := mu.Value
				if x, y, ok := bigBin(v, "Add"); ok {
					// old + amount
					v = y
					if _, isMul := y.(*ssa.Call); !isMul {
						v = x
					}
				}
				a, b2, okM := bigBin(v, "Mul")
				okV := okM && ((render(a) == "$0.Amount()" && render(b2) == "$1") || (render(b2) == "$0.Amount()" && render(a) == "$1"))
				c.check(okK && okV, "C35.same-weight", "the voter accumulates amount × period under the voted P-Rep's key", mu.Pos(), "accumulatedVotes[key(To)] (+)= Amount × period", "voter side accumulates "+render(mu.Value)+" under "+render(mu.Key))
			}
		}
		c.check(n == 2, "C35.same-weight", "voter accumulation sites", fn.Pos(), "2", fmt.Sprint(n))
	}
	if fn := c.mustFn(pk, "PRep", "ApplyVote"); fn != nil {
		ok := false
		for _, fs := range fieldStores([]*ssa.Function{fn}, "PRep", "accumulatedVoted") {
			x, y, okA := bigBin(fs.Store.Val, "Add")
			if !okA {
				continue
			}
			a, b, okM := bigBin(y, "Mul")
			ok = render(x) == "$r.accumulatedVoted" && okM && render(a) == "$1" && strings.Contains(render(b), "$2")
		}
		c.check(ok, "C35.same-weight", "the P-Rep accumulates the same amount × period", fn.Pos(), "accumulatedVoted += amount × period", "P-Rep side accumulation differs")
	}
	// both sides accumulate every vote — whatever its type or sign
	if fn := c.mustFn(pk, "Voter", "applyVoting"); fn != nil {
		tr, skip := pathAvoiding(fn, fn.Blocks[0].Instrs[0], isReturn, func(in ssa.Instruction) bool { _, ok := in.(*ssa.MapUpdate); return ok })
		c.check(!skip, "C35.same-weight", "the voter accumulates every vote it is handed (either sign)", fn.Pos(), "no path round the accumulation", "a vote can be dropped on the voter side ("+traceString(tr)+") while the P-Rep side counts it: the voter's part and the P-Rep's whole are sums over different sets")
	}
	if fn := c.mustFn(pk, "PRep", "ApplyVote"); fn != nil {
		isAcc := func(in ssa.Instruction) bool {
			st, ok := in.(*ssa.Store)
			if !ok {
				return false
			}
			fa, ok := st.Addr.(*ssa.FieldAddr)
			return ok && fieldName(fa.X.Type(), fa.Field) == "accumulatedVoted"
		}
		tr, skip := pathAvoiding(fn, fn.Blocks[0].Instrs[0], isReturn, isAcc)
		c.check(!skip, "C35.same-weight", "the P-Rep accumulates every vote it is handed (delegation and bond, either sign)", fn.Pos(), "no path round the accumulation", "a vote can change bonded/delegated without entering accumulatedVoted ("+traceString(tr)+"): the voters' parts then sum to more than the whole they are divided by")
	}
	// the total power is summed after the last change to the per-P-Rep powers
	nTot := 0
	for _, fn := range c.pkgFuncs(pk) {
		for _, up := range c.calls(fn, byMethod("UpdateTotalAccumulatedPower")) {
			nTot++
			late := ""
			for _, cs := range c.calls(fn, func(cc *ssa.CallCommon) bool {
				n := calleeName(cc)
				return strings.HasSuffix(n, "PRepInfo).ApplyVote") || strings.HasSuffix(n, "PRepInfo).SetStatus") || strings.HasSuffix(n, "PRepInfo).InitAccumulated")
			}) {
				if _, after := pathAvoiding(fn, up.Instr, func(in ssa.Instruction) bool { return in == ssa.Instruction(cs.Instr) }, nil); after {
					late = c.pos(cs.Pos())
				}
			}
			c.check(late == "", "C35.prep-share", fnName(fn)+": the total accumulated power is summed after the last change to a P-Rep's power", up.Pos(), "events first, total afterwards", "a P-Rep's accumulated power still changes at "+late+" after the total was summed: the parts add up to more than the whole the budget is divided by")
		}
	}
	if nTot == 0 {
		c.undecided("C35.prep-share", "UpdateTotalAccumulatedPower call", token.NoPos, "not found")
	}
	if fn := c.mustFn(pk, "PRep", "InitAccumulated"); fn != nil {
		ok := false
		for _, fs := range fieldStores([]*ssa.Function{fn}, "PRep", "accumulatedVoted") {
			a, b, okM := bigBin(fs.Store.Val, "Mul")
			ok = okM && strings.HasSuffix(render(a), "$r.GetVotedValue()") && strings.Contains(render(b), "$0")
		}
		c.check(ok, "C35.same-weight", "initial votes weigh the whole term on the P-Rep side", fn.Pos(), "voted × termPeriod", "InitAccumulated differs")
	}
	if fn := c.mustFn(pk, "PRepInfo", "ApplyVote"); fn != nil {
		for _, cs := range c.calls(fn, byCallee("PRep).ApplyVote")) {
			_, a := callArgs(cs.Common())
			l := linOf(a[2])
			c.check(len(l.T) == 2 && l.T["$r.offsetLimit"] == 1 && l.T["$2"] == -1 && l.K == 0, "C35.same-weight", "an event weighs offsetLimit − offset on the P-Rep side", cs.Pos(), l.String(), "P-Rep side event weight is "+l.String())
		}
	}
	if fn := c.mustFn(pk, "PRepInfo", "InitAccumulated"); fn != nil {
		for _, cs := range c.calls(fn, byCallee("PRep).InitAccumulated")) {
			_, a := callArgs(cs.Common())
			c.check(render(a[0]) == "$r.GetTermPeriod()", "C35.same-weight", "initial state weighs the term period on the P-Rep side", cs.Pos(), render(a[0]), "weight "+render(a[0]))
		}
	}
	if fn := c.mustFn(pk, "iiss4Reward", "processVoterReward"); fn != nil {
		nE, nV := 0, 0
		for _, cs := range c.callsWithHelpers(fn, byCallee("Voter).ApplyEvent")) {
			nE++
			_, a := callArgs(cs.Common())
			l := linOf(a[1])
			okW := len(l.T) == 2 && l.K == 0
			for atom, co := range l.T {
				if !((co == 1 && atom == "$r.pi.OffsetLimit()") || (co == -1 && strings.HasSuffix(atom, ".Offset()"))) {
					okW = false
				}
			}
			c.check(okW, "C35.same-weight", "an event weighs offsetLimit − offset on the voter side", cs.Pos(), l.String(), "voter side weighs an event by "+l.String()+" while the P-Rep side uses offsetLimit − offset: the voters' parts no longer add up to the P-Rep's whole")
			// the offset is the one of the event applied
			okO := false
			if bo, ok := a[1].(*ssa.BinOp); ok && bo.Op == token.SUB {
				if oc, ok := bo.Y.(*ssa.Call); ok && strings.HasSuffix(calleeName(oc.Common()), "VoteEvent).Offset") {
					okO = oc.Call.Args[0] == a[0]
				}
			}
			c.check(okO, "C35.same-weight", "the offset is the applied event's own", cs.Pos(), "event.Offset()", "offset of another event")
		}
		for _, cs := range c.callsWithHelpers(fn, byCallee("Voter).ApplyVoting")) {
			nV++
			_, a := callArgs(cs.Common())
			c.check(render(a[1]) == "$r.pi.GetTermPeriod()", "C35.same-weight", "initial votes weigh the term period on the voter side", cs.Pos(), render(a[1]), "voter side initial weight is "+render(a[1]))
		}
		c.check(nE == 3 && nV == 3, "C35.same-weight", "voter accumulation call sites", fn.Pos(), "3 event / 3 initial", fmt.Sprintf("%d / %d", nE, nV))

		// -------------------------------------------------------- once-per-voter
		pays := c.calls(fn, byCallee("Voter).CalculateReward"))
		c.check(len(pays) == 3, "C35.once-per-voter", "three payout loops", fn.Pos(), "delegating / bonding-only / events-only", fmt.Sprintf("%d payout sites", len(pays)))
		nSkipD, nSkipC := 0, 0
		for _, p := range pays {
			gs := guardsAt(p.Instr)
			// which loop?
			_, ownsDelegation := holds(gs, wFalse("delegation non-empty", `icreward\.ToDelegating\(.*\)\.IsEmpty\(\)$`))
			_, bondLoop := holds(gs, wFalse("bonding non-empty", `icreward\.ToBonding\(.*\)\.IsEmpty\(\)$`))
			_, notCalc := holds(gs, wFalse("not yet calculated", `^\$r\.ve\.IsCalculated\(`))
			switch {
			case ownsDelegation:
			case bondLoop:
				// must be under: GetDelegating(addr) is nil or empty
				okSkip := false
				for _, alt := range altGuards(p.Instr.Block()) {
					_, isNil := holds(alt, wSame("no delegation record", `GetDelegating\(.*\)#0$`, `^nil$`))
					_, isEmpty := holds(alt, wTrue("empty delegation", `GetDelegating\(.*\)#0\.IsEmpty\(\)$`))
					okSkip = isNil || isEmpty
					if !okSkip {
						break
					}
				}
				if okSkip {
					nSkipD++
				}
				c.check(okSkip, "C35.once-per-voter", "the bonding loop pays only accounts without a delegation", p.Pos(), "d == nil || d.IsEmpty()", "an account with both a delegation and a bond is paid in the delegation loop and again in the bonding loop")
			case notCalc:
				nSkipC++
			default:
				c.violate("C35.once-per-voter", "payout site belongs to a known loop", p.Pos(), "unrecognised payout: "+guardsString(gs))
			}
			// the reward computed is the one credited, to the same voter
			okU := false
			for _, u := range c.calls(fn, byMethod("UpdateIScore")) {
				_, ua := callArgs(u.Common())
				if ua[1] == p.Instr.Value() && dominatesInstr(p.Instr, u.Instr) {
					r, _ := callArgs(p.Common())
					okU = strings.Contains(render(ua[0]), ".Owner()") && ua[0].(*ssa.Call).Call.Args[0] == r
				}
			}
			c.check(okU, "C35.once-per-voter", "the reward computed is credited to the voter it was computed for", p.Pos(), "UpdateIScore(voter.Owner(), iscore)", "computed reward is not the one credited")
		}
		// the skip test consults the snapshot the delegation loop iterated
		{
			var src ssa.Value
			for _, f := range c.calls(fn, byMethod("Filter")) {
				_, fa := callArgs(f.Common())
				if strings.Contains(render(fa[0]), "DelegatingKey") {
					src, _ = callArgs(f.Common())
				}
			}
			gd := c.calls(fn, byMethod("GetDelegating"))
			okSrc := src != nil && len(gd) == 1
			if okSrc {
				r, _ := callArgs(gd[0].Common())
				okSrc = r == src || render(r) == render(src)
			}
			why := "delegation loop source not found"
			if src != nil && len(gd) == 1 {
				r, _ := callArgs(gd[0].Common())
				why = "the delegation loop iterates " + render(src) + " but the bonding loop asks " + render(r) + " whether the account has a delegation: an account whose delegation changed inside the term is paid in both loops"
			}
			c.check(okSrc, "C35.once-per-voter", "`already paid in the delegation loop` is decided on the snapshot that loop iterated", fn.Pos(), "same reader for Filter(DelegatingKey) and GetDelegating", why)
			// likewise the bonding a delegator's reward includes comes from the snapshot the bonding loop iterates
			var bsrc ssa.Value
			for _, f := range c.calls(fn, byMethod("Filter")) {
				_, fa := callArgs(f.Common())
				if strings.Contains(render(fa[0]), "BondingKey") {
					bsrc, _ = callArgs(f.Common())
				}
			}
			gb := c.calls(fn, byMethod("GetBonding"))
			okB := bsrc != nil && len(gb) == 1
			if okB {
				r, _ := callArgs(gb[0].Common())
				okB = r == bsrc || render(r) == render(bsrc)
			}
			c.check(okB, "C35.once-per-voter", "the bond added in the delegation loop is read from the snapshot the bonding loop iterates", fn.Pos(), "same reader for Filter(BondingKey) and GetBonding", "the two loops partition the accounts on different snapshots")
		}
		c.check(nSkipC == 1, "C35.once-per-voter", "the event loop pays only accounts not yet calculated", fn.Pos(), "!IsCalculated(key)", "accounts with events are paid again in the event loop")
		// loops 1 and 2 mark accounts that have events
		marks := c.calls(fn, byCallee("VoteEvents).SetCalculated"))
		c.check(len(marks) == 3, "C35.once-per-voter", "every loop marks the accounts whose events it consumed", fn.Pos(), "3 SetCalculated", fmt.Sprintf("%d marks", len(marks)))
		for _, ev := range c.calls(fn, byCallee("Voter).ApplyEvent")) {
			h := loopHeaderOf(ev.Instr.Block())
			ok := false
			for _, m := range marks {
				// after the inner event loop, on every path to the payout of the same iteration
				for _, p := range pays {
					if h != nil && blockReaches(ev.Instr.Block(), m.Instr.Block(), nil) && dominatesInstr(m.Instr, p.Instr) || (blockReaches(ev.Instr.Block(), m.Instr.Block(), nil) && blockReaches(m.Instr.Block(), p.Instr.Block(), nil)) {
						ok = true
					}
				}
			}
			c.check(ok, "C35.once-per-voter", "consumed events are marked before the payout", ev.Pos(), "ApplyEvent … SetCalculated … CalculateReward", "events are applied without marking the account")
		}
	}
	_ = shareCall
	_ = token.NoPos
}
