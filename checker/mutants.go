package main

import (
	"encoding/json"
	"fmt"
	"os"
	"os/exec"
	"path/filepath"
	"strings"
	"sync"
)

// Mutant is a semantic mutation of /repo's *current* source used to self-test
// a property's rules: the mutated file is handed to the loader as an overlay
// (nothing is written into /repo) and the rules must report a violation.
// Old/New are source fragments; a mutant whose Old fragment is no longer
// present is skipped and listed (it is a self-test aid, never a verdict).
type Mutant struct {
	Name string
	File string // repo-relative
	Old  string
	New  string
	Desc string
	// Equivalent marks a behaviour-preserving edit (control): the rules must
	// stay silent on it; an alarm is reported as a self-test failure.
	Equivalent bool
}

type mutantResult struct {
	Name    string `json:"name"`
	Desc    string `json:"desc"`
	Outcome string `json:"outcome"` // killed | killed-undecided | missed | skipped | invalid
}

type mutantReport struct {
	Results                 []mutantResult
	Killed, Skipped, Missed int
}

const (
	mutKilled    = 10
	mutMissed    = 11
	mutInvalid   = 12
	mutUndecided = 13
	mutSkipped   = 14
)

func runMutants(p *Prop) *mutantReport {
	rep := &mutantReport{Results: make([]mutantResult, len(p.Mutants))}
	exe, err := os.Executable()
	if err != nil {
		return rep
	}
	var wg sync.WaitGroup
	sem := make(chan struct{}, 8)
	for i := range p.Mutants {
		wg.Add(1)
		go func(i int) {
			defer wg.Done()
			sem <- struct{}{}
			defer func() { <-sem }()
			m := p.Mutants[i]
			cmd := exec.Command(exe, "-property", p.ID, "-tier", "quick", "-repo", *flagRepo, "-verif", verifRoot(), "-mutant", fmt.Sprint(i))
			out, _ := cmd.CombinedOutput()
			code := cmd.ProcessState.ExitCode()
			r := mutantResult{Name: m.Name, Desc: m.Desc}
			switch code {
			case mutKilled:
				r.Outcome = "killed"
			case mutUndecided:
				r.Outcome = "killed-undecided"
			case mutMissed:
				r.Outcome = "missed"
			case mutSkipped:
				r.Outcome = "skipped"
			default:
				r.Outcome = "invalid"
				if os.Getenv("GSA_DEBUG") != "" {
					fmt.Fprintf(os.Stderr, "mutant %s invalid (exit %d):\n%s\n", m.Name, code, out)
				}
			}
			if m.Equivalent {
				switch r.Outcome {
				case "missed":
					r.Outcome = "silent-on-equivalent"
				case "killed", "killed-undecided":
					r.Outcome = "false-alarm-on-equivalent"
				}
			}
			rep.Results[i] = r
		}(i)
	}
	wg.Wait()
	for _, r := range rep.Results {
		switch r.Outcome {
		case "killed", "killed-undecided", "silent-on-equivalent":
			rep.Killed++
		case "missed", "false-alarm-on-equivalent":
			rep.Missed++
		default:
			rep.Skipped++
		}
	}
	return rep
}

// runMutantChild applies mutant n as an overlay, runs the rules and reports
// through the exit code whether they fired.
func runMutantChild(p *Prop, n int) int {
	if n >= len(p.Mutants) {
		return mutInvalid
	}
	m := p.Mutants[n]
	path := filepath.Join(*flagRepo, m.File)
	bs, err := os.ReadFile(path)
	if err != nil {
		return mutSkipped
	}
	src := string(bs)
	if strings.Count(src, m.Old) < 1 {
		fmt.Printf("mutant %s: target fragment not present, skipped\n", m.Name)
		return mutSkipped
	}
	mutated := strings.Replace(src, m.Old, m.New, 1)
	c := &Ctx{Prop: p, Tier: "quick"}
	L, err := load(*flagRepo, p.Pkgs, map[string][]byte{path: []byte(mutated)})
	if err != nil {
		fmt.Printf("mutant %s: does not load: %v\n", m.Name, err)
		return mutInvalid
	}
	c.L = L
	rc := func() (rc int) {
		defer func() {
			if r := recover(); r != nil {
				fmt.Printf("mutant %s: analysis panic %v\n", m.Name, r)
				rc = mutUndecided
			}
		}()
		p.Run(c)
		return 0
	}()
	if rc != 0 {
		return rc
	}
	kf := loadKnownFindings(verifRoot())
	nv, nu := 0, 0
	for _, o := range c.obs {
		switch o.Status {
		case stViolated:
			if kf.match(p.ID, o) == nil {
				nv++
				fmt.Printf("mutant %s: %s [%s] %s: %s\n", m.Name, o.Pos, o.Rule, o.Construct, o.Detail)
			}
		case stUndecided:
			nu++
			fmt.Printf("mutant %s: UNDECIDED %s [%s] %s: %s\n", m.Name, o.Pos, o.Rule, o.Construct, o.Detail)
		}
	}
	if nv > 0 {
		return mutKilled
	}
	if nu > 0 {
		return mutUndecided
	}
	return mutMissed
}

// loadExtraMutants appends the mutants of /verif/mutants_extra/<id>.json
// (committed; produced by independent reviewers who only saw the property
// text) to the property's built-in list. Same rules apply: every one must be
// reported, control mutants must stay silent.
func loadExtraMutants(p *Prop) {
	bs, err := os.ReadFile(filepath.Join(verifRoot(), "mutants_extra", p.ID+".json"))
	if err != nil {
		return
	}
	var list []struct {
		Name, File, Old, New, Desc string
		Equivalent                 bool
	}
	if json.Unmarshal(bs, &list) != nil {
		fmt.Printf("UNDECIDED property=%s reason=mutants_extra/%s.json does not parse\n", p.ID, p.ID)
		os.Exit(exitUndecided)
	}
	for _, m := range list {
		p.Mutants = append(p.Mutants, Mutant{Name: "x-" + m.Name, File: m.File, Old: m.Old, New: m.New, Desc: m.Desc, Equivalent: m.Equivalent})
	}
}
